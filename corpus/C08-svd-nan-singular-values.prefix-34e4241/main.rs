// Reproducer of the defect repaired by /repo commit 88a7c8e ("fix: a decomposition with singular
// values that are not finite counts as a failed parameter update"), found by the thorough tier of
// the fit stream (C04-fit-1-1863, f32, hand-written model, evaluation 14 of a fit).
//
// All basis function values are finite f32 numbers; the largest is exp(3.77/0.0658) = 7.1e24.
// nalgebra's SVD divides by the largest magnitude; the squares of the remaining entries (~1e-25)
// then vanish, its singular values contain NaN and `svd(true, true)` panics while sorting them
// ("Singular value was NaN", svd.rs:734).  Before the fix `set_params` (and therefore `fit`)
// panicked; with it the state is rejected (no residuals), and a fit passing through it fails.
//
// Cargo.toml: varpro = { path = "/repo" }, nalgebra = "0.33", levenberg-marquardt = "0.14";
// copy /repo/Cargo.lock next to it; `cargo run --offline --release`.
use levenberg_marquardt::LeastSquaresProblem;
use nalgebra::DVector;
use varpro::prelude::*;
use varpro::solvers::levmar::LevMarProblemBuilder;
fn main() {
    let bits = |v: &[u64]| -> Vec<f32> { v.iter().map(|b| f64::from_bits(*b) as f32).collect() };
    let x = DVector::from_vec(bits(&[
        0x3fd0000000000000, 0x3fe1000000000000, 0x3fee000000000000, 0x3ff3c00000000000, 0x3ff8c00000000000, 0x3ffd400000000000,
        0x4001200000000000, 0x4003800000000000, 0x4006800000000000, 0x4009400000000000, 0x400bc00000000000, 0x400e200000000000,
    ]));
    let y = x.map(|v| 1.0f32 + v);
    let e = |x: &DVector<f32>, t: f32| x.map(|x| (-x / t).exp());
    let de = |x: &DVector<f32>, t: f32| x.map(|x| (-x / t).exp() * x / (t * t));
    let model = SeparableModelBuilder::<f32>::new(&["a0", "a1", "a2", "a3", "a4"])
        .function(&["a3"], e)
        .partial_deriv("a3", de)
        .function(&["a3", "a1"], |x: &DVector<f32>, a: f32, b: f32| x.map(|x| (a * x + b).sin()))
        .partial_deriv("a3", |x: &DVector<f32>, a: f32, b: f32| x.map(|x| (a * x + b).cos() * x))
        .partial_deriv("a1", |x: &DVector<f32>, a: f32, b: f32| x.map(|x| (a * x + b).cos()))
        .function(&["a0"], e)
        .partial_deriv("a0", de)
        .function(&["a2"], |x: &DVector<f32>, a: f32| x.map(|x| 1.0 / (1.0 + (a * x) * (a * x))))
        .partial_deriv("a2", |x: &DVector<f32>, a: f32| {
            x.map(|x| {
                let d = 1.0 + (a * x) * (a * x);
                -2.0 * a * x * x / (d * d)
            })
        })
        .function(&["a4"], e)
        .partial_deriv("a4", de)
        .independent_variable(x)
        .initial_parameters(vec![2.2, 0.68, 0.78, 1.25, 1.6])
        .build()
        .unwrap();
    let mut problem = LevMarProblemBuilder::new(model).observations(y).build().unwrap();
    let a = bits(&[0xbfb0d91800000000, 0x405c8b41c0000000, 0x3fe66e4b00000000, 0xc0370c2340000000, 0x4037a20860000000]);
    problem.set_params(&DVector::from_vec(a)); // 34e4241: panics; 88a7c8e: returns
    println!("residuals present: {}", problem.residuals().is_some());
}
