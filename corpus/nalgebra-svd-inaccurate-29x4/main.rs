use nalgebra::DMatrix;
fn main() {
    let t = std::fs::read_to_string("/tmp/A1912.txt").unwrap();
    let toks: Vec<&str> = t.split_whitespace().collect();
    let r: usize = toks[0].parse().unwrap();
    let c: usize = toks[1].parse().unwrap();
    let v: Vec<f64> = toks[2..].iter().map(|h| f64::from_bits(u64::from_str_radix(h, 16).unwrap())).collect();
    let a = DMatrix::from_vec(r, c, v);
    let svd = a.clone().svd(true, true);
    println!("sv {:?}", svd.singular_values.as_slice());
    let rec = svd.u.as_ref().unwrap() * DMatrix::from_diagonal(&svd.singular_values) * svd.v_t.as_ref().unwrap();
    println!("recon err {:e}", (&rec - &a).amax());
    let u = svd.u.as_ref().unwrap();
    println!("UtU-I {:e}", (u.transpose() * u - DMatrix::identity(c, c)).amax());
    let vt = svd.v_t.as_ref().unwrap();
    println!("VVt-I {:e}", (vt * vt.transpose() - DMatrix::identity(c, c)).amax());
}
