//! shared infrastructure: PRNG, scalar abstraction, line protocol output
use nalgebra::{DMatrix, DVector};
use std::fmt::Write as _;

/// `--only <sub-stream>`: emit only that part of a stream (e.g. `state --only faulty`)
pub static ONLY: std::sync::OnceLock<String> = std::sync::OnceLock::new();
/// bumped by every evaluation of a basis function or derivative of the harness models: a computation
/// that keeps calling the model is slow (its budget of evaluations is finite), not hung
pub static HEARTBEAT: std::sync::atomic::AtomicU64 = std::sync::atomic::AtomicU64::new(0);
pub fn only_allows(part: &str) -> bool {
    match ONLY.get() {
        Some(o) => o == part,
        None => true,
    }
}

/// splitmix64: every random choice of a run derives from one state
#[derive(Clone)]
pub struct Rng(pub u64);
impl Rng {
    pub fn new(seed: u64) -> Self {
        // the seed goes through the splitmix64 finaliser: consecutive seeds must not give shifted
        // copies of one stream (state(seed+1) = state(seed) + increment would do exactly that)
        let mut z = seed.wrapping_add(0x1234_5678_9ABC_DEF1);
        z = (z ^ (z >> 30)).wrapping_mul(0xBF58476D1CE4E5B9);
        z = (z ^ (z >> 27)).wrapping_mul(0x94D049BB133111EB);
        Rng(z ^ (z >> 31))
    }
    pub fn next(&mut self) -> u64 {
        self.0 = self.0.wrapping_add(0x9E3779B97F4A7C15);
        let mut z = self.0;
        z = (z ^ (z >> 30)).wrapping_mul(0xBF58476D1CE4E5B9);
        z = (z ^ (z >> 27)).wrapping_mul(0x94D049BB133111EB);
        z ^ (z >> 31)
    }
    /// uniform in [0, n)
    pub fn below(&mut self, n: usize) -> usize {
        if n == 0 {
            0
        } else {
            (self.next() % (n as u64)) as usize
        }
    }
    /// uniform in [lo, hi] inclusive
    pub fn range(&mut self, lo: usize, hi: usize) -> usize {
        lo + self.below(hi - lo + 1)
    }
    pub fn unit(&mut self) -> f64 {
        (self.next() >> 11) as f64 / (1u64 << 53) as f64
    }
    pub fn uniform(&mut self, lo: f64, hi: f64) -> f64 {
        lo + (hi - lo) * self.unit()
    }
    pub fn chance(&mut self, p: f64) -> bool {
        self.unit() < p
    }
    pub fn pick<'a, T>(&mut self, xs: &'a [T]) -> &'a T {
        &xs[self.below(xs.len())]
    }
    /// standard normal (Box–Muller)
    pub fn normal(&mut self) -> f64 {
        let u1 = self.unit().max(1e-300);
        let u2 = self.unit();
        (-2.0 * u1.ln()).sqrt() * (2.0 * std::f64::consts::PI * u2).cos()
    }
    pub fn fork(&mut self) -> Rng {
        Rng(self.next())
    }
    pub fn shuffle<T>(&mut self, xs: &mut [T]) {
        for i in (1..xs.len()).rev() {
            let j = self.below(i + 1);
            xs.swap(i, j);
        }
    }
}

/// the two scalar widths of the implementation; everything is printed as the exact f64 image
pub trait Sc:
    nalgebra::RealField
    + num_traits::Float
    + num_traits::FromPrimitive
    + Copy
    + varpro::statistics::numeric_traits::CastF64
    + std::fmt::Debug
    + Send
    + Sync
    + 'static
{
    const WIDTH: u32;
    fn of(v: f64) -> Self;
    fn f(self) -> f64;
    fn parse(s: &str) -> Self;
}
impl Sc for f64 {
    const WIDTH: u32 = 64;
    fn of(v: f64) -> Self {
        v
    }
    fn f(self) -> f64 {
        self
    }
    fn parse(s: &str) -> Self {
        s.parse::<f64>().expect("float")
    }
}
impl Sc for f32 {
    const WIDTH: u32 = 32;
    fn of(v: f64) -> Self {
        v as f32
    }
    fn f(self) -> f64 {
        self as f64
    }
    fn parse(s: &str) -> Self {
        s.parse::<f32>().expect("float")
    }
}

pub fn hex(v: f64) -> String {
    format!("{:016x}", v.to_bits())
}

pub fn hexs<T: Sc>(out: &mut String, it: impl Iterator<Item = T>) {
    for v in it {
        let _ = write!(out, " {:016x}", v.f().to_bits());
    }
}

/// `<rows> <cols> <column-major words>`
pub fn mat_str<T: Sc>(m: &DMatrix<T>) -> String {
    let mut s = format!("{} {}", m.nrows(), m.ncols());
    hexs(&mut s, m.iter().copied());
    s
}
/// `<len> <words>`
pub fn vec_str<T: Sc>(v: &DVector<T>) -> String {
    let mut s = format!("{}", v.len());
    hexs(&mut s, v.iter().copied());
    s
}
pub fn slice_str<T: Sc>(v: &[T]) -> String {
    let mut s = format!("{}", v.len());
    hexs(&mut s, v.iter().copied());
    s
}

/// output sink for case files
pub struct Out {
    pub buf: String,
    pub cases: usize,
}
impl Out {
    pub fn new() -> Self {
        Out {
            buf: String::new(),
            cases: 0,
        }
    }
    pub fn line(&mut self, s: &str) {
        self.buf.push_str(s);
        self.buf.push('\n');
    }
    pub fn begin(&mut self, kind: &str, attrs: &str) -> usize {
        let id = self.cases;
        self.cases += 1;
        self.buf
            .push_str(&format!("case {} {} {}\n", id, kind, attrs));
        id
    }
    pub fn end(&mut self) {
        self.buf.push_str("end\n");
    }
}

/// run `f` under catch_unwind, returning Err(message) on panic
pub fn guarded<R>(f: impl FnOnce() -> R) -> Result<R, String> {
    let r = std::panic::catch_unwind(std::panic::AssertUnwindSafe(f));
    match r {
        Ok(v) => Ok(v),
        Err(e) => {
            let msg = if let Some(s) = e.downcast_ref::<&str>() {
                s.to_string()
            } else if let Some(s) = e.downcast_ref::<String>() {
                s.clone()
            } else {
                "panic".to_string()
            };
            Err(msg.replace('\n', " ").replace(' ', "_"))
        }
    }
}

/// run `f` inside a rayon pool of another size than the global one (`which` selects 1, 2, 3 or 5
/// worker threads); without the parallel feature `f` simply runs. Used for REPEATED queries: what a
/// problem reports at fixed parameters must not depend on the pool a query happens to run in.
#[cfg(feature = "parallel")]
pub fn in_alt_pool<R>(which: usize, f: impl FnOnce() -> R) -> R {
    use std::sync::OnceLock;
    static POOLS: OnceLock<Vec<rayon::ThreadPool>> = OnceLock::new();
    let pools = POOLS.get_or_init(|| {
        [1usize, 2, 3, 5].iter().map(|k| rayon::ThreadPoolBuilder::new().num_threads(*k).build().expect("pool")).collect()
    });
    struct AssertSend<T>(T);
    unsafe impl<T> Send for AssertSend<T> {}
    impl<R, F: FnOnce() -> R> AssertSend<F> {
        fn call(self) -> AssertSend<R> {
            AssertSend((self.0)())
        }
    }
    let w = AssertSend(f);
    // the calling thread blocks until the closure has run: nothing is shared concurrently
    pools[which % pools.len()].install(move || w.call()).0
}
#[cfg(not(feature = "parallel"))]
pub fn in_alt_pool<R>(_which: usize, f: impl FnOnce() -> R) -> R {
    f()
}
