//! C05: convergence on the certified identifiable families (failing-input search; the proved part
//! is in Props/C05.lean).  Parameter ranges were calibrated on the unchanged tree and are frozen.
use crate::common::*;
use crate::fit::*;
use crate::gen::*;
use crate::models::*;
use crate::prob::*;
use crate::state::*;
use nalgebra::{DMatrix, DVector};

pub struct Family {
    pub name: &'static str,
    pub fns: Vec<(Kind, Vec<usize>)>,
    /// (lo, hi) of each nonlinear parameter
    pub ranges: Vec<(f64, f64)>,
    pub xmax: f64,
    pub nmin: usize,
    pub nmax: usize,
}

pub fn families() -> Vec<Family> {
    vec![
        Family { name: "decay", fns: vec![(Kind::Exp, vec![0])], ranges: vec![(1.0, 5.0)], xmax: 10.0, nmin: 12, nmax: 60 },
        Family { name: "decay+offset", fns: vec![(Kind::Exp, vec![0]), (Kind::One, vec![])], ranges: vec![(1.0, 4.0)], xmax: 12.0, nmin: 15, nmax: 60 },
        Family { name: "2decays", fns: vec![(Kind::Exp, vec![0]), (Kind::Exp, vec![1])], ranges: vec![(0.8, 1.6), (5.0, 9.0)], xmax: 20.0, nmin: 30, nmax: 90 },
        Family { name: "2decays+offset", fns: vec![(Kind::Exp, vec![0]), (Kind::Exp, vec![1]), (Kind::One, vec![])], ranges: vec![(0.8, 1.5), (5.0, 8.0)], xmax: 40.0, nmin: 40, nmax: 100 },
        Family { name: "3decays", fns: vec![(Kind::Exp, vec![0]), (Kind::Exp, vec![1]), (Kind::Exp, vec![2])], ranges: vec![(0.5, 0.9), (3.0, 4.5), (15.0, 22.0)], xmax: 60.0, nmin: 80, nmax: 160 },
        Family { name: "gauss+decay+offset", fns: vec![(Kind::Gauss, vec![0, 1]), (Kind::Exp, vec![2]), (Kind::One, vec![])], ranges: vec![(3.0, 6.0), (0.7, 1.4), (2.0, 5.0)], xmax: 10.0, nmin: 40, nmax: 100 },
        // the same families sampled far into the tails: basis values underflow gradually (subnormal) and to zero
        Family { name: "decay-longtail+offset", fns: vec![(Kind::Exp, vec![0]), (Kind::One, vec![])], ranges: vec![(0.0131, 0.0142)], xmax: 10.0, nmin: 200, nmax: 400 },
        Family { name: "narrowgauss+decay+offset", fns: vec![(Kind::Gauss, vec![0, 1]), (Kind::Exp, vec![2]), (Kind::One, vec![])], ranges: vec![(3.0, 6.0), (0.12, 0.2), (2.0, 5.0)], xmax: 10.0, nmin: 150, nmax: 300 },
        Family { name: "decay-tail32+offset", fns: vec![(Kind::Exp, vec![0]), (Kind::One, vec![])], ranges: vec![(0.096, 0.11)], xmax: 10.0, nmin: 120, nmax: 300 },
    ]
}

pub fn conv_case<T: Sc>(rng: &mut Rng, idx: usize) -> (FitCase<T>, Vec<T>, DMatrix<T>, f64, &'static str) {
    let fams = families();
    let mut big = Family { name: "3decays+offset-huge", fns: fams[4].fns.clone(), ranges: fams[4].ranges.clone(), xmax: fams[4].xmax, nmin: 0, nmax: 0 };
    big.fns.push((Kind::One, vec![]));
    let fam = if idx % 240 == 112 { &big } else { &fams[idx % fams.len()] };
    let p = fam.ranges.len();
    let n = if idx % 240 == 112 { 1 } else { rng.range(fam.nmin, fam.nmax) };
    // one case per 240: a million samples (single precision, see `stream`): anything that
    // scales a tolerance or threshold with the NUMBER of samples shows here
    let huge = idx % 240 == 112;
    let n = if huge { 1usize << 20 } else { n };
    let recipe = Recipe {
        names: NAMES[..p].iter().map(|s| s.to_string()).collect(),
        fns: fam.fns.iter().map(|(k, ps)| FnSpec { kind: *k, params: ps.clone() }).collect(),
        x: (0..n).map(|i| fam.xmax * (i as f64) / (n - 1) as f64).collect(),
    };
    let truth: Vec<f64> = fam.ranges.iter().map(|(lo, hi)| rng.uniform(*lo, *hi)).collect();
    let tr: Vec<T> = truth.iter().map(|v| T::of(*v)).collect();
    let phi = recipe.phi::<T>(&tr);
    let m = recipe.m();
    // one case in twelve has MANY right-hand sides (sizes next to plausible block widths)
    // the FEATURES of a case (number of right-hand sides, constructor, weights) are cycled by the case
    // index, not drawn: every combination - in particular weighted problems under the parallel
    // constructors - occurs in every run; only the values are random
    let s = if idx % 24 == 13 {
        n // a SQUARE observation matrix: as many right-hand sides as samples
    } else if idx % 12 == 7 {
        *rng.pick(&[31usize, 33, 40, 65, 70])
    } else if idx % 2 == 1 {
        rng.range(2, 4)
    } else {
        1
    };
    let tail = fam.name.contains("tail");
    let noise_rel = if rng.chance(0.5) { 0.0 } else if tail { *rng.pick(&[1e-4, 1e-3]) } else { *rng.pick(&[1e-4, 1e-3, 1e-2]) };
    let mut y = DMatrix::from_element(n, s, T::of(0.0));
    let mut ctrue = DMatrix::from_element(m, s, T::of(0.0));
    for c in 0..s {
        let coef = DVector::from_iterator(m, (0..m).map(|_| T::of(rng.uniform(1.0, 5.0))));
        let col = &phi * &coef;
        let amp = col.iter().fold(0.0f64, |a, v| a.max(v.f().abs()));
        for i in 0..n {
            y[(i, c)] = col[i] + T::of(noise_rel * amp * rng.uniform(-1.0, 1.0));
        }
        ctrue.set_column(c, &coef);
    }
    // (a constant weight vector - the same sigma for every sample - is a weighted problem too)
    let wkind = match (idx / 2) % 6 { 1 | 4 => WKind::Positive, 3 => WKind::Constant, _ => WKind::None };
    let w = random_weights(rng, wkind, n, m).map(|w| w.iter().map(|v| T::of(*v)).collect());
    let init: Vec<T> = truth.iter().map(|v| T::of(v * (1.0 + rng.uniform(-0.03, 0.03)))).collect();
    let flavour = if s > 1 {
        if (idx / 4) % 2 == 1 { Flavour::MrhsPar } else { Flavour::Mrhs }
    } else {
        match idx % 16 {
            0 | 10 => Flavour::NewPar,
            4 => Flavour::Mrhs,
            8 => Flavour::MrhsPar,
            _ => Flavour::New,
        }
    };
    let base = StateCase {
        recipe,
        built: { let b = rng.chance(0.5); b && idx % 5 != 3 },
        flavour,
        y,
        w,
        wkind: wkind.name(),
        // one fit in six is built with a user threshold far below every singular value of these
        // well-conditioned families: it must not change anything
        eps: if idx % 6 == 2 { Some(T::of(if T::WIDTH == 32 { 1e-5 } else { *rng.pick(&[1e-6, 1e-5, 1e-8]) })) } else { None },
        init,
        history: vec![],
        origin: "conv",
    };
    let threads = if flavour.is_par() { 2 } else { 0 };
    (FitCase { base, cfg: LmCfg::default_cfg(), threads }, tr, ctrue, noise_rel, fam.name)
}

/// Kaufman Jacobian of the weighted residuals computed by the harness itself (f64, from the recipe's
/// tables at the parameters the fit reports): column k = vec(−(1 − U Uᵀ)·W D_k·C) with C the
/// least-squares coefficients.  Independent of the library's `jacobian()`.
pub fn reference_jacobian<T: Sc>(recipe: &Recipe, alpha: &[T], w: &Option<Vec<T>>, y: &DMatrix<T>) -> Option<DMatrix<f64>> {
    let n = recipe.n();
    let wf: Vec<f64> = match w {
        Some(w) => w.iter().map(|v| v.f()).collect(),
        None => vec![1.0; n],
    };
    let scale = |m: DMatrix<T>| -> DMatrix<f64> { DMatrix::from_fn(m.nrows(), m.ncols(), |i, j| m[(i, j)].f() * wf[i]) };
    let a = scale(recipe.phi::<T>(alpha));
    let yw = DMatrix::from_fn(y.nrows(), y.ncols(), |i, j| y[(i, j)].f() * wf[i]);
    if !a.iter().all(|v| v.is_finite()) {
        return None;
    }
    let svd = a.clone().svd(true, true);
    let c = svd.solve(&yw, 1e-13 * svd.singular_values.max()).ok()?;
    let u = svd.u.as_ref()?;
    let s = y.ncols();
    let p = recipe.p();
    let mut j = DMatrix::from_element(n * s, p, 0.0);
    for k in 0..p {
        let dkc = scale(recipe.dphi::<T>(alpha, k)) * &c;
        let blk = u * (u.transpose() * &dkc) - &dkc;
        for col in 0..s {
            for i in 0..n {
                j[(i + col * n, k)] = blk[(i, col)];
            }
        }
    }
    Some(j)
}

fn ssq<T: Sc>(r: &DVector<T>) -> f64 {
    r.iter().map(|v| v.f() * v.f()).sum()
}

pub fn emit_conv_case<T: Sc>(out: &mut Out, idx: usize, rng: &mut Rng) {
    let (fc, truth, ctrue, noise_rel, fam) = conv_case::<T>(rng, idx);
    let c = &fc.base;
    out.begin("conv", &format!("{} family={} noise={:e}", header_common(c), fam, noise_rel));
    out.line(&format!("truth {}", slice_str(&truth)));
    out.line(&format!("init {}", slice_str(&c.init)));
    let probe = Probe::new();
    let model = make_model::<T>(&c.recipe, &c.init, c.built, &probe);
    let wv = c.w.as_ref().map(|w| DVector::from_vec(w.clone()));
    let prob = match guarded(|| build_problem(c.flavour, model, &c.y, wv.as_ref(), c.eps)) {
        Ok(Ok(p)) => p,
        _ => {
            out.line("result buildfail");
            out.end();
            return;
        }
    };
    // one fit in five (cycled): the problem that is fitted is a CLONE of the built one, the original is
    // kept (fitting one problem with several solver settings is done that way); hand-written models
    // only - the builder-made model is not `Clone` (round 11)
    let prob = if idx % 5 == 3 {
        match prob.try_clone() {
            Some(cl) => {
                out.line("note fitted-a-clone");
                cl
            }
            None => prob,
        }
    } else {
        prob
    };
    // weighted sum of squares at the generating parameters and coefficients
    let phi_t = c.recipe.phi::<T>(&truth);
    let mut ssq_truth = 0.0;
    for col in 0..c.y.ncols() {
        let fit = &phi_t * ctrue.column(col);
        for i in 0..c.y.nrows() {
            let wi = c.w.as_ref().map(|w| w[i].f()).unwrap_or(1.0);
            let d = wi * (c.y[(i, col)].f() - fit[i].f());
            ssq_truth += d * d;
        }
    }
    let lm = fc.cfg.build::<T>();
    let threads = fc.threads;
    let r = with_deadline(20, move || {
        if threads > 0 {
            let pool = rayon::ThreadPoolBuilder::new().num_threads(threads).build().expect("pool");
            pool.install(|| prob.fit(lm))
        } else {
            prob.fit(lm)
        }
    });
    match r {
        None => out.line("result hang"),
        Some(Err(m)) => out.line(&format!("result panic {}", m)),
        Some(Ok(f)) => {
            let res = f.problem.res();
            // the Jacobian of the property is the Kaufman Jacobian at the returned parameters, computed
            // here independently of the library (a defective library Jacobian must not judge itself)
            let jac = reference_jacobian::<T>(&c.recipe, f.nonlinear.as_slice(), &c.w, &c.y);
            let ssq_fit = res.as_ref().map(|r| ssq(r));
            // orthogonality: cos angle between each Jacobian column and the residual
            let mut maxcos = 0.0f64;
            if let (Some(r), Some(j)) = (res.as_ref(), jac.as_ref()) {
                let rn = ssq(r).sqrt();
                for k in 0..j.ncols() {
                    let col = j.column(k);
                    let cn: f64 = col.iter().map(|v| v * v).sum::<f64>().sqrt();
                    let dot: f64 = col.iter().zip(r.iter()).map(|(a, b)| a * b.f()).sum();
                    if cn > 0.0 && rn > 0.0 {
                        maxcos = maxcos.max((dot / (cn * rn)).abs());
                    }
                }
            }
            // reproduction of the observations
            let ymax = c.y.iter().fold(0.0f64, |a, v| a.max(v.f().abs()));
            let repro = f.best_fit.as_ref().map(|b| {
                b.iter().zip(c.y.iter()).fold(0.0f64, |a, (x, y)| a.max((x.f() - y.f()).abs())) / ymax
            });
            // coherence of the returned state: a problem freshly built at the parameters the result
            // REPORTS has residuals; they must be those the result carries (same code, same inputs:
            // equal bit for bit on a correct library) - max |difference| relative to max |y_w| (round 13)
            let coh: Option<f64> = {
                let alpha: Vec<T> = f.nonlinear.iter().copied().collect();
                let probe2 = Probe::new();
                let model2 = make_model::<T>(&c.recipe, &alpha, c.built, &probe2);
                match (guarded(|| build_problem(c.flavour, model2, &c.y, wv.as_ref(), c.eps)), res.as_ref()) {
                    (Ok(Ok(fresh)), Some(r)) => fresh.res().map(|rf| {
                        let ywmax = fresh.yw().iter().fold(0.0f64, |a, v| a.max(v.f().abs())).max(1e-300);
                        r.iter().zip(rf.iter()).fold(0.0f64, |a, (x, y)| a.max((x.f() - y.f()).abs())) / ywmax
                    }),
                    _ => None,
                }
            };
            let perr = f
                .nonlinear
                .iter()
                .zip(truth.iter())
                .fold(0.0f64, |a, (x, t)| a.max(((x.f() - t.f()) / t.f()).abs()));
            out.line(&format!(
                "result {} term={} evals={} ssqfit={} ssqtruth={} maxcos={} repro={} perr={} coh={}",
                if f.ok { "ok" } else { "err" },
                f.termination,
                f.evaluations,
                ssq_fit.map(hex).unwrap_or("none".into()),
                hex(ssq_truth),
                hex(maxcos),
                repro.map(hex).unwrap_or("none".into()),
                hex(perr),
                coh.map(hex).unwrap_or("none".into())
            ));
        }
    }
    out.end();
}

pub fn stream(out: &mut Out, seed: u64, thorough: bool) {
    let mut rng = Rng::new(seed ^ 0xC05);
    let n = if thorough { 10000 } else { 240 };
    for i in 0..n {
        if rng.chance(0.125) || (i % 9 == 8 && i % 2 == 0) || i % 240 == 112 {
            emit_conv_case::<f32>(out, i, &mut rng);
        } else {
            emit_conv_case::<f64>(out, i, &mut rng);
        }
    }
}
