//! exactly representable diagonal problems (part of the G-state stream, origin=diag): the weighted
//! basis matrix is diagonal with power-of-two entries, for which nalgebra's SVD is exact, so every
//! truncation / rank decision can be probed sharply: singular values far above the threshold but
//! tiny relative to the largest one, exactly on the threshold, one ulp above it; many samples.
use crate::common::*;
use crate::models::*;
use crate::prob::*;
use crate::state::*;
use nalgebra::{DMatrix, DVector, Dyn, OMatrix, OVector};
use varpro::prelude::*;

/// model given by explicit tables: α (exact match) -> (Φ, D_k)
pub struct TableModel<T: Sc> {
    pub n: usize,
    pub m: usize,
    pub p: usize,
    pub params: DVector<T>,
    pub entries: Vec<(Vec<T>, DMatrix<T>, Vec<DMatrix<T>>)>,
}
impl<T: Sc> TableModel<T> {
    fn find(&self) -> Option<&(Vec<T>, DMatrix<T>, Vec<DMatrix<T>>)> {
        self.entries
            .iter()
            .find(|e| e.0.iter().zip(self.params.iter()).all(|(a, b)| a.f().to_bits() == b.f().to_bits()))
    }
}
impl<T: Sc> SeparableNonlinearModel for TableModel<T> {
    type ScalarType = T;
    type Error = HErr;
    fn parameter_count(&self) -> usize {
        self.p
    }
    fn base_function_count(&self) -> usize {
        self.m
    }
    fn output_len(&self) -> usize {
        self.n
    }
    fn set_params(&mut self, parameters: OVector<T, Dyn>) -> Result<(), HErr> {
        if parameters.len() != self.p {
            return Err(HErr("count".into()));
        }
        self.params = parameters;
        Ok(())
    }
    fn params(&self) -> OVector<T, Dyn> {
        self.params.clone()
    }
    fn eval(&self) -> Result<OMatrix<T, Dyn, Dyn>, HErr> {
        self.find().map(|e| e.1.clone()).ok_or(HErr("no table".into()))
    }
    fn eval_partial_deriv(&self, k: usize) -> Result<OMatrix<T, Dyn, Dyn>, HErr> {
        if k >= self.p {
            return Err(HErr("index".into()));
        }
        self.find().map(|e| e.2[k].clone()).ok_or(HErr("no table".into()))
    }
}

fn pow2(e: i32) -> f64 {
    2f64.powi(e)
}

pub fn emit_diag_case<T: Sc>(out: &mut Out, rng: &mut Rng, idx: usize) {
    let n = *rng.pick(&[6usize, 9, 64, 300, 1000, 2500]);
    let m = rng.range(2, 3);
    let p = rng.range(1, 2);
    let mach = <T as num_traits::Float>::epsilon().f();
    let flavour = *rng.pick(&[Flavour::New, Flavour::Mrhs, Flavour::MrhsPar, Flavour::NewPar]);
    let s = if flavour.is_mrhs() { rng.range(1, 2) } else { 1 };
    // threshold: default (machine epsilon) or a user value (a power of two)
    let user_eps: Option<f64> = match idx % 4 {
        0 => Some(pow2(-20)),
        1 => Some(-pow2(-30)),
        _ => None,
    };
    let thr = user_eps.map(|e| e.abs()).unwrap_or(mach);
    // the smallest singular value relative to the threshold / to the largest one
    let smax = pow2(rng.range(0, 2) as i32);
    let steps = rng.range(2, 4);
    let mut entries: Vec<(Vec<T>, DMatrix<T>, Vec<DMatrix<T>>)> = Vec::new();
    let mut alphas: Vec<Vec<T>> = Vec::new();
    for st in 0..steps {
        let alpha: Vec<T> = (0..p).map(|k| T::of((st * 4 + k + 1) as f64 * 0.25)).collect();
        let small = match (idx / 4 + st) % 6 {
            0 => thr,                                     // exactly on the threshold: counts as zero
            1 => T::of(thr).f() * (1.0 + 2.0 * mach),      // just above: kept
            2 => thr * 0.5,                               // below: zero
            3 => smax * mach * 8.0,                       // far above an absolute threshold of eps, tiny relative to smax·N·eps
            4 => smax * pow2(-10),
            _ => smax * 0.5,
        };
        let mut sig = vec![smax; m];
        sig[m - 1] = small;
        if m == 3 {
            sig[1] = smax * 0.25;
        }
        let phi = DMatrix::from_fn(n, m, |i, j| if i == j { T::of(sig[j]) } else { T::of(0.0) });
        let ds: Vec<DMatrix<T>> = (0..p)
            .map(|_| DMatrix::from_fn(n, m, |i, _| if i < 12 || i % 97 == 0 { T::of((rng.range(0, 16) as f64 - 8.0) / 4.0) } else { T::of(0.0) }))
            .collect();
        entries.push((alpha.clone(), phi, ds));
        alphas.push(alpha);
    }
    let y = DMatrix::from_fn(n, s, |i, _| if i < 16 || i % 101 == 0 { T::of((rng.range(0, 32) as f64 - 16.0) / 4.0) } else { T::of(0.0) });
    let w: Option<Vec<T>> = if idx % 3 == 0 { Some((0..n).map(|i| T::of(pow2((i % 3) as i32 - 1))).collect()) } else { None };
    let eps = user_eps.map(T::of);
    out.begin(
        "state",
        &format!(
            "width={} flavour={} model=table n={} m={} p={} s={} wkind={} origin=diag",
            T::WIDTH, flavour.name(), n, m, p, s, if w.is_some() { "pow2" } else { "none" }
        ),
    );
    match eps {
        Some(e) => out.line(&format!("eps {}", hex(e.f()))),
        None => out.line("eps default"),
    }
    match &w {
        Some(w) => out.line(&format!("w {}", slice_str(w))),
        None => out.line("w none"),
    }
    out.line(&format!("Y {}", mat_str(&y)));
    let model = TableModel { n, m, p, params: DVector::from_vec(alphas[0].clone()), entries: entries.clone() };
    let wm = Wrap { inner: AnyModel::Dyn(Box::new(model)), probe: Probe::new() };
    let wv = w.as_ref().map(|w| DVector::from_vec(w.clone()));
    let mut prob = match guarded(|| build_problem(flavour, wm, &y, wv.as_ref(), eps)) {
        Ok(Ok(p)) => p,
        Ok(Err(e)) => {
            out.line(&format!("built err {}", e));
            out.end();
            return;
        }
        Err(m) => {
            out.line(&format!("built panic {}", m));
            out.end();
            return;
        }
    };
    for (st, alpha) in alphas.iter().enumerate() {
        if st == 0 {
            out.line(&format!("step build {}", slice_str(alpha)));
        } else {
            out.line(&format!("step set {}", slice_str(alpha)));
            let av = DVector::from_vec(alpha.clone());
            if let Err(m) = guarded(|| prob.set(&av)) {
                out.line(&format!(" impl panic {}", m));
                break;
            }
        }
        out.line(&format!(" phi ok {}", mat_str(&entries[st].1)));
        for k in 0..p {
            out.line(&format!(" d {} ok {}", k, mat_str(&entries[st].2[k])));
        }
        if st == 0 {
            out.line(&format!(" impl yw {}", mat_str(&prob.yw())));
        }
        emit_outputs(out, "impl", prob.as_ref());
    }
    out.end();
}

pub fn stream_part(out: &mut Out, rng: &mut Rng, thorough: bool) {
    let n = if thorough { 600 } else { 60 };
    for i in 0..n {
        if i % 3 == 2 {
            emit_diag_case::<f32>(out, rng, i);
        } else {
            emit_diag_case::<f64>(out, rng, i);
        }
    }
}
