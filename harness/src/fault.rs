//! C09: exhaustive fault injection over the global index of model calls made during
//! (build; caller-driven history; fit [with statistics]); transient and persistent failures
use crate::common::*;
use crate::fit::*;
use crate::gen::*;
use crate::models::*;
use crate::prob::*;
use crate::state::*;
use crate::twins::{any_model, wrap_any};
use nalgebra::DVector;

struct Scenario<T: Sc> {
    base: StateCase<T>,
    cfg: LmCfg,
    with_stats: bool,
}

/// runs the scenario with the given fault window; returns the number of model calls made
fn run_scenario<T: Sc>(out: Option<&mut Out>, sc: &Scenario<T>, from: usize, to: usize, label: &str) -> (usize, Vec<usize>) {
    let c = &sc.base;
    let probe = Probe::new();
    probe.set_fault(from, to);
    probe.logging.store(false, std::sync::atomic::Ordering::SeqCst);
    let mut sink = Out::new();
    let out: &mut Out = match out {
        Some(o) => o,
        None => &mut sink,
    };
    let mut marks: Vec<usize> = Vec::new();
    out.begin(
        "fault",
        &format!("{} failfrom={} failto={} stats={} {}", header_common(c), from, to, if sc.with_stats { 1 } else { 0 }, label),
    );
    emit_inputs(out, c);
    out.line(&sc.cfg.describe::<T>());
    let model = make_model::<T>(&c.recipe, &c.init, c.built, &probe);
    let wv = c.w.as_ref().map(|w| DVector::from_vec(w.clone()));
    let mut prob = match guarded(|| build_problem(c.flavour, model, &c.y, wv.as_ref(), c.eps)) {
        Ok(Ok(p)) => p,
        Ok(Err(e)) => {
            out.line(&format!("built err {}", e));
            out.end();
            return (probe.count(), marks);
        }
        Err(m) => {
            out.line(&format!("built panic {}", m));
            out.end();
            return (probe.count(), marks);
        }
    };
    out.line(&format!("step build {}", slice_str(&c.init)));
    emit_tables(out, &c.recipe, &c.init, &c.w);
    match guarded(|| {
        let mut o2 = Out::new();
        emit_outputs(&mut o2, "impl", prob.as_ref());
        o2.buf
    }) {
        Ok(s) => out.buf.push_str(&s),
        Err(m) => out.line(&format!(" impl panic {}", m)),
    }
    marks.push(probe.count());
    for alpha in c.history.iter() {
        out.line(&format!("step set {}", slice_str(alpha)));
        emit_tables(out, &c.recipe, alpha, &c.w);
        let av = DVector::from_vec(alpha.clone());
        if let Err(m) = guarded(|| prob.set(&av)) {
            out.line(&format!(" impl panic {}", m));
            break;
        }
        match guarded(|| {
            let mut o2 = Out::new();
            emit_outputs(&mut o2, "impl", prob.as_ref());
            o2.buf
        }) {
            Ok(s) => out.buf.push_str(&s),
            Err(m) => out.line(&format!(" impl panic {}", m)),
        }
    }
    marks.push(probe.count());
    out.line(&format!("fitstart calls={}", probe.count()));
    let lm = sc.cfg.build::<T>();
    let with_stats = sc.with_stats;
    let r = with_deadline(20, move || {
        if with_stats {
            let so = prob.fit_stats(lm);
            (so.fit, so.stats.is_some())
        } else {
            (prob.fit(lm), false)
        }
    });
    marks.push(probe.count());
    match r {
        None => out.line("result hang"),
        Some(Err(m)) => out.line(&format!("result panic {}", m)),
        Some(Ok((f, has_stats))) => {
            out.line(&format!(
                "result {} term={} successful={} was_successful={} evals={} objective={} hasstats={}",
                if f.ok { "ok" } else { "err" },
                f.termination,
                if f.term_successful { 1 } else { 0 },
                if f.was_successful { 1 } else { 0 },
                f.evaluations,
                hex(f.objective.f()),
                if has_stats { 1 } else { 0 }
            ));
            let alpha: Vec<T> = f.problem.params().iter().copied().collect();
            out.line(&format!("fitend calls={}", f.calls_at_return));
            // the accessors of the FitResult itself (views of the returned problem)
            out.line(&format!(
                "fr coef={} bestfit={}",
                match &f.coef {
                    Some(c) => c.iter().map(|v| format!(",{}", hex(v.f()))).collect::<String>(),
                    None => "none".to_string(),
                },
                if f.best_fit.is_some() { "some" } else { "none" }
            ));
            // the state handed back: values that are present must be the right ones for the reported
            // parameters (fault window closed for the inspection)
            probe.set_fault(usize::MAX, usize::MAX);
            out.line(&format!("step final {}", slice_str(&alpha)));
            emit_tables(out, &c.recipe, &alpha, &c.w);
            out.line(&format!(" impl params {}", vec_str(&f.problem.params())));
            out.line(&opt_vec(" impl res", &f.problem.res()));
            out.line(&opt_mat(" impl coef", &f.problem.coef()));
            let m2 = wrap_any(any_model(&c.recipe, &alpha, c.built));
            if let Ok(Ok(fresh)) = guarded(|| build_problem(c.flavour.seq(), m2, &c.y, wv.as_ref(), c.eps)) {
                out.line(&opt_vec(" fresh res", &fresh.res()));
                out.line(&opt_mat(" fresh coef", &fresh.coef()));
            }
        }
    }
    out.end();
    (probe.count(), marks)
}

pub fn stream(out: &mut Out, seed: u64, thorough: bool) {
    let mut rng = Rng::new(seed ^ 0xFA17);
    let nbase = if thorough { 40 } else { 10 };
    for b in 0..nbase {
        let mut fc = random_fit_case::<f64>(&mut rng, false, b * 3 + 1);
        if b == 0 {
            // the first scenario is the minimised failing history of the defect repaired by 34e4241
            // (corpus/C09-failed-final-reset...): its fit ends with a REJECTED last trial, so that the
            // optimizer re-applies the accepted parameters - whatever the random scenarios look like,
            // a failure at that final re-application is part of every run
            let bits = |v: &[u64]| -> Vec<f64> { v.iter().map(|b| f64::from_bits(*b)).collect() };
            fc.base.recipe = Recipe {
                names: vec![NAMES[0].to_string()],
                fns: vec![FnSpec { kind: Kind::Quad, params: vec![0] }, FnSpec { kind: Kind::Lin, params: vec![] }],
                x: bits(&[0x3fce000000000000, 0x3fe4800000000000, 0x3ff0000000000000, 0x3ff6400000000000, 0x3ffd000000000000, 0x4001e00000000000, 0x4004a00000000000, 0x4008200000000000, 0x400ac00000000000, 0x400de00000000000]),
            };
            fc.base.w = Some(bits(&[0x3ffce00000000000, 0x3fe0500000000000, 0x3ff4400000000000, 0x3ff7b40000000000, 0x3ffd880000000000, 0x3ffd940000000000, 0x3ff1080000000000, 0xbff9380000000000, 0xbff9d40000000000, 0x3ffe340000000000]));
            fc.base.wkind = "negatives";
            fc.base.y = nalgebra::DMatrix::from_vec(10, 1, bits(&[0x4010b7c6bc9b1c49, 0x4016a08deba47471, 0x401bf5630365f8de, 0x4020e37da5052ec5, 0x402409b0046048bb, 0x40272636c28149da, 0x4029ae9010c0dcf8, 0x402cf38ccc924ee3, 0x402f6e494d55a4d6, 0x403129b04cb26403]));
            fc.base.eps = None;
            fc.base.built = true;
            fc.base.init = bits(&[0x3ff8e131e8da8a37]);
        }
        // sequential flavours only: the order of derivative calls must be deterministic
        fc.base.flavour = if b % 2 == 0 { Flavour::New } else { Flavour::Mrhs };
        if !fc.base.flavour.is_mrhs() && fc.base.y.ncols() != 1 {
            let col = fc.base.y.column(0).into_owned();
            fc.base.y = nalgebra::DMatrix::from_columns(&[col]);
        }
        fc.base.origin = "fault";
        fc.base.history = vec![
            random_alpha(&mut rng, fc.base.recipe.p()),
            fc.base.init.iter().map(|v| v * 1.01).collect(),
        ];
        if b == 0 {
            fc.base.flavour = Flavour::Mrhs;
            fc.base.history = vec![vec![f64::from_bits(0x3ff0f00000000000)], vec![f64::from_bits(0x3ff920e30c765347)]];
        }
        let mut cfg = LmCfg::default_cfg();
        cfg.default = false;
        cfg.ftol = 1e-10;
        cfg.xtol = 1e-10;
        cfg.gtol = 1e-10;
        cfg.patience = 20;
        // one scenario in three (never the corpus scenario b = 0): tolerances ZERO - such a fit can only end
        // with NoImprovementPossible or LostPatience (both unsuccessful), typically right after a rejected
        // trial, i.e. with a final re-application of the accepted parameters (round 13)
        if b % 3 == 1 {
            cfg.ftol = 0.0;
            cfg.xtol = 0.0;
            cfg.gtol = 0.0;
            cfg.patience = 60;
        }
        let sc = Scenario { base: fc.base, cfg, with_stats: b % 2 == 0 && b != 0 };
        let (k, marks) = run_scenario::<f64>(None, &sc, usize::MAX, usize::MAX, "dry=1");
        let kmax = if thorough { k } else { k.min(80) };
        // the fault-free run itself
        run_scenario::<f64>(Some(out), &sc, usize::MAX, usize::MAX, &format!("mode=none k=none total={} marks={:?}", k, marks).replace(' ', ""));
        // every index below kmax, and ALWAYS the last calls of the run (the optimizer's final
        // re-application of the accepted parameters, the evaluations of the statistics)
        let mut idxs: Vec<usize> = (0..kmax).collect();
        for idx in k.saturating_sub(14)..k {
            if idx >= kmax {
                idxs.push(idx);
            }
        }
        for idx in idxs {
            run_scenario::<f64>(Some(out), &sc, idx, idx + 1, &format!("mode=transient k={} total={}", idx, k));
            run_scenario::<f64>(Some(out), &sc, idx, usize::MAX, &format!("mode=persistent k={} total={}", idx, k));
        }
    }
}
