//! fit stream (C04, parts of C02/C06/C07/C11): complete fits on the real code with the model-call
//! trace of the optimizer, the returned FitResult and the final problem state
use crate::common::*;
use crate::gen::*;
use crate::models::*;
use crate::prob::*;
use crate::state::*;
use crate::twins::{any_model, wrap_any};
use levenberg_marquardt::LevenbergMarquardt;
use nalgebra::{DMatrix, DVector};
use std::sync::Arc;

#[derive(Clone, Debug)]
pub struct LmCfg {
    pub ftol: f64,
    pub xtol: f64,
    pub gtol: f64,
    pub stepbound: f64,
    pub patience: usize,
    pub scale_diag: bool,
    pub default: bool,
}
impl LmCfg {
    pub fn default_cfg() -> Self {
        LmCfg { ftol: 0.0, xtol: 0.0, gtol: 0.0, stepbound: 100.0, patience: 100, scale_diag: true, default: true }
    }
    pub fn build<T: Sc>(&self) -> LevenbergMarquardt<T> {
        if self.default {
            return LevenbergMarquardt::new();
        }
        LevenbergMarquardt::new()
            .with_ftol(T::of(self.ftol))
            .with_xtol(T::of(self.xtol))
            .with_gtol(T::of(self.gtol))
            .with_stepbound(T::of(self.stepbound))
            .with_patience(self.patience)
            .with_scale_diag(self.scale_diag)
    }
    pub fn describe<T: Sc>(&self) -> String {
        if self.default {
            let e = T::of(30.0) * <T as num_traits::Float>::epsilon();
            format!(
                "lm default=1 ftol={} xtol={} gtol={} stepbound={} patience=100 scale=1",
                hex(e.f()), hex(e.f()), hex(e.f()), hex(100.0)
            )
        } else {
            format!(
                "lm default=0 ftol={} xtol={} gtol={} stepbound={} patience={} scale={}",
                hex(T::of(self.ftol).f()),
                hex(T::of(self.xtol).f()),
                hex(T::of(self.gtol).f()),
                hex(T::of(self.stepbound).f()),
                self.patience,
                if self.scale_diag { 1 } else { 0 }
            )
        }
    }
}

pub fn random_lmcfg(rng: &mut Rng) -> LmCfg {
    if rng.chance(0.4) {
        return LmCfg::default_cfg();
    }
    let tols = [0.0, 1e-15, 1e-12, 1e-8, 1e-4, 1e-2];
    LmCfg {
        ftol: *rng.pick(&tols),
        xtol: *rng.pick(&tols),
        gtol: *rng.pick(&tols),
        stepbound: *rng.pick(&[0.1, 1.0, 10.0, 100.0]),
        patience: *rng.pick(&[1usize, 2, 3, 5, 10, 30, 100]),
        scale_diag: rng.chance(0.7),
        default: false,
    }
}

/// run `f` on a helper thread; None if it HANGS: it has not finished after `secs` seconds and has not
/// evaluated a single basis function or derivative in the last `secs` seconds (a fit that keeps
/// calling the model is slow – its evaluation budget is finite and checked by the driver – not hung;
/// wall-clock time alone would make the verdict depend on the load of the machine), or it exceeds
/// the hard cap of 40·`secs`
pub fn with_deadline<R: Send + 'static>(secs: u64, f: impl FnOnce() -> R + Send + 'static) -> Option<Result<R, String>> {
    with_deadline_beats(secs, None, f)
}

/// as `with_deadline`; `max_beats`: more kernel evaluations than this also count as a hang (a fit
/// far beyond its evaluation budget is not going to end)
pub fn with_deadline_beats<R: Send + 'static>(
    secs: u64,
    max_beats: Option<u64>,
    f: impl FnOnce() -> R + Send + 'static,
) -> Option<Result<R, String>> {
    use std::sync::atomic::Ordering;
    let (tx, rx) = std::sync::mpsc::channel();
    std::thread::Builder::new()
        .stack_size(16 << 20)
        .spawn(move || {
            let r = guarded(f);
            let _ = tx.send(r);
        })
        .expect("spawn");
    let cap = std::time::Instant::now() + std::time::Duration::from_secs(secs * 40);
    let mut last = crate::common::HEARTBEAT.load(Ordering::Relaxed);
    let first = last;
    loop {
        match rx.recv_timeout(std::time::Duration::from_secs(secs)) {
            Ok(r) => return Some(r),
            Err(std::sync::mpsc::RecvTimeoutError::Timeout) => {
                let now = crate::common::HEARTBEAT.load(Ordering::Relaxed);
                if now == last || std::time::Instant::now() > cap || max_beats.map_or(false, |b| now - first > b) {
                    return None;
                }
                last = now;
            }
            Err(std::sync::mpsc::RecvTimeoutError::Disconnected) => return None,
        }
    }
}

pub fn enorm<T: Sc>(v: &DVector<T>) -> f64 {
    v.iter().map(|x| x.f() * x.f()).sum::<f64>().sqrt()
}

pub struct FitCase<T: Sc> {
    pub base: StateCase<T>,
    pub cfg: LmCfg,
    pub threads: usize,
}

/// residual norm (f64) of a fresh problem at alpha, None if absent
fn fresh_norm<T: Sc>(c: &StateCase<T>, alpha: &[T]) -> Option<(f64, Box<dyn DynP<T>>)> {
    let wv = c.w.as_ref().map(|w| DVector::from_vec(w.clone()));
    let m = wrap_any(any_model(&c.recipe, alpha, c.built));
    match guarded(|| build_problem(c.flavour.seq(), m, &c.y, wv.as_ref(), c.eps)) {
        Ok(Ok(p)) => p.res().map(|r| enorm(&r)).map(|n| (n, p)),
        _ => None,
    }
}

pub fn emit_trace<T: Sc>(out: &mut Out, c: &StateCase<T>, calls: &[Call], p: usize) {
    // group the model calls: `set α` + eval = one parameter application; P derivative calls = one Jacobian
    let mut i = 0;
    while i < calls.len() {
        match &calls[i] {
            Call::SetParams(a, ok) => {
                let at: Vec<T> = a.iter().map(|v| T::of(*v)).collect();
                let eval_ok = match calls.get(i + 1) {
                    Some(Call::Eval(k)) => {
                        i += 1;
                        if *k { "1" } else { "0" }
                    }
                    _ => "-",
                };
                let norm = if *ok { fresh_norm(c, &at).map(|x| x.0) } else { None };
                out.line(&format!(
                    "ev set {} ok={} eval={} norm={}",
                    slice_str(&at),
                    if *ok { 1 } else { 0 },
                    eval_ok,
                    match norm {
                        Some(n) => hex(n),
                        None => "none".to_string(),
                    }
                ));
                i += 1;
            }
            Call::Eval(ok) => {
                out.line(&format!("ev eval ok={}", if *ok { 1 } else { 0 }));
                i += 1;
            }
            Call::Deriv(_, _) => {
                let mut ks: Vec<String> = Vec::new();
                let mut all_ok = true;
                while i < calls.len() {
                    if let Call::Deriv(k, ok) = &calls[i] {
                        ks.push(k.to_string());
                        all_ok &= *ok;
                        i += 1;
                        if ks.len() == p {
                            break;
                        }
                    } else {
                        break;
                    }
                }
                out.line(&format!("ev jac ok={} ks={}", if all_ok { 1 } else { 0 }, ks.join(",")));
            }
        }
    }
}

pub fn emit_fit_case<T: Sc>(out: &mut Out, fc: &FitCase<T>, with_stats: bool) {
    let c = &fc.base;
    out.begin(
        "fit",
        &format!("{} threads={} stats={}", header_common(c), fc.threads, if with_stats { 1 } else { 0 }),
    );
    emit_inputs(out, c);
    out.line(&fc.cfg.describe::<T>());
    let probe = Probe::new();
    let model = make_model::<T>(&c.recipe, &c.init, c.built, &probe);
    let wv = c.w.as_ref().map(|w| DVector::from_vec(w.clone()));
    let prob = match guarded(|| build_problem(c.flavour, model, &c.y, wv.as_ref(), c.eps)) {
        Ok(Ok(p)) => p,
        Ok(Err(e)) => {
            out.line(&format!("built err {}", e));
            out.end();
            return;
        }
        Err(m) => {
            out.line(&format!("built panic {}", m));
            out.end();
            return;
        }
    };
    out.line(&format!("step build {}", slice_str(&c.init)));
    emit_tables(out, &c.recipe, &c.init, &c.w);
    emit_outputs(out, "impl", prob.as_ref());
    let build_calls = probe.take().len();
    out.line(&format!("buildcalls {}", build_calls));
    let lm = fc.cfg.build::<T>();
    let threads = fc.threads;
    // kernel evaluations of a whole fit: (patience·(P+1) + a few) parameter applications and as many
    // Jacobians at most, M (+ M·P) kernel calls each; four times that is "not going to end"
    let (mm, pp) = (c.recipe.m() as u64, c.recipe.p() as u64);
    let beats = 4 * (fc.cfg.patience as u64 * (pp + 1) + 10) * (mm * (pp + 2) + 1);
    let r = with_deadline_beats(20, Some(beats), move || {
        if threads > 0 {
            let pool = rayon::ThreadPoolBuilder::new().num_threads(threads).build().expect("pool");
            pool.install(|| prob.fit(lm))
        } else {
            prob.fit(lm)
        }
    });
    let calls = probe.take();
    emit_trace(out, c, &calls, c.recipe.p());
    match r {
        None => out.line("result hang"),
        Some(Err(m)) => out.line(&format!("result panic {}", m)),
        Some(Ok(f)) => {
            out.line(&format!(
                "result {} term={} successful={} was_successful={} evals={} objective={}",
                if f.ok { "ok" } else { "err" },
                f.termination,
                if f.term_successful { 1 } else { 0 },
                if f.was_successful { 1 } else { 0 },
                f.evaluations,
                hex(f.objective.f())
            ));
            out.line(&format!("nonlinear {}", vec_str(&f.nonlinear)));
            out.line(&opt_mat("fitcoef", &f.coef));
            out.line(&opt_mat("bestfit", &f.best_fit));
            let alpha: Vec<T> = f.problem.params().iter().copied().collect();
            out.line(&format!("step final {}", slice_str(&alpha)));
            emit_tables(out, &c.recipe, &alpha, &c.w);
            emit_outputs(out, "impl", f.problem.as_ref());
            if let Some((_, fresh)) = fresh_norm(c, &alpha) {
                emit_outputs(out, "fresh", fresh.as_ref());
            }
        }
    }
    out.end();
}

pub fn random_fit_case<T: Sc>(rng: &mut Rng, thorough: bool, idx: usize) -> FitCase<T> {
    let mut base = random_state_case::<T>(rng, thorough, idx);
    base.origin = "fit";
    base.history.clear();
    // one fit in ten (cycled): a basis column nine orders of magnitude below the others (3e-10·x) - the
    // basis is badly COLUMN-scaled (condition number ~1e9..1e10) but of full rank for the default threshold;
    // the coefficients returned must still be the least-squares optimum for the returned parameters (round 13)
    if idx % 10 == 7 && base.recipe.n() >= base.recipe.m() + 2 && base.eps.is_none() {
        base.recipe.fns.push(FnSpec { kind: Kind::LinTiny, params: vec![] });
    }
    // starts: near the generating parameters of the data or far away
    let flavour = *rng.pick(&[Flavour::New, Flavour::New, Flavour::Mrhs, Flavour::NewPar, Flavour::MrhsPar]);
    base.flavour = flavour;
    let s = if flavour.is_mrhs() { rng.range(1, if thorough { 5 } else { 3 }) } else { 1 };
    let truth = random_alpha(rng, base.recipe.p());
    // data from the model at `truth` plus (possibly) noise
    let noise = *rng.pick(&[0.0, 1e-3, 1e-2, 0.3]);
    let n = base.recipe.n();
    let m = base.recipe.m();
    let tr: Vec<T> = truth.iter().map(|v| T::of(*v)).collect();
    let phi = base.recipe.phi::<T>(&tr);
    let mut y = DMatrix::from_element(n, s, T::of(0.0));
    for c in 0..s {
        let coef = DVector::from_iterator(m, (0..m).map(|_| T::of((rng.uniform(0.5, 3.0) * 16.0).round() / 16.0)));
        let col = &phi * coef;
        for i in 0..n {
            y[(i, c)] = col[i] + T::of(noise * rng.normal());
        }
    }
    base.y = y;
    let far = idx % 3 == 0;
    base.init = if far {
        random_alpha(rng, base.recipe.p()).iter().map(|v| T::of(*v)).collect()
    } else {
        truth.iter().map(|v| T::of(v * (1.0 + rng.uniform(-0.05, 0.05)))).collect()
    };
    let threads = if flavour.is_par() { *rng.pick(&[1usize, 2, 4, 8]) } else { 0 };
    FitCase { base, cfg: random_lmcfg(rng), threads }
}

pub fn stream(out: &mut Out, seed: u64, thorough: bool) {
    let mut rng = Rng::new(seed ^ 0xF17);
    let n = if thorough { 4000 } else { 160 };
    for i in 0..n {
        if i % 4 == 3 {
            let c = random_fit_case::<f32>(&mut rng, thorough, i);
            emit_fit_case(out, &c, false);
        } else {
            let c = random_fit_case::<f64>(&mut rng, thorough, i);
            emit_fit_case(out, &c, false);
        }
    }
}
