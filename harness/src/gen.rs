//! generators shared by the numeric streams: recipes, data, weights, histories
use crate::common::*;
use crate::models::*;
use nalgebra::{DMatrix, DVector};

pub const NAMES: [&str; 12] = [
    "alpha", "beta", "gamma", "delta", "eps", "zeta", "eta", "theta", "iota", "kappa", "lambda", "mu",
];

#[derive(Clone, Debug)]
pub struct GenOpts {
    pub max_m: usize,
    pub max_p: usize,
    pub max_n: usize,
    pub max_s: usize,
    /// allow a duplicated basis function (rank deficient)
    pub allow_dup: bool,
    pub smooth_only: bool,
    /// exact number of samples (size-threshold sub-streams); `None` = random in [M+1, max_n]
    pub fixed_n: Option<usize>,
}

/// sizes around the block widths a tiled / vectorised implementation would plausibly use: a
/// regression that only shows beyond a size threshold (or for sizes that are not a multiple of a
/// block width) needs such shapes to manifest
pub const BIG_SIZES: [usize; 18] = [15, 16, 17, 31, 32, 33, 34, 40, 63, 64, 65, 70, 96, 100, 127, 128, 129, 150];
pub const BIG_SIZES_THOROUGH: [usize; 6] = [255, 256, 257, 300, 511, 513];
/// sample counts beyond 1024/2048/4096 rows (several blocks of any plausible row blocking)
pub const HUGE_SIZES: [usize; 6] = [1025, 2049, 2500, 3073, 4099, 5000];
pub fn big_size(rng: &mut Rng, thorough: bool) -> usize {
    if thorough && rng.chance(0.25) {
        *rng.pick(&BIG_SIZES_THOROUGH)
    } else {
        *rng.pick(&BIG_SIZES)
    }
}

/// all model parameters live in this range (valid for every kernel argument)
pub const PLO: f64 = 0.6;
pub const PHI: f64 = 2.5;

pub fn random_recipe(rng: &mut Rng, o: &GenOpts) -> Recipe {
    let kinds_all = [Kind::Exp, Kind::Gauss, Kind::Sinus, Kind::Lorentz, Kind::Quad, Kind::Exp, Kind::Gauss];
    // `quad` (a·x + a²) together with `one`/`lin` is not identifiable; the smooth-only streams avoid it
    let kinds_smooth = [Kind::Exp, Kind::Gauss, Kind::Sinus, Kind::Lorentz, Kind::Exp, Kind::Gauss, Kind::Exp];
    let kinds_par = if o.smooth_only { kinds_smooth } else { kinds_all };
    loop {
        let m = rng.range(1, o.max_m);
        let mut fns: Vec<FnSpec> = Vec::new();
        let mut p = 0usize;
        for j in 0..m {
            let want_inv = rng.chance(0.25) && j > 0;
            if want_inv {
                let k = if rng.chance(0.5) { Kind::One } else { Kind::Lin };
                if !fns.iter().any(|f| f.kind == k) {
                    fns.push(FnSpec { kind: k, params: vec![] });
                    continue;
                }
            }
            let kind = *rng.pick(&kinds_par);
            let mut ps: Vec<usize> = Vec::new();
            for _ in 0..kind.arity() {
                let reuse = p > 0 && (p >= o.max_p || rng.chance(0.35));
                let mut idx = if reuse { rng.below(p) } else { p };
                if ps.contains(&idx) {
                    // a function's own parameter list must be duplicate free
                    if p < o.max_p {
                        idx = p;
                    } else {
                        idx = (0..p).find(|i| !ps.contains(i)).unwrap_or(usize::MAX);
                    }
                }
                if idx == usize::MAX {
                    break;
                }
                if idx == p {
                    p += 1;
                }
                ps.push(idx);
            }
            if ps.len() != kind.arity() {
                continue;
            }
            fns.push(FnSpec { kind, params: ps });
        }
        if p == 0 || fns.is_empty() {
            continue;
        }
        // identical (kind, params) twice = exactly dependent columns
        let mut dup = false;
        for i in 0..fns.len() {
            for j in 0..i {
                if fns[i].kind == fns[j].kind && fns[i].params == fns[j].params {
                    dup = true;
                }
            }
        }
        if dup && !o.allow_dup {
            continue;
        }
        // shuffle the model's parameter order
        let mut perm: Vec<usize> = (0..p).collect();
        rng.shuffle(&mut perm);
        for f in fns.iter_mut() {
            for q in f.params.iter_mut() {
                *q = perm[*q];
            }
        }
        let mmin = fns.len() + 1;
        let n = rng.range(mmin.min(o.max_n), o.max_n);
        let n = n.max(fns.len());
        let n = match o.fixed_n {
            Some(k) => k.max(mmin),
            None => n,
        };
        let mut x: Vec<f64> = (0..n)
            .map(|i| 0.25 + 3.5 * (i as f64) / (n.max(2) - 1) as f64)
            .collect();
        for v in x.iter_mut() {
            *v = ((*v + rng.uniform(-0.05, 0.05)) * 64.0).round() / 64.0;
        }
        return Recipe {
            names: NAMES[..p].iter().map(|s| s.to_string()).collect(),
            fns,
            x,
        };
    }
}

pub fn random_alpha(rng: &mut Rng, p: usize) -> Vec<f64> {
    (0..p).map(|_| (rng.uniform(PLO, PHI) * 256.0).round() / 256.0).collect()
}

#[derive(Clone, Copy, Debug, PartialEq)]
pub enum WKind {
    None,
    Ones,
    Positive,
    Zeros,
    Negatives,
    Wide,
    /// all entries identical and different from one (a known homoscedastic noise level)
    Constant,
}
impl WKind {
    pub fn name(self) -> &'static str {
        match self {
            WKind::None => "none",
            WKind::Ones => "ones",
            WKind::Positive => "positive",
            WKind::Zeros => "zeros",
            WKind::Negatives => "negatives",
            WKind::Wide => "wide",
            WKind::Constant => "constant",
        }
    }
}
pub const WKINDS: [WKind; 7] = [
    WKind::None,
    WKind::Ones,
    WKind::Positive,
    WKind::Zeros,
    WKind::Negatives,
    WKind::Wide,
    WKind::Constant,
];

pub fn random_weights(rng: &mut Rng, kind: WKind, n: usize, m: usize) -> Option<Vec<f64>> {
    let r = |v: f64| (v * 1024.0).round() / 1024.0;
    match kind {
        WKind::None => None,
        WKind::Ones => Some(vec![1.0; n]),
        WKind::Constant => Some(vec![*rng.pick(&[0.5, 2.0, 20.0, -3.0, 0.125, 1e3]); n]),
        WKind::Positive => Some((0..n).map(|_| r(rng.uniform(0.5, 2.0))).collect()),
        WKind::Zeros => {
            let mut w: Vec<f64> = (0..n).map(|_| r(rng.uniform(0.5, 2.0))).collect();
            // keep at least m+1 non-zero rows
            let nz = (n.saturating_sub(m + 1)).min(2).max(if n > m + 1 { 1 } else { 0 });
            for _ in 0..nz {
                let i = rng.below(n);
                w[i] = 0.0;
            }
            Some(w)
        }
        WKind::Negatives => Some(
            (0..n)
                .map(|_| {
                    let v = r(rng.uniform(0.5, 2.0));
                    if rng.chance(0.4) {
                        -v
                    } else {
                        v
                    }
                })
                .collect(),
        ),
        WKind::Wide => Some(
            (0..n)
                .map(|_| {
                    let e = rng.uniform(-1.5, 1.5);
                    let v = 10f64.powf(e);
                    let q = 2f64.powi(v.log2().floor() as i32 - 8);
                    (v / q).round() * q
                })
                .collect(),
        ),
    }
}

/// observations: mostly NOT generated by the model (non-zero residuals)
pub fn random_data<T: Sc>(rng: &mut Rng, recipe: &Recipe, s: usize, exact: bool) -> DMatrix<T> {
    let n = recipe.n();
    let m = recipe.m();
    let alpha: Vec<T> = random_alpha(rng, recipe.p()).iter().map(|v| T::of(*v)).collect();
    let phi = recipe.phi::<T>(&alpha);
    let mut y = DMatrix::from_element(n, s, T::of(0.0));
    for c in 0..s {
        let coef = DVector::from_iterator(m, (0..m).map(|_| T::of((rng.uniform(-3.0, 3.0) * 16.0).round() / 16.0)));
        let col = &phi * coef;
        for i in 0..n {
            let noise = if exact { 0.0 } else { (rng.uniform(-1.0, 1.0) * 256.0).round() / 256.0 };
            y[(i, c)] = col[i] + T::of(noise);
        }
    }
    y
}

/// FINITE basis matrices whose entries span so many orders of magnitude that squares of the small
/// entries vanish next to the large ones (ratio beyond 1e23 in single, 1e170 in double precision):
/// a constant, a decaying exponential, a line (and a sine) followed by an exponential whose time
/// constant is slightly negative, so that it GROWS to `exp(t)` at the last sample. Returns the
/// recipe, ordinary parameters and the parameters at the edge of the range.
pub fn range_edge_family(rng: &mut Rng, single: bool) -> (Recipe, Vec<f64>, Vec<f64>) {
    use crate::models::{FnSpec, Kind};
    let n = rng.range(5, 20);
    let x: Vec<f64> = (0..n).map(|i| 0.25 + 3.5 * (i as f64) / (n - 1) as f64).collect();
    let mut fns = vec![
        FnSpec { kind: Kind::One, params: vec![] },
        FnSpec { kind: Kind::Exp, params: vec![0] },
        FnSpec { kind: Kind::Lin, params: vec![] },
    ];
    let mut names = vec!["tau1".to_string(), "tau2".to_string()];
    let mut ordinary = vec![rng.uniform(1.0, 6.0), rng.uniform(0.8, 2.5)];
    if rng.chance(0.5) {
        fns.push(FnSpec { kind: Kind::Sinus, params: vec![2, 3] });
        names.push("om".to_string());
        names.push("ph".to_string());
        ordinary.push(rng.uniform(0.8, 2.0));
        ordinary.push(rng.uniform(0.6, 2.0));
    }
    fns.push(FnSpec { kind: Kind::Exp, params: vec![1] });
    let t = if single { rng.uniform(54.0, 66.0) } else { rng.uniform(390.0, 450.0) };
    let mut edge = ordinary.clone();
    edge[1] = -x[n - 1] / t;
    (Recipe { names, fns, x }, ordinary, edge)
}
