#![allow(unused_variables, dead_code)]
mod common;
mod models;
mod pbuilder;
mod sepmodel;
mod gen;
mod prob;
mod state;
mod twins;
mod fit;
mod fault;
mod stats;
mod robust;
mod conv;
mod mc;
mod shape;
mod diag;
mod poison;

#[global_allocator]
static GLOBAL: poison::Poison = poison::Poison;

use common::Out;
use std::io::Write;

fn main() {
    let args: Vec<String> = std::env::args().collect();
    if args.len() < 2 {
        eprintln!("usage: vp_harness <stream> [--seed N] [--tier quick|thorough] [--out FILE] [--only SUBSTREAM]");
        std::process::exit(2);
    }
    let stream = args[1].clone();
    let mut seed: u64 = 1;
    let mut thorough = false;
    let mut outp: Option<String> = None;
    let mut i = 2;
    while i < args.len() {
        match args[i].as_str() {
            "--seed" => {
                seed = args[i + 1].parse().expect("seed");
                i += 2;
            }
            "--tier" => {
                thorough = args[i + 1] == "thorough";
                i += 2;
            }
            "--only" => {
                common::ONLY.set(args[i + 1].clone()).ok();
                i += 2;
            }
            "--out" => {
                outp = Some(args[i + 1].clone());
                i += 2;
            }
            _ => {
                eprintln!("unknown arg {}", args[i]);
                std::process::exit(2);
            }
        }
    }
    let poison = poison::init_from_env();
    eprintln!("heap poison: {}", poison);
    // panics inside guarded sections are expected outcomes; keep stderr quiet
    std::panic::set_hook(Box::new(|_| {}));
    let mut out = Out::new();
    match stream.as_str() {
        "pbuilder" => pbuilder::stream(&mut out, seed, thorough),
        "mbuilder" => sepmodel::stream_mbuilder(&mut out, seed, thorough),
        "model" => sepmodel::stream_model(&mut out, seed, thorough),
        "state" => state::stream(&mut out, seed, thorough),
        "wtwin" => twins::stream_wtwin(&mut out, seed, thorough),
        "mrhs" => twins::stream_mrhs(&mut out, seed, thorough),
        "par" => twins::stream_par(&mut out, seed, thorough),
        "fit" => fit::stream(&mut out, seed, thorough),
        "fault" => fault::stream(&mut out, seed, thorough),
        "stats" => stats::stream(&mut out, seed, thorough),
        "robust" => robust::stream(&mut out, seed, thorough),
        "conv" => conv::stream(&mut out, seed, thorough),
        "mc" => mc::stream(&mut out, seed, thorough),
        "shape" => shape::stream(&mut out, seed, thorough),
        _ => {
            eprintln!("unknown stream {}", stream);
            std::process::exit(2);
        }
    }
    // watchdog threads of hung cases may still be running: leave without joining them
    let code = 0;
    match outp {
        Some(p) => std::fs::write(p, out.buf.as_bytes()).expect("write"),
        None => std::io::stdout().write_all(out.buf.as_bytes()).expect("write"),
    }
    std::process::exit(code);
}
