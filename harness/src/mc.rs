//! C19: Monte-Carlo coverage of the reported uncertainties on the real code (failing-input search;
//! statistical testing in support of the partial proof, never a substitute for a theorem)
use crate::common::*;
use crate::fit::*;
use crate::gen::*;
use crate::models::*;
use crate::prob::*;
use nalgebra::{DMatrix, DVector};

pub const MC_PROBS: [f64; 4] = [0.5, 0.683, 0.9, 0.99];

pub struct McConfig {
    pub name: &'static str,
    pub fns: Vec<(Kind, Vec<usize>)>,
    pub truth: Vec<f64>,
    pub coef: Vec<f64>,
    pub n: usize,
    pub xmax: f64,
    /// noise standard deviation profile: sd_i = base * (1 + slope * i/(n-1))
    pub base: f64,
    pub slope: f64,
    /// weights: 0 = none, 1 = exactly 1/sd_i, 2 = proportional (3.7/sd_i)
    pub wmode: u8,
    pub built: bool,
}

pub fn configs(thorough: bool) -> Vec<McConfig> {
    let mut v = vec![
        McConfig { name: "decay+offset/homo/unweighted", fns: vec![(Kind::Exp, vec![0]), (Kind::One, vec![])], truth: vec![2.5], coef: vec![4.0, 1.0], n: 30, xmax: 10.0, base: 2e-3, slope: 0.0, wmode: 0, built: true },
        McConfig { name: "decay+offset/hetero/w=1/sd", fns: vec![(Kind::Exp, vec![0]), (Kind::One, vec![])], truth: vec![2.0], coef: vec![3.0, 0.5], n: 24, xmax: 8.0, base: 1e-3, slope: 4.0, wmode: 1, built: false },
        McConfig { name: "2decays/hetero/w~1/sd", fns: vec![(Kind::Exp, vec![0]), (Kind::Exp, vec![1])], truth: vec![1.0, 6.0], coef: vec![3.0, 2.0], n: 40, xmax: 20.0, base: 5e-4, slope: 2.0, wmode: 2, built: true },
    ];
    // few degrees of freedom: here a wrong number of degrees of freedom or a one-sided quantile is an O(0.05) effect
    v.push(McConfig { name: "decay/dof2/w=1/sd", fns: vec![(Kind::Exp, vec![0])], truth: vec![2.0], coef: vec![3.0], n: 4, xmax: 5.0, base: 1e-3, slope: 1.0, wmode: 1, built: true });
    // ONE degree of freedom: the Student-t quantile is far from the normal one (6.31 instead of 1.64 at
    // p = 0.9) - an approximate quantile (series in 1/dof, normal limit) shows as an O(0.04) loss of coverage (round 12)
    v.push(McConfig { name: "decay/dof1/w=1/sd", fns: vec![(Kind::Exp, vec![0])], truth: vec![2.0], coef: vec![3.0], n: 3, xmax: 4.0, base: 1e-3, slope: 1.0, wmode: 1, built: false });
    // no constant term in the span of the Jacobian and few degrees of freedom: anything that treats the
    // weighted residuals as a SAMPLE (subtracting their mean, N-1 instead of N-M-P, ...) shows here
    v.push(McConfig { name: "oscillation/dof5/w=1/sd", fns: vec![(Kind::Sinus, vec![0, 1])], truth: vec![1.3, 0.4], coef: vec![3.0], n: 8, xmax: 6.0, base: 1e-3, slope: 1.0, wmode: 1, built: false });
    // small absolute units (signal 1e-6, noise 1e-9): variances of the order 1e-18 are ordinary numbers
    v.push(McConfig { name: "decay+offset/units1e-6/w=1/sd", fns: vec![(Kind::Exp, vec![0]), (Kind::One, vec![])], truth: vec![2.5], coef: vec![4e-6, 1e-6], n: 30, xmax: 10.0, base: 2e-9, slope: 1.0, wmode: 1, built: true });
    v.push(McConfig { name: "decay+offset/dead-channels/w=1/sd", fns: vec![(Kind::Exp, vec![0]), (Kind::One, vec![])], truth: vec![2.5], coef: vec![4.0, 1.0], n: 31, xmax: 10.0, base: 2e-3, slope: 1.0, wmode: 3, built: false });
    v.push(McConfig { name: "decay+offset/dof2/unweighted", fns: vec![(Kind::Exp, vec![0]), (Kind::One, vec![])], truth: vec![2.0], coef: vec![3.0, 1.0], n: 5, xmax: 6.0, base: 1e-3, slope: 0.0, wmode: 0, built: false });
    // badly SCALED but perfectly identifiable problems (units): a nanosecond lifetime on a time axis in
    // seconds, amplitudes of 1e9 – the columns of H differ by 9 orders of magnitude
    v.push(McConfig { name: "decay+offset/ns-lifetime/w=1/sd", fns: vec![(Kind::Exp, vec![0]), (Kind::One, vec![])], truth: vec![2e-9], coef: vec![3.0, 0.5], n: 30, xmax: 1e-8, base: 1e-3, slope: 2.0, wmode: 1, built: true });
    v.push(McConfig { name: "decay+offset/amplitude1e9/unweighted", fns: vec![(Kind::Exp, vec![0]), (Kind::One, vec![])], truth: vec![2.5], coef: vec![4e9, 1e9], n: 30, xmax: 10.0, base: 2e6, slope: 0.0, wmode: 0, built: false });
    // equal standard deviations passed as (uniform) weights exactly 1/sd: chi2 must still average 1
    v.push(McConfig { name: "decay+offset/homo/w=1/sd", fns: vec![(Kind::Exp, vec![0]), (Kind::One, vec![])], truth: vec![2.5], coef: vec![4.0, 1.0], n: 30, xmax: 10.0, base: 2e-2, slope: 0.0, wmode: 1, built: true });
    if thorough {
        v.push(McConfig { name: "gauss+decay+offset/homo/unweighted", fns: vec![(Kind::Gauss, vec![0, 1]), (Kind::Exp, vec![2]), (Kind::One, vec![])], truth: vec![4.0, 1.0, 3.0], coef: vec![2.0, 3.0, 1.0], n: 50, xmax: 10.0, base: 1e-3, slope: 0.0, wmode: 0, built: false });
        v.push(McConfig { name: "decay/small-dof/w=1/sd", fns: vec![(Kind::Exp, vec![0])], truth: vec![2.0], coef: vec![3.0], n: 5, xmax: 6.0, base: 1e-3, slope: 1.0, wmode: 1, built: true });
        v.push(McConfig { name: "decay+offset/small-dof/unweighted", fns: vec![(Kind::Exp, vec![0]), (Kind::One, vec![])], truth: vec![2.0], coef: vec![3.0, 1.0], n: 6, xmax: 6.0, base: 1e-3, slope: 0.0, wmode: 0, built: false });
        v.push(McConfig { name: "2decays+offset/hetero/w=1/sd", fns: vec![(Kind::Exp, vec![0]), (Kind::Exp, vec![1]), (Kind::One, vec![])], truth: vec![1.0, 6.0], coef: vec![3.0, 2.0, 0.5], n: 60, xmax: 30.0, base: 3e-4, slope: 3.0, wmode: 1, built: true });
        v.push(McConfig { name: "decay+offset/hetero/w~1/sd", fns: vec![(Kind::Exp, vec![0]), (Kind::One, vec![])], truth: vec![3.0], coef: vec![2.0, 1.0], n: 20, xmax: 10.0, base: 2e-3, slope: 5.0, wmode: 2, built: false });
    }
    v
}

pub fn run_config(out: &mut Out, cfg: &McConfig, seed: u64, nfits: usize) {
    let mut rng = Rng::new(seed ^ 0xC19);
    let p = cfg.truth.len();
    let m = cfg.fns.len();
    let n = cfg.n;
    let recipe = Recipe {
        names: NAMES[..p].iter().map(|s| s.to_string()).collect(),
        fns: cfg.fns.iter().map(|(k, ps)| FnSpec { kind: *k, params: ps.clone() }).collect(),
        x: (0..n).map(|i| cfg.xmax * (i as f64) / (n - 1) as f64).collect(),
    };
    // wmode 3: every third sample is a "dead channel" with a standard deviation 1e9 times larger (weights
    // exactly 1/sigma_i as in mode 1: such a sample still counts as an observation)
    let sd: Vec<f64> = (0..n)
        .map(|i| cfg.base * (1.0 + cfg.slope * i as f64 / (n - 1) as f64) * if cfg.wmode == 3 && i % 3 == 2 { 1e9 } else { 1.0 })
        .collect();
    let w: Option<Vec<f64>> = match cfg.wmode {
        0 => None,
        1 | 3 => Some(sd.iter().map(|s| 1.0 / s).collect()),
        _ => Some(sd.iter().map(|s| 3.7 / s).collect()),
    };
    let phi = recipe.phi::<f64>(&cfg.truth);
    let cstar = DVector::from_vec(cfg.coef.clone());
    let fstar = &phi * &cstar;
    let dof = n - m - p;
    let np = MC_PROBS.len();
    let mut band_hits = vec![vec![0usize; n]; np];
    let mut lin_hits = vec![vec![0usize; m]; np];
    let mut nonlin_hits = vec![vec![0usize; p]; np];
    let mut chi_sum = 0.0;
    let mut ok_fits = 0usize;
    let mut failed = 0usize;
    let tq: Vec<f64> = MC_PROBS.iter().map(|pr| distrs::StudentsT::ppf((pr + 1.0) / 2.0, dof as f64)).collect();
    for _ in 0..nfits {
        let y = DVector::from_iterator(n, (0..n).map(|i| fstar[i] + sd[i] * rng.normal()));
        let init: Vec<f64> = cfg.truth.iter().map(|v| v * (1.0 + rng.uniform(-0.01, 0.01))).collect();
        let probe = Probe::new();
        let model = make_model::<f64>(&recipe, &init, cfg.built, &probe);
        let wv = w.as_ref().map(|w| DVector::from_vec(w.clone()));
        let ym = DMatrix::from_columns(&[y]);
        // every third configuration goes through the parallel constructor (feature `parallel`)
        let flavour = if cfg.n % 3 == 0 { Flavour::NewPar } else { Flavour::New };
        let prob = match build_problem(flavour, model, &ym, wv.as_ref(), None) {
            Ok(p) => p,
            Err(_) => {
                failed += 1;
                continue;
            }
        };
        let so = prob.fit_stats(LmCfg::default_cfg().build::<f64>());
        let (st, f) = match (so.stats, so.fit) {
            (Some(st), f) => (st, f),
            _ => {
                failed += 1;
                continue;
            }
        };
        ok_fits += 1;
        chi_sum += st.reduced_chi2;
        let best = f.best_fit.expect("best fit");
        let coef = f.coef.expect("coef");
        for (pi, pr) in MC_PROBS.iter().enumerate() {
            let r = (st.stats)(*pr).expect("band");
            for i in 0..n {
                if (best[(i, 0)] - fstar[i]).abs() <= r[i] {
                    band_hits[pi][i] += 1;
                }
            }
            for j in 0..m {
                if (coef[(j, 0)] - cfg.coef[j]).abs() <= tq[pi] * st.lin_var[j].sqrt() {
                    lin_hits[pi][j] += 1;
                }
            }
            for k in 0..p {
                if (f.nonlinear[k] - cfg.truth[k]).abs() <= tq[pi] * st.nonlin_var[k].sqrt() {
                    nonlin_hits[pi][k] += 1;
                }
            }
        }
    }
    out.begin(
        "mc",
        &format!(
            "config={} n={} m={} p={} dof={} wmode={} fits={} ok={} failed={} seed={}",
            cfg.name.replace(' ', "_"), n, m, p, dof, cfg.wmode, nfits, ok_fits, failed, seed
        ),
    );
    out.line(&format!("chi2mean {}", hex(if ok_fits > 0 { chi_sum / ok_fits as f64 } else { f64::NAN })));
    for (pi, pr) in MC_PROBS.iter().enumerate() {
        out.line(&format!(
            "cover p={} band {} | lin {} | nonlin {}",
            hex(*pr),
            band_hits[pi].iter().map(|v| v.to_string()).collect::<Vec<_>>().join(" "),
            lin_hits[pi].iter().map(|v| v.to_string()).collect::<Vec<_>>().join(" "),
            nonlin_hits[pi].iter().map(|v| v.to_string()).collect::<Vec<_>>().join(" ")
        ));
    }
    out.end();
}

pub fn stream(out: &mut Out, seed: u64, thorough: bool) {
    for (i, cfg) in configs(thorough).iter().enumerate() {
        let small = cfg.n <= 8;
        let nfits = if thorough { if small { 100000 } else { 30000 } } else if small { 20000 } else { 3000 };
        run_config(out, cfg, seed.wrapping_mul(1000).wrapping_add(i as u64), nfits);
    }
}
