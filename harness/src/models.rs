//! model recipes: the same recipe yields (a) a builder-made `SeparableModel`, (b) a hand-written
//! model, (c) the tables Φ(α), D_k(α) computed by the harness directly from the kernels.
use crate::common::*;
use nalgebra::{DMatrix, DVector, Dyn, OMatrix, OVector};
use std::sync::atomic::{AtomicUsize, Ordering};
use std::sync::{Arc, Mutex};
use varpro::prelude::*;

#[derive(Clone, Copy, Debug, PartialEq, Eq)]
pub enum Kind {
    One,     // 1
    Lin,     // x
    Exp,     // exp(-x/tau)
    Gauss,   // exp(-(x-mu)^2/(2 s^2))
    Sinus,   // sin(w x + p)
    Lorentz, // 1/(1+(a x)^2)
    Quad,    // a*x + a*a   (cheap, exactly representable for small integers)
    Bilin,   // a*x + b     (two parameters, exactly representable)
    /// 1e-4 * x: a weak basis function (tiny singular value that is NOT a rank defect)
    LinSmall,
    /// 3e-10 * x: a basis column nine orders of magnitude below the others (badly column-scaled, still far
    /// above the default threshold in double precision; its magnitude is not a power of two)
    LinTiny,
    /// 1/(1+(a (x - 4k))^2): a comb of well separated peaks, a well-conditioned basis of any size
    LorentzAt(u16),
}
impl Kind {
    pub fn arity(self) -> usize {
        match self {
            Kind::One | Kind::Lin | Kind::LinSmall | Kind::LinTiny => 0,
            Kind::Exp | Kind::Lorentz | Kind::Quad | Kind::LorentzAt(_) => 1,
            Kind::Gauss | Kind::Sinus | Kind::Bilin => 2,
        }
    }
    pub fn name(self) -> &'static str {
        match self {
            Kind::One => "one",
            Kind::Lin => "lin",
            Kind::Exp => "exp",
            Kind::Gauss => "gauss",
            Kind::Sinus => "sinus",
            Kind::Lorentz => "lorentz",
            Kind::Quad => "quad",
            Kind::Bilin => "bilin",
            Kind::LorentzAt(_) => "lorentzat",
            Kind::LinSmall => "linsmall",
            Kind::LinTiny => "lintiny",
        }
    }
    pub fn parse(s: &str) -> Kind {
        match s {
            "one" => Kind::One,
            "lin" => Kind::Lin,
            "exp" => Kind::Exp,
            "gauss" => Kind::Gauss,
            "sinus" => Kind::Sinus,
            "lorentz" => Kind::Lorentz,
            "quad" => Kind::Quad,
            "bilin" => Kind::Bilin,
            _ => panic!("unknown kind {}", s),
        }
    }
}

/// overall factor applied to every kernel and kernel derivative (bits of an f64; 1.0 = off).  The
/// statistics stream uses it for problems posed in UNITS in which the basis functions are ~1e-155
/// (1e-20 in single precision) and the weights ~1e155: every weighted quantity is ordinary, the square
/// of a weight is not representable.  Cases run one after the other, so a global is sufficient; it is
/// read by the closures of builder-made models on whatever thread evaluates them.
pub static KERNEL_GAIN: std::sync::atomic::AtomicU64 = std::sync::atomic::AtomicU64::new(0x3ff0000000000000);
pub fn kernel_gain() -> f64 {
    f64::from_bits(KERNEL_GAIN.load(std::sync::atomic::Ordering::SeqCst))
}
pub fn set_kernel_gain(g: f64) {
    KERNEL_GAIN.store(g.to_bits(), std::sync::atomic::Ordering::SeqCst);
}

pub fn kernel<T: Sc>(kind: Kind, x: &DVector<T>, a: &[T]) -> DVector<T> {
    let g = kernel_gain();
    if g != 1.0 {
        return kernel_raw(kind, x, a) * T::of(g);
    }
    kernel_raw(kind, x, a)
}
pub fn dkernel<T: Sc>(kind: Kind, w: usize, x: &DVector<T>, a: &[T]) -> DVector<T> {
    let g = kernel_gain();
    if g != 1.0 {
        return dkernel_raw(kind, w, x, a) * T::of(g);
    }
    dkernel_raw(kind, w, x, a)
}

pub fn kernel_raw<T: Sc>(kind: Kind, x: &DVector<T>, a: &[T]) -> DVector<T> {
    crate::common::HEARTBEAT.fetch_add(1, std::sync::atomic::Ordering::Relaxed);
    let one = T::of(1.0);
    let two = T::of(2.0);
    match kind {
        Kind::One => x.map(|_| one),
        Kind::Lin => x.clone(),
        Kind::LinSmall => x.map(|x| x * T::of(1e-4)),
        Kind::LinTiny => x.map(|x| x * T::of(3e-10)),
        Kind::Exp => x.map(|x| num_traits::Float::exp(-x / a[0])),
        Kind::Gauss => x.map(|x| num_traits::Float::exp(-(x - a[0]) * (x - a[0]) / (two * a[1] * a[1]))),
        Kind::Sinus => x.map(|x| num_traits::Float::sin(a[0] * x + a[1])),
        Kind::Lorentz => x.map(|x| one / (one + (a[0] * x) * (a[0] * x))),
        Kind::Quad => x.map(|x| a[0] * x + a[0] * a[0]),
        Kind::Bilin => x.map(|x| a[0] * x + a[1]),
        Kind::LorentzAt(k) => {
            let c = T::of(4.0 * k as f64);
            x.map(|x| one / (one + (a[0] * (x - c)) * (a[0] * (x - c))))
        }
    }
}

/// derivative of the kernel with respect to its `w`-th own argument
pub fn dkernel_raw<T: Sc>(kind: Kind, w: usize, x: &DVector<T>, a: &[T]) -> DVector<T> {
    crate::common::HEARTBEAT.fetch_add(1, std::sync::atomic::Ordering::Relaxed);
    let one = T::of(1.0);
    let two = T::of(2.0);
    match (kind, w) {
        (Kind::Exp, 0) => x.map(|x| num_traits::Float::exp(-x / a[0]) * x / (a[0] * a[0])),
        (Kind::Gauss, 0) => x.map(|x| {
            num_traits::Float::exp(-(x - a[0]) * (x - a[0]) / (two * a[1] * a[1])) * (x - a[0]) / (a[1] * a[1])
        }),
        (Kind::Gauss, 1) => x.map(|x| {
            num_traits::Float::exp(-(x - a[0]) * (x - a[0]) / (two * a[1] * a[1])) * (x - a[0]) * (x - a[0])
                / (a[1] * a[1] * a[1])
        }),
        (Kind::Sinus, 0) => x.map(|x| num_traits::Float::cos(a[0] * x + a[1]) * x),
        (Kind::Sinus, 1) => x.map(|x| num_traits::Float::cos(a[0] * x + a[1])),
        (Kind::Lorentz, 0) => x.map(|x| {
            let d = one + (a[0] * x) * (a[0] * x);
            -two * a[0] * x * x / (d * d)
        }),
        (Kind::LorentzAt(k), 0) => {
            let c = T::of(4.0 * k as f64);
            x.map(|x| {
                let d = one + (a[0] * (x - c)) * (a[0] * (x - c));
                -two * a[0] * (x - c) * (x - c) / (d * d)
            })
        }
        (Kind::Quad, 0) => x.map(|x| x + two * a[0]),
        (Kind::Bilin, 0) => x.clone(),
        (Kind::Bilin, 1) => x.map(|_| one),
        _ => panic!("no such derivative"),
    }
}

#[derive(Clone, Debug)]
pub struct FnSpec {
    pub kind: Kind,
    /// indices into the model's parameter list, in the function's own argument order
    pub params: Vec<usize>,
}

#[derive(Clone, Debug)]
pub struct Recipe {
    pub names: Vec<String>,
    pub fns: Vec<FnSpec>,
    pub x: Vec<f64>,
}

impl Recipe {
    pub fn n(&self) -> usize {
        self.x.len()
    }
    pub fn m(&self) -> usize {
        self.fns.len()
    }
    pub fn p(&self) -> usize {
        self.names.len()
    }
    pub fn xv<T: Sc>(&self) -> DVector<T> {
        DVector::from_iterator(self.x.len(), self.x.iter().map(|v| T::of(*v)))
    }
    /// textual form for case files / replay
    pub fn describe(&self) -> String {
        let fns: Vec<String> = self
            .fns
            .iter()
            .map(|f| {
                format!(
                    "{}({})",
                    f.kind.name(),
                    f.params.iter().map(|i| i.to_string()).collect::<Vec<_>>().join(",")
                )
            })
            .collect();
        format!("p={} fns={}", self.p(), fns.join(";"))
    }
    /// Φ(α) computed directly from the kernels (no varpro code involved)
    pub fn phi<T: Sc>(&self, alpha: &[T]) -> DMatrix<T> {
        let x = self.xv::<T>();
        let mut m = DMatrix::from_element(self.n(), self.m(), T::of(0.0));
        for (j, f) in self.fns.iter().enumerate() {
            let args: Vec<T> = f.params.iter().map(|i| alpha[*i]).collect();
            m.set_column(j, &kernel(f.kind, &x, &args));
        }
        m
    }
    /// ∂Φ/∂α_k computed directly from the kernels
    pub fn dphi<T: Sc>(&self, alpha: &[T], k: usize) -> DMatrix<T> {
        let x = self.xv::<T>();
        let mut m = DMatrix::from_element(self.n(), self.m(), T::of(0.0));
        for (j, f) in self.fns.iter().enumerate() {
            let args: Vec<T> = f.params.iter().map(|i| alpha[*i]).collect();
            if let Some(w) = f.params.iter().position(|i| *i == k) {
                m.set_column(j, &dkernel(f.kind, w, &x, &args));
            }
        }
        m
    }

    /// build the model through `SeparableModelBuilder`
    pub fn build_separable<T: Sc>(&self, init: &[T]) -> varpro::model::SeparableModel<T> {
        let mut b = SeparableModelBuilder::<T>::new(self.names.clone());
        for f in self.fns.iter() {
            let kind = f.kind;
            let pn: Vec<String> = f.params.iter().map(|i| self.names[*i].clone()).collect();
            match kind.arity() {
                0 => {
                    b = b.invariant_function(move |x: &DVector<T>| kernel(kind, x, &[]));
                }
                1 => {
                    b = b
                        .function(pn.clone(), move |x: &DVector<T>, a: T| kernel(kind, x, &[a]))
                        .partial_deriv(pn[0].clone(), move |x: &DVector<T>, a: T| dkernel(kind, 0, x, &[a]));
                }
                2 => {
                    b = b
                        .function(pn.clone(), move |x: &DVector<T>, a: T, c: T| kernel(kind, x, &[a, c]))
                        .partial_deriv(pn[0].clone(), move |x: &DVector<T>, a: T, c: T| {
                            dkernel(kind, 0, x, &[a, c])
                        })
                        .partial_deriv(pn[1].clone(), move |x: &DVector<T>, a: T, c: T| {
                            dkernel(kind, 1, x, &[a, c])
                        });
                }
                _ => unreachable!(),
            }
        }
        b.independent_variable(self.xv::<T>())
            .initial_parameters(init.to_vec())
            .build()
            .expect("recipe must give a valid model")
    }
}

impl Recipe {
    /// the builder session of `build_separable` with ONE defect injected into the specification
    /// (C08: whatever the model builder does with an invalid specification, nothing may panic later):
    /// 0 = the first one-parameter function gets a derivative closure of arity 2,
    /// 1 = the first two-parameter function gets a first derivative closure of arity 1,
    /// 2 = the first parametrised function gets its first derivative twice,
    /// 3 = the initial guess has one entry too many and is given directly after the last function
    pub fn build_separable_defect<T: Sc>(&self, init: &[T], defect: usize) -> Result<varpro::model::SeparableModel<T>, String> {
        let mut b = SeparableModelBuilder::<T>::new(self.names.clone());
        let mut done = false;
        for f in self.fns.iter() {
            let kind = f.kind;
            let pn: Vec<String> = f.params.iter().map(|i| self.names[*i].clone()).collect();
            match kind.arity() {
                0 => {
                    b = b.invariant_function(move |x: &DVector<T>| kernel(kind, x, &[]));
                }
                1 => {
                    b = b.function(pn.clone(), move |x: &DVector<T>, a: T| kernel(kind, x, &[a]));
                    if defect == 0 && !done {
                        done = true;
                        b = b.partial_deriv(pn[0].clone(), move |x: &DVector<T>, a: T, _c: T| dkernel(kind, 0, x, &[a]));
                    } else {
                        b = b.partial_deriv(pn[0].clone(), move |x: &DVector<T>, a: T| dkernel(kind, 0, x, &[a]));
                        if defect == 2 && !done {
                            done = true;
                            b = b.partial_deriv(pn[0].clone(), move |x: &DVector<T>, a: T| dkernel(kind, 0, x, &[a]));
                        }
                    }
                }
                2 => {
                    b = b.function(pn.clone(), move |x: &DVector<T>, a: T, c: T| kernel(kind, x, &[a, c]));
                    if defect == 1 && !done {
                        done = true;
                        b = b.partial_deriv(pn[0].clone(), move |x: &DVector<T>, a: T| dkernel(kind, 0, x, &[a, a]));
                    } else {
                        b = b.partial_deriv(pn[0].clone(), move |x: &DVector<T>, a: T, c: T| dkernel(kind, 0, x, &[a, c]));
                        if defect == 2 && !done {
                            done = true;
                            b = b.partial_deriv(pn[0].clone(), move |x: &DVector<T>, a: T, c: T| dkernel(kind, 0, x, &[a, c]));
                        }
                    }
                    b = b.partial_deriv(pn[1].clone(), move |x: &DVector<T>, a: T, c: T| dkernel(kind, 1, x, &[a, c]));
                }
                _ => unreachable!(),
            }
        }
        if defect == 3 {
            let mut v = init.to_vec();
            v.push(T::of(1.0));
            b = b.initial_parameters(v).independent_variable(self.xv::<T>());
        } else {
            b = b.independent_variable(self.xv::<T>()).initial_parameters(init.to_vec());
        }
        b.build().map_err(|e| format!("{:?}", e).split(|c: char| !c.is_alphanumeric()).next().unwrap_or("").to_string())
    }
}

/// error type of hand-written / wrapped models
#[derive(Debug, Clone)]
pub struct HErr(pub String);
impl std::fmt::Display for HErr {
    fn fmt(&self, f: &mut std::fmt::Formatter<'_>) -> std::fmt::Result {
        write!(f, "{}", self.0)
    }
}
impl std::error::Error for HErr {}

/// hand-written model derived from a recipe
#[derive(Clone)]
pub struct HandModel<T: Sc> {
    pub recipe: Arc<Recipe>,
    pub params: DVector<T>,
}
impl<T: Sc> HandModel<T> {
    pub fn new(recipe: &Recipe, init: &[T]) -> Self {
        HandModel {
            recipe: Arc::new(recipe.clone()),
            params: DVector::from_vec(init.to_vec()),
        }
    }
}
impl<T: Sc> SeparableNonlinearModel for HandModel<T> {
    type ScalarType = T;
    type Error = HErr;
    fn parameter_count(&self) -> usize {
        self.recipe.p()
    }
    fn base_function_count(&self) -> usize {
        self.recipe.m()
    }
    fn output_len(&self) -> usize {
        self.recipe.n()
    }
    fn set_params(&mut self, parameters: OVector<T, Dyn>) -> Result<(), HErr> {
        if parameters.len() != self.recipe.p() {
            return Err(HErr("count".into()));
        }
        self.params = parameters;
        Ok(())
    }
    fn params(&self) -> OVector<T, Dyn> {
        self.params.clone()
    }
    fn eval(&self) -> Result<OMatrix<T, Dyn, Dyn>, HErr> {
        Ok(self.recipe.phi(self.params.as_slice()))
    }
    fn eval_partial_deriv(&self, k: usize) -> Result<OMatrix<T, Dyn, Dyn>, HErr> {
        if k >= self.recipe.p() {
            return Err(HErr("index".into()));
        }
        Ok(self.recipe.dphi(self.params.as_slice(), k))
    }
}

/// one logged model call
#[derive(Clone, Debug)]
pub enum Call {
    SetParams(Vec<f64>, bool),
    Eval(bool),
    Deriv(usize, bool),
}

/// shared log + fault schedule for a wrapped model
pub struct Probe {
    pub calls: Mutex<Vec<Call>>,
    pub counter: AtomicUsize,
    /// global call indices >= fail_from and < fail_to fail (half-open); usize::MAX = never
    pub fail_from: AtomicUsize,
    pub fail_to: AtomicUsize,
    pub logging: std::sync::atomic::AtomicBool,
}
impl Probe {
    pub fn new() -> Arc<Self> {
        Arc::new(Probe {
            calls: Mutex::new(Vec::new()),
            counter: AtomicUsize::new(0),
            fail_from: AtomicUsize::new(usize::MAX),
            fail_to: AtomicUsize::new(usize::MAX),
            logging: std::sync::atomic::AtomicBool::new(true),
        })
    }
    pub fn set_fault(&self, from: usize, to: usize) {
        self.fail_from.store(from, Ordering::SeqCst);
        self.fail_to.store(to, Ordering::SeqCst);
    }
    /// returns true if this call must fail
    fn tick(&self) -> bool {
        let i = self.counter.fetch_add(1, Ordering::SeqCst);
        i >= self.fail_from.load(Ordering::SeqCst) && i < self.fail_to.load(Ordering::SeqCst)
    }
    fn log(&self, c: Call) {
        if self.logging.load(Ordering::SeqCst) {
            self.calls.lock().unwrap().push(c);
        }
    }
    pub fn count(&self) -> usize {
        self.counter.load(Ordering::SeqCst)
    }
    pub fn take(&self) -> Vec<Call> {
        std::mem::take(&mut *self.calls.lock().unwrap())
    }
}

/// wraps any model: logs every call, injects faults by global call index
pub struct Wrap<M: SeparableNonlinearModel> {
    pub inner: M,
    pub probe: Arc<Probe>,
}
impl<M: SeparableNonlinearModel + Clone> Clone for Wrap<M> {
    fn clone(&self) -> Self {
        Wrap {
            inner: self.inner.clone(),
            probe: self.probe.clone(),
        }
    }
}
impl<M> SeparableNonlinearModel for Wrap<M>
where
    M: SeparableNonlinearModel,
    M::ScalarType: Sc,
{
    type ScalarType = M::ScalarType;
    type Error = HErr;
    fn parameter_count(&self) -> usize {
        self.inner.parameter_count()
    }
    fn base_function_count(&self) -> usize {
        self.inner.base_function_count()
    }
    fn output_len(&self) -> usize {
        self.inner.output_len()
    }
    fn set_params(&mut self, parameters: OVector<M::ScalarType, Dyn>) -> Result<(), HErr> {
        let fail = self.probe.tick();
        let pv: Vec<f64> = parameters.iter().map(|v| v.f()).collect();
        if fail {
            self.probe.log(Call::SetParams(pv, false));
            return Err(HErr("injected".into()));
        }
        let r = self.inner.set_params(parameters).map_err(|e| HErr(e.to_string()));
        self.probe.log(Call::SetParams(pv, r.is_ok()));
        r
    }
    fn params(&self) -> OVector<M::ScalarType, Dyn> {
        self.inner.params()
    }
    fn eval(&self) -> Result<OMatrix<M::ScalarType, Dyn, Dyn>, HErr> {
        let fail = self.probe.tick();
        if fail {
            self.probe.log(Call::Eval(false));
            return Err(HErr("injected".into()));
        }
        let r = self.inner.eval().map_err(|e| HErr(e.to_string()));
        self.probe.log(Call::Eval(r.is_ok()));
        r
    }
    fn eval_partial_deriv(&self, k: usize) -> Result<OMatrix<M::ScalarType, Dyn, Dyn>, HErr> {
        let fail = self.probe.tick();
        if fail {
            self.probe.log(Call::Deriv(k, false));
            return Err(HErr("injected".into()));
        }
        let r = self.inner.eval_partial_deriv(k).map_err(|e| HErr(e.to_string()));
        self.probe.log(Call::Deriv(k, r.is_ok()));
        r
    }
}

/// a model given by explicit tables (shape experiments): Φ is constant
#[derive(Clone)]
pub struct ConstModel<T: Sc> {
    pub n: usize,
    pub m: usize,
    pub params: DVector<T>,
    pub phi: DMatrix<T>,
    /// 0: evaluates; 1: `eval` fails; 2: `set_params` fails; 3: a basis value is NaN (C18: the
    /// problem must still be BUILT, at the model's parameters, with nothing cached)
    pub mode: u8,
}
impl<T: Sc> SeparableNonlinearModel for ConstModel<T> {
    type ScalarType = T;
    type Error = HErr;
    fn parameter_count(&self) -> usize {
        self.params.len()
    }
    fn base_function_count(&self) -> usize {
        self.m
    }
    fn output_len(&self) -> usize {
        self.n
    }
    fn set_params(&mut self, parameters: OVector<T, Dyn>) -> Result<(), HErr> {
        if self.mode == 2 {
            return Err(HErr("const model: set_params rejected".into()));
        }
        self.params = parameters;
        Ok(())
    }
    fn params(&self) -> OVector<T, Dyn> {
        self.params.clone()
    }
    fn eval(&self) -> Result<OMatrix<T, Dyn, Dyn>, HErr> {
        if self.mode == 1 {
            return Err(HErr("const model: eval failed".into()));
        }
        if self.mode == 3 && self.n > 0 {
            let mut m = self.phi.clone();
            m[(self.n - 1, 0)] = T::of(f64::NAN);
            return Ok(m);
        }
        Ok(self.phi.clone())
    }
    fn eval_partial_deriv(&self, _k: usize) -> Result<OMatrix<T, Dyn, Dyn>, HErr> {
        Ok(DMatrix::from_element(self.n, self.m, T::of(0.0)))
    }
}
