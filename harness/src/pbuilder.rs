//! C18: LevMarProblemBuilder decision table
use crate::common::*;
use crate::models::*;
use nalgebra::{DMatrix, DVector};
use varpro::solvers::levmar::LevMarProblemBuilder;
use levenberg_marquardt::LeastSquaresProblem;
use varpro::util::Weights;

#[derive(Clone, Debug)]
pub enum BCall {
    Obs(usize, usize, Vec<f64>),
    Weights(Vec<f64>),
    Eps(f64),
}

pub fn parse_eps_from_debug<T: Sc>(dbg: &str) -> f64 {
    let key = "svd_epsilon: ";
    let i = dbg.find(key).expect("svd_epsilon in Debug output") + key.len();
    let rest = &dbg[i..];
    let j = rest.find(|c: char| c == ',' || c == ' ' || c == '\n' || c == '}').unwrap();
    T::parse(&rest[..j]).f()
}

pub fn weights_str<T: Sc>(w: &Weights<T, nalgebra::Dyn>) -> String {
    match w {
        Weights::Unit => "none".to_string(),
        Weights::Diagonal(d) => {
            let ones = DVector::from_element(d.size(), T::of(1.0));
            let v = w * ones;
            format!("some {}", vec_str(&v))
        }
    }
}

pub fn canon_builder_err(dbg: &str) -> String {
    // e.g. InvalidLengthOfData { x_length: 3, y_length: 2 }
    let mut out = String::new();
    let name_end = dbg.find(|c: char| c == ' ' || c == '{').unwrap_or(dbg.len());
    out.push_str(&dbg[..name_end]);
    let mut num = String::new();
    for c in dbg[name_end..].chars() {
        if c.is_ascii_digit() {
            num.push(c);
        } else if !num.is_empty() {
            out.push(' ');
            out.push_str(&num);
            num.clear();
        }
    }
    if !num.is_empty() {
        out.push(' ');
        out.push_str(&num);
    }
    out
}

macro_rules! run_ctor {
    ($ctor:ident, $mrhs:tt, $T:ty, $model:expr, $calls:expr) => {{
        let mut b = LevMarProblemBuilder::$ctor($model);
        for c in $calls.iter() {
            b = match c {
                BCall::Obs(r, cc, v) => {
                    let vals: Vec<$T> = v.iter().map(|x| <$T as Sc>::of(*x)).collect();
                    run_ctor!(@obs $mrhs, b, *r, *cc, vals)
                }
                BCall::Weights(w) => {
                    b.weights(DVector::from_vec(w.iter().map(|x| <$T as Sc>::of(*x)).collect::<Vec<$T>>()))
                }
                BCall::Eps(e) => b.epsilon(<$T as Sc>::of(*e)),
            };
        }
        match b.build() {
            Ok(p) => {
                let dbg = format!("{:?}", p);
                let eps = parse_eps_from_debug::<$T>(&dbg);
                let yw: DMatrix<$T> = DMatrix::from_iterator(
                    p.weighted_data().nrows(),
                    p.weighted_data().ncols(),
                    p.weighted_data().iter().copied(),
                );
                // the state exposed right after build(): are all linear coefficients exactly zero
                // (every singular value at or below the threshold) ?
                let cz = match p.linear_coefficients() {
                    Some(c) => {
                        if c.iter().all(|v| *v == <$T as Sc>::of(0.0)) {
                            "1"
                        } else {
                            "0"
                        }
                    }
                    None => "none",
                };
                // ... and: are residuals exposed, and are the reported parameters bit for bit the model's
                // initial parameters (1.0) ?
                let pr = if LeastSquaresProblem::residuals(&p).is_some() { 1 } else { 0 };
                let pv = LeastSquaresProblem::params(&p);
                let pm = if pv.len() == 1 && pv[0] == <$T as Sc>::of(1.0) { 1 } else { 0 };
                format!(
                    "impl ok eps {} yw {} w {}\npost cz={} pr={} pm={}",
                    hex(eps),
                    mat_str(&yw),
                    weights_str(p.weights()),
                    cz,
                    pr,
                    pm
                )
            }
            Err(e) => format!("impl err {}", canon_builder_err(&format!("{:?}", e))),
        }
    }};
    (@obs true, $b:expr, $r:expr, $c:expr, $vals:expr) => {
        $b.observations(DMatrix::from_vec($r, $c, $vals))
    };
    (@obs false, $b:expr, $r:expr, $c:expr, $vals:expr) => {
        $b.observations(DVector::from_vec($vals))
    };
}

fn run_case<T: Sc>(ctor: &str, nmodel: usize, calls: &[BCall], mode: u8) -> String {
    let model = ConstModel::<T> {
        n: nmodel,
        m: 1,
        params: DVector::from_element(1, T::of(1.0)),
        phi: DMatrix::from_element(nmodel, 1, T::of(1.0)),
        mode,
    };
    let r = guarded(|| match ctor {
        "new" => run_ctor!(new, false, T, model.clone(), calls),
        "mrhs" => run_ctor!(mrhs, true, T, model.clone(), calls),
        #[cfg(feature = "parallel")]
        "newpar" => run_ctor!(new_parallel, false, T, model.clone(), calls),
        #[cfg(feature = "parallel")]
        "mrhspar" => run_ctor!(mrhs_parallel, true, T, model.clone(), calls),
        _ => panic!("ctor not available"),
    });
    match r {
        Ok(s) => s,
        Err(m) => format!("impl panic {}", m),
    }
}

fn call_lines<T: Sc>(calls: &[BCall], out: &mut Out) {
    for c in calls {
        match c {
            BCall::Obs(r, cc, v) => {
                let mut s = format!("call obs {} {}", r, cc);
                hexs(&mut s, v.iter().map(|x| T::of(*x)));
                out.line(&s);
            }
            BCall::Weights(w) => {
                let mut s = format!("call weights {}", w.len());
                hexs(&mut s, w.iter().map(|x| T::of(*x)));
                out.line(&s);
            }
            BCall::Eps(e) => out.line(&format!("call eps {}", hex(T::of(*e).f()))),
        }
    }
}

fn small_val(rng: &mut Rng, width: u32) -> f64 {
    // values exactly representable in f32 so that both widths see the same inputs
    let v = (rng.range(0, 64) as f64 - 32.0) / 8.0;
    let _ = width;
    v
}

pub fn emit_case<T: Sc>(out: &mut Out, ctor: &str, nmodel: usize, calls: &[BCall], mode: u8) {
    out.begin(
        "pbuilder",
        &format!("ctor={} nmodel={} width={} mmode={}", ctor, nmodel, T::WIDTH, mode),
    );
    call_lines::<T>(calls, out);
    let r = run_case::<T>(ctor, nmodel, calls, mode);
    out.line(&r);
    out.end();
}

pub fn stream(out: &mut Out, seed: u64, thorough: bool) {
    let mut rng = Rng::new(seed ^ 0x18);
    let mut ctors = vec!["new", "mrhs"];
    if cfg!(feature = "parallel") {
        ctors.push("newpar");
        ctors.push("mrhspar");
    }
    // (2.0 / -4.0 lie above the only singular value |w| of the constant basis column for most
    // weights: the coefficients exposed right after build() must already be truncated)
    let eps_opts: [Option<f64>; 6] = [None, Some(0.5), Some(-0.25), Some(0.0), Some(2.0), Some(-4.0)];
    let reps = if thorough { 6 } else { 1 };
    let mut ncase = 0usize;
    for ctor in ctors.iter() {
        let mrhs = ctor.starts_with("mrhs");
        for nmodel in 0..=3usize {
            // last observation value: None or (rows, cols)
            let mut ys: Vec<Option<(usize, usize)>> = vec![None];
            for r in 0..=3usize {
                if mrhs {
                    for c in 0..=3usize {
                        ys.push(Some((r, c)));
                    }
                } else {
                    ys.push(Some((r, 1)));
                }
            }
            for y in ys.iter() {
                for wl in -1i32..=4 {
                    for e in eps_opts.iter() {
                        for rep in 0..reps {
                            // the three "last" calls
                            let mut last: Vec<BCall> = Vec::new();
                            if let Some((r, c)) = y {
                                let v: Vec<f64> = (0..r * c).map(|_| small_val(&mut rng, 64)).collect();
                                last.push(BCall::Obs(*r, *c, v));
                            }
                            if wl >= 0 {
                                let w: Vec<f64> = (0..wl as usize).map(|_| small_val(&mut rng, 64)).collect();
                                last.push(BCall::Weights(w));
                            }
                            if let Some(e) = e {
                                last.push(BCall::Eps(*e));
                            }
                            rng.shuffle(&mut last);
                            // earlier, overwritten calls of setters that are set later
                            let mut calls: Vec<BCall> = Vec::new();
                            let extra = rng.below(3);
                            for _ in 0..extra {
                                if last.is_empty() {
                                    break;
                                }
                                let which = rng.pick(&last).clone();
                                let dummy = match which {
                                    BCall::Obs(_, _, _) => {
                                        let r = rng.below(4);
                                        let c = if mrhs { rng.below(4) } else { 1 };
                                        BCall::Obs(r, c, (0..r * c).map(|_| small_val(&mut rng, 64)).collect())
                                    }
                                    BCall::Weights(_) => {
                                        let l = rng.below(5);
                                        BCall::Weights((0..l).map(|_| small_val(&mut rng, 64)).collect())
                                    }
                                    BCall::Eps(_) => BCall::Eps(*rng.pick(&[1.0, -3.0, 0.0, 1e-3])),
                                };
                                calls.push(dummy);
                            }
                            calls.extend(last.into_iter());
                            let f32case = (rep + nmodel + (wl + 1) as usize) % 3 == 0;
                            if f32case {
                                emit_case::<f32>(out, ctor, nmodel, &calls, 0);
                            } else {
                                emit_case::<f64>(out, ctor, nmodel, &calls, 0);
                            }
                            // the same table with a model that does not evaluate at its initial
                            // parameters (mode cycled by a case counter): acceptance must not depend on
                            // it, and the built problem sits at the model's parameters with nothing cached
                            ncase += 1;
                            if ncase % 3 == 0 {
                                let mode = 1 + ((ncase / 3) % 3) as u8;
                                if f32case {
                                    emit_case::<f32>(out, ctor, nmodel, &calls, mode);
                                } else {
                                    emit_case::<f64>(out, ctor, nmodel, &calls, mode);
                                }
                            }
                        }
                    }
                }
            }
        }
    }
}
