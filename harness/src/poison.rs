//! poisoning global allocator (C10): every byte of freshly allocated heap memory (including the
//! grown part of a reallocation) is pre-filled with the byte given in `VP_POISON` (two hex digits;
//! unset or `none` = leave the memory as the system allocator returns it).  An element of a result
//! matrix that the library never writes (`UninitMatrix::uninit().assume_init()` in
//! `SeparableModel::eval`, `eval_partial_deriv` and `LevMarProblem::jacobian`) then shows the
//! pattern: `ff` makes it a NaN, `5a` a huge finite number, and two runs with different patterns
//! differ in exactly those elements.
use std::alloc::{GlobalAlloc, Layout, System};
use std::sync::atomic::{AtomicU16, Ordering};

/// 0x100 | byte = fill with `byte`; 0 = off
static PATTERN: AtomicU16 = AtomicU16::new(0);

pub struct Poison;

unsafe impl GlobalAlloc for Poison {
    unsafe fn alloc(&self, layout: Layout) -> *mut u8 {
        let p = System.alloc(layout);
        let pat = PATTERN.load(Ordering::Relaxed);
        if pat != 0 && !p.is_null() {
            std::ptr::write_bytes(p, pat as u8, layout.size());
        }
        p
    }
    unsafe fn dealloc(&self, ptr: *mut u8, layout: Layout) {
        System.dealloc(ptr, layout)
    }
    unsafe fn alloc_zeroed(&self, layout: Layout) -> *mut u8 {
        System.alloc_zeroed(layout)
    }
    unsafe fn realloc(&self, ptr: *mut u8, layout: Layout, new_size: usize) -> *mut u8 {
        let p = System.realloc(ptr, layout, new_size);
        let pat = PATTERN.load(Ordering::Relaxed);
        if pat != 0 && !p.is_null() && new_size > layout.size() {
            std::ptr::write_bytes(p.add(layout.size()), pat as u8, new_size - layout.size());
        }
        p
    }
}

/// read `VP_POISON`; returns the description that goes into the case-file header
pub fn init_from_env() -> String {
    match std::env::var("VP_POISON") {
        Ok(s) if s != "none" && !s.is_empty() => match u8::from_str_radix(&s, 16) {
            Ok(b) => {
                PATTERN.store(0x100 | b as u16, Ordering::SeqCst);
                format!("{:02x}", b)
            }
            Err(_) => {
                eprintln!("VP_POISON must be two hex digits or `none`");
                std::process::exit(2);
            }
        },
        _ => "none".to_string(),
    }
}
