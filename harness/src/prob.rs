//! uniform (object-safe) view of the four problem flavours of the crate
use crate::common::*;
use crate::models::*;
use levenberg_marquardt::{LeastSquaresProblem, LevenbergMarquardt, TerminationReason};
use nalgebra::{DMatrix, DVector, Dyn, OMatrix, OVector};
use varpro::model::SeparableModel;
use varpro::prelude::*;
use varpro::solvers::levmar::{FitResult, LevMarProblem, LevMarProblemBuilder, LevMarSolver};
use varpro::statistics::FitStatistics;

/// builder-made or hand-written model behind one type
pub enum AnyModel<T: Sc> {
    Built(SeparableModel<T>),
    Hand(HandModel<T>),
    Const(ConstModel<T>),
    Dyn(Box<dyn SeparableNonlinearModel<ScalarType = T, Error = HErr> + Send + Sync>),
    /// a row-scaling / failing wrapper around another harness model (clonable when the inner model is)
    Row(Box<crate::twins::RowModel<T>>),
}
/// `FitStatistics<Model>: Clone` carries the bound `Model: Clone` although no model is stored in it;
/// the harness' model enum satisfies the bound (only the hand-written variants can really be cloned)
impl<T: Sc> Clone for AnyModel<T> {
    fn clone(&self) -> Self {
        match self {
            AnyModel::Hand(m) => AnyModel::Hand(m.clone()),
            AnyModel::Const(m) => AnyModel::Const(m.clone()),
            AnyModel::Row(m) => AnyModel::Row(Box::new((**m).clone())),
            AnyModel::Built(_) => panic!("this harness model cannot be cloned (builder-made)"),
            AnyModel::Dyn(_) => panic!("this harness model cannot be cloned (boxed)"),
        }
    }
}

impl<T: Sc> SeparableNonlinearModel for AnyModel<T> {
    type ScalarType = T;
    type Error = HErr;
    fn parameter_count(&self) -> usize {
        match self {
            AnyModel::Built(m) => m.parameter_count(),
            AnyModel::Hand(m) => m.parameter_count(),
            AnyModel::Const(m) => m.parameter_count(),
            AnyModel::Row(m) => m.parameter_count(),
            AnyModel::Dyn(m) => m.parameter_count(),
        }
    }
    fn base_function_count(&self) -> usize {
        match self {
            AnyModel::Built(m) => m.base_function_count(),
            AnyModel::Hand(m) => m.base_function_count(),
            AnyModel::Const(m) => m.base_function_count(),
            AnyModel::Row(m) => m.base_function_count(),
            AnyModel::Dyn(m) => m.base_function_count(),
        }
    }
    fn output_len(&self) -> usize {
        match self {
            AnyModel::Built(m) => m.output_len(),
            AnyModel::Hand(m) => m.output_len(),
            AnyModel::Const(m) => m.output_len(),
            AnyModel::Row(m) => m.output_len(),
            AnyModel::Dyn(m) => m.output_len(),
        }
    }
    fn set_params(&mut self, p: OVector<T, Dyn>) -> Result<(), HErr> {
        match self {
            AnyModel::Built(m) => m.set_params(p).map_err(|e| HErr(e.to_string())),
            AnyModel::Hand(m) => m.set_params(p),
            AnyModel::Const(m) => m.set_params(p),
            AnyModel::Row(m) => m.set_params(p),
            AnyModel::Dyn(m) => m.set_params(p),
        }
    }
    fn params(&self) -> OVector<T, Dyn> {
        match self {
            AnyModel::Built(m) => m.params(),
            AnyModel::Hand(m) => m.params(),
            AnyModel::Const(m) => m.params(),
            AnyModel::Row(m) => m.params(),
            AnyModel::Dyn(m) => m.params(),
        }
    }
    fn eval(&self) -> Result<OMatrix<T, Dyn, Dyn>, HErr> {
        match self {
            AnyModel::Built(m) => m.eval().map_err(|e| HErr(e.to_string())),
            AnyModel::Hand(m) => m.eval(),
            AnyModel::Const(m) => m.eval(),
            AnyModel::Row(m) => m.eval(),
            AnyModel::Dyn(m) => m.eval(),
        }
    }
    fn eval_partial_deriv(&self, k: usize) -> Result<OMatrix<T, Dyn, Dyn>, HErr> {
        match self {
            AnyModel::Built(m) => m.eval_partial_deriv(k).map_err(|e| HErr(e.to_string())),
            AnyModel::Hand(m) => m.eval_partial_deriv(k),
            AnyModel::Const(m) => m.eval_partial_deriv(k),
            AnyModel::Row(m) => m.eval_partial_deriv(k),
            AnyModel::Dyn(m) => m.eval_partial_deriv(k),
        }
    }
}

pub type WM<T> = Wrap<AnyModel<T>>;

pub fn make_model<T: Sc>(recipe: &Recipe, init: &[T], built: bool, probe: &std::sync::Arc<Probe>) -> WM<T> {
    let inner = if built {
        AnyModel::Built(recipe.build_separable(init))
    } else {
        AnyModel::Hand(HandModel::new(recipe, init))
    };
    Wrap {
        inner,
        probe: probe.clone(),
    }
}

pub fn term_tag(t: &TerminationReason) -> String {
    match t {
        TerminationReason::User(s) => format!("User({})", s.replace(' ', "_")),
        TerminationReason::Numerical(s) => format!("Numerical({})", s.replace(' ', "_")),
        TerminationReason::ResidualsZero => "ResidualsZero".into(),
        TerminationReason::Orthogonal => "Orthogonal".into(),
        TerminationReason::Converged { ftol, xtol } => format!("Converged(ftol={},xtol={})", ftol, xtol),
        TerminationReason::NoImprovementPossible(s) => format!("NoImprovementPossible({})", s.replace(' ', "_")),
        TerminationReason::LostPatience => "LostPatience".into(),
        TerminationReason::NoParameters => "NoParameters".into(),
        TerminationReason::NoResiduals => "NoResiduals".into(),
        TerminationReason::WrongDimensions(s) => format!("WrongDimensions({})", s.replace(' ', "_")),
    }
}

pub struct FitOut<T: Sc> {
    pub ok: bool,
    pub was_successful: bool,
    pub termination: String,
    pub term_successful: bool,
    pub evaluations: usize,
    pub objective: T,
    pub nonlinear: DVector<T>,
    pub coef: Option<DMatrix<T>>,
    pub best_fit: Option<DMatrix<T>>,
    pub problem: Box<dyn DynP<T>>,
    /// model calls made when `fit` returned (before the harness' own accessor calls)
    pub calls_at_return: usize,
}

pub struct StatsOut<T: Sc> {
    pub fit: FitOut<T>,
    pub stats: Option<StatVals<T>>,
}

pub struct StatVals<T: Sc> {
    pub covariance: DMatrix<T>,
    pub correlation: DMatrix<T>,
    pub weighted_residuals: DVector<T>,
    pub reduced_chi2: T,
    pub sigma: T,
    pub lin_var: DVector<T>,
    pub nonlin_var: DVector<T>,
    /// the same accessors read from a CLONE of the statistics object
    pub clone_covariance: DMatrix<T>,
    pub clone_lin_var: Result<DVector<T>, String>,
    pub clone_nonlin_var: Result<DVector<T>, String>,
    pub clone_chi2: T,
    /// `correlation_matrix()` (the older accessor) next to `calculate_correlation_matrix()`
    pub correlation_alias: DMatrix<T>,
    pub stats: Box<dyn Fn(T) -> Result<DVector<T>, String> + Send>,
}

pub trait DynP<T: Sc>: Send {
    fn set(&mut self, a: &DVector<T>);
    fn params(&self) -> DVector<T>;
    fn res(&self) -> Option<DVector<T>>;
    fn jac(&self) -> Option<DMatrix<T>>;
    fn coef(&self) -> Option<DMatrix<T>>;
    fn yw(&self) -> DMatrix<T>;
    fn debug(&self) -> String;
    fn weights_str(&self) -> String;
    fn fit(self: Box<Self>, lm: LevenbergMarquardt<T>) -> FitOut<T>;
    fn fit_stats(self: Box<Self>, lm: LevenbergMarquardt<T>) -> StatsOut<T>;
    /// ONE `LevMarSolver` value is used for two consecutive `fit_with_statistics` calls: first on
    /// `first` (same flavour, result discarded), then on `self` (result returned)
    fn fit_stats_after(self: Box<Self>, first: Box<dyn DynP<T>>, lm: LevenbergMarquardt<T>) -> StatsOut<T>;
    fn into_any(self: Box<Self>) -> Box<dyn std::any::Any>;
    fn minimize_raw(self: Box<Self>, lm: LevenbergMarquardt<T>) -> (Box<dyn DynP<T>>, String, usize, T);
    fn to_seq(self: Box<Self>) -> Box<dyn DynP<T>>;
    /// `into_parallel()` (which, like `into_sequential`, yields the sequential type)
    fn to_par(self: Box<Self>) -> Box<dyn DynP<T>>;
    /// `Clone` of the problem (only possible for the clonable harness models)
    fn try_clone(&self) -> Option<Box<dyn DynP<T>>>;
}

fn fit_out<T: Sc, const MRHS: bool>(ok: bool, r: FitResult<WM<T>, MRHS>, coef: Option<DMatrix<T>>, best: Option<DMatrix<T>>, calls: usize) -> FitOut<T>
where
    LevMarProblem<WM<T>, MRHS, false>: DynP<T> + 'static,
{
    FitOut {
        ok,
        was_successful: r.was_successful(),
        termination: term_tag(&r.minimization_report.termination),
        term_successful: r.minimization_report.termination.was_successful(),
        evaluations: r.minimization_report.number_of_evaluations,
        objective: r.minimization_report.objective_function,
        nonlinear: r.nonlinear_parameters(),
        coef,
        best_fit: best,
        problem: Box::new(r.problem),
        calls_at_return: calls,
    }
}

fn view_to_mat<T: Sc, R: nalgebra::Dim, C: nalgebra::Dim, S: nalgebra::RawStorage<T, R, C>>(
    v: &nalgebra::Matrix<T, R, C, S>,
) -> DMatrix<T> {
    DMatrix::from_iterator(v.nrows(), v.ncols(), v.iter().copied())
}

macro_rules! impl_dynp {
    ($mrhs:tt, $par:tt) => {
        impl<T: Sc> DynP<T> for LevMarProblem<WM<T>, $mrhs, $par> {
            fn set(&mut self, a: &DVector<T>) {
                LeastSquaresProblem::set_params(self, a)
            }
            fn params(&self) -> DVector<T> {
                LeastSquaresProblem::params(self)
            }
            fn res(&self) -> Option<DVector<T>> {
                LeastSquaresProblem::residuals(self)
            }
            fn jac(&self) -> Option<DMatrix<T>> {
                LeastSquaresProblem::jacobian(self)
            }
            fn coef(&self) -> Option<DMatrix<T>> {
                self.linear_coefficients().map(|c| view_to_mat(&c))
            }
            fn yw(&self) -> DMatrix<T> {
                view_to_mat(&self.weighted_data())
            }
            fn debug(&self) -> String {
                format!("{:?}", self)
            }
            fn weights_str(&self) -> String {
                crate::pbuilder::weights_str(self.weights())
            }
            fn fit(self: Box<Self>, lm: LevenbergMarquardt<T>) -> FitOut<T> {
                // the library's own default solver whenever the default configuration is asked for (the defaults
                // of `impl Default for LevMarSolver` are part of what is checked)
                let solver = if lm == LevenbergMarquardt::new() {
                    LevMarSolver::<WM<T>, $mrhs>::default()
                } else {
                    LevMarSolver::<WM<T>, $mrhs>::with_solver(lm)
                };
                match solver.fit(*self) {
                    Ok(r) => {
                        let calls = r.problem.model().probe.count();
                        let c = r.linear_coefficients().map(|c| view_to_mat(&c));
                        let b = r.best_fit().map(|c| view_to_mat(&c));
                        fit_out(true, r, c, b, calls)
                    }
                    Err(r) => {
                        let calls = r.problem.model().probe.count();
                        let c = r.linear_coefficients().map(|c| view_to_mat(&c));
                        let b = r.best_fit().map(|c| view_to_mat(&c));
                        fit_out(false, r, c, b, calls)
                    }
                }
            }
            fn fit_stats(self: Box<Self>, lm: LevenbergMarquardt<T>) -> StatsOut<T> {
                impl_dynp!(@stats $mrhs, self, lm)
            }
            fn fit_stats_after(self: Box<Self>, first: Box<dyn DynP<T>>, lm: LevenbergMarquardt<T>) -> StatsOut<T> {
                impl_dynp!(@statsafter $mrhs, self, first, lm)
            }
            fn into_any(self: Box<Self>) -> Box<dyn std::any::Any> {
                self
            }
            fn minimize_raw(self: Box<Self>, lm: LevenbergMarquardt<T>) -> (Box<dyn DynP<T>>, String, usize, T) {
                #[allow(deprecated)]
                let (p, rep) = lm.minimize(*self);
                (
                    Box::new(p),
                    term_tag(&rep.termination),
                    rep.number_of_evaluations,
                    rep.objective_function,
                )
            }
            fn to_seq(self: Box<Self>) -> Box<dyn DynP<T>> {
                Box::new((*self).into_sequential())
            }
            fn to_par(self: Box<Self>) -> Box<dyn DynP<T>> {
                Box::new((*self).into_parallel())
            }
            fn try_clone(&self) -> Option<Box<dyn DynP<T>>> {
                match guarded(|| self.clone()) {
                    Ok(p) => Some(Box::new(p)),
                    Err(m) => {
                        if std::env::var("VP_DEBUG").is_ok() {
                            eprintln!("clone failed: {}", m);
                        }
                        None
                    }
                }
            }
        }
    };
    (@stats false, $self:ident, $lm:ident) => {{
        let solver = if $lm == LevenbergMarquardt::new() {
            LevMarSolver::<WM<T>, false>::default()
        } else {
            LevMarSolver::<WM<T>, false>::with_solver($lm)
        };
        match solver.fit_with_statistics(*$self) {
            Ok((r, st)) => {
                let calls = r.problem.model().probe.count();
                let c = r.linear_coefficients().map(|c| view_to_mat(&c));
                let b = r.best_fit().map(|c| view_to_mat(&c));
                let vals = stat_vals(st);
                StatsOut {
                    fit: fit_out(true, r, c, b, calls),
                    stats: Some(vals),
                }
            }
            Err(r) => {
                let calls = r.problem.model().probe.count();
                let c = r.linear_coefficients().map(|c| view_to_mat(&c));
                let b = r.best_fit().map(|c| view_to_mat(&c));
                StatsOut {
                    fit: fit_out(false, r, c, b, calls),
                    stats: None,
                }
            }
        }
    }};
    (@statsafter false, $self:ident, $first:ident, $lm:ident) => {{
        let solver = if $lm == LevenbergMarquardt::new() {
            LevMarSolver::<WM<T>, false>::default()
        } else {
            LevMarSolver::<WM<T>, false>::with_solver($lm)
        };
        if let Ok(f) = $first.into_any().downcast::<Self>() {
            let _ = solver.fit_with_statistics(*f);
        }
        match solver.fit_with_statistics(*$self) {
            Ok((r, st)) => {
                let calls = r.problem.model().probe.count();
                let c = r.linear_coefficients().map(|c| view_to_mat(&c));
                let b = r.best_fit().map(|c| view_to_mat(&c));
                let vals = stat_vals(st);
                StatsOut {
                    fit: fit_out(true, r, c, b, calls),
                    stats: Some(vals),
                }
            }
            Err(r) => {
                let calls = r.problem.model().probe.count();
                let c = r.linear_coefficients().map(|c| view_to_mat(&c));
                let b = r.best_fit().map(|c| view_to_mat(&c));
                StatsOut {
                    fit: fit_out(false, r, c, b, calls),
                    stats: None,
                }
            }
        }
    }};
    (@statsafter true, $self:ident, $first:ident, $lm:ident) => {{
        let _ = ($first, $lm);
        panic!("fit_with_statistics is not available for multiple right hand sides")
    }};
    (@stats true, $self:ident, $lm:ident) => {{
        let _ = $lm;
        panic!("fit_with_statistics is not available for multiple right hand sides")
    }};
}

fn stat_vals<T: Sc>(st: FitStatistics<WM<T>>) -> StatVals<T> {
    #[allow(deprecated)]
    let corr = st.calculate_correlation_matrix();
    let st2 = st.clone();
    #[allow(deprecated)]
    let corr_alias = st.correlation_matrix();
    StatVals {
        correlation_alias: corr_alias,
        clone_covariance: st2.covariance_matrix().clone(),
        clone_lin_var: guarded(|| st2.linear_coefficients_variance()),
        clone_nonlin_var: guarded(|| st2.nonlinear_parameters_variance()),
        clone_chi2: st2.reduced_chi2(),
        covariance: st.covariance_matrix().clone(),
        correlation: corr,
        weighted_residuals: st.weighted_residuals(),
        reduced_chi2: st.reduced_chi2(),
        sigma: st.regression_standard_error(),
        lin_var: st.linear_coefficients_variance(),
        nonlin_var: st.nonlinear_parameters_variance(),
        stats: Box::new(move |p: T| guarded(|| st.confidence_band_radius(p))),
    }
}

impl_dynp!(false, false);
impl_dynp!(true, false);
impl_dynp!(false, true);
impl_dynp!(true, true);

#[derive(Clone, Copy, Debug, PartialEq)]
pub enum Flavour {
    New,
    Mrhs,
    NewPar,
    MrhsPar,
}
impl Flavour {
    pub fn name(self) -> &'static str {
        match self {
            Flavour::New => "new",
            Flavour::Mrhs => "mrhs",
            Flavour::NewPar => "newpar",
            Flavour::MrhsPar => "mrhspar",
        }
    }
    pub fn is_mrhs(self) -> bool {
        matches!(self, Flavour::Mrhs | Flavour::MrhsPar)
    }
    pub fn is_par(self) -> bool {
        matches!(self, Flavour::NewPar | Flavour::MrhsPar)
    }
    pub fn seq(self) -> Flavour {
        match self {
            Flavour::NewPar => Flavour::New,
            Flavour::MrhsPar => Flavour::Mrhs,
            f => f,
        }
    }
    pub fn par(self) -> Flavour {
        match self {
            Flavour::New => Flavour::NewPar,
            Flavour::Mrhs => Flavour::MrhsPar,
            f => f,
        }
    }
}

/// build a problem through the public builder; Err carries the canonical error text
pub fn build_problem<T: Sc>(
    fl: Flavour,
    model: WM<T>,
    y: &DMatrix<T>,
    w: Option<&DVector<T>>,
    eps: Option<T>,
) -> Result<Box<dyn DynP<T>>, String> {
    // the ORDER of the builder calls is cycled over all six permutations from one build to the next
    // (a deterministic global counter), and one build in five first makes each call with a junk value
    // that the real call then overwrites: a problem must not depend on either
    static BUILDS: std::sync::atomic::AtomicUsize = std::sync::atomic::AtomicUsize::new(0);
    let k = BUILDS.fetch_add(1, std::sync::atomic::Ordering::Relaxed);
    const ORDERS: [[u8; 3]; 6] = [[0, 1, 2], [1, 0, 2], [2, 1, 0], [0, 2, 1], [1, 2, 0], [2, 0, 1]];
    let order = ORDERS[k % 6];
    let junk = k % 5 == 3;
    macro_rules! go {
        ($ctor:ident, $obs:expr) => {{
            let mut b = LevMarProblemBuilder::$ctor(model);
            if junk {
                if eps.is_some() {
                    b = b.epsilon(T::of(0.25));
                }
                if let Some(w) = w {
                    b = b.weights(w.map(|v| v * T::of(3.0) + T::of(1.0)));
                }
                b = b.observations($obs.map(|v| v * T::of(-2.0)));
            }
            for step in order {
                match step {
                    0 => b = b.observations($obs),
                    1 => {
                        if let Some(w) = w {
                            b = b.weights(w.clone());
                        }
                    }
                    _ => {
                        if let Some(e) = eps {
                            b = b.epsilon(e);
                        }
                    }
                }
            }
            match b.build() {
                Ok(p) => Ok(Box::new(p) as Box<dyn DynP<T>>),
                Err(e) => Err(crate::pbuilder::canon_builder_err(&format!("{:?}", e))),
            }
        }};
    }
    match fl {
        Flavour::New => go!(new, y.column(0).into_owned()),
        Flavour::Mrhs => go!(mrhs, y.clone()),
        Flavour::NewPar => go!(new_parallel, y.column(0).into_owned()),
        Flavour::MrhsPar => go!(mrhs_parallel, y.clone()),
    }
}
