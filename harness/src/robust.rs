//! C08: construction, parameter updates, fitting and statistics on extreme inputs (IEEE specials in
//! x, y, w, α, ε; degenerate shapes; far starts) under a watchdog; outcome classes only
use crate::common::*;
use crate::fit::*;
use crate::gen::*;
use crate::models::*;
use crate::prob::*;
use crate::state::*;
use crate::twins::{any_model, wrap_any, RowModel};
use nalgebra::{DMatrix, DVector};

pub static HANGS: std::sync::atomic::AtomicUsize = std::sync::atomic::AtomicUsize::new(0);

const SPECIALS: [f64; 14] = [
    0.0,
    -0.0,
    5e-324,
    -5e-324,
    1e-300,
    1e308,
    -1e308,
    f64::INFINITY,
    f64::NEG_INFINITY,
    f64::NAN,
    -1e-3,
    1e-3,
    1e154,
    -1e160,
];

fn special<T: Sc>(rng: &mut Rng) -> T {
    T::of(*rng.pick(&SPECIALS))
}

/// one entry of the basis matrix (`which` = None) or of the `which`-th partial-derivative matrix
/// replaced by a special value (what=entry-special / deriv-special)
pub type Poke<T> = Option<(Option<usize>, usize, usize, T)>;

fn poked<T: Sc>(mut m: DMatrix<T>, poke: &Poke<T>, which: Option<usize>) -> DMatrix<T> {
    if let Some((w, i, j, v)) = poke {
        if *w == which && *i < m.nrows() && *j < m.ncols() {
            m[(*i, *j)] = *v;
        }
    }
    m
}

fn emit_tables_poked<T: Sc>(out: &mut Out, recipe: &Recipe, alpha: &[T], poke: &Poke<T>, w: &Option<Vec<T>>) {
    let phi = poked(recipe.phi::<T>(alpha), poke, None);
    if crate::state::svd_breaks(&phi, w) {
        out.line(" svdq nonfinite");
    }
    out.line(&format!(" phi ok {}", mat_str(&phi)));
    for k in 0..recipe.p() {
        out.line(&format!(" d {} ok {}", k, mat_str(&poked(recipe.dphi::<T>(alpha, k), poke, Some(k)))));
    }
}

fn build_guarded<T: Sc>(
    c: &StateCase<T>,
    init: Vec<T>,
    secs: u64,
    poke: Poke<T>,
) -> Option<Result<Result<Box<dyn DynP<T>>, String>, String>> {
    let recipe = c.recipe.clone();
    let built = c.built;
    let fl = c.flavour;
    let y = c.y.clone();
    let w = c.w.clone();
    let eps = c.eps;
    with_deadline(secs, move || {
        let m = match poke {
            None => wrap_any(any_model(&recipe, &init, built)),
            Some((which, i, j, v)) => wrap_any(AnyModel::Row(Box::new(RowModel {
                inner: any_model(&recipe, &init, built),
                scale: None,
                overwrite: vec![],
                entries: if which.is_none() { vec![(i, j, v)] } else { vec![] },
                fail_deriv: None,
                dentries: match which {
                    Some(k) => vec![(k, i, j, v)],
                    None => vec![],
                },
                fail_eval: None,
                fail_set: None,
            }))),
        };
        let wv = w.map(DVector::from_vec);
        build_problem(fl, m, &y, wv.as_ref(), eps)
    })
}

pub fn emit_robust_case<T: Sc>(
    out: &mut Out,
    c: &StateCase<T>,
    second: Option<Vec<T>>,
    cfg: &LmCfg,
    with_stats: bool,
    what: &str,
    poke: Poke<T>,
) {
    out.begin(
        "robust",
        &format!("{} what={} stats={} profile={}", header_common(c), what, if with_stats { 1 } else { 0 }, crate::stats::profile_name()),
    );
    emit_inputs(out, c);
    out.line(&cfg.describe::<T>());
    out.line(&format!("step build {}", slice_str(&c.init)));
    emit_tables_poked(out, &c.recipe, &c.init, &poke, &c.w);
    let mut prob = match build_guarded(c, c.init.clone(), 5, poke) {
        None => {
            out.line("outcome build hang");
            HANGS.fetch_add(1, std::sync::atomic::Ordering::SeqCst);
            out.end();
            return;
        }
        Some(Err(m)) => {
            out.line(&format!("outcome build panic {}", m));
            out.end();
            return;
        }
        Some(Ok(Err(e))) => {
            out.line(&format!("outcome build err {}", e));
            out.end();
            return;
        }
        Some(Ok(Ok(p))) => {
            out.line("outcome build ok");
            p
        }
    };
    match guarded(|| {
        let mut o2 = Out::new();
        emit_outputs(&mut o2, "impl", prob.as_ref());
        o2.buf
    }) {
        Ok(s) => out.buf.push_str(&s),
        Err(m) => out.line(&format!("outcome query panic {}", m)),
    }
    // one case in four (cycled by a counter): first a parameter vector of the WRONG LENGTH (P+1, P-1 or
    // 0 entries) is applied through `LeastSquaresProblem::set_params`.  A model honouring the contract
    // rejects it; the problem must end up in the rejected state (no residuals) without panicking, and the
    // following steps go on as usual (round 11)
    {
        static WRONG: std::sync::atomic::AtomicUsize = std::sync::atomic::AtomicUsize::new(0);
        let k = WRONG.fetch_add(1, std::sync::atomic::Ordering::SeqCst);
        if k % 4 == 1 {
            let p = c.recipe.p();
            let len = match (k / 4) % 3 {
                0 => p + 1,
                1 => p - 1,
                _ => 0,
            };
            let bad: Vec<T> = (0..len).map(|i| T::of(1.5 + i as f64)).collect();
            let av = DVector::from_vec(bad);
            let r = with_deadline(5, move || {
                prob.set(&av);
                prob
            });
            match r {
                None => {
                    out.line("outcome wrongset hang");
                    HANGS.fetch_add(1, std::sync::atomic::Ordering::SeqCst);
                    out.end();
                    return;
                }
                Some(Err(m)) => {
                    out.line(&format!("outcome wrongset panic len={} {}", len, m));
                    out.end();
                    return;
                }
                Some(Ok(pb)) => {
                    prob = pb;
                    let pres = matches!(guarded(|| prob.res().is_some()), Ok(true));
                    let pl = guarded(|| prob.params().len()).unwrap_or(usize::MAX);
                    out.line(&format!("outcome wrongset ok len={} res={} plen={} p={}", len, if pres { "some" } else { "none" }, pl, p));
                    // back to the state before: re-apply the parameters the problem reports
                    let cur = prob.params();
                    if cur.len() == p {
                        let _ = guarded(|| prob.set(&cur));
                    }
                }
            }
        }
    }
    if let Some(a2) = second {
        out.line(&format!("step set {}", slice_str(&a2)));
        emit_tables_poked(out, &c.recipe, &a2, &poke, &c.w);
        let av = DVector::from_vec(a2);
        let r = with_deadline(5, move || {
            prob.set(&av);
            prob
        });
        match r {
            None => {
                out.line("outcome set hang");
                HANGS.fetch_add(1, std::sync::atomic::Ordering::SeqCst);
                out.end();
                return;
            }
            Some(Err(m)) => {
                out.line(&format!("outcome set panic {}", m));
                out.end();
                return;
            }
            Some(Ok(p)) => {
                out.line("outcome set ok");
                prob = p;
            }
        }
        match guarded(|| {
            let mut o2 = Out::new();
            emit_outputs(&mut o2, "impl", prob.as_ref());
            o2.buf
        }) {
            Ok(s) => out.buf.push_str(&s),
            Err(m) => out.line(&format!("outcome query panic {}", m)),
        }
    }
    let lm = cfg.build::<T>();
    let r = with_deadline(10, move || {
        if with_stats {
            let so = prob.fit_stats(lm);
            let band = so.stats.as_ref().map(|s| (s.stats)(T::of(0.9)).is_ok());
            (so.fit, so.stats.is_some(), band)
        } else {
            (prob.fit(lm), false, None)
        }
    });
    match r {
        None => {
            out.line("outcome fit hang");
            HANGS.fetch_add(1, std::sync::atomic::Ordering::SeqCst);
        }
        Some(Err(m)) => out.line(&format!("outcome fit panic {}", m)),
        Some(Ok((f, has_stats, band))) => {
            out.line(&format!(
                "outcome fit {} term={} evals={} hasstats={} band={}",
                if f.ok { "ok" } else { "err" },
                f.termination,
                f.evaluations,
                if has_stats { 1 } else { 0 },
                match band {
                    Some(true) => "ok",
                    Some(false) => "panic",
                    None => "-",
                }
            ));
            let finite_res = f.problem.res().map(|r| r.iter().all(|v| num_traits::Float::is_finite(*v)));
            out.line(&format!(
                "final res={} coef={}",
                match finite_res {
                    Some(true) => "finite",
                    Some(false) => "nonfinite",
                    None => "none",
                },
                if f.problem.coef().is_some() { "some" } else { "none" }
            ));
        }
    }
    out.end();
}

fn exp_family(rng: &mut Rng, n: usize) -> Recipe {
    let two = rng.chance(0.6);
    let mut fns = vec![FnSpec { kind: Kind::Exp, params: vec![0] }];
    let mut names = vec!["tau1".to_string()];
    if two {
        fns.push(FnSpec { kind: Kind::Exp, params: vec![1] });
        names.push("tau2".to_string());
    }
    if rng.chance(0.5) {
        fns.push(FnSpec { kind: Kind::One, params: vec![] });
    }
    Recipe { names, fns, x: (0..n).map(|i| i as f64 * 0.5).collect() }
}

/// an INVALID model specification (one defect, cycled): the model builder must answer with an error
/// value; if a model comes out nevertheless, a problem is built from it and fitted - whatever happens,
/// nothing may panic or hang
fn emit_spec_defect_case<T: Sc>(out: &mut Out, c: &StateCase<T>, defect: usize) {
    out.begin("robustspec", &format!("{} defect={}", header_common(c), defect));
    let recipe = c.recipe.clone();
    let init = c.init.clone();
    match guarded(|| recipe.build_separable_defect::<T>(&init, defect)) {
        Err(m) => out.line(&format!("outcome modelbuild panic {}", m)),
        Ok(Err(e)) => out.line(&format!("outcome modelbuild err {}", e)),
        Ok(Ok(model)) => {
            out.line("outcome modelbuild ok");
            let y = c.y.clone();
            let w = c.w.clone().map(DVector::from_vec);
            let fl = c.flavour;
            let eps = c.eps;
            let r = with_deadline(10, move || {
                let m = wrap_any(AnyModel::Built(model));
                match build_problem(fl, m, &y, w.as_ref(), eps) {
                    Err(e) => format!("builderr {}", e),
                    Ok(p) => {
                        let mut o2 = Out::new();
                        emit_outputs(&mut o2, "impl", p.as_ref());
                        let f = p.fit(LmCfg::default_cfg().build::<T>());
                        format!("fit {}", if f.ok { "ok" } else { "err" })
                    }
                }
            });
            match r {
                None => {
                    out.line("outcome use hang");
                    HANGS.fetch_add(1, std::sync::atomic::Ordering::SeqCst);
                }
                Some(Err(m)) => out.line(&format!("outcome use panic {}", m)),
                Some(Ok(s)) => out.line(&format!("outcome use {}", s.replace(' ', "_"))),
            }
        }
    }
    out.end();
}

/// INCONSISTENT builder inputs (weights with N·S, N+1, N-1, 2N or 0 entries; observations with N±1 rows)
/// on multiple-right-hand-side builders: `build()` answers with an error value, it never panics (round 13)
fn emit_builder_misuse_case<T: Sc>(out: &mut Out, c: &StateCase<T>, variant: usize) {
    use varpro::solvers::levmar::LevMarProblemBuilder;
    out.begin("robustspec", &format!("{} defect=builder{}", header_common(c), variant));
    let n = c.recipe.n();
    let s = c.y.ncols().max(2);
    let y = DMatrix::from_fn(if variant == 5 { n + 1 } else if variant == 6 { n.saturating_sub(1) } else { n }, s, |i, j| T::of(0.5 + i as f64 + 0.25 * j as f64));
    let wl = match variant {
        0 => n * s,
        1 => n + 1,
        2 => n.saturating_sub(1),
        3 => 2 * n,
        4 => 0,
        _ => n,
    };
    let w = DVector::from_fn(wl, |i, _| T::of(1.0 + 0.5 * i as f64));
    let model = wrap_any(any_model(&c.recipe, &c.init, c.built));
    let par = c.flavour.is_par();
    let r = guarded(move || {
        if par {
            LevMarProblemBuilder::mrhs_parallel(model).observations(y).weights(w).build().map(|_| ()).map_err(|e| format!("{:?}", e))
        } else {
            LevMarProblemBuilder::mrhs(model).observations(y).weights(w).build().map(|_| ()).map_err(|e| format!("{:?}", e))
        }
    });
    match r {
        Err(m) => out.line(&format!("outcome build panic {}", m)),
        Ok(Err(e)) => out.line(&format!("outcome build err {}", e.split(|ch: char| !ch.is_alphanumeric()).next().unwrap_or(""))),
        Ok(Ok(())) => out.line("outcome build ok"),
    }
    out.end();
}

pub fn stream(out: &mut Out, seed: u64, thorough: bool) {
    let mut rng = Rng::new(seed ^ 0xC08);
    for i in 0..(if thorough { 140 } else { 28 }) {
        let c = random_state_case::<f64>(&mut rng, false, i);
        emit_builder_misuse_case::<f64>(out, &c, i % 7);
    }
    let n = if thorough { 6000 } else { 300 };
    // invalid specifications first (round 12): 24 (thorough 120) recipes x the four defects
    for i in 0..(if thorough { 120 } else { 24 }) {
        let c = random_state_case::<f64>(&mut rng, false, i);
        emit_spec_defect_case::<f64>(out, &c, i % 4);
    }
    for i in 0..n {
        // a hang is a violation already; hung watchdog threads keep burning CPU, so stop early
        if HANGS.load(std::sync::atomic::Ordering::SeqCst) >= 3 {
            break;
        }
        if i % 3 == 2 {
            one::<f32>(out, &mut rng, i, thorough);
        } else {
            one::<f64>(out, &mut rng, i, thorough);
        }
    }
}

fn one<T: Sc>(out: &mut Out, rng: &mut Rng, i: usize, thorough: bool) {
    let kind = i % 10;
    let mut poke: Poke<T> = None;
    let mut c = if kind >= 5 && kind < 8 {
        // exponential families from far / extreme starts
        let n = rng.range(3, 20);
        let recipe = exp_family(rng, n);
        let truth: Vec<f64> = (0..recipe.p()).map(|k| 1.0 + 3.0 * k as f64 + rng.uniform(0.0, 1.0)).collect();
        let tr: Vec<T> = truth.iter().map(|v| T::of(*v)).collect();
        let phi = recipe.phi::<T>(&tr);
        let m = recipe.m();
        let coef = DVector::from_iterator(m, (0..m).map(|_| T::of(rng.uniform(0.5, 3.0))));
        let col = &phi * coef;
        let y = DMatrix::from_iterator(n, 1, col.iter().map(|v| *v + T::of(0.01 * rng.normal())));
        let init: Vec<T> = (0..recipe.p()).map(|_| T::of(*rng.pick(&[1e-3, 0.1, 1.0, 7.0, 50.0, 1e3, -1.0, -1e-3, 1e-8]))).collect();
        StateCase {
            recipe,
            built: i % 2 == 0,
            flavour: if i % 4 == 1 { Flavour::NewPar } else { Flavour::New },
            y,
            w: None,
            wkind: "none",
            eps: None,
            init,
            history: vec![],
            origin: "robust",
        }
    } else {
        let mut c = random_state_case::<T>(rng, false, i);
        c.origin = "robust";
        c.history.clear();
        c
    };
    let what: &str;
    let mut second: Option<Vec<T>> = None;
    let mut kind = kind;
    if kind == 7 {
        // finite basis matrices at the edge of the floating point range: as starting point of the
        // fit or applied after an ordinary build
        let (recipe, ordinary, edge) = crate::gen::range_edge_family(rng, T::WIDTH == 32);
        let tr: Vec<T> = ordinary.iter().map(|v| T::of(*v)).collect();
        let phi = recipe.phi::<T>(&tr);
        let m = recipe.m();
        let coef = DVector::from_iterator(m, (0..m).map(|_| T::of(rng.uniform(0.5, 3.0))));
        let col = &phi * coef;
        c.y = DMatrix::from_iterator(recipe.n(), 1, col.iter().map(|v| *v + T::of(0.01 * rng.normal())));
        c.recipe = recipe;
        let e: Vec<T> = edge.iter().map(|v| T::of(*v)).collect();
        if rng.chance(0.5) {
            c.init = e;
        } else {
            c.init = tr.iter().map(|v| *v * T::of(1.0625)).collect();
            second = Some(e);
        }
        kind = 70;
    }
    match kind {
        70 => {
            what = "range-edge";
        }
        0 => {
            what = "alpha-special";
            let k = rng.below(c.init.len());
            c.init[k] = special::<T>(rng);
        }
        1 => {
            what = "data-special";
            let (r, cc) = (rng.below(c.y.nrows()), rng.below(c.y.ncols()));
            c.y[(r, cc)] = special::<T>(rng);
            if rng.chance(0.5) {
                let k = rng.below(c.recipe.x.len());
                c.recipe.x[k] = *rng.pick(&SPECIALS);
            }
        }
        2 => {
            what = "weights-special";
            let n = c.recipe.n();
            let mut w: Vec<T> = (0..n).map(|_| T::of(1.0)).collect();
            match rng.below(3) {
                0 => {
                    for v in w.iter_mut() {
                        *v = T::of(0.0);
                    }
                }
                1 => {
                    let k = rng.below(n);
                    w[k] = special::<T>(rng);
                }
                _ => {
                    for v in w.iter_mut() {
                        *v = special::<T>(rng);
                    }
                }
            }
            c.w = Some(w);
            c.wkind = "special";
            c.eps = Some(special::<T>(rng));
        }
        3 => {
            what = "set-special";
            let mut a2 = c.init.clone();
            let k = rng.below(a2.len());
            a2[k] = special::<T>(rng);
            second = Some(a2);
        }
        8 => {
            // exactly ONE non-finite (or huge) element of the basis matrix, at a corner or anywhere:
            // the finiteness guard has to look at every element
            what = "entry-special";
            let (n, m) = (c.recipe.n(), c.recipe.m());
            let (r, cc) = match rng.below(5) {
                0 => (0, 0),
                1 => (n - 1, m - 1),
                2 => (0, m - 1),
                3 => (n - 1, 0),
                _ => (rng.below(n), rng.below(m)),
            };
            let v = *rng.pick(&[f64::NAN, f64::INFINITY, f64::NEG_INFINITY, f64::NAN, 1e308]);
            poke = Some((None, r, cc, T::of(v)));
            if rng.chance(0.5) {
                second = Some(random_alpha(rng, c.recipe.p()).iter().map(|v| T::of(*v)).collect());
            }
        }
        9 => {
            // a partial derivative with one non-finite element while the basis matrix is finite, and
            // observations that are fitted exactly by zero coefficients: the fit stops at once
            // (residuals zero) without ever asking for the Jacobian, and the STATISTICS are the first
            // code to meet the non-finite derivative
            what = "deriv-special";
            let (n, m, p) = (c.recipe.n(), c.recipe.m(), c.recipe.p());
            let v = *rng.pick(&[f64::NAN, f64::INFINITY, f64::NEG_INFINITY]);
            poke = Some((Some(rng.below(p)), rng.below(n), rng.below(m), T::of(v)));
            c.flavour = if i % 4 == 1 { Flavour::NewPar } else { Flavour::New };
            c.y = DMatrix::from_element(n, 1, T::of(0.0));
            if rng.chance(0.3) {
                // ... or by an exactly representable multiple of a constant column
                c.recipe.fns.push(FnSpec { kind: Kind::One, params: vec![] });
                c.y = DMatrix::from_element(n, 1, T::of(2.0));
            }
        }
        4 => {
            what = "degenerate-shape";
            // N = 1, N < M, constant columns
            let n = rng.range(1, c.recipe.m());
            c.recipe.x.truncate(n);
            if rng.chance(0.3) {
                for v in c.recipe.x.iter_mut() {
                    *v = 1.0;
                }
            }
            let s = c.y.ncols();
            c.y = DMatrix::from_fn(n, s, |_, _| T::of(rng.uniform(-1.0, 1.0)));
            c.w = None;
            c.wkind = "none";
        }
        _ => {
            what = "far-start";
        }
    }
    let _ = thorough;
    // the exponential families (ordinary data, up to three basis functions) with a SPECIAL singular-value
    // threshold, cycled deterministically: zero, minus zero, the smallest subnormal, 1e-300, huge, infinite,
    // NaN, negative - everything else about the case is ordinary (the regression of round 13 showed that the
    // random draw of the threshold could miss `epsilon(0.0)` with three basis functions for a whole run)
    if kind == 6 {
        const EPS_SPECIALS: [f64; 8] = [0.0, -0.0, 5e-324, 1e-300, 1e308, f64::INFINITY, f64::NAN, -1e-3];
        c.eps = Some(T::of(EPS_SPECIALS[(i / 10) % 8]));
    }
    let cfg = if i % 5 == 0 { random_lmcfg(rng) } else { LmCfg::default_cfg() };
    let with_stats = !c.flavour.is_mrhs() && (i % 2 == 0 || kind == 9);
    emit_robust_case(out, &c, second, &cfg, with_stats, what, poke);
}
