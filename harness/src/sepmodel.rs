//! C15 / C16 / C17: SeparableModelBuilder sessions and operations on the built model,
//! with position-sensitive integer-valued probe functions (exact comparison)
use crate::common::*;
use nalgebra::{DVector, Scalar};
use num_traits::Zero;
use varpro::model::builder::error::ModelBuildError;
use varpro::model::errors::ModelError;
use varpro::model::SeparableModel;
use varpro::prelude::*;

pub trait IntLike: Scalar + Zero + Copy + Send + Sync + 'static {
    const NAME: &'static str;
    fn from_i(v: i64) -> Self;
    fn to_i(self) -> i64;
    /// the negative zero of a floating point type (integers have none)
    fn neg_zero() -> Option<Self> {
        None
    }
    fn is_neg_zero(self) -> bool {
        false
    }
}
impl IntLike for i64 {
    const NAME: &'static str = "i64";
    fn from_i(v: i64) -> Self {
        v
    }
    fn to_i(self) -> i64 {
        self
    }
}
impl IntLike for f64 {
    const NAME: &'static str = "64";
    fn from_i(v: i64) -> Self {
        v as f64
    }
    fn to_i(self) -> i64 {
        self as i64
    }
    fn neg_zero() -> Option<Self> {
        Some(-0.0)
    }
    fn is_neg_zero(self) -> bool {
        self == 0.0 && self.is_sign_negative()
    }
}
impl IntLike for f32 {
    const NAME: &'static str = "32";
    fn from_i(v: i64) -> Self {
        v as f32
    }
    fn to_i(self) -> i64 {
        self as i64
    }
    fn neg_zero() -> Option<Self> {
        Some(-0.0)
    }
    fn is_neg_zero(self) -> bool {
        self == 0.0 && self.is_sign_negative()
    }
}

#[derive(Clone, Debug)]
pub struct Probe {
    pub arity: usize,
    pub code: i64,
    /// None: natural length (= len of x)
    pub len: Option<usize>,
}

#[derive(Clone, Debug)]
pub enum MCall {
    Function(Vec<String>, Probe),
    Deriv(String, Probe),
    Invariant(Probe),
    X(usize),
    Init(Vec<i64>),
}

#[derive(Clone, Debug)]
pub enum MOp {
    Set(Vec<i64>),
    /// as `Set`, with the entries at the given positions (zeros) replaced by NEGATIVE zero where the
    /// scalar type has one: `-0 == 0`, yet they are different numbers and `params()` must tell
    SetNz(Vec<i64>, Vec<usize>),
    Eval,
    Deriv(usize),
    Params,
}

pub fn enc(s: &str) -> String {
    if s.is_empty() {
        "~".to_string()
    } else {
        // a blank inside a name is written as U+2423 (the line protocol is blank separated)
        s.replace(' ', "\u{2423}")
    }
}
fn encs(v: &[String]) -> String {
    v.iter().map(|s| enc(s)).collect::<Vec<_>>().join(" ")
}

fn pow(b: i64, e: usize) -> i64 {
    let mut r = 1i64;
    for _ in 0..e {
        r *= b;
    }
    r
}

/// f(x, a_1..a_n)_i = x_i + sum_t a_t * B^t + code * B^(n+1); length = override or |x|
/// an output length that DEPENDS ON THE PARAMETERS: `len = 1000 + 100 t + L` stands for "L elements if
/// the first argument is >= t, the natural length otherwise" (a user function whose output length is
/// not constant: every call is checked, not only the first)
fn effective_len<T: IntLike>(p: &Probe, natural: usize, args: &[T]) -> usize {
    match p.len {
        Some(c) if c >= 1000 => {
            let (t, l) = (((c - 1000) / 100) as i64, (c - 1000) % 100);
            if args.first().map_or(false, |a| a.to_i() >= t) {
                l
            } else {
                natural
            }
        }
        Some(l) => l,
        None => natural,
    }
}

fn probe_eval<T: IntLike>(p: &Probe, base: i64, x: &DVector<T>, args: &[T]) -> DVector<T> {
    let l = effective_len(p, x.len(), args);
    // codes >= 100: the value depends on the whole independent variable (its length), not element-wise
    let mut s = p.code * pow(base, args.len() + 1) + if p.code >= 100 { x.len() as i64 } else { 0 };
    for (t, a) in args.iter().enumerate() {
        s += a.to_i() * pow(base, t + 1);
    }
    DVector::from_iterator(
        l,
        (0..l).map(|i| T::from_i(s + if i < x.len() { x[i].to_i() } else { 0 })),
    )
}
/// g(x)_i = 2 x_i + code
fn inv_eval<T: IntLike>(p: &Probe, x: &DVector<T>) -> DVector<T> {
    let l = p.len.unwrap_or(x.len());
    DVector::from_iterator(
        l,
        (0..l).map(|i| T::from_i(p.code + if i < x.len() { 2 * x[i].to_i() } else { 0 })),
    )
}

macro_rules! with_arity {
    ($b:expr, $method:ident, $first:expr, $p:expr, $base:expr, $T:ty) => {{
        let p = $p.clone();
        let base = $base;
        match p.arity {
            1 => $b.$method($first, move |x: &DVector<$T>, a1: $T| probe_eval(&p, base, x, &[a1])),
            2 => $b.$method($first, move |x: &DVector<$T>, a1: $T, a2: $T| probe_eval(&p, base, x, &[a1, a2])),
            3 => $b.$method($first, move |x: &DVector<$T>, a1: $T, a2: $T, a3: $T| {
                probe_eval(&p, base, x, &[a1, a2, a3])
            }),
            4 => $b.$method($first, move |x: &DVector<$T>, a1: $T, a2: $T, a3: $T, a4: $T| {
                probe_eval(&p, base, x, &[a1, a2, a3, a4])
            }),
            5 => $b.$method($first, move |x: &DVector<$T>, a1: $T, a2: $T, a3: $T, a4: $T, a5: $T| {
                probe_eval(&p, base, x, &[a1, a2, a3, a4, a5])
            }),
            6 => $b.$method(
                $first,
                move |x: &DVector<$T>, a1: $T, a2: $T, a3: $T, a4: $T, a5: $T, a6: $T| {
                    probe_eval(&p, base, x, &[a1, a2, a3, a4, a5, a6])
                },
            ),
            7 => $b.$method(
                $first,
                move |x: &DVector<$T>, a1: $T, a2: $T, a3: $T, a4: $T, a5: $T, a6: $T, a7: $T| {
                    probe_eval(&p, base, x, &[a1, a2, a3, a4, a5, a6, a7])
                },
            ),
            8 => $b.$method(
                $first,
                move |x: &DVector<$T>, a1: $T, a2: $T, a3: $T, a4: $T, a5: $T, a6: $T, a7: $T, a8: $T| {
                    probe_eval(&p, base, x, &[a1, a2, a3, a4, a5, a6, a7, a8])
                },
            ),
            9 => $b.$method(
                $first,
                move |x: &DVector<$T>, a1: $T, a2: $T, a3: $T, a4: $T, a5: $T, a6: $T, a7: $T, a8: $T, a9: $T| {
                    probe_eval(&p, base, x, &[a1, a2, a3, a4, a5, a6, a7, a8, a9])
                },
            ),
            10 => $b.$method(
                $first,
                move |x: &DVector<$T>,
                      a1: $T,
                      a2: $T,
                      a3: $T,
                      a4: $T,
                      a5: $T,
                      a6: $T,
                      a7: $T,
                      a8: $T,
                      a9: $T,
                      a10: $T| { probe_eval(&p, base, x, &[a1, a2, a3, a4, a5, a6, a7, a8, a9, a10]) },
            ),
            _ => panic!("arity out of range in harness"),
        }
    }};
}

pub fn canon_build_err(e: &ModelBuildError) -> String {
    use ModelBuildError::*;
    match e {
        DuplicateParameterNames { function_parameters } => {
            format!("DuplicateParameterNames {}", encs(function_parameters))
        }
        EmptyParameters => "EmptyParameters".into(),
        FunctionParameterNotInModel { function_parameter } => {
            format!("FunctionParameterNotInModel {}", enc(function_parameter))
        }
        InvalidDerivative {
            parameter,
            function_parameters,
        } => format!("InvalidDerivative {} | {}", enc(parameter), encs(function_parameters)),
        DuplicateDerivative { parameter } => format!("DuplicateDerivative {}", enc(parameter)),
        MissingDerivative {
            missing_parameter,
            function_parameters,
        } => format!(
            "MissingDerivative {} | {}",
            enc(missing_parameter),
            encs(function_parameters)
        ),
        EmptyModel => "EmptyModel".into(),
        UnusedParameter { parameter } => format!("UnusedParameter {}", enc(parameter)),
        IncorrectParameterCount { actual, expected } => {
            format!("IncorrectParameterCount {} {}", actual, expected)
        }
        CommaInParameterNameNotAllowed { param_name } => {
            format!("CommaInParameterNameNotAllowed {}", enc(param_name))
        }
        MissingX => "MissingX".into(),
        MissingInitialParameters => "MissingInitialParameters".into(),
        IllegalCallToPartialDeriv => "IllegalCallToPartialDeriv".into(),
    }
}

pub fn canon_model_err(e: &ModelError) -> String {
    use ModelError::*;
    match e {
        UnexpectedFunctionOutput {
            expected_length,
            actual_length,
        } => format!("UnexpectedFunctionOutput {} {}", expected_length, actual_length),
        ParameterNotInModel { parameter } => format!("ParameterNotInModel {}", enc(parameter)),
        DerivativeIndexOutOfBounds { index } => format!("DerivativeIndexOutOfBounds {}", index),
        IncorrectParameterCount { expected, actual } => {
            format!("IncorrectParameterCount {} {}", expected, actual)
        }
    }
}

fn build_session<T: IntLike>(
    names: &[String],
    calls: &[MCall],
    base: i64,
) -> Result<SeparableModel<T>, ModelBuildError> {
    let mut b = SeparableModelBuilder::<T>::new(names.to_vec());
    for c in calls {
        b = match c {
            MCall::Function(fps, p) => with_arity!(b, function, fps.clone(), p, base, T),
            MCall::Deriv(name, p) => with_arity!(b, partial_deriv, name.clone(), p, base, T),
            MCall::Invariant(p) => {
                let p = p.clone();
                b.invariant_function(move |x: &DVector<T>| inv_eval(&p, x))
            }
            MCall::X(n) => b.independent_variable(DVector::from_iterator(*n, (0..*n).map(|i| T::from_i(i as i64 + 1)))),
            MCall::Init(v) => b.initial_parameters(v.iter().map(|x| T::from_i(*x)).collect()),
        };
    }
    b.build()
}

fn mat_ints<T: IntLike>(m: &nalgebra::DMatrix<T>) -> String {
    let mut s = format!("{} {}", m.nrows(), m.ncols());
    for v in m.iter() {
        s.push_str(&format!(" {}", v.to_i()));
    }
    s
}

fn probe_str(p: &Probe) -> String {
    format!(
        "{} {} {}",
        p.arity,
        p.code,
        match p.len {
            Some(l) => l.to_string(),
            None => "-".to_string(),
        }
    )
}

pub fn emit_case<T: IntLike>(out: &mut Out, names: &[String], calls: &[MCall], ops: &[MOp], base: i64, origin: &str) {
    out.begin(
        "sepmodel",
        &format!("width={} base={} origin={}", T::NAME, base, origin),
    );
    out.line(&format!("names {}", encs(names)));
    for c in calls {
        match c {
            MCall::Function(fps, p) => out.line(&format!("call function {} | {}", probe_str(p), encs(fps))),
            MCall::Deriv(n, p) => out.line(&format!("call deriv {} | {}", probe_str(p), enc(n))),
            MCall::Invariant(p) => out.line(&format!("call invariant {}", probe_str(p))),
            MCall::X(n) => out.line(&format!("call x {}", n)),
            MCall::Init(v) => out.line(&format!(
                "call init {} {}",
                v.len(),
                v.iter().map(|x| x.to_string()).collect::<Vec<_>>().join(" ")
            )),
        }
    }
    let built = guarded(|| build_session::<T>(names, calls, base));
    match built {
        Err(m) => {
            out.line(&format!("built panic {}", m));
        }
        Ok(Err(e)) => {
            out.line(&format!("built err {}", canon_build_err(&e)));
        }
        Ok(Ok(mut model)) => {
            out.line("built ok");
            for op in ops {
                match op {
                    MOp::Set(v) => {
                        out.line(&format!(
                            "op set {} {}",
                            v.len(),
                            v.iter().map(|x| x.to_string()).collect::<Vec<_>>().join(" ")
                        ));
                        let vv = DVector::from_iterator(v.len(), v.iter().map(|x| T::from_i(*x)));
                        let r = guarded(|| model.set_params(vv));
                        out.line(&match r {
                            Err(m) => format!("res panic {}", m),
                            Ok(Ok(())) => "res ok".to_string(),
                            Ok(Err(e)) => format!("res err {}", canon_model_err(&e)),
                        });
                    }
                    MOp::SetNz(v, nz) => {
                        let isnz = |i: usize| nz.contains(&i) && v[i] == 0 && T::neg_zero().is_some();
                        out.line(&format!(
                            "op set {} {}",
                            v.len(),
                            v.iter().enumerate().map(|(i, x)| if isnz(i) { "-0".to_string() } else { x.to_string() }).collect::<Vec<_>>().join(" ")
                        ));
                        let vv = DVector::from_iterator(
                            v.len(),
                            v.iter().enumerate().map(|(i, x)| if isnz(i) { T::neg_zero().unwrap() } else { T::from_i(*x) }),
                        );
                        let r = guarded(|| model.set_params(vv));
                        out.line(&match r {
                            Err(m) => format!("res panic {}", m),
                            Ok(Ok(())) => "res ok".to_string(),
                            Ok(Err(e)) => format!("res err {}", canon_model_err(&e)),
                        });
                    }
                    MOp::Eval => {
                        out.line("op eval");
                        let r = guarded(|| model.eval());
                        out.line(&match r {
                            Err(m) => format!("res panic {}", m),
                            Ok(Ok(m)) => format!("res ok {}", mat_ints(&m)),
                            Ok(Err(e)) => format!("res err {}", canon_model_err(&e)),
                        });
                    }
                    MOp::Deriv(k) => {
                        out.line(&format!("op deriv {}", k));
                        let r = guarded(|| model.eval_partial_deriv(*k));
                        out.line(&match r {
                            Err(m) => format!("res panic {}", m),
                            Ok(Ok(m)) => format!("res ok {}", mat_ints(&m)),
                            Ok(Err(e)) => format!("res err {}", canon_model_err(&e)),
                        });
                    }
                    MOp::Params => {
                        out.line("op params");
                        let p = model.params();
                        out.line(&format!(
                            "res ok {} {} | {} {} {} | {}",
                            p.len(),
                            p.iter().map(|x| if x.is_neg_zero() { "-0".to_string() } else { x.to_i().to_string() }).collect::<Vec<_>>().join(" "),
                            model.parameter_count(),
                            model.base_function_count(),
                            model.output_len(),
                            encs(&model.parameters().to_vec())
                        ));
                    }
                }
            }
        }
    }
    out.end();
}

/// updates that differ only in the SIGN of zero entries: +0 -> -0 -> +0 with queries in between
fn signed_zero_episode(ops: &mut Vec<MOp>, rng: &mut Rng, p: usize) {
    let mut v: Vec<i64> = (0..p).map(|_| rng.range(0, 7) as i64).collect();
    let k = rng.below(p);
    v[k] = 0;
    let nz: Vec<usize> = (0..p).filter(|i| v[*i] == 0).collect();
    ops.push(MOp::Set(v.clone()));
    ops.push(MOp::Params);
    ops.push(MOp::SetNz(v.clone(), nz.clone()));
    ops.push(MOp::Params);
    ops.push(MOp::Eval);
    ops.push(MOp::Set(v.clone()));
    ops.push(MOp::Params);
    ops.push(MOp::SetNz(v, vec![k]));
    ops.push(MOp::Params);
    ops.push(MOp::Deriv(rng.below(p)));
}

fn s(x: &str) -> String {
    x.to_string()
}

/// the call alphabet for a given name list (C15 exhaustive enumeration)
fn alphabet(names: &[String]) -> Vec<MCall> {
    let p = names.len();
    let mut al: Vec<MCall> = Vec::new();
    let pool: Vec<Vec<String>> = vec![
        vec![s("a")],
        vec![s("b")],
        vec![s("a"), s("b")],
        vec![s("b"), s("a")],
        vec![s("a"), s("a")],
        vec![],
        vec![s("z")],
        vec![s("a,b")],
        vec![s(" a")],
    ];
    let mut code = 1;
    for fps in pool.iter() {
        let ar = fps.len().max(1);
        al.push(MCall::Function(
            fps.clone(),
            Probe {
                arity: ar,
                code,
                len: None,
            },
        ));
        code += 1;
    }
    // wrong arity
    al.push(MCall::Function(
        vec![s("a")],
        Probe {
            arity: 2,
            code,
            len: None,
        },
    ));
    code += 1;
    for n in [" a", "a "] {
        al.push(MCall::Deriv(
            s(n),
            Probe {
                arity: 1,
                code,
                len: None,
            },
        ));
        code += 1;
    }
    for n in ["a", "b", "z"] {
        for ar in [1usize, 2] {
            al.push(MCall::Deriv(
                s(n),
                Probe {
                    arity: ar,
                    code,
                    len: None,
                },
            ));
            code += 1;
        }
    }
    // names of the model that the fixed pool does not know (non-ASCII ones): a function of that one
    // parameter and its derivative, so that VALID models over such names are enumerated too
    let known = ["a", "b", "z", "a,b", " a", "a ", ""];
    for nm in names.iter().filter(|n| !known.contains(&n.as_str())).take(2) {
        al.push(MCall::Function(vec![nm.clone()], Probe { arity: 1, code, len: None }));
        code += 1;
        al.push(MCall::Deriv(nm.clone(), Probe { arity: 1, code, len: None }));
        code += 1;
    }
    al.push(MCall::Invariant(Probe {
        arity: 0,
        code: 7,
        len: None,
    }));
    al.push(MCall::X(3));
    // an independent variable of length zero is a supplied one
    al.push(MCall::X(0));
    al.push(MCall::Init((0..p).map(|i| i as i64 + 1).collect()));
    al.push(MCall::Init((0..p + 1).map(|i| i as i64 + 1).collect()));
    if p > 0 {
        al.push(MCall::Init((0..p - 1).map(|i| i as i64 + 1).collect()));
    }
    al
}

fn default_ops(p: usize) -> Vec<MOp> {
    vec![MOp::Params, MOp::Eval, MOp::Deriv(0), MOp::Deriv(p.saturating_sub(1))]
}

/// C15: exhaustive enumeration of short call sequences + random nearly-valid long ones
pub fn stream_mbuilder(out: &mut Out, seed: u64, thorough: bool) {
    let mut rng = Rng::new(seed ^ 0x15);
    let name_lists: Vec<Vec<String>> = vec![
        vec![s("a")],
        vec![s("a"), s("b")],
        vec![s("b"), s("a")],
        vec![],
        vec![s("a"), s("a")],
        vec![s("a,b")],
        vec![s("")],
        vec![s("a"), s("b"), s("z")],
        // names that differ only by surrounding blanks are different (and legal) names
        vec![s(" a")],
        vec![s("a"), s(" a")],
        vec![s("a "), s("b")],
        // several defects of the same kind in one list: WHICH name the error carries is behaviour too
        vec![s("a,b"), s("c,d")],
        vec![s("a"), s("b,"), s(",c")],
        vec![s("b"), s("a"), s("b"), s("a")],
        // names are strings of arbitrary characters, not bytes: code points whose low byte is that of
        // a comma (U+042C, U+012C), of a blank or of a letter of another name are ordinary characters
        vec![s("Ь")],
        vec![s("τ"), s("Ĭx")],
        vec![s("a"), s("š")],
        // names equal up to ASCII case, or one a prefix of the other, are different (and legal) names (round 12)
        vec![s("k"), s("K")],
        vec![s("kk"), s("k")],
    ];
    let maxlen = if thorough { 4 } else { 3 };
    for (ni, names) in name_lists.iter().enumerate() {
        let al = alphabet(names);
        // full enumeration for the two main name lists, shorter for degenerate ones
        let lim = if ni < 2 { maxlen } else { 2 };
        let mut idx: Vec<usize> = Vec::new();
        // enumerate all sequences of length 0..=lim
        for len in 0..=lim {
            idx.clear();
            idx.resize(len, 0);
            loop {
                let calls: Vec<MCall> = idx.iter().map(|i| al[*i].clone()).collect();
                emit_case::<f64>(out, names, &calls, &default_ops(names.len()), 8, "enum");
                // increment
                let mut k = len;
                loop {
                    if k == 0 {
                        break;
                    }
                    k -= 1;
                    idx[k] += 1;
                    if idx[k] < al.len() {
                        break;
                    }
                    idx[k] = 0;
                    if k == 0 {
                        k = usize::MAX;
                        break;
                    }
                }
                if len == 0 || k == usize::MAX {
                    break;
                }
            }
        }
    }
    // random nearly-valid sessions
    let nrand = if thorough { 20000 } else { 3000 };
    for i in 0..nrand {
        let (names, calls, ops) = random_session(&mut rng, true);
        match i % 3 {
            0 => emit_case::<f64>(out, &names, &calls, &ops, 8, "random"),
            1 => emit_case::<i64>(out, &names, &calls, &ops, 8, "random"),
            _ => {
                let small = calls.iter().all(|c| match c {
                    MCall::Function(_, p) | MCall::Deriv(_, p) => p.arity <= 5,
                    _ => true,
                });
                if small {
                    emit_case::<f32>(out, &names, &calls, &ops, 8, "random")
                } else {
                    emit_case::<f64>(out, &names, &calls, &ops, 8, "random")
                }
            }
        }
    }
}

const NAME_POOL: [&str; 12] = ["a", "b", "c", "d", "e", "f", "g", "h", "i", "j", "k", "l"];

/// a session that is valid with high probability; `mutate` applies 0-2 random defects
pub fn random_session(rng: &mut Rng, mutate: bool) -> (Vec<String>, Vec<MCall>, Vec<MOp>) {
    let p = if rng.chance(0.15) { rng.range(6, 12) } else { rng.range(1, 5) };
    let mut names: Vec<String> = NAME_POOL[..p].iter().map(|x| s(x)).collect();
    rng.shuffle(&mut names);
    let n = rng.range(1, 5);
    let nf = rng.range(1, 4).max((p + 9) / 10 + if p > 9 { 1 } else { 0 });
    let mut calls: Vec<MCall> = Vec::new();
    let mut code = 1i64;
    // make sure every parameter is used: distribute names over functions, then add random extra
    let mut fn_params: Vec<Vec<String>> = vec![Vec::new(); nf];
    for nm in names.iter() {
        let mut j = rng.below(nf);
        while fn_params[j].len() >= 10 {
            j = (j + 1) % nf;
        }
        fn_params[j].push(nm.clone());
    }
    for fp in fn_params.iter_mut() {
        // shared parameters
        for nm in names.iter() {
            if fp.len() < 10 && !fp.contains(nm) && rng.chance(0.25) {
                fp.push(nm.clone());
            }
        }
        rng.shuffle(fp);
    }
    let mut x_pos = rng.below(nf + 1);
    let mut init_pos = rng.below(nf + 1);
    for (j, fp) in fn_params.iter().enumerate() {
        if j == x_pos {
            calls.push(MCall::X(n));
            x_pos = usize::MAX;
        }
        if j == init_pos {
            calls.push(MCall::Init((0..p).map(|_| rng.range(1, 7) as i64).collect()));
            init_pos = usize::MAX;
        }
        if rng.chance(0.3) {
            calls.push(MCall::Invariant(Probe {
                arity: 0,
                code: rng.range(1, 7) as i64,
                len: None,
            }));
        }
        if fp.is_empty() {
            calls.push(MCall::Invariant(Probe {
                arity: 0,
                code: rng.range(1, 7) as i64,
                len: None,
            }));
            continue;
        }
        calls.push(MCall::Function(
            fp.clone(),
            Probe {
                arity: fp.len(),
                code: code % 8,
                len: None,
            },
        ));
        code += 1;
        let mut order: Vec<String> = fp.clone();
        rng.shuffle(&mut order);
        for nm in order {
            calls.push(MCall::Deriv(
                nm,
                Probe {
                    arity: fp.len(),
                    code: code % 8,
                    len: None,
                },
            ));
            code += 1;
        }
    }
    if x_pos != usize::MAX {
        calls.push(MCall::X(n));
    }
    if init_pos != usize::MAX {
        calls.push(MCall::Init((0..p).map(|_| rng.range(1, 7) as i64).collect()));
    }
    if mutate {
        let k = *rng.pick(&[0usize, 0, 1, 1, 1, 2]);
        for _ in 0..k {
            if calls.is_empty() {
                break;
            }
            let i = rng.below(calls.len());
            match rng.below(10) {
                0 => {
                    calls.remove(i);
                }
                1 => {
                    let c = calls[i].clone();
                    calls.insert(i, c);
                }
                2 => {
                    let j = rng.below(calls.len());
                    calls.swap(i, j);
                }
                3 => {
                    if let MCall::Function(fps, p) = &mut calls[i] {
                        if rng.chance(0.5) {
                            p.arity = (p.arity % 10) + 1;
                        } else if !fps.is_empty() {
                            let j = rng.below(fps.len());
                            fps[j] = if rng.chance(0.3) {
                                format!(" {}", fps[j])
                            } else if rng.chance(0.3) {
                                format!("{} ", fps[j])
                            } else {
                                s(*rng.pick(&["a", "zz", "", "a,b"]))
                            };
                        }
                    }
                }
                4 => {
                    if let MCall::Deriv(nm, p) = &mut calls[i] {
                        if rng.chance(0.5) {
                            p.arity = (p.arity % 10) + 1;
                        } else if rng.chance(0.3) {
                            *nm = format!("{} ", nm);
                        } else {
                            *nm = s(*rng.pick(&NAME_POOL[..]));
                        }
                    }
                }
                5 => {
                    if let MCall::Init(v) = &mut calls[i] {
                        if rng.chance(0.5) {
                            v.push(1);
                        } else {
                            v.pop();
                        }
                    }
                }
                6 => {
                    let j = rng.below(names.len());
                    names[j] = if rng.chance(0.3) { format!(" {}", names[j]) } else { s(*rng.pick(&["a", "b", "", "x,y", "Ь", "Ĭ"])) };
                }
                8 | 9 => {
                    // a model parameter that no function uses (and an initial guess that still has the
                    // right length): the only defect is the unused parameter
                    let extra = format!("u{}", names.len());
                    let j = rng.below(names.len() + 1);
                    names.insert(j, extra);
                    for c in calls.iter_mut() {
                        if let MCall::Init(v) = c {
                            v.push(2);
                        }
                    }
                }
                _ => {
                    calls.insert(
                        i,
                        MCall::Deriv(
                            s(*rng.pick(&NAME_POOL[..4])),
                            Probe {
                                arity: 1,
                                code: 3,
                                len: None,
                            },
                        ),
                    );
                }
            }
        }
    }
    let mut ops = vec![MOp::Params, MOp::Eval];
    for k in 0..names.len().min(4) {
        ops.push(MOp::Deriv(k));
    }
    (names, calls, ops)
}

/// C16 / C17: valid models, routing probes, misuse
pub fn stream_model(out: &mut Out, seed: u64, thorough: bool) {
    let mut rng = Rng::new(seed ^ 0x1617);
    // (a) exhaustive: every ordered subset (size 1..3) of up to 4 names as the parameter list of one
    //     function, for every rotation of the model's parameter list, with every derivative order
    // ... over two alphabets: ordinary names, and names that a "lenient" lookup would confuse - equal up
    // to ASCII case, up to surrounding blanks, or one a prefix of the other (round 12)
    let alphabets: [[&str; 4]; 2] = [["a", "b", "c", "d"], ["k", "K", "k ", "kk"]];
    for (ai, alphabet) in alphabets.iter().enumerate() {
    let all: Vec<String> = alphabet.iter().map(|x| s(x)).collect();
    for p in 1..=(if ai == 0 { 4usize } else { 3usize }) {
        let base_names: Vec<String> = all[..p].to_vec();
        for rot in 0..p {
            let mut names = base_names.clone();
            names.rotate_left(rot);
            if rot % 2 == 1 {
                names.reverse();
            }
            let mut subsets: Vec<Vec<usize>> = Vec::new();
            for i in 0..p {
                subsets.push(vec![i]);
                for j in 0..p {
                    if j != i {
                        subsets.push(vec![i, j]);
                        for k in 0..p {
                            if k != i && k != j {
                                subsets.push(vec![i, j, k]);
                            }
                        }
                    }
                }
            }
            for (si, sub) in subsets.iter().enumerate() {
                let fps: Vec<String> = sub.iter().map(|i| base_names[*i].clone()).collect();
                let mut calls = vec![MCall::X(3)];
                let inv_first = si % 3 == 0;
                if inv_first {
                    calls.push(MCall::Invariant(Probe { arity: 0, code: 5, len: None }));
                }
                calls.push(MCall::Function(fps.clone(), Probe { arity: fps.len(), code: 1, len: None }));
                let mut order: Vec<usize> = (0..fps.len()).collect();
                if si % 2 == 1 {
                    order.reverse();
                }
                for (t, oi) in order.iter().enumerate() {
                    calls.push(MCall::Deriv(fps[*oi].clone(), Probe { arity: fps.len(), code: 2 + *oi as i64, len: None }));
                    let _ = t;
                }
                // cover the parameters the function does not use
                let rest: Vec<String> = base_names.iter().filter(|n| !fps.contains(n)).cloned().collect();
                if !rest.is_empty() {
                    calls.push(MCall::Function(rest.clone(), Probe { arity: rest.len(), code: 6, len: None }));
                    for (t, nm) in rest.iter().enumerate() {
                        calls.push(MCall::Deriv(nm.clone(), Probe { arity: rest.len(), code: 7 - t as i64 % 2, len: None }));
                    }
                }
                if !inv_first {
                    calls.push(MCall::Invariant(Probe { arity: 0, code: 5, len: None }));
                }
                calls.push(MCall::Init((0..p).map(|i| i as i64 + 1).collect()));
                let mut ops = vec![MOp::Params, MOp::Eval];
                for k in 0..p {
                    ops.push(MOp::Deriv(k));
                }
                ops.push(MOp::Set((0..p).map(|i| 7 - i as i64).collect()));
                ops.push(MOp::Params);
                ops.push(MOp::Eval);
                for k in 0..p {
                    ops.push(MOp::Deriv(k));
                }
                match si % 3 {
                    0 => emit_case::<i64>(out, &names, &calls, &ops, 8, "subsets"),
                    1 => emit_case::<f64>(out, &names, &calls, &ops, 8, "subsets"),
                    _ => emit_case::<f32>(out, &names, &calls, &ops, 8, "subsets"),
                }
            }
        }
    }
    }
    // (b) every arity 1..10 with a random ordered subset of 10..12 names
    let reps = if thorough { 40 } else { 6 };
    for ar in 1..=10usize {
        for rep in 0..reps {
            let p = rng.range(ar.max(2), 12);
            let mut names: Vec<String> = NAME_POOL[..p].iter().map(|x| s(x)).collect();
            rng.shuffle(&mut names);
            let mut pick = names.clone();
            rng.shuffle(&mut pick);
            let fps: Vec<String> = pick[..ar].to_vec();
            let rest: Vec<String> = pick[ar..].to_vec();
            let mut calls = vec![MCall::Function(fps.clone(), Probe { arity: ar, code: 3, len: None })];
            let mut order: Vec<usize> = (0..ar).collect();
            rng.shuffle(&mut order);
            for oi in order {
                calls.push(MCall::Deriv(fps[oi].clone(), Probe { arity: ar, code: (oi as i64 + 1) % 8, len: None }));
            }
            for chunk in rest.chunks(10) {
                calls.push(MCall::Function(chunk.to_vec(), Probe { arity: chunk.len(), code: 4, len: None }));
                for (t, nm) in chunk.iter().enumerate() {
                    calls.push(MCall::Deriv(nm.clone(), Probe { arity: chunk.len(), code: (t as i64) % 8, len: None }));
                }
            }
            calls.push(MCall::X(2));
            calls.push(MCall::Init((0..p).map(|_| rng.range(0, 7) as i64).collect()));
            let mut ops = vec![MOp::Eval];
            for k in 0..p {
                ops.push(MOp::Deriv(k));
            }
            ops.push(MOp::Set((0..p).map(|_| rng.range(0, 7) as i64).collect()));
            ops.push(MOp::Params);
            ops.push(MOp::Eval);
            ops.push(MOp::Deriv(rng.below(p)));
            signed_zero_episode(&mut ops, &mut rng, p);
            if rep % 2 == 0 || ar > 5 {
                emit_case::<i64>(out, &names, &calls, &ops, 8, "arity");
            } else if rep % 4 == 1 && p <= 5 {
                emit_case::<f32>(out, &names, &calls, &ops, 8, "arity");
            } else {
                emit_case::<f64>(out, &names, &calls, &ops, 8, "arity");
            }
        }
    }
    // (d0) LONG independent variables (4097 / 5000 / 10000 samples) with functions and derivatives whose
    //      values depend on the WHOLE vector (probe codes >= 100 add its length): a function sees the
    //      complete independent variable in one call
    for (qi, nlong) in [4097usize, 5000, 10000].iter().enumerate() {
        let names = vec![s("a"), s("b")];
        let calls = vec![
            MCall::Invariant(Probe { arity: 0, code: 5, len: None }),
            MCall::Function(vec![s("b"), s("a")], Probe { arity: 2, code: 101, len: None }),
            MCall::Deriv(s("a"), Probe { arity: 2, code: 102, len: None }),
            MCall::Deriv(s("b"), Probe { arity: 2, code: 103, len: None }),
            MCall::Function(vec![s("a")], Probe { arity: 1, code: 3, len: None }),
            MCall::Deriv(s("a"), Probe { arity: 1, code: 104, len: None }),
            MCall::X(*nlong),
            MCall::Init(vec![2, 3]),
        ];
        let ops = vec![MOp::Params, MOp::Eval, MOp::Deriv(0), MOp::Deriv(1), MOp::Set(vec![5, 1]), MOp::Eval, MOp::Deriv(0)];
        if qi % 2 == 0 {
            emit_case::<f64>(out, &names, &calls, &ops, 8, "longx");
        } else {
            emit_case::<i64>(out, &names, &calls, &ops, 8, "longx");
        }
    }
    // (d) LARGE models (size thresholds: word-sized bit masks, small-vector fast paths, hash-map
    //     growth): 33..200 model parameters, functions of arity 1..3 over the shuffled names, an
    //     invariant function mid-list, one function over the first / last / a middle parameter declared
    //     out of model order; derivatives requested around the indices 31, 32, 63, 64, 65, 127, 128
    let sizes: Vec<usize> = if thorough { vec![33, 63, 64, 65, 70, 100, 127, 128, 129, 200, 257] } else { vec![33, 64, 65, 70, 129] };
    for (li, p) in sizes.iter().enumerate() {
        let p = *p;
        let names: Vec<String> = (0..p).map(|i| format!("p{}", i)).collect();
        let mut pool = names.clone();
        rng.shuffle(&mut pool);
        let mut calls: Vec<MCall> = vec![MCall::X(2)];
        let mut i = 0usize;
        let mut fi = 0usize;
        while i < p {
            let ar = rng.range(1, 3).min(p - i);
            let fps: Vec<String> = pool[i..i + ar].to_vec();
            calls.push(MCall::Function(fps.clone(), Probe { arity: ar, code: (fi as i64) % 7 + 1, len: None }));
            let mut order: Vec<usize> = (0..ar).collect();
            rng.shuffle(&mut order);
            for oi in order {
                calls.push(MCall::Deriv(fps[oi].clone(), Probe { arity: ar, code: (oi as i64 + fi as i64) % 8, len: None }));
            }
            if fi == p / 5 {
                calls.push(MCall::Invariant(Probe { arity: 0, code: 5, len: None }));
            }
            i += ar;
            fi += 1;
        }
        let g: Vec<String> = vec![names[p - 1].clone(), names[0].clone(), names[p / 2].clone()];
        calls.push(MCall::Function(g.clone(), Probe { arity: 3, code: 6, len: None }));
        for oi in [1usize, 2, 0] {
            calls.push(MCall::Deriv(g[oi].clone(), Probe { arity: 3, code: 3 + oi as i64, len: None }));
        }
        calls.push(MCall::Init((0..p).map(|_| rng.range(0, 7) as i64).collect()));
        let mut ks: Vec<usize> = vec![0, 1, 31, 32, 33, 62, 63, 64, 65, 66, 126, 127, 128, 129, p / 2, p - 2, p - 1];
        ks.retain(|k| *k < p);
        for _ in 0..6 {
            ks.push(rng.below(p));
        }
        let mut ops = vec![MOp::Params, MOp::Eval];
        for k in ks.iter() {
            ops.push(MOp::Deriv(*k));
        }
        ops.push(MOp::Set((0..p).map(|_| rng.range(0, 7) as i64).collect()));
        ops.push(MOp::Params);
        ops.push(MOp::Eval);
        for k in ks.iter().rev().take(8) {
            ops.push(MOp::Deriv(*k));
        }
        signed_zero_episode(&mut ops, &mut rng, p);
        if li % 2 == 0 {
            emit_case::<i64>(out, &names, &calls, &ops, 8, "large");
        } else {
            emit_case::<f64>(out, &names, &calls, &ops, 8, "large");
        }
    }
    // (c) misuse (C17): wrong output lengths at every function / derivative position, wrong indices,
    //     wrong parameter counts, interleaved with valid calls in random order
    let nmis = if thorough { 6000 } else { 800 };
    for i in 0..nmis {
        let (names, mut calls, _) = random_session(&mut rng, false);
        let p = names.len();
        // one session in eight (cycled by the case index): an EMPTY independent variable, which the
        // builder accepts; every non-empty output is then a wrong length (round 11)
        if i % 8 == 3 {
            for c in calls.iter_mut() {
                if let MCall::X(n) = c {
                    *n = 0;
                }
            }
        }
        // one session in eight (cycled): an initial guess of the WRONG length is given directly after a
        // function or derivative call (the builder is then in its function-building state), followed
        // later by the regular one: the session is invalid, and if a model comes out nevertheless its
        // evaluations are observed (round 12)
        if i % 8 == 5 {
            let pos: Vec<usize> = calls
                .iter()
                .enumerate()
                .filter(|(_, c)| matches!(c, MCall::Function(_, _) | MCall::Deriv(_, _)))
                .map(|(k, _)| k)
                .collect();
            if !pos.is_empty() {
                let at = pos[(i / 8) % pos.len()] + 1;
                let len = [p + 1, p.saturating_sub(1), 0][(i / 8) % 3];
                calls.insert(at, MCall::Init((0..len).map(|k| 1 + k as i64).collect()));
            }
        }
        let n = calls
            .iter()
            .find_map(|c| if let MCall::X(n) = c { Some(*n) } else { None })
            .unwrap_or(1);
        // one session in four: a function (or derivative) whose output length depends on its first
        // parameter - right below the switch value 4, wrong from 4 on; the updates below cross it
        if i % 4 == 1 {
            let j = rng.below(calls.len());
            let wl = *rng.pick(&[n + 1, n.saturating_sub(1), 0]);
            if let MCall::Function(_, pr) | MCall::Deriv(_, pr) = &mut calls[j] {
                if wl != n && pr.arity >= 1 {
                    pr.len = Some(1000 + 100 * 4 + wl);
                }
            }
        }
        // choose wrong lengths for 0..2 payloads
        let nwrong = *rng.pick(&[0usize, 1, 1, 2]);
        for _ in 0..nwrong {
            let j = rng.below(calls.len());
            let wl = if n == 0 { rng.range(1, 3) } else { *rng.pick(&[0usize, n.saturating_sub(1), n + 1, 2 * n]) };
            match &mut calls[j] {
                MCall::Function(_, pr) | MCall::Deriv(_, pr) | MCall::Invariant(pr) => {
                    if wl != n && pr.len.is_none() {
                        pr.len = Some(wl)
                    }
                }
                _ => {}
            }
        }
        let mut ops: Vec<MOp> = Vec::new();
        let nops = rng.range(4, 10);
        for _ in 0..nops {
            ops.push(match rng.below(9) {
                0 | 1 => MOp::Eval,
                2 => MOp::Deriv(rng.below(p)),
                3 => MOp::Deriv(p + rng.below(2)),
                4 => MOp::Deriv(usize::MAX),
                5 => MOp::Set((0..p).map(|_| rng.range(0, 7) as i64).collect()),
                6 => {
                    let l = *rng.pick(&[0usize, p.saturating_sub(1), p + 1]);
                    MOp::Set((0..l).map(|_| rng.range(0, 7) as i64).collect())
                }
                7 => MOp::Params,
                _ => MOp::Deriv(rng.below(p)),
            });
        }
        let small = calls.iter().all(|c| match c {
            MCall::Function(_, p) | MCall::Deriv(_, p) => p.arity <= 5,
            _ => true,
        });
        match i % 3 {
            0 => emit_case::<i64>(out, &names, &calls, &ops, 8, "misuse"),
            1 if small => emit_case::<f32>(out, &names, &calls, &ops, 8, "misuse"),
            _ => emit_case::<f64>(out, &names, &calls, &ops, 8, "misuse"),
        }
    }
}
