//! "shape" stream: models that VIOLATE the trait contract at the level of shapes (eval /
//! eval_partial_deriv answer with matrices of the wrong shape, or with an error).  The property C08
//! quantifies over contract-honouring models only; this stream validates the shape / effects model
//! of the Lean side (Core/ShapeModel.lean) itself: every run-time dimension check it transcribes must
//! fire (panic) or not fire exactly where the real code's does.
use crate::common::*;
use crate::models::HErr;
use levenberg_marquardt::LeastSquaresProblem;
use nalgebra::{DMatrix, DVector, Dyn, OMatrix, OVector};
use varpro::prelude::*;
use varpro::solvers::levmar::LevMarProblemBuilder;

/// what the model answers: Some((rows, cols)) or None = Err
type Ans = Option<(usize, usize)>;

#[derive(Clone)]
struct ShapeM {
    n: usize,
    m: usize,
    p: usize,
    eval: Ans,
    derivs: Vec<Ans>,
    params: DVector<f64>,
}

fn filled(r: usize, c: usize, salt: usize) -> DMatrix<f64> {
    DMatrix::from_fn(r, c, |i, j| 1.0 / (1.0 + i as f64 + 2.0 * j as f64) + (j + salt) as f64 * 0.25 + ((i * 7 + j * 3 + salt) % 5) as f64 * 0.125)
}

impl SeparableNonlinearModel for ShapeM {
    type ScalarType = f64;
    type Error = HErr;
    fn parameter_count(&self) -> usize {
        self.p
    }
    fn base_function_count(&self) -> usize {
        self.m
    }
    fn output_len(&self) -> usize {
        self.n
    }
    fn set_params(&mut self, p: OVector<f64, Dyn>) -> Result<(), HErr> {
        self.params = p;
        Ok(())
    }
    fn params(&self) -> OVector<f64, Dyn> {
        self.params.clone()
    }
    fn eval(&self) -> Result<OMatrix<f64, Dyn, Dyn>, HErr> {
        match self.eval {
            Some((r, c)) => Ok(filled(r, c, 0)),
            None => Err(HErr("no evaluation".into())),
        }
    }
    fn eval_partial_deriv(&self, k: usize) -> Result<OMatrix<f64, Dyn, Dyn>, HErr> {
        match self.derivs.get(k).copied().flatten() {
            Some((r, c)) => Ok(filled(r, c, k + 1)),
            None => Err(HErr("no derivative".into())),
        }
    }
}

fn ans_str(a: Ans) -> String {
    match a {
        Some((r, c)) => format!("{}x{}", r, c),
        None => "err".to_string(),
    }
}

fn shapes_around(n: usize, m: usize) -> Vec<Ans> {
    let mut v: Vec<Ans> = vec![Some((n, m)), Some((n + 1, m)), Some((n, m + 1)), Some((m, n)), None];
    if n > 1 {
        v.push(Some((n - 1, m)));
    }
    if m > 1 {
        v.push(Some((n, m - 1)));
    }
    v
}

fn one(out: &mut Out, id: usize, n: usize, m: usize, p: usize, s: usize, weighted: bool, par: bool, eval: Ans, derivs: Vec<Ans>) {
    let _ = id;
    out.begin(
        "shape",
        &format!(
            "n={} m={} p={} s={} w={} par={} eval={} derivs={}",
            n,
            m,
            p,
            s,
            if weighted { 1 } else { 0 },
            if par { 1 } else { 0 },
            ans_str(eval),
            derivs.iter().map(|a| ans_str(*a)).collect::<Vec<_>>().join(",")
        ),
    );
    let model = ShapeM { n, m, p, eval, derivs, params: DVector::from_fn(p, |i, _| 1.0 + i as f64) };
    let y = filled(n, s, 3);
    let w = DVector::from_fn(n, |i, _| 1.0 + 0.5 * i as f64);
    macro_rules! run {
        ($ctor:ident) => {{
            let built = guarded(|| {
                let mut b = LevMarProblemBuilder::$ctor(model.clone()).observations(y.clone());
                if weighted {
                    b = b.weights(w.clone());
                }
                b.build()
            });
            match built {
                Err(msg) => out.line(&format!("built panic {}", msg)),
                Ok(Err(e)) => out.line(&format!("built err {}", format!("{:?}", e).replace(' ', "_"))),
                Ok(Ok(problem)) => {
                    out.line("built ok");
                    match guarded(|| problem.residuals().is_some()) {
                        Err(msg) => out.line(&format!("res panic {}", msg)),
                        Ok(b) => out.line(&format!("res {}", if b { "some" } else { "none" })),
                    }
                    match guarded(|| problem.jacobian().is_some()) {
                        Err(msg) => out.line(&format!("jac panic {}", msg)),
                        Ok(b) => out.line(&format!("jac {}", if b { "some" } else { "none" })),
                    }
                }
            }
        }};
    }
    if par {
        run!(mrhs_parallel)
    } else {
        run!(mrhs)
    }
    out.end();
}

pub fn stream(out: &mut Out, seed: u64, thorough: bool) {
    let _ = seed;
    let mut id = 0;
    let ns: &[usize] = if thorough { &[1, 2, 3, 5] } else { &[2, 3] };
    let ms: &[usize] = if thorough { &[1, 2, 3] } else { &[1, 2] };
    for &n in ns {
        for &m in ms {
            for p in 1..=2usize {
                for s in 1..=2usize {
                    for weighted in [false, true] {
                        for eval in shapes_around(n, m) {
                            for d0 in shapes_around(n, m) {
                                // the remaining derivatives: lawful, or (one sub-case) the last one wrong too
                                let mut variants: Vec<Vec<Ans>> = vec![std::iter::once(d0).chain((1..p).map(|_| Some((n, m)))).collect()];
                                if p == 2 && d0 == Some((n, m)) {
                                    variants.push(vec![Some((n, m)), Some((n + 1, m))]);
                                    variants.push(vec![Some((n, m)), None]);
                                }
                                for derivs in variants {
                                    let par = id % 3 == 2;
                                    one(out, id, n, m, p, s, weighted, par, eval, derivs);
                                    id += 1;
                                }
                            }
                        }
                    }
                }
            }
        }
    }
}
