//! G-state stream: problems × histories of parameter updates; per step the harness' own tables
//! Φ(α), D_k(α) and every public output of the real problem (C01, C02, C03, C10, C18-initial)
use crate::common::*;
use crate::gen::*;
use crate::models::*;
use crate::prob::*;
use nalgebra::{DMatrix, DVector};

pub struct StateCase<T: Sc> {
    pub recipe: Recipe,
    pub built: bool,
    pub flavour: Flavour,
    pub y: DMatrix<T>,
    pub w: Option<Vec<T>>,
    pub wkind: &'static str,
    pub eps: Option<T>,
    pub init: Vec<T>,
    pub history: Vec<Vec<T>>,
    pub origin: &'static str,
}

pub fn opt_vec<T: Sc>(tag: &str, v: &Option<DVector<T>>) -> String {
    match v {
        Some(v) => format!("{} some {}", tag, vec_str(v)),
        None => format!("{} none", tag),
    }
}
pub fn opt_mat<T: Sc>(tag: &str, v: &Option<DMatrix<T>>) -> String {
    match v {
        Some(v) => format!("{} some {}", tag, mat_str(v)),
        None => format!("{} none", tag),
    }
}

pub fn emit_tables<T: Sc>(out: &mut Out, recipe: &Recipe, alpha: &[T], w: &Option<Vec<T>>) {
    let phi = recipe.phi::<T>(alpha);
    // the SVD routine is an oracle of the model: where it breaks down on this step's FINITE matrix
    // (singular values that are not finite) the driver is told
    if svd_breaks(&phi, w) {
        out.line(" svdq nonfinite");
    } else {
        // ... and how accurate it is on this matrix (its measured backward error enters the driver's bounds)
        emit_svdq(out, recipe, alpha, w);
    }
    out.line(&format!(" phi ok {}", mat_str(&phi)));
    for k in 0..recipe.p() {
        out.line(&format!(" d {} ok {}", k, mat_str(&recipe.dphi::<T>(alpha, k))));
    }
}

/// quality of nalgebra's SVD (the decomposition the library calls) on the weighted basis matrix of
/// this step, measured in f64: ‖A − UΣVᵀ‖_max/‖A‖_max, ‖UᵀU − 1‖_max, ‖VᵀV − 1‖_max.  The driver
/// uses it as the backward error of the SVD *oracle* in its perturbation bounds (the library does
/// not expose its decomposition; the matrix and the routine are the same, so is the result).
/// does the library's SVD routine break down (singular values that are not finite) on the FINITE
/// matrix diag(w)·a ?  (the routine is an oracle of the model: its breakdown is reported)
pub fn svd_breaks<T: Sc>(a: &DMatrix<T>, w: &Option<Vec<T>>) -> bool {
    let mut a = a.clone();
    if let Some(w) = w {
        if w.len() != a.nrows() {
            return false;
        }
        for j in 0..a.ncols() {
            for i in 0..a.nrows() {
                a[(i, j)] = a[(i, j)] * w[i];
            }
        }
    }
    if a.nrows() == 0 || a.ncols() == 0 || !a.iter().all(|v| v.is_finite()) {
        return false;
    }
    !a.svd_unordered(true, true).singular_values.iter().all(|v| v.is_finite())
}

pub fn emit_svdq<T: Sc>(out: &mut Out, recipe: &Recipe, alpha: &[T], w: &Option<Vec<T>>) {
    let mut a = recipe.phi::<T>(alpha);
    if let Some(w) = w {
        if w.len() != a.nrows() {
            return;
        }
        for j in 0..a.ncols() {
            for i in 0..a.nrows() {
                a[(i, j)] = a[(i, j)] * w[i];
            }
        }
    }
    if a.nrows() == 0 || a.ncols() == 0 || !a.iter().all(|v| v.is_finite()) {
        return;
    }
    // the library's SVD routine can break down on a finite matrix whose entries span very many
    // orders of magnitude (NaN singular values); the library discards such a decomposition. The
    // routine is an oracle of the model, so its breakdown is reported to the driver.
    let mut svd = a.clone().svd_unordered(true, true);
    if !svd.singular_values.iter().all(|v| v.is_finite()) {
        out.line(" svdq nonfinite");
        return;
    }
    svd.sort_by_singular_values();
    let (u, vt) = match (svd.u.as_ref(), svd.v_t.as_ref()) {
        (Some(u), Some(vt)) => (u.map(|v| v.f()), vt.map(|v| v.f())),
        _ => return,
    };
    let sig = DMatrix::<f64>::from_diagonal(&svd.singular_values.map(|v| v.f()));
    let af = a.map(|v| v.f());
    let amax = af.iter().fold(0.0f64, |m, v| m.max(v.abs()));
    let rec = &u * &sig * &vt;
    let back = (&rec - &af).iter().fold(0.0f64, |m, v| m.max(v.abs())) / amax.max(1e-300);
    let r = sig.nrows();
    let ou = (u.transpose() * &u - DMatrix::<f64>::identity(r, r)).iter().fold(0.0f64, |m, v| m.max(v.abs()));
    let ov = (&vt * vt.transpose() - DMatrix::<f64>::identity(r, r)).iter().fold(0.0f64, |m, v| m.max(v.abs()));
    out.line(&format!(" svdq {} {} {}", hex(back), hex(ou), hex(ov)));
}

pub fn emit_outputs<T: Sc>(out: &mut Out, prefix: &str, p: &dyn DynP<T>) {
    out.line(&format!(" {} params {}", prefix, vec_str(&p.params())));
    out.line(&opt_vec(&format!(" {} res", prefix), &p.res()));
    out.line(&opt_mat(&format!(" {} coef", prefix), &p.coef()));
    out.line(&opt_mat(&format!(" {} jac", prefix), &p.jac()));
}

pub fn header_common<T: Sc>(c: &StateCase<T>) -> String {
    format!(
        "width={} flavour={} model={} n={} m={} p={} s={} wkind={} origin={}",
        T::WIDTH,
        c.flavour.name(),
        if c.built { "builder" } else { "hand" },
        c.recipe.n(),
        c.recipe.m(),
        c.recipe.p(),
        c.y.ncols(),
        c.wkind,
        c.origin
    )
}

pub fn emit_inputs<T: Sc>(out: &mut Out, c: &StateCase<T>) {
    out.line(&format!("recipe {}", c.recipe.describe()));
    out.line(&format!("x {}", slice_str(&c.recipe.x.iter().map(|v| T::of(*v)).collect::<Vec<T>>())));
    match c.eps {
        Some(e) => out.line(&format!("eps {}", hex(e.f()))),
        None => out.line("eps default"),
    }
    match &c.w {
        Some(w) => out.line(&format!("w {}", slice_str(w))),
        None => out.line("w none"),
    }
    out.line(&format!("Y {}", mat_str(&c.y)));
}

pub fn emit_state_case<T: Sc>(out: &mut Out, c: &StateCase<T>) {
    run_state_case(Some(out), c, None);
}

/// a history in which one model call fails: `step` = index into the history, `which` = 0 the
/// model's set_params, 1 its eval (both inside the problem's set_params)
pub fn emit_faulty_state_case<T: Sc>(out: &mut Out, c: &StateCase<T>, step: usize, which: usize) {
    let marks = run_state_case(None, c, None);
    if step >= marks.len() {
        return;
    }
    let k = marks[step] + which;
    run_state_case(Some(out), c, Some((k, k + 1)));
}

/// returns the number of model calls made before each history step
pub fn run_state_case<T: Sc>(out: Option<&mut Out>, c: &StateCase<T>, fault: Option<(usize, usize)>) -> Vec<usize> {
    let mut sink = Out::new();
    let out: &mut Out = match out {
        Some(o) => o,
        None => &mut sink,
    };
    let mut marks = Vec::new();
    match fault {
        Some((a, b)) => out.begin("state", &format!("{} failfrom={} failto={}", header_common(c), a, b)),
        None => out.begin("state", &header_common(c)),
    };
    emit_inputs(out, c);
    let probe = Probe::new();
    probe.logging.store(false, std::sync::atomic::Ordering::SeqCst);
    if let Some((a, b)) = fault {
        probe.set_fault(a, b);
    }
    let model = make_model::<T>(&c.recipe, &c.init, c.built, &probe);
    let wv = c.w.as_ref().map(|w| DVector::from_vec(w.clone()));
    let r = guarded(|| build_problem(c.flavour, model, &c.y, wv.as_ref(), c.eps));
    let mut prob = match r {
        Err(m) => {
            out.line(&format!("built panic {}", m));
            out.end();
            return marks;
        }
        Ok(Err(e)) => {
            out.line(&format!("built err {}", e));
            out.end();
            return marks;
        }
        Ok(Ok(p)) => p,
    };
    out.line(&format!("step build {}", slice_str(&c.init)));
    emit_tables(out, &c.recipe, &c.init, &c.w);
    out.line(&format!(" impl yw {}", mat_str(&prob.yw())));
    out.line(&format!(" impl eps {}", hex(crate::pbuilder::parse_eps_from_debug::<T>(&prob.debug()))));
    emit_outputs(out, "impl", prob.as_ref());
    for (i, alpha) in c.history.iter().enumerate() {
        marks.push(probe.count());
        out.line(&format!("step set {}", slice_str(alpha)));
        emit_tables(out, &c.recipe, alpha, &c.w);
        let av = DVector::from_vec(alpha.clone());
        let r = guarded(|| prob.set(&av));
        if let Err(m) = r {
            out.line(&format!(" impl panic {}", m));
            break;
        }
        emit_outputs(out, "impl", prob.as_ref());
        // repeated query must not change anything (not under fault injection: the extra derivative
        // calls would shift the call indices)
        if fault.is_none() {
            if c.flavour.is_par() {
                // ... whatever pool the repeated query runs in
                crate::common::in_alt_pool(i + c.recipe.n(), || emit_outputs(out, "again", prob.as_ref()));
            } else {
                emit_outputs(out, "again", prob.as_ref());
            }
        }
        // a CLONE of the problem, moved to other parameters, must behave like a fresh problem there and
        // must leave the original alone (the following steps of the original are compared as usual)
        if i == 0 && fault.is_none() && !c.built {
            if let Some(mut cl) = prob.try_clone() {
                // the clone as it is (no parameter update): it IS the problem it was copied from (round 11)
                emit_outputs(out, "twinClone", cl.as_ref());
                let alt: Vec<T> = c.init.iter().map(|v| *v * T::of(1.0625)).collect();
                let altv = DVector::from_vec(alt.clone());
                if guarded(|| cl.set(&altv)).is_ok() {
                    emit_outputs(out, "clone", cl.as_ref());
                    let probe3 = Probe::new();
                    let model3 = make_model::<T>(&c.recipe, &alt, c.built, &probe3);
                    if let Ok(Ok(fresh)) = guarded(|| build_problem(c.flavour, model3, &c.y, wv.as_ref(), c.eps)) {
                        emit_outputs(out, "cfresh", fresh.as_ref());
                    }
                    // ... and the original, queried again without any update, answers as before (round 12)
                    emit_outputs(out, "twinAfterClone", prob.as_ref());
                }
            }
        }
        // one case in three: after the first update the problem is CONVERTED (sequential <-> parallel
        // form) and the rest of the history runs on the converted problem: a conversion hands over
        // everything - data, weights, threshold, cache
        if i == 0 && fault.is_none() && (c.recipe.n() + c.history.len()) % 3 == 1 {
            let par = c.flavour.is_par();
            let old = prob;
            match guarded(move || if par { old.to_seq() } else { old.to_par() }) {
                Ok(p) => {
                    prob = p;
                    emit_outputs(out, "again", prob.as_ref());
                }
                Err(m) => {
                    out.line(&format!(" impl panic conversion:{}", m));
                    out.end();
                    return marks;
                }
            }
        }
        // a freshly built problem at the parameters the problem reports (history-free twin)
        if i % 2 == 1 || i + 1 == c.history.len() || fault.is_some() || c.origin != "random" {
            let probe2 = Probe::new();
            let cur: Vec<T> = prob.params().iter().copied().collect();
            let model2 = make_model::<T>(&c.recipe, &cur, c.built, &probe2);
            if let Ok(Ok(fresh)) = guarded(|| build_problem(c.flavour, model2, &c.y, wv.as_ref(), c.eps)) {
                emit_outputs(out, "fresh", fresh.as_ref());
            } else {
                out.line(" fresh failed");
            }
        }
    }
    out.line(&format!(" impl ywfinal {}", mat_str(&prob.yw())));
    out.end();
    marks
}

pub fn random_state_case<T: Sc>(rng: &mut Rng, thorough: bool, idx: usize) -> StateCase<T> {
    // one case in eight has one LARGE dimension (size-threshold sub-streams): many right-hand sides,
    // many samples, or many basis functions / parameters
    let big = if idx % 8 == 5 { 1 + (idx / 8) % 4 } else { 0 };
    if big == 4 {
        return many_functions_case::<T>(rng, thorough, idx);
    }
    let mut o = GenOpts {
        max_m: if thorough { 6 } else { 4 },
        max_p: if thorough { 5 } else { 3 },
        max_n: if thorough { 40 } else { 12 },
        max_s: if thorough { 6 } else { 4 },
        allow_dup: false,
        smooth_only: false,
        fixed_n: None,
    };
    match big {
        1 => {
            o.max_m = 3;
            o.max_p = 2;
            o.max_n = 10;
        }
        2 => {
            o.max_m = 3;
            o.max_p = 3;
            // one in three of these: thousands of samples (several blocks of any row blocking)
            o.fixed_n = Some(if (idx / 32) % 3 == 1 { *rng.pick(&crate::gen::HUGE_SIZES) } else { big_size(rng, thorough) });
        }
        3 => {
            o.max_m = if thorough { 12 } else { 9 };
            o.max_p = if thorough { 10 } else { 8 };
            o.fixed_n = Some(rng.range(40, 48));
        }
        _ => {}
    }
    let mut recipe = random_recipe(rng, &o);
    // one case in sixteen: no more samples than basis functions (N <= M: a legal, under-determined
    // linear sub-problem; the thin decomposition then has N, not M, singular values)
    let short = idx % 16 == 3 && recipe.m() >= 2;
    if short {
        let k = 1 + (idx / 16) % recipe.m();
        recipe.x.truncate(k);
    }
    let flavour = if big == 1 {
        *rng.pick(&[Flavour::Mrhs, Flavour::Mrhs, Flavour::MrhsPar])
    } else if big == 2 && recipe.n() > 1024 {
        *rng.pick(&[Flavour::NewPar, Flavour::MrhsPar, Flavour::NewPar, Flavour::MrhsPar, Flavour::New, Flavour::Mrhs])
    } else {
        *rng.pick(&[Flavour::New, Flavour::Mrhs, Flavour::New, Flavour::Mrhs, Flavour::NewPar, Flavour::MrhsPar])
    };
    let s = if big == 1 {
        big_size(rng, thorough)
    } else if flavour.is_mrhs() {
        let drawn = rng.range(1, o.max_s);
        // one case in eight: a SQUARE observation matrix (as many right-hand sides as samples)
        if idx % 8 == 7 && recipe.n() <= 40 {
            recipe.n()
        } else {
            drawn
        }
    } else {
        1
    };
    let exact = idx % 10 < 2;
    let mut y = random_data::<T>(rng, &recipe, s, exact);
    // one case in sixteen: observations of extreme magnitude (powers of two, so that the scaling is
    // exact): everything is linear in the data, only squares of norms are at risk
    if idx % 16 == 9 {
        // (cycled by index, not drawn: every magnitude class occurs in every run; the outer ones are
        // beyond the square root of the floating point range, where a norm computed as the root of a
        // sum of squares overflows / vanishes although every element is an ordinary number)
        let k = (idx / 16) % 6;
        let e: i32 = if T::WIDTH == 32 { [-50, 50, -70, 63, -50, 50][k] } else { [-465, 465, -100, 100, -530, 520][k] };
        let f = T::of(2f64.powi(e));
        y = y.map(|v| v * f);
    }
    let wkind = WKINDS[idx % WKINDS.len()];
    let mut w: Option<Vec<T>> = random_weights(rng, wkind, recipe.n(), recipe.m()).map(|w| w.iter().map(|v| T::of(*v)).collect());
    // one case in sixteen: SMALL UNITS - all weights (ones if there were none) times 2^-33 (2^-17 in
    // single precision): every singular value of W·Phi lies between the machine epsilon and its
    // square root; the threshold is an absolute bound on singular values, not on their squares
    let mut wkind_name = wkind.name();
    if idx % 16 == 11 {
        let f = T::of(if T::WIDTH == 32 { 2f64.powi(-17) } else { 2f64.powi(-33) });
        let base: Vec<T> = w.clone().unwrap_or_else(|| vec![T::of(1.0); recipe.n()]);
        w = Some(base.iter().map(|v| *v * f).collect());
        wkind_name = "smallunits";
    }
    // one case in sixteen: LARGE UNITS - all weights times 2^44 (2^200 in double precision): the entries
    // of W·Phi are ~1e13 (1e60), far above one but with squares well inside the range (round 13)
    if idx % 16 == 7 {
        let f = T::of(if T::WIDTH == 32 { 2f64.powi(44) } else { 2f64.powi(200) });
        let base: Vec<T> = w.clone().unwrap_or_else(|| vec![T::of(1.0); recipe.n()]);
        w = Some(base.iter().map(|v| *v * f).collect());
        wkind_name = "largeunits";
    }
    let eps = match idx % 7 {
        0 => Some(T::of(1e-9)),
        1 => Some(T::of(-1e-9)),
        // a generous user threshold (still far below the singular values of an ordinary basis)
        3 if idx % 3 == 0 => Some(T::of(*rng.pick(&[1e-4, 1e-3]))),
        // a user threshold ABOVE one, in the middle of the singular values of an ordinary basis
        5 if idx % 2 == 1 => Some(T::of([2.0, 4.0, -3.0][(idx / 14) % 3])),
        _ => None,
    };
    let init: Vec<T> = random_alpha(rng, recipe.p()).iter().map(|v| T::of(*v)).collect();
    let nh = if big != 0 { rng.range(1, 2) } else { rng.range(1, 6) };
    let mut history: Vec<Vec<T>> = Vec::new();
    for h in 0..nh {
        let a: Vec<T> = match rng.below(6) {
            0 if !history.is_empty() => history[rng.below(history.len())].clone(),
            1 => init.clone(),
            _ => random_alpha(rng, recipe.p()).iter().map(|v| T::of(*v)).collect(),
        };
        let _ = h;
        history.push(a);
    }
    StateCase {
        recipe,
        built: idx % 2 == 0,
        flavour,
        y,
        w,
        wkind: wkind_name,
        eps,
        init,
        history,
        origin: if short { "short" } else { ["random", "bigS", "bigN", "bigMP", "bigM"][big] },
    }
}

/// MANY basis functions and parameters (size thresholds in M and P: chunked / parallel column loops,
/// bit masks): a comb of M well separated Lorentz peaks, each with its own width parameter or pairs of
/// neighbours sharing one; well conditioned whatever M is
pub fn many_functions_case<T: Sc>(rng: &mut Rng, thorough: bool, idx: usize) -> StateCase<T> {
    let sizes: &[usize] = if thorough { &[17, 33, 40, 65, 70] } else { &[17, 33, 40] };
    let m = *rng.pick(sizes);
    let shared = rng.chance(0.4);
    let p = if shared { (m + 1) / 2 } else { m };
    let mut fns: Vec<FnSpec> = (0..m)
        .map(|j| FnSpec { kind: Kind::LorentzAt(j as u16), params: vec![if shared { j / 2 } else { j }] })
        .collect();
    if rng.chance(0.3) {
        fns.push(FnSpec { kind: Kind::One, params: vec![] });
    }
    // shuffle the model's parameter order
    let mut perm: Vec<usize> = (0..p).collect();
    rng.shuffle(&mut perm);
    for f in fns.iter_mut() {
        for q in f.params.iter_mut() {
            *q = perm[*q];
        }
    }
    let n = 2 * m + rng.range(1, 6);
    let x: Vec<f64> = (0..n).map(|i| ((4.0 * m as f64) * (i as f64) / (n - 1) as f64 * 64.0).round() / 64.0).collect();
    let recipe = Recipe { names: (0..p).map(|i| format!("w{}", i)).collect(), fns, x };
    let flavour = *rng.pick(&[Flavour::New, Flavour::Mrhs, Flavour::NewPar, Flavour::MrhsPar, Flavour::NewPar]);
    let s = if flavour.is_mrhs() { rng.range(1, 2) } else { 1 };
    let y = random_data::<T>(rng, &recipe, s, idx % 10 < 2);
    let wkind = WKINDS[idx % WKINDS.len()];
    let w = random_weights(rng, wkind, recipe.n(), recipe.m()).map(|w| w.iter().map(|v| T::of(*v)).collect());
    let init: Vec<T> = random_alpha(rng, p).iter().map(|v| T::of(*v)).collect();
    let history = vec![random_alpha(rng, p).iter().map(|v| T::of(*v)).collect()];
    StateCase {
        recipe,
        built: idx % 16 < 8,
        flavour,
        y,
        w,
        wkind: wkind.name(),
        eps: None,
        init,
        history,
        origin: "bigM",
    }
}

/// rank-deficient cases: one basis function duplicated (exactly dependent columns); a user
/// threshold far above the rounding level of the vanishing singular value and far below the rest
pub fn rankdef_case<T: Sc>(rng: &mut Rng, idx: usize) -> StateCase<T> {
    let o = GenOpts {
        max_m: 3,
        max_p: 2,
        max_n: 10,
        max_s: 3,
        allow_dup: false,
        smooth_only: false,
        fixed_n: None,
    };
    let mut recipe = random_recipe(rng, &o);
    let j = rng.below(recipe.fns.len());
    let dup = recipe.fns[j].clone();
    let pos = rng.below(recipe.fns.len() + 1);
    recipe.fns.insert(pos, dup);
    if recipe.x.len() < recipe.fns.len() + 1 {
        let n0 = recipe.x.len();
        for i in 0..(recipe.fns.len() + 1 - n0) {
            recipe.x.push(4.0 + i as f64 * 0.5);
        }
    }
    let flavour = *rng.pick(&[Flavour::New, Flavour::Mrhs, Flavour::MrhsPar]);
    let s = if flavour.is_mrhs() { rng.range(1, 3) } else { 1 };
    let y = random_data::<T>(rng, &recipe, s, false);
    let wkind = *rng.pick(&[WKind::None, WKind::Positive, WKind::Ones]);
    let mut w: Option<Vec<T>> = random_weights(rng, wkind, recipe.n(), recipe.m()).map(|w| w.iter().map(|v| T::of(*v)).collect());
    let mut wkind_name = wkind.name();
    // one case in six (cycled): UNIFORM weights w·1 with w = 2^-34 (2^-24 in single precision; more than three orders of magnitude below the threshold, outside the band the driver treats as ambiguous): every
    // singular value of W·Phi = w·sigma(Phi) then lies below the threshold although those of Phi lie far
    // above it - the rank decision is taken on the WEIGHTED matrix, uniform weights are weights (round 13)
    if idx % 6 == 5 {
        let wv = if T::WIDTH == 32 { 2f64.powi(-24) } else { 2f64.powi(-34) };
        w = Some(vec![T::of(wv); recipe.n()]);
        wkind_name = "uniform-small";
    }
    // far above the band within which two SVDs may disagree about a vanishing singular value
    // (backward error times sigma_max), far below the singular values that remain
    let eps = Some(T::of(if T::WIDTH == 32 { 2e-2 } else { 1e-4 } * if idx % 2 == 0 { 1.0 } else { -1.0 }));
    let init: Vec<T> = random_alpha(rng, recipe.p()).iter().map(|v| T::of(*v)).collect();
    let history = vec![random_alpha(rng, recipe.p()).iter().map(|v| T::of(*v)).collect()];
    StateCase {
        recipe,
        built: idx % 2 == 1,
        flavour,
        y,
        w,
        wkind: wkind_name,
        eps,
        init,
        history,
        origin: "rankdef",
    }
}

/// histories that pass through parameters at which the model values are not finite (or huge),
/// then return to ordinary ones: the state after each update must be that of a fresh problem
pub fn extreme_case<T: Sc>(rng: &mut Rng, idx: usize) -> StateCase<T> {
    let mut c = random_state_case::<T>(rng, false, idx);
    c.origin = "extreme";
    let specials = [-1e-3, 0.0, 1e308, f64::NAN, f64::INFINITY, -1e308, 1e-300, -2.0];
    let p = c.recipe.p();
    let mut hist: Vec<Vec<T>> = Vec::new();
    let n = rng.range(3, 6);
    for h in 0..n {
        let mut a: Vec<T> = random_alpha(rng, p).iter().map(|v| T::of(*v)).collect();
        if h % 2 == 1 || (h == 0 && idx % 3 == 0) {
            let k = rng.below(p);
            a[k] = T::of(*rng.pick(&specials));
        } else if h % 4 == 2 && p >= 2 {
            // coinciding parameters: basis functions of the same kind become identical
            let v = a[0];
            for q in a.iter_mut() {
                *q = v;
            }
        }
        hist.push(a);
    }
    c.history = hist;
    // one in five: consecutive updates that differ ONLY in the sign of a zero parameter (+0 -> -0 -> +0,
    // equal under `==`, different numbers: 1/x, atan2, copysign tell them apart): the state must follow
    if idx % 5 == 4 {
        let k = rng.below(p);
        let mut a: Vec<T> = random_alpha(rng, p).iter().map(|v| T::of(*v)).collect();
        let ordinary = a.clone();
        a[k] = T::of(0.0);
        let mut b = a.clone();
        b[k] = T::of(-0.0);
        c.history = vec![ordinary.clone(), a.clone(), b.clone(), a, ordinary, b];
    }
    // one in five: FINITE basis matrices at the edge of the floating point range (the SVD routine
    // itself can break down there), between ordinary parameters
    if idx % 5 == 2 {
        let (recipe, ordinary, edge) = crate::gen::range_edge_family(rng, T::WIDTH == 32);
        let s = c.y.ncols();
        c.recipe = recipe;
        c.y = random_data::<T>(rng, &c.recipe, s, false);
        c.w = c.w.as_ref().map(|_| (0..c.recipe.n()).map(|_| T::of(rng.uniform(0.5, 2.0))).collect());
        let o: Vec<T> = ordinary.iter().map(|v| T::of(*v)).collect();
        let e: Vec<T> = edge.iter().map(|v| T::of(*v)).collect();
        let e2: Vec<T> = edge.iter().enumerate().map(|(k, v)| T::of(if k == 1 { *v * 1.03125 } else { *v })).collect();
        c.init = o.iter().map(|v| *v * T::of(1.0625)).collect();
        c.history = vec![e.clone(), o.clone(), e2, e, o];
        c.origin = "extreme";
    }
    c
}

pub fn stream(out: &mut Out, seed: u64, thorough: bool) {
    let mut rng = Rng::new(seed ^ 0x57A7E);
    let mut sink = Out::new();
    let n = if thorough { 6000 } else { 300 };
    for i in 0..n {
        let o: &mut Out = if only_allows("random") { &mut *out } else { &mut sink };
        if i % 4 == 3 {
            let c = random_state_case::<f32>(&mut rng, thorough, i);
            emit_state_case(o, &c);
        } else {
            let c = random_state_case::<f64>(&mut rng, thorough, i);
            emit_state_case(o, &c);
        }
        sink.buf.clear();
    }
    let nr = if thorough { 1500 } else { 80 };
    for i in 0..nr {
        let o: &mut Out = if only_allows("rankdef") { &mut *out } else { &mut sink };
        if i % 5 == 4 {
            let c = rankdef_case::<f32>(&mut rng, i);
            emit_state_case(o, &c);
        } else {
            let c = rankdef_case::<f64>(&mut rng, i);
            emit_state_case(o, &c);
        }
        sink.buf.clear();
    }
    // histories with extreme parameters and histories with one failing model call
    let ne = if thorough { 1500 } else { 100 };
    for i in 0..ne {
        let o: &mut Out = if only_allows("extreme") { &mut *out } else { &mut sink };
        if i % 4 == 3 {
            let c = extreme_case::<f32>(&mut rng, i);
            emit_state_case(o, &c);
        } else {
            let c = extreme_case::<f64>(&mut rng, i);
            emit_state_case(o, &c);
        }
        sink.buf.clear();
    }
    {
        let o: &mut Out = if only_allows("diag") { &mut *out } else { &mut sink };
        crate::diag::stream_part(o, &mut rng, thorough);
        sink.buf.clear();
    }
    let nf = if thorough { 1500 } else { 100 };
    for i in 0..nf {
        let o: &mut Out = if only_allows("faulty") { &mut *out } else { &mut sink };
        let mut c = random_state_case::<f64>(&mut rng, false, i);
        c.origin = "faulty";
        // the failing call is the model's set_params or eval inside the problem's set_params, which is
        // never executed in parallel: parallel flavours are as deterministic here as sequential ones
        // (every Jacobian query makes exactly P derivative calls, in whatever order)
        while c.history.len() < 3 {
            let a: Vec<f64> = random_alpha(&mut rng, c.recipe.p());
            c.history.push(a);
        }
        let mut step = rng.below(c.history.len() - 1);
        let mut which = i % 2;
        // one faulty history in ten (cycled): two NEARLY COLLINEAR decays - after the failing evaluation at
        // the first update the problem is moved to parameters whose weighted basis has a smallest singular
        // value of ~1e-9..1e-8 (far above the default threshold, far below anything a 'conservative' fallback
        // threshold would keep): what is present afterwards must be what a fresh problem reports (round 13)
        if i % 10 == 7 {
            let n = 8 + (i / 10) % 5;
            c.recipe = Recipe {
                names: NAMES[..2].iter().map(|s| s.to_string()).collect(),
                fns: vec![FnSpec { kind: Kind::Exp, params: vec![0] }, FnSpec { kind: Kind::Exp, params: vec![1] }],
                x: (0..n).map(|k| 0.25 + 0.5 * k as f64).collect(),
            };
            c.y = random_data::<f64>(&mut rng, &c.recipe, c.y.ncols().max(1), false);
            c.w = c.w.as_ref().map(|_| (0..n).map(|_| rng.uniform(0.5, 2.0)).collect());
            c.eps = None;
            c.init = vec![1.5, 4.0];
            let t1 = 1.0 + rng.uniform(0.0, 2.0);
            let t2 = 2.0 + rng.uniform(0.0, 2.0);
            c.history = vec![vec![2.0, 5.0], vec![t1, t1 * (1.0 + 2f64.powi(-28))], vec![t2, t2 * (1.0 + 2f64.powi(-30))], vec![1.0, 3.0]];
            step = 0;
            which = 1;
        }
        emit_faulty_state_case(o, &c, step, which);
        sink.buf.clear();
    }
}
