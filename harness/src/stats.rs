//! statistics stream (C12, C13, C14): fit_with_statistics on single-right-hand-side problems with
//! N - M - P from -2 to 20, every accessor of FitStatistics, confidence bands incl. invalid input
use crate::common::*;
use crate::fit::*;
use crate::gen::*;
use crate::models::*;
use crate::prob::*;
use crate::state::*;
use crate::twins::{any_model, wrap_any, RowModel};
use nalgebra::{DMatrix, DVector};

/// increasing; the last ones are legal probabilities within a few f32 ulp of 1 (1 - 5·2^-24, 1 - 2^-24):
/// the tail mass (1-p)/2 must not be rounded to the scalar width before the quantile is taken
pub const PROBS: [f64; 14] = [
    1e-30, 1e-6, 1e-3, 0.1, 0.5, 0.683, 0.9, 0.95, 0.99, 0.999, 0.9999, 0.999999, 0.99999970197677612, 0.99999994039535522,
];
pub const BAD_PROBS: [f64; 6] = [0.0, 1.0, -1.0, 2.0, f64::NAN, f64::INFINITY];

pub fn stats_case<T: Sc>(rng: &mut Rng, idx: usize, thorough: bool) -> FitCase<T> {
    let o = GenOpts { max_m: 3, max_p: 3, max_n: 12, max_s: 1, allow_dup: false, smooth_only: idx % 8 != 7, fixed_n: None };
    let mut recipe = random_recipe(rng, &o);
    // one case in nine: a WEAK basis function (1e-4·x) together with a generous user threshold: its
    // singular value is truncated in the linear solve – the model still has M basis functions
    let weak = idx % 9 == 4;
    if weak {
        recipe.fns.push(FnSpec { kind: Kind::LinSmall, params: vec![] });
    }
    // one case in ten: an INTERPOLATION problem - one more sample than parameters, one of them with
    // weight exactly zero: the fit passes through the remaining points and very often ends with
    // weighted residuals that are all EXACTLY zero (reduced chi2 = 0, standard error 0, covariance 0)
    let interp = idx % 10 == 3;
    if interp {
        let kind = if (idx / 10) % 2 == 0 { Kind::Exp } else { Kind::Lorentz };
        recipe = Recipe { names: vec![NAMES[0].to_string()], fns: vec![FnSpec { kind, params: vec![0] }], x: vec![] };
    }
    let weak = weak && !interp;
    // one case in twenty-four (cycled): FEWER SAMPLES THAN BASIS FUNCTIONS (M = 3, P = 1, N = M + P - 2 = 2):
    // the fit interpolates (successful), the statistics are under-determined - an error value in every profile,
    // also where N - M alone is negative (the regression after round 13 showed that the random recipes could
    // go a whole run without N < M)
    if idx % 24 == 0 && !interp {
        recipe = Recipe {
            names: vec![NAMES[0].to_string()],
            fns: vec![FnSpec { kind: Kind::Exp, params: vec![0] }, FnSpec { kind: Kind::One, params: vec![] }, FnSpec { kind: Kind::Lin, params: vec![] }],
            x: vec![],
        };
    }
    let total = recipe.m() + recipe.p();
    let deltas: [i64; 12] = [-2, -1, 0, 1, 1, 2, 2, 3, 5, 8, 20, 3];
    let delta = if interp { 1 } else { deltas[idx % deltas.len()] };
    let n = ((total as i64 + delta).max(1)) as usize;
    let n = if thorough && delta == 20 { n + rng.below(40) } else { n };
    // one case in forty: THOUSANDS of samples, not a multiple of 1024 / 2048 (row blocking of the
    // normal matrix or of the band loop)
    let n = if idx % 40 == 27 && !interp { [1025usize, 1500, 2049, 3000, 4099, 2500][(idx / 40) % 6] } else { n };
    recipe.x = (0..n)
        .map(|i| (((0.25 + 3.5 * (i as f64) / (n.max(2) - 1) as f64) + rng.uniform(-0.02, 0.02)) * 256.0).round() / 256.0)
        .collect();
    let truth = random_alpha(rng, recipe.p());
    let tr: Vec<T> = truth.iter().map(|v| T::of(*v)).collect();
    let phi = recipe.phi::<T>(&tr);
    let m = recipe.m();
    // overall amplitude of the signal: the columns (dPhi/dalpha_k)·c of H scale with it, the columns
    // Phi do not (badly column-scaled H^T H; tiny singular values of H that are NOT a rank defect)
    let amp: f64 = if interp {
        1.0
    } else if (T::WIDTH == 32 && (idx / 6) % 2 == 1) || (T::WIDTH != 32 && idx % 3 == 1) {
        // (the single precision cases sit at idx = 5 mod 6, so they are selected by another digit)
        // (single precision: also units in which SQUARES of the residuals leave the range of the type)
        if T::WIDTH == 32 { [1e-4, 1e4, 1e-19, 1e-4, 1e4, 1e-20][(idx / 12) % 6] } else { *rng.pick(&[1e-9, 1e-4, 1e4, 1e6]) }
    } else {
        1.0
    };
    // two cases in thirty (one per scalar width, cycled): the UNITS of the data are such that signal and
    // observations are ~gain and the weights ~1/gain with gain = 1e-155 (1e-20 in single precision): every
    // weighted quantity (W·y, W·Phi, W·J) is ordinary, but the SQUARE of a weight is outside the range of
    // the type.  Weights act as row scaling, nothing else (round 12).  (The opposite direction - huge
    // signal, tiny weights - overflows j^T C j in the confidence band: floating-point range, not judged.)
    let gain_mode = !interp && !weak && (idx % 30 == 7 || idx % 30 == 17 || idx % 30 == 22);
    let gain: f64 = if T::WIDTH == 32 { 1e-20 } else { 1e-155 };
    let amp = if gain_mode { 1.0 } else { amp };
    let coef = DVector::from_iterator(m, (0..m).map(|_| T::of(amp * (rng.uniform(1.0, 3.0) * 16.0).round() / 16.0)));
    // (gain mode: the BASIS FUNCTIONS carry the factor - models::KERNEL_GAIN while the case runs - and the
    // coefficients stay ordinary, so that the singular values of W·Phi are ordinary too)
    let col = (&phi * coef) * T::of(if gain_mode { gain } else { 1.0 });
    // (in gain mode the weighted noise is O(1e-3): sd_i = noise / |w_i| is ~1e-3·gain)
    let noise = amp * *rng.pick(&[1e-3, 1e-2, 0.05]);
    let wkind = if interp { WKind::Zeros } else { WKINDS[idx % WKINDS.len()] };
    // zero weights are legal: the degrees of freedom stay N - M - P
    let mut w = random_weights(rng, wkind, n, m);
    if interp {
        let z = (idx / 20) % n;
        w = Some((0..n).map(|i| if i == z { 0.0 } else { 1.0 + (i as f64) * 0.5 }).collect());
    }
    if gain_mode {
        let base: Vec<f64> = match w {
            Some(v) => v.iter().map(|x| if *x == 0.0 { 1.0 } else { *x }).collect(),
            None => (0..n).map(|_| (rng.uniform(0.5, 2.0) * 16.0).round() / 16.0).collect(),
        };
        w = Some(base.iter().map(|x| x / gain).collect());
    }
    // a user-chosen singular-value threshold concerns the linear sub-problem only
    let eps: Option<T> = if weak {
        Some(T::of(1e-2))
    } else {
        match idx % 5 {
        1 => Some(T::of(1e-6)),
        3 => Some(T::of(*rng.pick(&[1e-9, 1e-4, -1e-6]))),
        _ => None,
        }
    };
    let mut y = DMatrix::from_element(n, 1, T::of(0.0));
    for i in 0..n {
        let sd = match &w {
            Some(w) if w[i] != 0.0 => noise / w[i].abs(),
            _ => noise,
        };
        y[(i, 0)] = col[i] + T::of(sd * rng.normal());
    }
    let init: Vec<T> = truth.iter().map(|v| T::of(v * (1.0 + rng.uniform(-0.02, 0.02)))).collect();
    let base = StateCase {
        recipe,
        built: idx % 2 == 0,
        flavour: if idx % 5 == 4 { Flavour::NewPar } else { Flavour::New },
        y,
        w: w.map(|w| w.iter().map(|v| T::of(*v)).collect()),
        wkind: wkind.name(),
        eps,
        init,
        history: vec![],
        origin: if gain_mode { "statsgain" } else { "stats" },
    };
    let threads = if base.flavour.is_par() { 2 } else { 0 };
    // most fits converge; some are made to give up (patience exhausted, tolerances below machine
    // precision): a fit that FAILED must never come back with statistics
    let cfg = match if interp { 0 } else { idx % 11 } {
        4 => LmCfg { ftol: 1e-15, xtol: 1e-15, gtol: 1e-15, stepbound: 100.0, patience: 1, scale_diag: true, default: false },
        9 => LmCfg { ftol: 0.0, xtol: 0.0, gtol: 0.0, stepbound: 100.0, patience: 100, scale_diag: true, default: false },
        _ => LmCfg::default_cfg(),
    };
    FitCase { base, cfg, threads }
}

pub fn emit_stats_case<T: Sc>(out: &mut Out, fc: &FitCase<T>) {
    let gain_case = fc.base.origin == "statsgain";
    if gain_case {
        set_kernel_gain(if T::WIDTH == 32 { 1e-20 } else { 1e-155 });
    }
    emit_stats_case_inner(out, fc);
    if gain_case {
        set_kernel_gain(1.0);
    }
}

fn emit_stats_case_inner<T: Sc>(out: &mut Out, fc: &FitCase<T>) {
    let c = &fc.base;
    let delta = c.recipe.n() as i64 - (c.recipe.m() + c.recipe.p()) as i64;
    // one case in four: the solver value has already been used for a fit of the same shape
    let reuse = out.cases % 4 == 2;
    out.begin("stats", &format!("{} delta={} profile={} reuse={}", header_common(c), delta, profile_name(), if reuse { 1 } else { 0 }));
    emit_inputs(out, c);
    out.line(&fc.cfg.describe::<T>());
    let probe = Probe::new();
    let model = make_model::<T>(&c.recipe, &c.init, c.built, &probe);
    let wv = c.w.as_ref().map(|w| DVector::from_vec(w.clone()));
    let prob = match guarded(|| build_problem(c.flavour, model, &c.y, wv.as_ref(), c.eps)) {
        Ok(Ok(p)) => p,
        Ok(Err(e)) => {
            out.line(&format!("built err {}", e));
            out.end();
            return;
        }
        Err(m) => {
            out.line(&format!("built panic {}", m));
            out.end();
            return;
        }
    };
    out.line(&format!("step build {}", slice_str(&c.init)));
    emit_tables(out, &c.recipe, &c.init, &c.w);
    emit_outputs(out, "impl", prob.as_ref());
    let lm = fc.cfg.build::<T>();
    let threads = fc.threads;
    // warm-up problem for the reuse cases: same model, shapes and weights, other observations
    let first: Option<Box<dyn DynP<T>>> = if reuse {
        let probe1 = Probe::new();
        let model1 = make_model::<T>(&c.recipe, &c.init, c.built, &probe1);
        let y1 = c.y.map(|v| v * T::of(1.5) + T::of(0.25));
        match guarded(|| build_problem(c.flavour, model1, &y1, wv.as_ref(), c.eps)) {
            Ok(Ok(p)) => Some(p),
            _ => None,
        }
    } else {
        None
    };
    let r = with_deadline(20, move || {
        let run = move || match first {
            Some(f) => prob.fit_stats_after(f, lm),
            None => prob.fit_stats(lm),
        };
        if threads > 0 {
            let pool = rayon::ThreadPoolBuilder::new().num_threads(threads).build().expect("pool");
            pool.install(run)
        } else {
            run()
        }
    });
    // C06 twin: the unweighted problem whose model rows, derivative rows and observations are scaled
    let twin: Option<Result<StatsOut<T>, String>> = match &c.w {
        Some(w) if !c.flavour.is_par() || true => {
            let m = AnyModel::Row(Box::new(RowModel {
                inner: any_model(&c.recipe, &c.init, c.built),
                scale: Some(w.clone()),
                overwrite: vec![],
                entries: vec![],
                fail_deriv: None,
                dentries: vec![],
                fail_eval: None,
                fail_set: None,
            }));
            let mut ys = c.y.clone();
            for r in 0..ys.nrows() {
                ys[(r, 0)] = ys[(r, 0)] * w[r];
            }
            let fl = c.flavour;
            let eps = c.eps;
            let lm2 = fc.cfg.build::<T>();
            match guarded(|| build_problem(fl, wrap_any(m), &ys, None, eps)) {
                Ok(Ok(p)) => with_deadline(20, move || {
                    if threads > 0 {
                        let pool = rayon::ThreadPoolBuilder::new().num_threads(threads).build().expect("pool");
                        pool.install(|| p.fit_stats(lm2))
                    } else {
                        p.fit_stats(lm2)
                    }
                }),
                _ => None,
            }
        }
        _ => None,
    };
    match r {
        None => out.line("result hang"),
        Some(Err(m)) => out.line(&format!("result panic {}", m)),
        Some(Ok(so)) => {
            let f = so.fit;
            out.line(&format!(
                "result {} term={} successful={} was_successful={} evals={} objective={} hasstats={}",
                if f.ok { "ok" } else { "err" },
                f.termination,
                if f.term_successful { 1 } else { 0 },
                if f.was_successful { 1 } else { 0 },
                f.evaluations,
                hex(f.objective.f()),
                if so.stats.is_some() { 1 } else { 0 }
            ));
            let alpha: Vec<T> = f.problem.params().iter().copied().collect();
            out.line(&format!("step final {}", slice_str(&alpha)));
            emit_tables(out, &c.recipe, &alpha, &c.w);
            emit_outputs(out, "impl", f.problem.as_ref());
            if let Some(st) = so.stats {
                out.line(&format!("st cov {}", mat_str(&st.covariance)));
                out.line(&format!("st corr {}", mat_str(&st.correlation)));
                out.line(&format!("stc corr {}", mat_str(&st.correlation_alias)));
                out.line(&format!("st wres {}", vec_str(&st.weighted_residuals)));
                out.line(&format!("st chi2 {}", hex(st.reduced_chi2.f())));
                out.line(&format!("st sigma {}", hex(st.sigma.f())));
                out.line(&format!("st linvar {}", vec_str(&st.lin_var)));
                out.line(&format!("st nonlinvar {}", vec_str(&st.nonlin_var)));
                out.line(&format!("stc cov {}", mat_str(&st.clone_covariance)));
                out.line(&format!("stc chi2 {}", hex(st.clone_chi2.f())));
                match &st.clone_lin_var {
                    Ok(v) => out.line(&format!("stc linvar {}", vec_str(v))),
                    Err(m) => out.line(&format!("stc linvar panic {}", m)),
                }
                match &st.clone_nonlin_var {
                    Ok(v) => out.line(&format!("stc nonlinvar {}", vec_str(v))),
                    Err(m) => out.line(&format!("stc nonlinvar panic {}", m)),
                }
                for p in PROBS.iter() {
                    match (st.stats)(T::of(*p)) {
                        Ok(r) => out.line(&format!("st band {} ok {}", hex(T::of(*p).f()), vec_str(&r))),
                        Err(m) => out.line(&format!("st band {} panic {}", hex(T::of(*p).f()), m)),
                    }
                }
                for p in BAD_PROBS.iter() {
                    match (st.stats)(T::of(*p)) {
                        Ok(r) => out.line(&format!("st band {} ok {}", hex(T::of(*p).f()), vec_str(&r))),
                        Err(m) => out.line(&format!("st band {} panic {}", hex(T::of(*p).f()), m)),
                    }
                }
            }
            // every fifth case: a model failure DURING THE STATISTICS (after a successful fit): a dry fit
            // counts the model calls K of the fit alone; then call K + j (j-th call made by the
            // statistics) fails, for every j until the statistics make no further call
            static EPISODES: std::sync::atomic::AtomicUsize = std::sync::atomic::AtomicUsize::new(0);
            if f.ok && !reuse && !c.flavour.is_par() && EPISODES.fetch_add(1, std::sync::atomic::Ordering::Relaxed) % 5 == 2 {
                let dry = Probe::new();
                dry.logging.store(false, std::sync::atomic::Ordering::SeqCst);
                let dm = make_model::<T>(&c.recipe, &c.init, c.built, &dry);
                if let Ok(Ok(dp)) = guarded(|| build_problem(c.flavour, dm, &c.y, wv.as_ref(), c.eps)) {
                    let lmd = fc.cfg.build::<T>();
                    if let Some(Ok(fo)) = with_deadline(20, move || dp.fit(lmd)) {
                        let k = dry.count();
                        if fo.ok {
                            for j in 0..(c.recipe.p() + 3) {
                                let pr = Probe::new();
                                pr.logging.store(false, std::sync::atomic::Ordering::SeqCst);
                                pr.set_fault(k + j, k + j + 1);
                                let pm = make_model::<T>(&c.recipe, &c.init, c.built, &pr);
                                let pp = match guarded(|| build_problem(c.flavour, pm, &c.y, wv.as_ref(), c.eps)) {
                                    Ok(Ok(p)) => p,
                                    _ => break,
                                };
                                let lmf = fc.cfg.build::<T>();
                                let r = with_deadline(20, move || pp.fit_stats(lmf));
                                // reached BY fit_with_statistics (the harness' own accessor calls after its
                                // return do not count)
                                let reached = match &r {
                                    Some(Ok(so)) => so.fit.calls_at_return > k + j,
                                    _ => pr.count() > k + j,
                                };
                                match r {
                                    None => out.line(&format!("statfault j={} k={} reached={} outcome=hang", j, k, reached as u8)),
                                    Some(Err(m)) => out.line(&format!("statfault j={} k={} reached={} outcome=panic:{}", j, k, reached as u8, m)),
                                    Some(Ok(so)) => out.line(&format!(
                                        "statfault j={} k={} reached={} outcome=returned ok={} hasstats={}",
                                        j,
                                        k,
                                        reached as u8,
                                        so.fit.ok as u8,
                                        so.stats.is_some() as u8
                                    )),
                                }
                                if !reached {
                                    break;
                                }
                            }
                        }
                    }
                }
            }
            match twin {
                Some(Ok(tw)) => {
                    out.line(&format!(
                        "tw result {} term={} evals={} hasstats={}",
                        if tw.fit.ok { "ok" } else { "err" },
                        tw.fit.termination,
                        tw.fit.evaluations,
                        if tw.stats.is_some() { 1 } else { 0 }
                    ));
                    out.line(&format!("tw params {}", vec_str(&tw.fit.problem.params())));
                    out.line(&opt_mat("tw coef", &tw.fit.problem.coef()));
                    if let Some(st) = tw.stats {
                        out.line(&format!("tw cov {}", mat_str(&st.covariance)));
                        out.line(&format!("tw chi2 {}", hex(st.reduced_chi2.f())));
                    }
                }
                Some(Err(m)) => out.line(&format!("tw panic {}", m)),
                None => {}
            }
        }
    }
    out.end();
}

pub fn profile_name() -> &'static str {
    if cfg!(debug_assertions) {
        "checked"
    } else {
        "release"
    }
}

pub fn stream(out: &mut Out, seed: u64, thorough: bool) {
    let mut rng = Rng::new(seed ^ 0x57A75);
    let n = if thorough { 3000 } else { 240 };
    for i in 0..n {
        // (the interpolation cases are single precision: there an exact fit is the rule)
        if i % 6 == 5 || i % 10 == 3 {
            let c = stats_case::<f32>(&mut rng, i, thorough);
            emit_stats_case(out, &c);
        } else {
            let c = stats_case::<f64>(&mut rng, i, thorough);
            emit_stats_case(out, &c);
        }
    }
}
