//! metamorphic twins executed on the real code (monitors of C06, C07, C11): the primary problem and
//! its twins receive the same history of parameter updates; all outputs are printed per step
use crate::common::*;
use crate::gen::*;
use crate::models::*;
use crate::prob::*;
use crate::state::*;
use nalgebra::{DMatrix, DVector, Dyn, OMatrix, OVector};
use std::sync::Arc;
use varpro::prelude::*;

/// wrapper model whose rows are scaled by fixed factors and/or replaced (C06 twins)
#[derive(Clone)]
pub struct RowModel<T: Sc> {
    pub inner: AnyModel<T>,
    pub scale: Option<Vec<T>>,
    /// rows to overwrite with the given constant (model and derivative rows)
    pub overwrite: Vec<(usize, T)>,
    /// single entries (row, column, value) of the basis matrix to overwrite (C08: one non-finite
    /// element anywhere, the first and the last one included)
    pub entries: Vec<(usize, usize, T)>,
    /// `(k, threshold)`: the partial derivative with respect to parameter k fails whenever the first
    /// model parameter exceeds the threshold (a failure that is a function of the parameters only,
    /// hence independent of the order in which parallel column tasks run)
    pub fail_deriv: Option<(usize, T)>,
    /// single entries (k, row, column, value) of the k-th partial-derivative matrix to overwrite
    pub dentries: Vec<(usize, usize, usize, T)>,
    /// the basis evaluation fails whenever the first model parameter exceeds the threshold
    pub fail_eval: Option<T>,
    /// `set_params` REJECTS the parameters (returns an error, keeps the old ones) whenever the first new
    /// parameter exceeds the threshold
    pub fail_set: Option<T>,
}
impl<T: Sc> RowModel<T> {
    fn fix_eval(&self, m: DMatrix<T>) -> DMatrix<T> {
        let mut m = self.fix(m);
        for (i, j, v) in self.entries.iter() {
            if *i < m.nrows() && *j < m.ncols() {
                m[(*i, *j)] = *v;
            }
        }
        m
    }
    fn fix(&self, mut m: DMatrix<T>) -> DMatrix<T> {
        for (i, v) in self.overwrite.iter() {
            for j in 0..m.ncols() {
                m[(*i, j)] = *v + T::of(j as f64);
            }
        }
        if let Some(s) = &self.scale {
            for j in 0..m.ncols() {
                for i in 0..m.nrows() {
                    m[(i, j)] = m[(i, j)] * s[i];
                }
            }
        }
        m
    }
}
impl<T: Sc> SeparableNonlinearModel for RowModel<T> {
    type ScalarType = T;
    type Error = HErr;
    fn parameter_count(&self) -> usize {
        self.inner.parameter_count()
    }
    fn base_function_count(&self) -> usize {
        self.inner.base_function_count()
    }
    fn output_len(&self) -> usize {
        self.inner.output_len()
    }
    fn set_params(&mut self, p: OVector<T, Dyn>) -> Result<(), HErr> {
        if let Some(thr) = self.fail_set {
            if p.len() > 0 && p[0] > thr {
                return Err(HErr("parameters outside the domain of the model".to_string()));
            }
        }
        self.inner.set_params(p)
    }
    fn params(&self) -> OVector<T, Dyn> {
        self.inner.params()
    }
    fn eval(&self) -> Result<OMatrix<T, Dyn, Dyn>, HErr> {
        if let Some(thr) = self.fail_eval {
            if self.inner.params()[0] > thr {
                return Err(HErr("evaluation unavailable".to_string()));
            }
        }
        self.inner.eval().map(|m| self.fix_eval(m))
    }
    fn eval_partial_deriv(&self, k: usize) -> Result<OMatrix<T, Dyn, Dyn>, HErr> {
        if let Some((kf, thr)) = self.fail_deriv {
            if k == kf && self.inner.params()[0] > thr {
                return Err(HErr("derivative unavailable".to_string()));
            }
        }
        self.inner.eval_partial_deriv(k).map(|m| {
            let mut m = self.fix(m);
            for (kk, i, j, v) in self.dentries.iter() {
                if *kk == k && *i < m.nrows() && *j < m.ncols() {
                    m[(*i, *j)] = *v;
                }
            }
            m
        })
    }
}

pub fn any_model<T: Sc>(recipe: &Recipe, init: &[T], built: bool) -> AnyModel<T> {
    if built {
        AnyModel::Built(recipe.build_separable(init))
    } else {
        AnyModel::Hand(HandModel::new(recipe, init))
    }
}

pub fn wrap_any<T: Sc>(m: AnyModel<T>) -> WM<T> {
    Wrap {
        inner: m,
        probe: Probe::new(),
    }
}

pub struct Twin<T: Sc> {
    pub prefix: String,
    pub prob: Box<dyn DynP<T>>,
}

/// run the primary problem and its twins through the history, print everything
pub fn emit_twin_case<T: Sc>(
    out: &mut Out,
    kind_attrs: &str,
    c: &StateCase<T>,
    primary: Box<dyn DynP<T>>,
    twins: Vec<Twin<T>>,
) {
    emit_twin_case_f(out, kind_attrs, c, primary, twins, None)
}

fn emit_tables_f<T: Sc>(out: &mut Out, recipe: &Recipe, alpha: &[T], fail: Option<(usize, T)>, w: &Option<Vec<T>>) {
    let phi = recipe.phi::<T>(alpha);
    if crate::state::svd_breaks(&phi, w) {
        out.line(" svdq nonfinite");
    }
    // measured accuracy of the library's SVD routine on this step's matrix (the oracle's backward error
    // enters the driver's perturbation bounds; see state::emit_svdq)
    crate::state::emit_svdq(out, recipe, alpha, w);
    out.line(&format!(" phi ok {}", mat_str(&phi)));
    for k in 0..recipe.p() {
        match fail {
            Some((kf, thr)) if kf == k && alpha[0] > thr => out.line(&format!(" d {} err", k)),
            _ => out.line(&format!(" d {} ok {}", k, mat_str(&recipe.dphi::<T>(alpha, k)))),
        }
    }
}

/// as `emit_twin_case`; `fail` = the derivative failure rule shared by the primary and its twins
pub fn emit_twin_case_f<T: Sc>(
    out: &mut Out,
    kind_attrs: &str,
    c: &StateCase<T>,
    primary: Box<dyn DynP<T>>,
    mut twins: Vec<Twin<T>>,
    fail: Option<(usize, T)>,
) {
    out.begin("state", &format!("{} {}", header_common(c), kind_attrs));
    emit_inputs(out, c);
    let mut prob = primary;
    out.line(&format!("step build {}", slice_str(&c.init)));
    emit_tables_f(out, &c.recipe, &c.init, fail, &c.w);
    out.line(&format!(" impl yw {}", mat_str(&prob.yw())));
    emit_outputs(out, "impl", prob.as_ref());
    for t in twins.iter() {
        out.line(&format!(" {} yw {}", t.prefix, mat_str(&t.prob.yw())));
        emit_outputs(out, &t.prefix, t.prob.as_ref());
    }
    for alpha in c.history.iter() {
        out.line(&format!("step set {}", slice_str(alpha)));
        emit_tables_f(out, &c.recipe, alpha, fail, &c.w);
        let av = DVector::from_vec(alpha.clone());
        if let Err(m) = guarded(|| prob.set(&av)) {
            out.line(&format!(" impl panic {}", m));
            break;
        }
        emit_outputs(out, "impl", prob.as_ref());
        for t in twins.iter_mut() {
            if let Err(m) = guarded(|| t.prob.set(&av)) {
                out.line(&format!(" {} panic {}", t.prefix, m));
                continue;
            }
            emit_outputs(out, &t.prefix, t.prob.as_ref());
        }
    }
    // epilogue (clonable = hand-written models): a CLONE of the problem is moved to the initial parameters
    // and queried, Jacobian included; the original, queried again afterwards WITHOUT any update, must
    // answer exactly as before - copies of a problem are independent objects (round 12)
    if let Some(mut cl) = prob.try_clone() {
        // the clone as it is: it IS the problem it was copied from (weights applied once, same cache)
        emit_outputs(out, "twinCloneSelf", cl.as_ref());
        let iv = DVector::from_vec(c.init.clone());
        let _ = guarded(|| {
            cl.set(&iv);
            let mut o2 = Out::new();
            emit_outputs(&mut o2, "x", cl.as_ref());
        });
        emit_outputs(out, "twinAfterClone", prob.as_ref());
    } else if std::env::var("VP_DEBUG").is_ok() {
        eprintln!("no clone: built={} origin={}", c.built, c.origin);
    }
    out.end();
}

fn base_case<T: Sc>(rng: &mut Rng, thorough: bool, idx: usize, flavour: Flavour, wkind: WKind) -> StateCase<T> {
    let mut c = random_state_case::<T>(rng, thorough, idx);
    c.flavour = flavour;
    let s = if !flavour.is_mrhs() {
        1
    } else if c.origin == "bigS" {
        c.y.ncols() // size-threshold sub-stream: keep the many right-hand sides
    } else if idx % 8 == 7 && c.recipe.n() <= 40 {
        let _ = rng.range(1, 4);
        c.recipe.n() // square observation matrix
    } else if flavour.is_par() {
        // parallel problems: the number of right-hand sides is cycled through values on both sides of
        // small multiples of plausible pool sizes (work split per thread, with and without remainder)
        let _ = rng.range(1, 4);
        [2usize, 3, 5, 7, 9, 11, 4, 1][(idx / 3) % 8]
    } else {
        rng.range(1, if thorough { 6 } else { 4 })
    };
    c.y = random_data::<T>(rng, &c.recipe, s, idx % 10 < 2);
    c.w = random_weights(rng, wkind, c.recipe.n(), c.recipe.m()).map(|w| w.iter().map(|v| T::of(*v)).collect());
    c.wkind = wkind.name();
    c
}

fn dynp<T: Sc>(
    fl: Flavour,
    model: WM<T>,
    y: &DMatrix<T>,
    w: Option<&Vec<T>>,
    eps: Option<T>,
) -> Option<Box<dyn DynP<T>>> {
    let wv = w.map(|w| DVector::from_vec(w.clone()));
    match guarded(|| build_problem(fl, model, y, wv.as_ref(), eps)) {
        Ok(Ok(p)) => Some(p),
        _ => None,
    }
}

/// C06: weighted problem vs pre-scaled unweighted problem; unit weights vs none; zero-weight rows
pub fn stream_wtwin(out: &mut Out, seed: u64, thorough: bool) {
    let mut rng = Rng::new(seed ^ 0xC06);
    let n = if thorough { 3000 } else { 200 };
    for i in 0..n {
        if i % 4 == 3 {
            one_wtwin::<f32>(out, &mut rng, thorough, i);
        } else {
            one_wtwin::<f64>(out, &mut rng, thorough, i);
        }
    }
}

/// weight twins at the truncation threshold: a nearly collinear basis whose smallest singular value
/// σ_min(W·Φ) lies a factor 3 above (or below) a user-chosen threshold ε, with weights of overall
/// magnitude 1e2..1e3 (or 1e-2..1e-3).  The rank decision must be taken on W·Φ against ε itself –
/// exactly as for the row-scaled unweighted twin – whatever the scale of the weights.
fn threshold_wtwin_case<T: Sc>(rng: &mut Rng, i: usize) -> StateCase<T> {
    let n = rng.range(8, 14);
    let with_offset = rng.chance(0.5);
    let mut fns = vec![
        FnSpec { kind: Kind::Exp, params: vec![0] },
        FnSpec { kind: Kind::Exp, params: vec![1] },
    ];
    if with_offset {
        fns.push(FnSpec { kind: Kind::One, params: vec![] });
    }
    let recipe = Recipe {
        names: NAMES[..2].iter().map(|s| s.to_string()).collect(),
        fns,
        x: (0..n).map(|k| 0.25 + 3.5 * (k as f64) / (n - 1) as f64).collect(),
    };
    let tau = (rng.uniform(1.0, 2.5) * 256.0).round() / 256.0;
    let delta = if T::WIDTH == 32 { 1.0 / 64.0 } else { *rng.pick(&[1.0 / 1024.0, 1.0 / 128.0]) };
    let init: Vec<T> = vec![T::of(tau), T::of(tau * (1.0 + delta))];
    let scale = [100.0, 1000.0, 0.01, 0.001][i % 4];
    let w: Vec<T> = (0..n).map(|_| T::of(scale * (rng.uniform(0.5, 1.0) * 256.0).round() / 256.0)).collect();
    let fl = *rng.pick(&[Flavour::New, Flavour::Mrhs, Flavour::MrhsPar]);
    let s = if fl.is_mrhs() { rng.range(1, 3) } else { 1 };
    let y = random_data::<T>(rng, &recipe, s, false);
    // smallest singular value of W·Φ(init), computed by the harness
    let mut a = recipe.phi::<T>(&init);
    for j in 0..a.ncols() {
        for r in 0..n {
            a[(r, j)] = a[(r, j)] * w[r];
        }
    }
    let sv = a.svd(false, false).singular_values;
    let smin = sv.iter().fold(f64::INFINITY, |m, v| m.min(v.f()));
    // big weights: σ_min is kept by ε but would be dropped by ε·max|w|; small weights: the reverse
    let eps = if scale > 1.0 { smin / 3.0 } else { smin * 3.0 };
    let other: Vec<T> = random_alpha(rng, 2).iter().map(|v| T::of(*v)).collect();
    let history = vec![init.clone(), other, init.clone()];
    StateCase {
        recipe,
        built: i % 2 == 0,
        flavour: fl,
        y,
        w: Some(w),
        wkind: "scaled",
        eps: Some(T::of(eps)),
        init,
        history,
        origin: "wthreshold",
    }
}

fn one_wtwin<T: Sc>(out: &mut Out, rng: &mut Rng, thorough: bool, i: usize) {
    let wk = [WKind::Positive, WKind::Zeros, WKind::Negatives, WKind::Wide, WKind::Ones, WKind::Constant][i % 6];
    let fl0 = *rng.pick(&[Flavour::New, Flavour::Mrhs, Flavour::Mrhs, Flavour::MrhsPar]);
    let c = if i % 10 == 7 {
        threshold_wtwin_case::<T>(rng, i / 10)
    } else {
        let mut c = base_case::<T>(rng, thorough, i, fl0, wk);
        if c.origin == "random" {
            c.origin = "wtwin";
        }
        c
    };
    let mut c = c;
    // one case in ten: weights spanning far more orders of magnitude than the precision of the type
    // (times exact powers of two from 1 down to 2^-70 / 2^-34): a small weight is a small weight, not zero
    if i % 10 == 3 {
        if let Some(w) = c.w.as_mut() {
            let n = w.len();
            let span = if T::WIDTH == 32 { 34.0 } else { 70.0 };
            for (r, v) in w.iter_mut().enumerate() {
                let e = -(span * r as f64 / (n.max(2) - 1) as f64).round();
                *v = *v * T::of(2f64.powf(e));
            }
        }
    }
    let fl = c.flavour;
    let w = c.w.clone().unwrap();
    let n = c.recipe.n();
    // one case in seven (cycled; 7 is coprime to the 6 weight kinds): the basis EVALUATION fails at some of
    // the parameter vectors of the history (whenever the first parameter exceeds the median) - for the
    // weighted problem and for its row-scaled twin alike - and the history goes on at parameters where it
    // succeeds: the weights must still be in effect afterwards (round 11).  One such case in two also
    // starts at parameters where the evaluation fails.
    let fail_eval: Option<T> = if i % 7 == 4 && i % 10 != 7 {
        let mut a0: Vec<f64> = c.history.iter().map(|a| a[0].f()).collect();
        a0.push(c.init[0].f());
        a0.sort_by(|x, y| x.partial_cmp(y).unwrap());
        let thr = a0[a0.len() / 2] + 1e-3;
        if (i / 7) % 2 == 1 {
            let p = c.recipe.p();
            let mut bad = c.init.clone();
            bad[0] = T::of(thr + 1.0);
            let good: Vec<T> = c.init.clone();
            let mut h = vec![good.clone()];
            h.extend(c.history.iter().cloned());
            c.history = h;
            c.init = bad;
            let _ = p;
        }
        Some(T::of(thr))
    } else {
        None
    };
    let primary_model = if fail_eval.is_some() {
        AnyModel::Row(Box::new(RowModel {
            inner: any_model(&c.recipe, &c.init, c.built),
            scale: None,
            overwrite: vec![],
            entries: vec![],
            fail_deriv: None,
            dentries: vec![],
            fail_eval,
            fail_set: None,
        }))
    } else {
        any_model(&c.recipe, &c.init, c.built)
    };
    let primary = match dynp(fl, wrap_any(primary_model), &c.y, Some(&w), c.eps) {
        Some(p) => p,
        None => return,
    };
    let mut twins: Vec<Twin<T>> = Vec::new();
    // W: rows of model, derivatives and data scaled, no weights
    {
        let m = AnyModel::Row(Box::new(RowModel {
            inner: any_model(&c.recipe, &c.init, c.built),
            scale: Some(w.clone()),
            overwrite: vec![],
            entries: vec![],
            fail_deriv: None,
            dentries: vec![],
            fail_eval,
            fail_set: None,
        }));
        let mut ys = c.y.clone();
        for j in 0..ys.ncols() {
            for r in 0..n {
                ys[(r, j)] = ys[(r, j)] * w[r];
            }
        }
        if let Some(p) = dynp(fl, wrap_any(m), &ys, None, c.eps) {
            twins.push(Twin { prefix: "twinW".into(), prob: p });
        }
    }
    // U: all weights one  <->  no weights
    if c.wkind == "ones" {
        if let Some(p) = dynp(fl, wrap_any(any_model(&c.recipe, &c.init, c.built)), &c.y, None, c.eps) {
            twins.push(Twin { prefix: "twinU".into(), prob: p });
        }
    }
    // Z: samples with weight zero carry different data and different model rows
    let zeros: Vec<usize> = (0..n).filter(|r| w[*r] == T::of(0.0)).collect();
    if !zeros.is_empty() {
        let m = AnyModel::Row(Box::new(RowModel {
            inner: any_model(&c.recipe, &c.init, c.built),
            scale: None,
            overwrite: zeros.iter().map(|r| (*r, T::of(3.25 + *r as f64))).collect(),
            entries: vec![],
            fail_deriv: None,
            dentries: vec![],
            fail_eval: None,
            fail_set: None,
        }));
        let mut yz = c.y.clone();
        for r in zeros.iter() {
            for j in 0..yz.ncols() {
                yz[(*r, j)] = T::of(-7.5 + j as f64);
            }
        }
        if let Some(p) = dynp(fl, wrap_any(m), &yz, Some(&w), c.eps) {
            twins.push(Twin { prefix: "twinZ".into(), prob: p });
        }
    }
    let names: Vec<String> = twins.iter().map(|t| t.prefix.clone()).collect();
    if fail_eval.is_some() {
        // the harness tables do not describe a model that fails to evaluate: judged by the twins alone
        twins.retain(|t| t.prefix == "twinW");
        emit_twin_case(out, "twins=twinW faileval=1 only=twins", &c, primary, twins);
        return;
    }
    emit_twin_case(out, &format!("twins={}", names.join(",")), &c, primary, twins);
}

/// C07: S right-hand sides vs S single problems; one-column matrix vs vector; permuted columns
pub fn stream_mrhs(out: &mut Out, seed: u64, thorough: bool) {
    let mut rng = Rng::new(seed ^ 0xC07);
    let n = if thorough { 3000 } else { 200 };
    for i in 0..n {
        // (parallel cases run inside pools of 1, 2, 3 or 5 workers instead of the global one)
        let par = i % 3 == 2;
        if i % 4 == 3 {
            if par {
                crate::common::in_alt_pool(i / 3, || one_mrhs::<f32>(out, &mut rng, thorough, i));
            } else {
                one_mrhs::<f32>(out, &mut rng, thorough, i);
            }
        } else if par {
            crate::common::in_alt_pool(i / 3, || one_mrhs::<f64>(out, &mut rng, thorough, i));
        } else {
            one_mrhs::<f64>(out, &mut rng, thorough, i);
        }
    }
}

fn one_mrhs<T: Sc>(out: &mut Out, rng: &mut Rng, thorough: bool, i: usize) {
    let wk = WKINDS[i % WKINDS.len()];
    let fl = if i % 3 == 2 { Flavour::MrhsPar } else { Flavour::Mrhs };
    let mut c = base_case::<T>(rng, thorough, i, fl, wk);
    if c.origin == "random" {
        c.origin = "mrhs";
    }
    // one case in forty (double precision): MANY right-hand sides (64) over a basis with a condition
    // number of ~1e12 - a constant next to the late tail of a decay (singular values ~7 and ~1e-12, far
    // above the default threshold): whether a direction is kept must not depend on HOW MANY right-hand
    // sides are fitted together
    if i % 40 == 17 && T::WIDTH == 64 {
        let n = 50;
        c.recipe = Recipe {
            names: vec![NAMES[0].to_string()],
            fns: vec![FnSpec { kind: Kind::One, params: vec![] }, FnSpec { kind: Kind::Exp, params: vec![0] }],
            x: (0..n).map(|k| 28.0 + 3.0 * k as f64 / (n - 1) as f64).collect(),
        };
        c.init = vec![T::of(1.0)];
        c.history = vec![vec![T::of(1.0)]];
        c.w = None;
        c.wkind = "none";
        c.eps = None;
        c.y = DMatrix::from_fn(n, 64, |r, col| T::of(((r * 7 + col * 13) % 17) as f64 / 16.0 + 1.0 + col as f64 * 0.125));
        c.origin = "mrhs-illcond";
    }
    let n = c.recipe.n();
    // duplicated / linearly dependent / single columns
    match i % 5 {
        0 => {
            let col = c.y.column(0).into_owned();
            c.y = DMatrix::from_columns(&[col]);
        }
        1 if c.y.ncols() >= 2 => {
            let c0 = c.y.column(0).into_owned();
            c.y.set_column(1, &c0);
        }
        2 if c.y.ncols() >= 3 => {
            let c2 = c.y.column(0) * T::of(2.0) - c.y.column(1);
            c.y.set_column(2, &c2);
        }
        4 if c.y.ncols() >= 2 && (i / 5) % 2 == 0 => {
            // right-hand sides of wildly different magnitude (exact powers of two): the columns are
            // independent problems, a common scale must not couple them
            let big: i32 = if T::WIDTH == 32 { 60 } else { 600 };
            let ncol = c.y.ncols();
            for j in 0..ncol {
                let e = if j % 2 == 0 { big } else { -big };
                let f = T::of(2f64.powi(e));
                let col = c.y.column(j) * f;
                c.y.set_column(j, &col);
            }
        }
        3 if c.y.ncols() >= 2 => {
            // an all-zero observation column (first, last or in the middle): its coefficients, residual
            // block and Jacobian blocks are exactly zero and must stay in ITS slots
            let j = match (i / 5) % 3 {
                0 => 0,
                1 => c.y.ncols() - 1,
                _ => c.y.ncols() / 2,
            };
            let z = DVector::from_element(c.y.nrows(), T::of(0.0));
            c.y.set_column(j, &z);
        }
        _ => {}
    }
    let s = c.y.ncols();
    let w = c.w.clone();
    let primary = match dynp(fl, wrap_any(any_model(&c.recipe, &c.init, c.built)), &c.y, w.as_ref(), c.eps) {
        Some(p) => p,
        None => return,
    };
    let mut twins: Vec<Twin<T>> = Vec::new();
    for j in 0..s {
        let yj = DMatrix::from_columns(&[c.y.column(j).into_owned()]);
        let fj = if j % 2 == 0 { Flavour::New } else { fl.seq() };
        if let Some(p) = dynp(fj, wrap_any(any_model(&c.recipe, &c.init, c.built)), &yj, w.as_ref(), c.eps) {
            twins.push(Twin { prefix: format!("twinS{}", j), prob: p });
        }
    }
    // reversed column order
    if s >= 2 {
        let cols: Vec<DVector<T>> = (0..s).rev().map(|j| c.y.column(j).into_owned()).collect();
        let yr = DMatrix::from_columns(&cols);
        if let Some(p) = dynp(fl, wrap_any(any_model(&c.recipe, &c.init, c.built)), &yr, w.as_ref(), c.eps) {
            twins.push(Twin { prefix: "twinR".into(), prob: p });
        }
    }
    let _ = n;
    let names: Vec<String> = twins.iter().map(|t| t.prefix.clone()).collect();
    emit_twin_case(out, &format!("twins={}", names.join(",")), &c, primary, twins);
}

/// C11: parallel vs sequential problems under thread pools of different sizes
pub fn stream_par(out: &mut Out, seed: u64, thorough: bool) {
    let mut rng = Rng::new(seed ^ 0xC11);
    let sizes: Vec<usize> = if thorough { (1..=16).collect() } else { vec![1, 2, 3, 4, 8, 16] };
    let per = if thorough { 60 } else { 12 };
    for (si, threads) in sizes.iter().enumerate() {
        let pool = rayon::ThreadPoolBuilder::new().num_threads(*threads).build().expect("pool");
        for i in 0..per {
            let idx = si * per + i;
            if idx % 4 == 3 {
                pool.install(|| one_par::<f32>(out, &mut rng, thorough, idx, *threads));
            } else {
                pool.install(|| one_par::<f64>(out, &mut rng, thorough, idx, *threads));
            }
        }
    }
}

fn one_par<T: Sc>(out: &mut Out, rng: &mut Rng, thorough: bool, i: usize, threads: usize) {
    let wk = WKINDS[i % WKINDS.len()];
    let fl = if i % 2 == 0 { Flavour::MrhsPar } else { Flavour::NewPar };
    // one case in twelve (one per pool size in the quick tier): thousands of samples
    let gen_idx = if i % 12 == 11 { 96 * (i / 12) + 45 } else { i };
    let mut c = base_case::<T>(rng, thorough, gen_idx, fl, wk);
    if c.origin == "random" {
        c.origin = "par";
    }
    // one case in six (cycled): consecutive updates that differ ONLY in the sign of a zero parameter
    // (+0 -> -0 -> +0 -> ordinary -> -0: equal under `==`, different numbers); both flavours must follow (round 11)
    if i % 6 == 5 && i % 12 != 11 {
        let p = c.recipe.p();
        let k = rng.below(p);
        let mut a: Vec<T> = random_alpha(rng, p).iter().map(|v| T::of(*v)).collect();
        let ordinary = a.clone();
        a[k] = T::of(0.0);
        let mut b = a.clone();
        b[k] = T::of(-0.0);
        c.history = vec![ordinary.clone(), a.clone(), b.clone(), a, ordinary, b];
    }
    let w = c.w.clone();
    // one case in four: a partial derivative fails at some of the parameter vectors of the history
    // (the parallel Jacobian must then be absent exactly where the sequential one is)
    let fail: Option<(usize, T)> = if i % 4 == 1 {
        let mut a0: Vec<f64> = c.history.iter().map(|a| a[0].f()).collect();
        a0.push(c.init[0].f());
        a0.sort_by(|x, y| x.partial_cmp(y).unwrap());
        Some((rng.below(c.recipe.p()), T::of(a0[a0.len() / 2] - 1e-3)))
    } else {
        None
    };
    // one case in eight: the basis EVALUATION fails at some of the parameter vectors (a function of
    // the parameters); one in eight: all basis values are finite but next to the overflow threshold
    // (their sum is not finite) or next to the underflow threshold
    let thr_mid = {
        let mut a0: Vec<f64> = c.history.iter().map(|a| a[0].f()).collect();
        a0.push(c.init[0].f());
        a0.sort_by(|x, y| x.partial_cmp(y).unwrap());
        T::of(a0[a0.len() / 2] + 1e-3)
    };
    let fail_eval: Option<T> = if i % 8 == 3 { Some(thr_mid) } else { None };
    // one case in eight: `set_params` itself REJECTS some of the parameter vectors (round 13): both
    // flavours must end up without a cache there
    let fail_set: Option<T> = if i % 8 == 5 { Some(thr_mid) } else { None };
    let huge: Option<f64> = if i % 8 == 7 {
        // cycled by index: every magnitude class in every run
        Some(if T::WIDTH == 32 { [1e37, 1e-36][(i / 8) % 2] } else { [1e307, 1e-300, 1e306][(i / 8) % 3] })
    } else {
        None
    };
    let n_rows = c.recipe.n();
    let mk = |c: &StateCase<T>| -> WM<T> {
        if fail.is_none() && fail_eval.is_none() && huge.is_none() && fail_set.is_none() {
            return wrap_any(any_model(&c.recipe, &c.init, c.built));
        }
        wrap_any(AnyModel::Row(Box::new(RowModel {
            inner: any_model(&c.recipe, &c.init, c.built),
            scale: huge.map(|h| vec![T::of(h); n_rows]),
            overwrite: vec![],
            entries: vec![],
            fail_deriv: fail,
            dentries: vec![],
            fail_eval,
            fail_set,
        })))
    };
    let primary = match dynp(fl, mk(&c), &c.y, w.as_ref(), c.eps) {
        Some(p) => p,
        None => return,
    };
    let mut twins: Vec<Twin<T>> = Vec::new();
    if let Some(p) = dynp(fl.seq(), mk(&c), &c.y, w.as_ref(), c.eps) {
        twins.push(Twin { prefix: "twinSeq".into(), prob: p });
    }
    // a parallel problem converted to its sequential form right after construction
    if let Some(p) = dynp(fl, mk(&c), &c.y, w.as_ref(), c.eps) {
        twins.push(Twin { prefix: "twinInto".into(), prob: p.to_seq() });
    }
    // a sequential problem passed through `into_parallel()`
    if let Some(p) = dynp(fl.seq(), mk(&c), &c.y, w.as_ref(), c.eps) {
        twins.push(Twin { prefix: "twinIntoPar".into(), prob: p.to_par() });
    }
    emit_twin_case_f(
        out,
        &format!(
            "twins=twinSeq,twinInto,twinIntoPar threads={} failderiv={} faileval={}{}",
            threads,
            if fail.is_some() { 1 } else { 0 },
            if fail_eval.is_some() { 1 } else { 0 },
            // the harness tables do not describe a model that fails to evaluate or is scaled to the edge of
            // the floating-point range: such cases are judged by the twins alone
            if fail_eval.is_some() || huge.is_some() || fail_set.is_some() { " only=twins" } else { "" }
        ),
        &c,
        primary,
        twins,
        fail,
    );
}
