import VarproModel.Drv.Parse
import VarproModel.Drv.PBuilder
import VarproModel.Drv.SepModel
/-!
# driver — reads a case file (line protocol), runs the executable model on every case and
prints one verdict line per case.  Imports only `Core/` and `Drv/` (no Mathlib), so it links.
-/
open Varpro Varpro.Drv

def dispatch (c : Case) : String :=
  match c.kind with
  | "pbuilder" => handlePBuilder c
  | "sepmodel" => handleSepModel c
  | k => s!"corr=INTERNAL(unknown-kind-{k}) mon=ok nontrivial=0 tag=none"

partial def loop (h : IO.FS.Stream) (cur : Option Case) : IO Unit := do
  let line ← h.getLine
  if line.isEmpty then return ()
  let toks := tokens (line.trimAscii.toString)
  match cur with
  | none =>
    if toks.getD 0 "" == "case" then
      loop h (some { id := natAt toks 1, kind := toks.getD 2 "", header := toks, body := #[] })
    else loop h none
  | some c =>
    if toks.getD 0 "" == "end" then
      IO.println s!"case {c.id} {dispatch c}"
      loop h none
    else loop h (some { c with body := c.body.push toks })

def main (args : List String) : IO Unit := do
  match args with
  | [path] =>
    let hdl ← IO.FS.Handle.mk path .read
    loop (IO.FS.Stream.ofHandle hdl) none
  | _ => loop (← IO.getStdin) none
