import VarproModel.Drv.Parse
import VarproModel.Drv.PBuilder
import VarproModel.Drv.SepModel
import VarproModel.Drv.State
import VarproModel.Drv.Fit
import VarproModel.Drv.Stats
import VarproModel.Drv.ShapeDrv
/-!
# driver — reads a case file (line protocol), runs the executable model on every case and
prints one verdict line per case.  Imports only `Core/` and `Drv/` (no Mathlib), so it links.
-/
open Varpro Varpro.Drv

def dispatch (focus : String) (c : Case) : String :=
  match c.kind with
  | "pbuilder" => handlePBuilder c
  | "sepmodel" => handleSepModel c
  | "state" => handleState focus c
  | "fit" => handleFit focus c
  | "fault" => handleFault focus c
  | "robust" => handleRobust focus c
  | "robustspec" => handleRobustSpec c
  | "conv" => handleConv focus c
  | "mc" => handleMc focus c
  | "stats" => handleStats focus c
  | "shape" => handleShape c
  | k => s!"corr=INTERNAL(unknown-kind-{k}) mon=ok nontrivial=0 tag=none"

partial def loop (focus : String) (h : IO.FS.Stream) (cur : Option Case) : IO Unit := do
  let line ← h.getLine
  if line.isEmpty then return ()
  let toks := tokens (line.trimAscii.toString)
  match cur with
  | none =>
    if toks.getD 0 "" == "case" then
      loop focus h (some { id := natAt toks 1, kind := toks.getD 2 "", header := toks, body := #[] })
    else loop focus h none
  | some c =>
    if toks.getD 0 "" == "end" then
      IO.println s!"case {c.id} {dispatch focus c}"
      loop focus h none
    else loop focus h (some { c with body := c.body.push toks })

def main (args : List String) : IO Unit := do
  match args with
  | [path] =>
    let hdl ← IO.FS.Handle.mk path .read
    loop "all" (IO.FS.Stream.ofHandle hdl) none
  | [path, focus] =>
    let hdl ← IO.FS.Handle.mk path .read
    loop focus (IO.FS.Stream.ofHandle hdl) none
  | _ => loop "all" (← IO.getStdin) none
