import VarproModel.Core.LM
import VarproModel.Core.Stats
import VarproModel.Core.ProblemBuilder
import VarproModel.Core.ModelBuilder
import Lean
/-!
# FieldCensus — the fields / constructors of the Lean structures that stand for the state-carrying
types of the implementation, printed by reflection (`lake env lean FieldCensus.lean`).
`tools/source_census.py` extracts the fields of the Rust types from /repo on every run;
`census/reference.json` holds the reviewed correspondence between the two lists.  A field added on
either side without the other is a broken tie (C10: hidden state the model does not have).
-/
open Lean Elab Command

run_cmd do
  let env ← getEnv
  for n in [`Varpro.Problem, `Varpro.Cache, `Varpro.LM.FitResult, `Varpro.LM.Config, `Varpro.LM.Report,
            `Varpro.PB.State, `Varpro.PB.Built, `Varpro.MB.Model, `Varpro.MB.Unfinished, `Varpro.MB.B,
            `Varpro.MB.FnB, `Varpro.MB.MBF, `Varpro.Stats] do
    match getStructureInfo? env n with
    | some info => IO.println s!"FIELDS {n} {" ".intercalate (info.fieldNames.toList.map toString)}"
    | none =>
      match env.find? n with
      | some (.inductInfo iv) =>
        IO.println s!"CTORS {n} {" ".intercalate (iv.ctors.map fun c => toString (c.replacePrefix n .anonymous))}"
      | _ => IO.println s!"MISSING {n}"
