import VarproModel.Core.Mat
import VarproModel.Core.ProblemBuilder
import VarproModel.Props.C18
