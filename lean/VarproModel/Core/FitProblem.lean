import VarproModel.Core.Problem
import VarproModel.Core.LM
/-!
# Core/FitProblem — varpro's problem as the optimizer sees it, and its abstract specification

`problemLSP` / `problemLSPPar` are the two `impl LeastSquaresProblem for LevMarProblem` blocks of
src/solvers/levmar/mod.rs (sequential; parallel with the Jacobian's column tasks run under a
schedule).  `specLSP` is the specification they refine for a model honouring the trait contract:
a state consisting of *the current parameters and the cache computed for them* – no model state, no
history, no schedule.
-/
namespace Varpro
variable {K E : Type} {n m p s : Nat} {U : UserModel n m p K E}
variable [Add K] [Sub K] [Mul K] [Div K] [Zero K] [LT K] [DecidableLT K]

/-- `impl LeastSquaresProblem for LevMarProblem<Model, MRHS, PARALLEL_NO>` -/
def problemLSP (x : Ext K) (o : XOps K) :
    LM.LSP (Problem U s) K (Vector K p) (Vector K (n * s)) (Mat (n * s) p K) where
  setParams P α := P.setParams x o α
  params P := P.params
  residuals P := P.residuals
  jacobian P := P.jacobianSeq

/-- `impl LeastSquaresProblem for LevMarProblem<Model, MRHS, PARALLEL_YES>`: every Jacobian
evaluation runs its column tasks under the schedule the (arbitrary) scheduler `sched` picks -/
def problemLSPPar (x : Ext K) (o : XOps K) (sched : Problem U s → Schedule p) :
    LM.LSP (Problem U s) K (Vector K p) (Vector K (n * s)) (Mat (n * s) p K) where
  setParams P α := P.setParams x o α
  params P := P.params
  residuals P := P.residuals
  jacobian P := P.jacobianPar (sched P)

/-- a model honouring the trait contract: applying parameters succeeds and stores them; evaluation
and derivatives are functions of the stored parameters and leave them alone (hidden state – call
counters, caches – may change freely) -/
structure Lawful (U : UserModel n m p K E) (evalF : Vector K p → Except E (Mat n m K))
    (derivF : Vector K p → Fin p → Except E (Mat n m K)) : Prop where
  set_ok : ∀ st α, (U.setParams st α).2 = .ok ()
  set_params : ∀ st α, U.params (U.setParams st α).1 = α
  eval_val : ∀ st, (U.eval st).2 = evalF (U.params st)
  eval_params : ∀ st, U.params (U.eval st).1 = U.params st
  deriv_val : ∀ st k, (U.deriv st k).2 = derivF (U.params st) k
  deriv_params : ∀ st k, U.params (U.deriv st k).1 = U.params st

/-- specification state: the parameters in effect and what is cached for them -/
structure SpecSt (n m p s : Nat) (K : Type) where
  alpha : Vector K p
  cached : Option (Cache n m s K)

/-- the cache that belongs to `α`: absent iff the model does not evaluate there (or the weighted
basis matrix is unusable) -/
def cacheOf (x : Ext K) (o : XOps K) (Yw : Mat n s K) (eps : K) (w : Option (Vector K n))
    (evalF : Vector K p → Except E (Mat n m K)) (α : Vector K p) : Option (Cache n m s K) :=
  match evalF α with
  | .error _ => none
  | .ok Phi => computeCache x o Yw eps (wmul w Phi)

/-- all derivatives at `α`, in index order; absent as soon as one of them fails -/
def derivList (derivF : Vector K p → Fin p → Except E (Mat n m K)) (α : Vector K p) :
    List (Fin p) → Option (List (Fin p × Mat n m K))
  | [] => some []
  | k :: rest =>
    match derivF α k with
    | .error _ => none
    | .ok D =>
      match derivList derivF α rest with
      | none => none
      | some ds => some ((k, D) :: ds)

/-- the Jacobian that belongs to `α` and its cache -/
def jacOf (w : Option (Vector K n)) (derivF : Vector K p → Fin p → Except E (Mat n m K))
    (α : Vector K p) (c : Cache n m s K) : Option (Mat (n * s) p K) :=
  (derivList derivF α (List.finRange p)).map fun ds => assembleJac (blockOf w c ds)

/-- the specification: a least-squares problem whose whole state is `(α, cache of α)` -/
def specLSP (x : Ext K) (o : XOps K) (Yw : Mat n s K) (eps : K) (w : Option (Vector K n))
    (evalF : Vector K p → Except E (Mat n m K)) (derivF : Vector K p → Fin p → Except E (Mat n m K)) :
    LM.LSP (SpecSt n m p s K) K (Vector K p) (Vector K (n * s)) (Mat (n * s) p K) where
  setParams _ α := { alpha := α, cached := cacheOf x o Yw eps w evalF α }
  params a := a.alpha
  residuals a := a.cached.map fun c => c.residuals.vec
  jacobian a := (a, a.cached.bind (jacOf w derivF a.alpha))

/-- the abstraction map -/
def Problem.abs (P : Problem U s) : SpecSt n m p s K := { alpha := P.params, cached := P.cached }

end Varpro
