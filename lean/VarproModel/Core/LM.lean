/-!
# Core/LM — control flow of `LevenbergMarquardt::minimize` (levenberg-marquardt 0.14.0, `lm.rs`)
and of varpro's `LevMarSolver::fit` / `fit_with_statistics` (src/solvers/levmar/mod.rs)

Transcribed: `LM::new`, the outer loop, `update_diag`, `trust_region_iteration` with its exact
accept / shrink / grow arithmetic, the termination tests in source order, `reset_params_if`,
`into_report`.  **Not** transcribed, kept as unconstrained oracle operations (`Ops`): the pivoted
QR, the LMPAR sub-problem, norms and vector arithmetic.  Nothing is assumed about them, so every
theorem about `minimize` holds for whatever these numerical routines return.

Recursion is by fuel: every trust-region trial and every outer iteration consumes one unit;
`minimize` starts with `2·max_fev + 4`, which is never exhausted (`Props/C04`).
-/
namespace Varpro.LM

/-- `TerminationReason` -/
inductive Termination where
  | user (what : String)
  | numerical (what : String)
  | residualsZero
  | orthogonal
  | converged (ftol xtol : Bool)
  | noImprovementPossible (what : String)
  | lostPatience
  | noParameters
  | noResiduals
  | wrongDimensions (what : String)
  | fuelExhausted          -- model artefact; unreachable from `minimize`
deriving DecidableEq, Repr, Inhabited

/-- `TerminationReason::was_successful` -/
def Termination.wasSuccessful : Termination → Bool
  | .residualsZero | .orthogonal | .converged _ _ => true
  | _ => false

/-- `MinimizationReport`; `objective = none` stands for the NaN the code starts with -/
structure Report (K : Type) where
  termination : Termination
  evaluations : Nat
  objective : Option K

/-- `LevenbergMarquardt` (the configuration) -/
structure Config (K : Type) where
  ftol : K
  xtol : K
  gtol : K
  stepbound : K
  patience : Nat
  scaleDiag : Bool

/-- scalar constants and non-algebraic scalar operations -/
structure Num (K : Type) where
  p1 : K            -- 0.1
  p0001 : K         -- 1e-4
  half : K          -- 0.5
  quarter : K       -- 0.25
  threeQuarter : K  -- 0.75
  ten : K
  epsmch : K
  minPositive : K
  isFinite : K → Bool
  isNegative : K → Bool
  abs : K → K
  sqrt : K → K

/-- `LeastSquaresProblem` as seen by the optimizer; `jacobian` takes `&self` but the user's model
may have interior state, so the target is threaded -/
structure LSP (T K Vx Vr J : Type) where
  setParams : T → Vx → T
  params : T → Vx
  residuals : T → Option Vr
  jacobian : T → T × Option J

/-- numerical building blocks left abstract -/
structure Ops (K Vx Vr J LLS : Type) where
  enormR : Vr → K
  enormX : Vx → K
  lenX : Vx → Nat
  lenR : Vr → Nat
  jacRows : J → Nat
  jacCols : J → Nat
  ones : Nat → Vx
  mulDiag : Vx → Vx → Vx
  subStep : Vx → Vx → Vx
  mkLLS : J → Vr → LLS
  maxAtBScaled : LLS → K → Option K
  initDiag : LLS → Vx
  maxDiag : LLS → Vx → Vx
  lmpar : LLS → Vx → K → K → (K × K × Vx) × LLS
  axNorm : LLS → Vx → K

variable {T K Vx Vr J LLS : Type}
variable [Add K] [Sub K] [Mul K] [Div K] [Neg K] [Zero K] [One K] [LT K] [LE K]
  [DecidableLT K] [DecidableLE K] [DecidableEq K]

/-- `struct LM` -/
structure St (T K Vx : Type) where
  x : Vx
  target : T
  evaluations : Nat
  objective : Option K
  delta : K
  lambda : K
  xnorm : K
  gnorm : K
  residualsNorm : K
  diag : Vx
  firstTR : Bool
  firstUpdate : Bool
  maxFev : Nat
  m : Nat

def St.report (st : St T K Vx) (t : Termination) : T × Report K :=
  (st.target, { termination := t, evaluations := st.evaluations, objective := st.objective })

def minK (a b : K) : K := if b < a then b else a
def maxK (a b : K) : K := if a < b then b else a

/-- `LM::new` -/
def new (P : LSP T K Vx Vr J) (o : Ops K Vx Vr J LLS) (nm : Num K) (cfg : Config K) (target : T) :
    Except (T × Report K) (St T K Vx × Vr) :=
  let x := P.params target
  match P.residuals target with
  | none => .error (target, { termination := .user "residuals", evaluations := 1, objective := none })
  | some residuals =>
    let norm := o.enormR residuals
    let obj := some (norm * norm * nm.half)
    let n := o.lenX x
    if n = 0 then .error (target, { termination := .noParameters, evaluations := 1, objective := obj })
    else
      let m := o.lenR residuals
      if m = 0 then .error (target, { termination := .noResiduals, evaluations := 1, objective := obj })
      else if !nm.isFinite norm then
        .error (target, { termination := .numerical "residuals norm", evaluations := 1, objective := obj })
      else if norm ≤ nm.minPositive then
        .error (target, { termination := .residualsZero, evaluations := 1, objective := obj })
      else
        .ok ({ x := x, target := target, evaluations := 1, objective := obj, delta := 0, lambda := 0,
               xnorm := 0, gnorm := 0, residualsNorm := norm, diag := o.ones n, firstTR := true,
               firstUpdate := true, maxFev := cfg.patience * (n + 1), m := m }, residuals)

/-- numeric part of `update_diag`: `(gnorm, diag, xnorm, delta, first_update)` or a stop -/
def updateDiagNum (o : Ops K Vx Vr J LLS) (nm : Num K) (cfg : Config K) (st : St T K Vx) (lls : LLS) :
    Except Termination (K × Vx × K × K × Bool) :=
  match o.maxAtBScaled lls st.residualsNorm with
  | none => .error (.numerical "jacobian")
  | some g =>
    if g ≤ cfg.gtol then .error .orthogonal
    else if st.firstUpdate then
      let diag := if cfg.scaleDiag then o.initDiag lls else st.diag
      let xnorm := if cfg.scaleDiag then o.enormX (o.mulDiag diag st.x) else o.enormX st.x
      if !nm.isFinite xnorm then .error (.numerical "subproblem x")
      else
        let delta := if xnorm = 0 then cfg.stepbound else cfg.stepbound * xnorm
        .ok (g, diag, xnorm, delta, false)
    else if cfg.scaleDiag then .ok (g, o.maxDiag lls st.diag, st.xnorm, st.delta, st.firstUpdate)
    else .ok (g, st.diag, st.xnorm, st.delta, st.firstUpdate)

/-- `update_diag`: only `gnorm`, `diag`, `xnorm`, `delta`, `first_update` change -/
def updateDiag (o : Ops K Vx Vr J LLS) (nm : Num K) (cfg : Config K) (st : St T K Vx) (lls : LLS) :
    Except Termination (St T K Vx) :=
  match updateDiagNum o nm cfg st lls with
  | .error t => .error t
  | .ok (g, d, xn, dl, fu) =>
    .ok { st with gnorm := g, diag := d, xnorm := xn, delta := dl, firstUpdate := fu }

/-- `reset_params_if` -/
def resetParamsIf (P : LSP T K Vx Vr J) (st : St T K Vx) (reset : Bool) : St T K Vx :=
  if reset then { st with target := P.setParams st.target st.x } else st

/-- result of one `trust_region_iteration` -/
inductive TR (T K Vx Vr : Type) where
  | accepted (st : St T K Vx) (residuals : Vr)     -- `Ok(Some(residuals))`
  | rejected (st : St T K Vx)                       -- `Ok(None)`
  | stop (st : St T K Vx) (t : Termination)         -- `Err(reason)`

/-- numeric prelude of `trust_region_iteration`: predicted reduction and directional derivative,
or a numerical stop -/
def trPrelude (o : Ops K Vx Vr J LLS) (nm : Num K) (st : St T K Vx) (lls : LLS) (pnorm : K) (step : Vx) :
    Except Termination (K × K) :=
  if !nm.isFinite pnorm then .error (.numerical "subproblem ||Dp||")
  else
    let a := o.axNorm lls step / st.residualsNorm
    let temp1 := a * a
    if !nm.isFinite temp1 then .error (.numerical "trust-region reduction")
    else
      let b := (nm.sqrt st.lambda * pnorm) / st.residualsNorm
      let temp2 := b * b
      if !nm.isFinite temp2 then .error (.numerical "trust-region reduction")
      else .ok (temp1 + temp2 / nm.half, -(temp1 + temp2))

/-- `actual_reduction` -/
def actualReduction (nm : Num K) (oldNorm newNorm : K) : K :=
  if newNorm * nm.p1 < oldNorm then 1 - (newNorm / oldNorm) * (newNorm / oldNorm) else -1

/-- `ratio` -/
def ratioOf (actual predicted : K) : K := if predicted = 0 then 0 else actual / predicted

/-- update of the trust-region radius and of λ: the new `(delta, lambda)` -/
def trRegionNum (nm : Num K) (st : St T K Vx) (pnorm ratio actual dirDer newNorm : K) : K × K :=
  if ratio ≤ nm.quarter then
    let temp0 := if !nm.isNegative actual then nm.half
      else nm.half * dirDer / (dirDer + nm.half * actual)
    let temp := if st.residualsNorm ≤ newNorm * nm.p1 || temp0 < nm.p1 then nm.p1 else temp0
    (temp * minK st.delta (pnorm * nm.ten), st.lambda / temp)
  else if st.lambda = 0 || nm.threeQuarter ≤ ratio then (pnorm / nm.half, st.lambda * nm.half)
  else (st.delta, st.lambda)

/-- touches `delta` and `lambda` only -/
def trRegion (nm : Num K) (st : St T K Vx) (pnorm ratio actual dirDer newNorm : K) : St T K Vx :=
  { st with delta := (trRegionNum nm st pnorm ratio actual dirDer newNorm).1,
            lambda := (trRegionNum nm st pnorm ratio actual dirDer newNorm).2 }

/-- the new `xnorm` after `x ← tmp`, or the numerical stop -/
def trAcceptNum (o : Ops K Vx Vr J LLS) (nm : Num K) (cfg : Config K) (diag tmp : Vx) :
    Except Termination K :=
  let xnorm := if cfg.scaleDiag then o.enormX (o.mulDiag diag tmp) else o.enormX tmp
  if !nm.isFinite xnorm then .error (.numerical "new x") else .ok xnorm

/-- acceptance of a good trial: `x ← tmp`, new `xnorm`; a non-finite `xnorm` stops *before* the
residual norm and the reported objective are updated -/
def trAccept (o : Ops K Vx Vr J LLS) (nm : Num K) (cfg : Config K) (st : St T K Vx) (tmp : Vx)
    (newNorm : K) : Except Termination (St T K Vx) :=
  match trAcceptNum o nm cfg st.diag tmp with
  | .error t => .error t
  | .ok xnorm =>
    .ok { st with x := tmp, xnorm := xnorm, residualsNorm := newNorm,
                  objective := some (newNorm * newNorm * nm.half) }

/-- the convergence and termination tests, in source order; `none` = go on -/
def trTests (nm : Num K) (cfg : Config K) (st : St T K Vx) (actual predicted ratio : K) :
    Option Termination :=
  if st.residualsNorm ≤ nm.minPositive then some .residualsZero
  else
    let ftolCheck := decide (nm.abs actual ≤ cfg.ftol) && decide (predicted ≤ cfg.ftol)
      && decide (ratio * nm.half ≤ 1)
    let xtolCheck := decide (st.delta ≤ cfg.xtol * st.xnorm)
    if ftolCheck || xtolCheck then some (.converged ftolCheck xtolCheck)
    else if st.maxFev ≤ st.evaluations then some .lostPatience
    else if decide (nm.abs actual ≤ nm.epsmch) && decide (predicted ≤ nm.epsmch)
        && decide (ratio * nm.half ≤ 1) then some (.noImprovementPossible "ftol")
    else if st.delta ≤ nm.epsmch * st.xnorm then some (.noImprovementPossible "xtol")
    else if st.gnorm ≤ nm.epsmch then some (.noImprovementPossible "gtol")
    else none

/-- bookkeeping before the trial is evaluated: λ from the sub-problem, the radius is clipped to the
step length in the very first iteration -/
def trPre (st : St T K Vx) (param : K × K × Vx) : St T K Vx :=
  let st := { st with lambda := param.1 }
  let st := if st.firstTR && param.2.1 < st.delta then { st with delta := param.2.1 } else st
  { st with firstTR := false }

/-- everything after the trial parameters have been applied and residuals were obtained -/
def trAfter (P : LSP T K Vx Vr J) (o : Ops K Vx Vr J LLS) (nm : Num K) (cfg : Config K)
    (st : St T K Vx) (tmp : Vx) (residuals : Vr) (pnorm predicted dirDer : K) : TR T K Vx Vr :=
  let newNorm := o.enormR residuals
  let actual := actualReduction nm st.residualsNorm newNorm
  let ratio := ratioOf actual predicted
  let st := trRegion nm st pnorm ratio actual dirDer newNorm
  let good := decide (nm.p0001 ≤ ratio)
  match (if good then trAccept o nm cfg st tmp newNorm else .ok st) with
  | .error t => .stop { st with x := tmp } t
  | .ok st =>
    match trTests nm cfg st actual predicted ratio with
    | some t => .stop (resetParamsIf P st (!good)) t
    | none => if good then .accepted st residuals else .rejected st

/-- `trust_region_iteration`; `param = (lambda, dp_norm, step)` -/
def trustRegionIteration (P : LSP T K Vx Vr J) (o : Ops K Vx Vr J LLS) (nm : Num K) (cfg : Config K)
    (st : St T K Vx) (lls : LLS) (param : K × K × Vx) : TR T K Vx Vr :=
  match trPrelude o nm { st with lambda := param.1 } lls param.2.1 param.2.2 with
  | .error t => .stop { st with lambda := param.1 } t
  | .ok (predicted, dirDer) =>
    let st := trPre st param
    let tmp := o.subStep st.x param.2.2
    let st := { st with target := P.setParams st.target tmp, evaluations := st.evaluations + 1 }
    match P.residuals st.target with
    | none => .stop st (.user "residuals")
    | some residuals =>
      if o.lenR residuals ≠ st.m then .stop st (.wrongDimensions "residuals")
      else trAfter P o nm cfg st tmp residuals param.2.1 predicted dirDer

/-- where the main loop stands -/
inductive Phase (Vr LLS : Type) where
  | outer (residuals : Vr)
  | inner (lls : LLS)

/-- the two nested loops of `minimize`, by fuel -/
def run (P : LSP T K Vx Vr J) (o : Ops K Vx Vr J LLS) (nm : Num K) (cfg : Config K) :
    Nat → St T K Vx → Phase Vr LLS → T × Report K
  | 0, st, _ => st.report .fuelExhausted
  | fuel + 1, st, .outer residuals =>
    match P.jacobian st.target with
    | (t1, none) => ({ st with target := t1 }).report (.user "jacobian")
    | (t1, some jac) =>
      let st := { st with target := t1 }
      if o.jacCols jac ≠ o.lenX st.x || o.jacRows jac ≠ st.m then
        st.report (.wrongDimensions "jacobian")
      else
        let lls := o.mkLLS jac residuals
        match updateDiag o nm cfg st lls with
        | .error t => st.report t
        | .ok st => run P o nm cfg fuel st (.inner lls)
  | fuel + 1, st, .inner lls =>
    let (param, lls) := o.lmpar lls st.diag st.delta st.lambda
    match trustRegionIteration P o nm cfg st lls param with
    | .stop st t => st.report t
    | .accepted st residuals => run P o nm cfg fuel st (.outer residuals)
    | .rejected st => run P o nm cfg fuel st (.inner lls)

/-- `LevenbergMarquardt::minimize` -/
def minimize (P : LSP T K Vx Vr J) (o : Ops K Vx Vr J LLS) (nm : Num K) (cfg : Config K) (target : T) :
    T × Report K :=
  match new P o nm cfg target with
  | .error r => r
  | .ok (st, residuals) => run P o nm cfg (2 * st.maxFev + 4) st (.outer residuals)

/-- `FitResult` -/
structure FitResult (T K : Type) where
  problem : T
  report : Report K

def FitResult.wasSuccessful (r : FitResult T K) : Bool := r.report.termination.wasSuccessful

/-- the report `fit` hands out: the optimizer's, except that a successful reason is replaced by
`User(..)` when the final problem exposes no residuals (the optimizer cannot observe a model failure
in its final `set_params`) -/
def finalReport (P : LSP T K Vx Vr J) (problem : T) (report : Report K) : Report K :=
  if report.termination.wasSuccessful && (P.residuals problem).isNone then
    { report with termination := .user "model failed when the final parameters were applied" }
  else report

/-- `LevMarSolver::fit`: `Ok` iff the (final) termination reason counts as successful; both
branches carry the final problem (converted with `into_sequential`, the identity on all fields) and
the report -/
def fit (P : LSP T K Vx Vr J) (o : Ops K Vx Vr J LLS) (nm : Num K) (cfg : Config K) (target : T) :
    Except (FitResult T K) (FitResult T K) :=
  let (problem, report) := minimize P o nm cfg target
  let result : FitResult T K := { problem := problem, report := finalReport P problem report }
  if result.wasSuccessful then .ok result else .error result

/-- `LevMarSolver::fit_with_statistics`; `coeffs` is `linear_coefficients()`, `stats` is
`FitStatistics::try_calculate` applied to the final problem -/
def fitWithStatistics {C S Es : Type} (P : LSP T K Vx Vr J) (o : Ops K Vx Vr J LLS) (nm : Num K)
    (cfg : Config K) (coeffs : T → Option C) (stats : T → C → Except Es S) (target : T) :
    Except (FitResult T K) (FitResult T K × S) :=
  match fit P o nm cfg target with
  | .error r => .error r
  | .ok r =>
    if !r.report.termination.wasSuccessful then .error r
    else match coeffs r.problem with
      | none => .error r
      | some c =>
        match stats r.problem c with
        | .ok s => .ok (r, s)
        | .error _ => .error r

end Varpro.LM
