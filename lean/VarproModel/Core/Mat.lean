/-!
# Core/Mat — import-free, scalar-generic matrices with dimensions in the type

Every product in the numeric model is shape-correct by construction – the
situation that the two builders of varpro establish before any arithmetic is
done.  The same definitions run on `Float` in the compiled driver and are the
subject of the theorems (over an arbitrary ordered field) in `Proofs/`, `Props/`.
-/
namespace Varpro

structure Mat (n m : Nat) (K : Type) where
  data : Vector (Vector K m) n

namespace Mat
variable {K : Type} {n m k s : Nat}

@[inline] def ofFn (f : Fin n → Fin m → K) : Mat n m K :=
  ⟨Vector.ofFn fun i => Vector.ofFn fun j => f i j⟩

@[inline] def get (A : Mat n m K) (i : Fin n) (j : Fin m) : K := (A.data[i])[j]

@[simp] theorem get_ofFn (f : Fin n → Fin m → K) (i : Fin n) (j : Fin m) :
    (ofFn f).get i j = f i j := by
  simp [ofFn, get]

theorem ext_get {A B : Mat n m K} (h : ∀ i j, A.get i j = B.get i j) : A = B := by
  cases A with | mk a => cases B with | mk b =>
  congr
  apply Vector.ext
  intro i hi
  apply Vector.ext
  intro j hj
  exact h ⟨i, hi⟩ ⟨j, hj⟩

/-- sum over `Fin n` as a left-to-right list sum (what the theorems turn into `∑`) -/
def sumFin [Add K] [Zero K] (f : Fin n → K) : K := (List.ofFn f).sum

def mul [Add K] [Mul K] [Zero K] (A : Mat n k K) (B : Mat k m K) : Mat n m K :=
  ofFn fun i j => sumFin fun l => A.get i l * B.get l j

def transpose (A : Mat n m K) : Mat m n K := ofFn fun i j => A.get j i
def sub [Sub K] (A B : Mat n m K) : Mat n m K := ofFn fun i j => A.get i j - B.get i j
def add [Add K] (A B : Mat n m K) : Mat n m K := ofFn fun i j => A.get i j + B.get i j
def neg [Neg K] (A : Mat n m K) : Mat n m K := ofFn fun i j => - A.get i j
def map {L : Type} (f : K → L) (A : Mat n m K) : Mat n m L := ofFn fun i j => f (A.get i j)
def zero [Zero K] : Mat n m K := ofFn fun _ _ => 0

/-- `&DiagMatrix * M` of `src/util/mod.rs`: every column is multiplied component-wise by the
diagonal, i.e. entry `(i,j)` becomes `A i j * w i` (`component_mul_assign`: `self[i] *= rhs[i]`). -/
def rowScale [Mul K] (w : Vector K n) (A : Mat n m K) : Mat n m K :=
  ofFn fun i j => A.get i j * w[i]

/-- a single column as an `n × 1` matrix -/
def col (A : Mat n m K) (j : Fin m) : Mat n 1 K := ofFn fun i _ => A.get i j

/-- select (permute, duplicate, drop) columns: column `j` of the result is column `f j` of `A` -/
def selectCols {s' : Nat} (f : Fin s' → Fin m) (A : Mat n m K) : Mat n s' K :=
  ofFn fun i j => A.get i (f j)

/-- all entries satisfy a boolean predicate -/
def all (A : Mat n m K) (p : K → Bool) : Bool :=
  (List.finRange n).all fun i => (List.finRange m).all fun j => p (A.get i j)

/-- element `q` of the column-stacked vector: entry `(q mod n, q div n)` -/
def vecGet (A : Mat n s K) (q : Fin (n * s)) : K :=
  have hn : 0 < n := by
    rcases Nat.eq_zero_or_pos n with h | h
    · have := q.isLt; subst h; simp at this
    · exact h
  A.get ⟨q.val % n, Nat.mod_lt _ hn⟩
    ⟨q.val / n, by
      have := q.isLt
      exact (Nat.div_lt_iff_lt_mul hn).mpr (by have e := Nat.mul_comm n s; omega)⟩

/-- `to_vector` of `src/util/mod.rs` (`reshape_generic` of a column-major matrix): the columns
stacked on top of each other; element `i + j·n` is `A i j`. -/
def vec (A : Mat n s K) : Vector K (n * s) := Vector.ofFn A.vecGet

/-- horizontal concatenation `[A | B]` (`concat_colwise` of `src/statistics/mod.rs`) -/
def hcat (A : Mat n m K) (B : Mat n k K) : Mat n (m + k) K :=
  ofFn fun i j =>
    if h : j.val < m then A.get i ⟨j.val, h⟩
    else B.get i ⟨j.val - m, by have := j.isLt; omega⟩

end Mat
end Varpro
