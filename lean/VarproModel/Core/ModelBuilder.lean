/-!
# Core/ModelBuilder — `SeparableModelBuilder`, `ModelBasisFunctionBuilder`, `detail.rs`,
and the builder-made `SeparableModel` (src/model/…)

Transcription of the builder state machine (three states), of the function builder with its
internal `Result`, of the name checks / index mapping, and of the finished model's `set_params`,
`eval`, `eval_partial_deriv`.  Names `N`, user function payloads `F` (parametrised functions and
derivatives), `G` (invariant functions), the independent variable `X` and scalars `K` are abstract.
The `HashMap<usize, _>` of derivatives is an association list with replace-on-insert; its iteration
order is never used by the code (`insert`, `contains_key`, `get`, `len` only).
-/
namespace Varpro.MB

/-- `ModelBuildError` plus `logicPanic` for the `panic!` in `check_completion` -/
inductive BErr (N : Type) where
  | duplicateParameterNames (l : List N)
  | emptyParameters
  | functionParameterNotInModel (p : N)
  | invalidDerivative (p : N) (fps : List N)
  | duplicateDerivative (p : N)
  | missingDerivative (p : N) (fps : List N)
  | emptyModel
  | unusedParameter (p : N)
  | incorrectParameterCount (actual expected : Nat)
  | commaInParameterNameNotAllowed (p : N)
  | missingX
  | missingInitialParameters
  | illegalCallToPartialDeriv
  | logicPanic
deriving DecidableEq, Repr, Inhabited

/-- a builder call with its payloads -/
inductive Call (N F G X K : Type) where
  | function (fps : List N) (f : F)
  | partialDeriv (p : N) (d : F)
  | invariant (g : G)
  | indepVar (x : X)
  | initParams (v : List K)

variable {N F G X K : Type} [DecidableEq N]

/-- first index of `v` in `l` (`Iterator::position`) -/
def position (l : List N) (v : N) : Option Nat :=
  match l with
  | [] => none
  | a :: as => if a = v then some 0 else (position as v).map (· + 1)

/-- `has_only_unique_elements` -/
def allUnique : List N → Bool
  | [] => true
  | a :: as => !as.contains a && allUnique as

/-- `check_parameter_names` (detail.rs): empty, then comma, then duplicates -/
def checkNames (hasComma : N → Bool) (l : List N) : Except (BErr N) Unit :=
  if l.isEmpty then .error .emptyParameters
  else match l.find? hasComma with
    | some p => .error (.commaInParameterNameNotAllowed p)
    | none => if allUnique l then .ok () else .error (.duplicateParameterNames l)

/-- `create_index_mapping`: first failing element decides the error -/
def indexMapping (full sub : List N) : Except (BErr N) (List Nat) :=
  match sub with
  | [] => .ok []
  | v :: vs =>
    match position full v with
    | none => .error (.functionParameterNotInModel v)
    | some i =>
      match indexMapping full vs with
      | .error e => .error e
      | .ok is => .ok (i :: is)

/-- the wrapped closure stored in a `ModelBasisFunction`: the user function together with the
index mapping that selects its arguments from the full parameter vector -/
structure Wrapped (F : Type) where
  f : F
  map : List Nat
deriving Repr

/-- `create_wrapped_basis_function`; `arity` is `F::ARGUMENT_COUNT` -/
def wrap (hasComma : N → Bool) (arity : F → Nat) (mps fps : List N) (f : F) :
    Except (BErr N) (Wrapped F) :=
  match checkNames hasComma mps with
  | .error e => .error e
  | .ok () =>
  match checkNames hasComma fps with
  | .error e => .error e
  | .ok () =>
  if fps.length ≠ arity f then .error (.incorrectParameterCount fps.length (arity f))
  else match indexMapping mps fps with
    | .error e => .error e
    | .ok im => .ok ⟨f, im⟩

/-- `ModelBasisFunction`: function and derivative map -/
inductive Fun (F G : Type) where
  | invariant (g : G)
  | wrapped (w : Wrapped F)

structure MBF (F G : Type) where
  function : Fun F G
  derivatives : List (Nat × Wrapped F) := []

/-- `HashMap::insert`: returns the new map and whether the key was present -/
def mapInsert {V : Type} (m : List (Nat × V)) (k : Nat) (v : V) : List (Nat × V) × Bool :=
  if m.any (fun kv => kv.1 == k) then
    (m.map fun kv => if kv.1 == k then (k, v) else kv, true)
  else (m ++ [(k, v)], false)

def mapGet {V : Type} (m : List (Nat × V)) (k : Nat) : Option V :=
  (m.find? fun kv => kv.1 == k).map (·.2)

def mapContains {V : Type} (m : List (Nat × V)) (k : Nat) : Bool := m.any fun kv => kv.1 == k

/-- `ModelBasisFunctionBuilder` -/
structure FnB (N F G : Type) where
  mps : List N
  fps : List N
  res : Except (BErr N) (MBF F G)

/-- `ModelBasisFunctionBuilder::new` -/
def FnB.new (hasComma : N → Bool) (arity : F → Nat) (mps fps : List N) (f : F) : FnB N F G :=
  match checkNames hasComma fps with
  | .error e => ⟨mps, fps, .error e⟩
  | .ok () =>
    match wrap hasComma arity mps fps f with
    | .error e => ⟨mps, fps, .error e⟩
    | .ok w => ⟨mps, fps, .ok { function := .wrapped w }⟩

/-- the index the derivative is stored under: first `i` with `mps[i] ∈ fps ∧ mps[i] = p` -/
def derivIndex (mps fps : List N) (p : N) : Option Nat :=
  go mps 0
where
  go : List N → Nat → Option Nat
    | [], _ => none
    | a :: as, i => if fps.contains a && a = p then some i else go as (i + 1)

/-- `ModelBasisFunctionBuilder::partial_deriv` -/
def FnB.partialDeriv (hasComma : N → Bool) (arity : F → Nat) (b : FnB N F G) (p : N) (d : F) :
    FnB N F G :=
  match derivIndex b.mps b.fps p with
  | some idx =>
    match b.res with
    | .error _ => b
    | .ok mf =>
      match wrap hasComma arity b.mps b.fps d with
      | .ok w =>
        let (m', present) := mapInsert mf.derivatives idx w
        if present then { b with res := .error (.duplicateDerivative p) }
        else { b with res := .ok { mf with derivatives := m' } }
      | .error e => { b with res := .error e }
  | none => { b with res := .error (.invalidDerivative p b.fps) }

/-- `check_completion` -/
def FnB.checkCompletion (hasComma : N → Bool) (b : FnB N F G) : Except (BErr N) Unit :=
  match b.res with
  | .error _ => .ok ()
  | .ok mf =>
    match checkNames hasComma b.mps with
    | .error e => .error e
    | .ok () =>
    match checkNames hasComma b.fps with
    | .error e => .error e
    | .ok () =>
    match indexMapping b.mps b.fps with
    | .error e => .error e
    | .ok im =>
      match (im.zip b.fps).find? (fun ip => !mapContains mf.derivatives ip.1) with
      | some ip => .error (.missingDerivative ip.2 b.fps)
      | none =>
        if im.length ≠ mf.derivatives.length then .error .logicPanic else .ok ()

/-- `ModelBasisFunctionBuilder::build` -/
def FnB.build (hasComma : N → Bool) (b : FnB N F G) : Except (BErr N) (MBF F G) :=
  match b.checkCompletion hasComma with
  | .error e => .error e
  | .ok () => b.res

/-- `UnfinishedModel` -/
structure Unfinished (N F G X K : Type) where
  names : List N
  fns : List (MBF F G) := []
  x : Option X := none
  init : Option (List K) := none

/-- `SeparableModelBuilder` -/
inductive B (N F G X K : Type) where
  | error (e : BErr N)
  | normal (m : Unfinished N F G X K)
  | building (m : Unfinished N F G X K) (fb : FnB N F G)

/-- `SeparableModelBuilder::new` -/
def B.new (hasComma : N → Bool) (names : List N) : B N F G X K :=
  match checkNames hasComma names with
  | .error e => .error e
  | .ok () => .normal { names := names }

/-- `extend_model` followed by `Self::from` -/
def extend (hasComma : N → Bool) (m : Unfinished N F G X K) (fb : FnB N F G) :
    Except (BErr N) (Unfinished N F G X K) :=
  match fb.build hasComma with
  | .error e => .error e
  | .ok f => .ok { m with fns := m.fns ++ [f] }

/-- one call in the `Normal` state -/
def stepNormal (hasComma : N → Bool) (arity : F → Nat) (m : Unfinished N F G X K) :
    Call N F G X K → B N F G X K
  | .function fps f => .building m (FnB.new hasComma arity m.names fps f)
  | .partialDeriv _ _ => .error .illegalCallToPartialDeriv
  | .invariant g => .normal { m with fns := m.fns ++ [{ function := .invariant g }] }
  | .indepVar x => .normal { m with x := some x }
  | .initParams v =>
    if m.names.length ≠ v.length then
      .error (.incorrectParameterCount v.length m.names.length)
    else .normal { m with init := some v }

/-- one builder call (`function`, `partial_deriv`, `invariant_function`, `independent_variable`,
`initial_parameters`) -/
def step (hasComma : N → Bool) (arity : F → Nat) : B N F G X K → Call N F G X K → B N F G X K
  | .error e, _ => .error e
  | .normal m, c => stepNormal hasComma arity m c
  | .building m fb, .partialDeriv p d => .building m (fb.partialDeriv hasComma arity p d)
  | .building m fb, c =>
    match extend hasComma m fb with
    | .error e => .error e
    | .ok m' => stepNormal hasComma arity m' c

/-- the builder-made model -/
structure Model (N F G X K : Type) where
  names : List N
  fns : List (MBF F G)
  x : X
  params : List K

/-- does some function carry a derivative for model-parameter index `i`? -/
def usedIndex (fns : List (MBF F G)) (i : Nat) : Bool :=
  fns.any fun f => mapContains f.derivatives i

/-- first unused parameter, scanning the names in order -/
def firstUnused (fns : List (MBF F G)) : List N → Nat → Option N
  | [], _ => none
  | n :: ns, i => if usedIndex fns i then firstUnused fns ns (i + 1) else some n

/-- `TryInto<SeparableModel>` for `UnfinishedModel` -/
def finish (m : Unfinished N F G X K) : Except (BErr N) (Model N F G X K) :=
  if m.fns.isEmpty then .error .emptyModel
  else if m.names.isEmpty then .error .emptyParameters
  else match firstUnused m.fns m.names 0 with
    | some n => .error (.unusedParameter n)
    | none =>
      match m.x with
      | none => .error .missingX
      | some x =>
        match m.init with
        | none => .error .missingInitialParameters
        | some v => .ok { names := m.names, fns := m.fns, x := x, params := v }

/-- `SeparableModelBuilder::build` -/
def build (hasComma : N → Bool) : B N F G X K → Except (BErr N) (Model N F G X K)
  | .error e => .error e
  | .normal m => finish m
  | .building m fb =>
    match extend hasComma m fb with
    | .error e => .error e
    | .ok m' => finish m'

/-- a complete builder session: `new(names)`, the calls in order, `build()` -/
def run (hasComma : N → Bool) (arity : F → Nat) (names : List N) (calls : List (Call N F G X K)) :
    Except (BErr N) (Model N F G X K) :=
  build hasComma (calls.foldl (step hasComma arity) (B.new hasComma names))

end Varpro.MB
