import VarproModel.Core.SepModel
/-!
# Core/ModelSpec — the *specification* side of C15/C16/C17, written independently of the builder's
state machine: calls are grouped into items (a `function` call with the maximal run of directly
following `partial_deriv` calls, …), validity is a conjunction of first-order conditions on the
items, and evaluation routes parameters **by name**.
-/
namespace Varpro.MB

/-- a parametrised function with the derivatives attached directly after it -/
structure FnItem (N F : Type) where
  fps : List N
  f : F
  derivs : List (N × F) := []

inductive Item (N F G X K : Type) where
  | fn (g : FnItem N F)
  | inv (g : G)
  | x (x : X)
  | init (v : List K)
  | stray (p : N)

variable {N F G X K V : Type}

def flush (cur : Option (FnItem N F)) : List (Item N F G X K) :=
  match cur with
  | none => []
  | some g => [.fn g]

/-- grouping of a call sequence into items (structural recursion; no validation) -/
def group : Option (FnItem N F) → List (Call N F G X K) → List (Item N F G X K)
  | cur, [] => flush cur
  | cur, .partialDeriv p d :: rest =>
    match cur with
    | some g => group (some { g with derivs := g.derivs ++ [(p, d)] }) rest
    | none => .stray p :: group none rest
  | cur, .function fps f :: rest => flush cur ++ group (some { fps := fps, f := f }) rest
  | cur, .invariant g :: rest => flush cur ++ .inv g :: group none rest
  | cur, .indepVar x :: rest => flush cur ++ .x x :: group none rest
  | cur, .initParams v :: rest => flush cur ++ .init v :: group none rest

variable [DecidableEq N]

/-- non-empty, comma-free, unique -/
def namesOk (hasComma : N → Bool) (l : List N) : Bool :=
  !l.isEmpty && !l.any hasComma && allUnique l

/-- a function item is valid: parameter list well-formed, matches the arity, names belong to the
model; exactly one derivative (of the same arity) for each listed parameter and for no other name -/
def fnItemOk (hasComma : N → Bool) (arity : F → Nat) (names : List N) (g : FnItem N F) : Bool :=
  namesOk hasComma g.fps && g.fps.length == arity g.f && g.fps.all (names.contains ·) &&
  g.derivs.all (fun pd => g.fps.contains pd.1 && arity pd.2 == g.fps.length) &&
  g.fps.all (fun n => (g.derivs.filter (fun pd => pd.1 = n)).length == 1)

def Item.isFnLike : Item N F G X K → Bool
  | .fn _ | .inv _ => true
  | _ => false

def Item.uses (n : N) : Item N F G X K → Bool
  | .fn g => g.fps.contains n
  | _ => false

def Item.isX : Item N F G X K → Bool
  | .x _ => true
  | _ => false

def Item.isInit : Item N F G X K → Bool
  | .init _ => true
  | _ => false

/-- validity of one item of the session -/
def itemOkB (hasComma : N → Bool) (arity : F → Nat) (names : List N) : Item N F G X K → Bool
  | .stray _ => false
  | .fn g => fnItemOk hasComma arity names g
  | .init v => v.length == names.length
  | _ => true

/-- **the specification of C15**: the session `new(names); calls…; build()` is valid -/
def validB (hasComma : N → Bool) (arity : F → Nat) (names : List N)
    (calls : List (Call N F G X K)) : Bool :=
  let items := group (none : Option (FnItem N F)) calls
  namesOk hasComma names &&
  items.all (itemOkB hasComma arity names) &&
  items.any Item.isFnLike &&
  names.all (fun n => items.any (Item.uses n)) &&
  items.any Item.isX &&
  items.any Item.isInit

/-! ## which defect is *present*? (C15: "errors name a defect actually present in the call sequence")

Written on the grouped call sequence, independently of the builder's state machine: for every
error value the condition under which the defect it names really occurs in the session. -/

/-- defects of one function item that can be seen before the item is complete (monotone in the
list of derivatives given so far) -/
def fnDefectPre (hasComma : N → Bool) (arity : F → Nat) (names : List N) (g : FnItem N F) : BErr N → Bool
  | .duplicateParameterNames l => decide (l = g.fps) && !allUnique l
  | .emptyParameters => g.fps.isEmpty
  | .functionParameterNotInModel p => g.fps.contains p && !names.contains p
  | .invalidDerivative p fps =>
    decide (fps = g.fps) && g.derivs.any (fun pd => decide (pd.1 = p)) && !(g.fps.contains p && names.contains p)
  | .duplicateDerivative p => decide (2 ≤ (g.derivs.filter (fun pd => decide (pd.1 = p))).length)
  | .incorrectParameterCount a e =>
    decide (a ≠ e) && decide (g.fps.length = a) && (decide (arity g.f = e) || g.derivs.any (fun pd => decide (arity pd.2 = e)))
  | .commaInParameterNameNotAllowed p => hasComma p && g.fps.contains p
  | _ => false

/-- the defect named by `e` is present in the function item `g` -/
def fnDefectB (hasComma : N → Bool) (arity : F → Nat) (names : List N) (g : FnItem N F) (e : BErr N) : Bool :=
  fnDefectPre hasComma arity names g e ||
  match e with
  | .missingDerivative p fps => decide (fps = g.fps) && g.fps.contains p && !g.derivs.any (fun pd => decide (pd.1 = p))
  | _ => false

/-- the defect named by `e` is present in the item -/
def itemDefectB (hasComma : N → Bool) (arity : F → Nat) (names : List N) (e : BErr N) : Item N F G X K → Bool
  | .fn g => fnDefectB hasComma arity names g e
  | .stray _ => decide (e = .illegalCallToPartialDeriv)
  | .init v => decide (e = .incorrectParameterCount v.length names.length) && decide (v.length ≠ names.length)
  | _ => false

/-- **"the error names a real defect"**: the defect named by `e` is present in the session
`new(names); calls…; build()` -/
def defectB (hasComma : N → Bool) (arity : F → Nat) (names : List N)
    (calls : List (Call N F G X K)) (e : BErr N) : Bool :=
  let items := group (none : Option (FnItem N F)) calls
  items.any (itemDefectB hasComma arity names e) ||
  match e with
  | .duplicateParameterNames l => decide (l = names) && !allUnique l
  | .emptyParameters => names.isEmpty
  | .commaInParameterNameNotAllowed p => hasComma p && names.contains p
  | .emptyModel => !items.any Item.isFnLike
  | .unusedParameter p => names.contains p && !items.any (Item.uses p)
  | .missingX => !items.any Item.isX
  | .missingInitialParameters => !items.any Item.isInit
  | _ => false

/-! ## evaluation by name (C16/C17 specification) -/

/-- value of the parameter *named* `n` -/
def paramByName (names : List N) (params : List K) (n : N) : Option K :=
  (position names n).bind fun i => params[i]?

/-- the last independent variable / initial parameters given -/
def lastX : List (Item N F G X K) → Option X
  | [] => none
  | it :: rest => match lastX rest with
    | some x => some x
    | none => match it with | .x x => some x | _ => none

def lastInit : List (Item N F G X K) → Option (List K)
  | [] => none
  | it :: rest => match lastInit rest with
    | some v => some v
    | none => match it with | .init v => some v | _ => none

/-- column of the evaluation contributed by one item (`none`: the item is not a basis function) -/
def specCol (sem : Sem F G X K V) (names : List N) (x : X) (params : List K) :
    Item N F G X K → Option (Option V)
  | .inv g => some (some (sem.applyG g x))
  | .fn g => some ((g.fps.mapM (paramByName names params)).map fun args => sem.applyF g.f x args)
  | _ => none

/-- column of the derivative with respect to the parameter named `nk` -/
def specDCol (sem : Sem F G X K V) (names : List N) (x : X) (params : List K) (nk : N) :
    Item N F G X K → Option (Option V)
  | .inv _ => some (some (sem.zeroV (sem.xlen x)))
  | .fn g =>
    match g.derivs.find? (fun pd => pd.1 = nk) with
    | some pd => some ((g.fps.mapM (paramByName names params)).map fun args => sem.applyF pd.2 x args)
    | none => some (some (sem.zeroV (sem.xlen x)))
  | _ => none

/-- assemble columns: the first column of the wrong length is the error -/
def assemble (sem : Sem F G X K V) (x : X) : List (Option V) → Except MErr (List V)
  | [] => .ok []
  | none :: _ => .error .panicIndexOutOfBounds
  | some v :: rest =>
    if sem.vlen v = sem.xlen x then
      match assemble sem x rest with
      | .ok vs => .ok (v :: vs)
      | .error e => .error e
    else .error (.unexpectedFunctionOutput (sem.xlen x) (sem.vlen v))

def specEval (sem : Sem F G X K V) (names : List N) (items : List (Item N F G X K)) (x : X)
    (params : List K) : Except MErr (List V) :=
  assemble sem x (items.filterMap (specCol sem names x params))

def specDeriv (sem : Sem F G X K V) (names : List N) (items : List (Item N F G X K)) (x : X)
    (params : List K) (k : Nat) : Except MErr (List V) :=
  match names[k]? with
  | none => .error (.derivativeIndexOutOfBounds k)
  | some nk => assemble sem x (items.filterMap (specDCol sem names x params nk))

end Varpro.MB
