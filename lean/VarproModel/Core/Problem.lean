import VarproModel.Core.Mat
/-!
# Core/Problem — `LevMarProblem` (src/solvers/levmar/mod.rs) and the numeric part of
`LevMarProblemBuilder::build` (builder.rs), scalar-generic

External calls are parameters (`Ext`): the SVD.  `SVD::solve` is modelled (transcribed from
nalgebra 0.33.3 `linalg/svd.rs`), not assumed.  The user's model is an arbitrary state machine
(`UserModel`): every trait method may change hidden state (interior mutability – this is how the
harness injects faults by call index) and may fail.
-/
namespace Varpro

/-- thin SVD as returned by `DMatrix::svd(true, true)`: `r` is `min n m` in nalgebra; it is a field
here so that no `min` occurs in types -/
structure SVD (n m : Nat) (K : Type) where
  r : Nat
  U : Mat n r K
  sigma : Vector K r
  Vt : Mat r m K

/-- non-algebraic scalar operations -/
structure XOps (K : Type) where
  isFinite : K → Bool
  abs : K → K
  sqrt : K → K

/-- external numerical routines -/
structure Ext (K : Type) where
  svd : (n m : Nat) → Mat n m K → SVD n m K

section solve
variable {K : Type} {n m s : Nat} [Add K] [Mul K] [Div K] [Zero K] [LT K] [DecidableLT K]

/-- value computed by nalgebra `SVD::solve`: `Vᵗᵀ · (Σ⁺_ε ∘ (Uᵀ · B))`; a singular value is kept
iff `σ_i > ε` -/
def solveTruncVal (d : SVD n m K) (B : Mat n s K) (eps : K) : Mat m s K :=
  let utb := d.U.transpose.mul B
  let scaled : Mat d.r s K := Mat.ofFn fun i j =>
    if eps < d.sigma[i] then utb.get i j / d.sigma[i] else 0
  d.Vt.transpose.mul scaled

/-- nalgebra `SVD::solve`: an error iff `ε < 0` (U and Vᵗ are always present here) -/
def solveTrunc (d : SVD n m K) (B : Mat n s K) (eps : K) : Except String (Mat m s K) :=
  if eps < 0 then .error "SVD solve: the epsilon must be non-negative."
  else .ok (solveTruncVal d B eps)
end solve

/-- the user's `SeparableNonlinearModel` as a state machine; `E` is its error type -/
structure UserModel (n m p : Nat) (K E : Type) where
  State : Type
  setParams : State → Vector K p → State × Except E Unit
  params : State → Vector K p
  eval : State → State × Except E (Mat n m K)
  deriv : State → Fin p → State × Except E (Mat n m K)

/-- `CachedCalculations` -/
structure Cache (n m s : Nat) (K : Type) where
  residuals : Mat n s K
  svd : SVD n m K
  coeff : Mat m s K

/-- `LevMarProblem` -/
structure Problem {n m p : Nat} {K E : Type} (U : UserModel n m p K E) (s : Nat) where
  Yw : Mat n s K
  st : U.State
  eps : K
  w : Option (Vector K n)
  cached : Option (Cache n m s K)

/-- `&Weights * M` -/
def wmul {K : Type} {n m : Nat} [Mul K] (w : Option (Vector K n)) (A : Mat n m K) : Mat n m K :=
  match w with
  | none => A
  | some d => Mat.rowScale d A

section problem
variable {K E : Type} {n m p s : Nat} {U : UserModel n m p K E}
variable [Add K] [Sub K] [Mul K] [Div K] [Zero K] [LT K] [DecidableLT K]

/-- the cache computed from a weighted basis matrix `Φ_w` (body of `set_params` after the model
calls): finite check, SVD, check of the singular values (a decomposition with singular values that
are not finite is discarded before it is sorted - sorting them would panic), truncated solve,
residual matrix -/
def computeCache (x : Ext K) (o : XOps K) (Yw : Mat n s K) (eps : K) (Phiw : Mat n m K) :
    Option (Cache n m s K) :=
  if Phiw.all o.isFinite then
    let d := x.svd n m Phiw
    if d.sigma.all o.isFinite then
      match solveTrunc d Yw eps with
      | .error _ => none
      | .ok C => some { residuals := Yw.sub (Phiw.mul C), svd := d, coeff := C }
    else none
  else none

/-- `LeastSquaresProblem::set_params` (sequential and parallel flavour are the same code) -/
def Problem.setParams (x : Ext K) (o : XOps K) (P : Problem U s) (α : Vector K p) : Problem U s :=
  match U.setParams P.st α with
  | (st1, .error _) => { P with st := st1, cached := none }
  | (st1, .ok ()) =>
    match U.eval st1 with
    | (st2, .error _) => { P with st := st2, cached := none }
    | (st2, .ok Phi) => { P with st := st2, cached := computeCache x o P.Yw P.eps (wmul P.w Phi) }

/-- `LeastSquaresProblem::params` -/
def Problem.params (P : Problem U s) : Vector K p := U.params P.st

/-- `LeastSquaresProblem::residuals`: `to_vector` of the cached residual matrix -/
def Problem.residuals (P : Problem U s) : Option (Vector K (n * s)) :=
  P.cached.map fun c => c.residuals.vec

/-- `linear_coefficients()` -/
def Problem.coefficients (P : Problem U s) : Option (Mat m s K) := P.cached.map (·.coeff)

/-- `weighted_data()` -/
def Problem.weightedData (P : Problem U s) : Mat n s K := P.Yw

/-- one Jacobian column before flattening: `U (Uᵀ (D_k C)) − D_k C` with `D_k = W·∂Φ/∂α_k` -/
def jacBlock (w : Option (Vector K n)) (c : Cache n m s K) (Dk : Mat n m K) : Mat n s K :=
  let DkC := (wmul w Dk).mul c.coeff
  (c.svd.U.mul (c.svd.U.transpose.mul DkC)).sub DkC

/-- the derivative calls of the sequential Jacobian: `k = 0, 1, …` in order, stopping at the first
failure (`collect::<Result<_,_>>` short-circuits) -/
def derivsSeq (U : UserModel n m p K E) (st : U.State) (ks : List (Fin p)) :
    U.State × Option (List (Fin p × Mat n m K)) :=
  match ks with
  | [] => (st, some [])
  | k :: rest =>
    match U.deriv st k with
    | (st1, .error _) => (st1, none)
    | (st1, .ok D) =>
      match derivsSeq U st1 rest with
      | (st2, none) => (st2, none)
      | (st2, some ds) => (st2, some ((k, D) :: ds))

/-- assemble the Jacobian from the blocks: entry `(i + c·n, k)` is entry `(i, c)` of block `k` -/
def assembleJac (blocks : Fin p → Mat n s K) : Mat (n * s) p K :=
  let bs : Vector (Mat n s K) p := Vector.ofFn blocks   -- every block is computed once
  Mat.ofFn fun q k => bs[k].vecGet q

/-- look a block up in the list of computed derivative matrices -/
def blockOf (w : Option (Vector K n)) (c : Cache n m s K) (ds : List (Fin p × Mat n m K))
    (k : Fin p) : Mat n s K :=
  match ds.find? (fun kd => kd.1 = k) with
  | some kd => jacBlock w c kd.2
  | none => Mat.zero

/-- `LeastSquaresProblem::jacobian` of the sequential problem; the problem is returned as well
because the model's hidden state may change -/
def Problem.jacobianSeq (P : Problem U s) : Problem U s × Option (Mat (n * s) p K) :=
  match P.cached with
  | none => (P, none)
  | some c =>
    match derivsSeq U P.st (List.finRange p) with
    | (st1, none) => ({ P with st := st1 }, none)
    | (st1, some ds) => ({ P with st := st1 }, some (assembleJac (blockOf P.w c ds)))

/-- a schedule of the parallel column tasks: the order in which the tasks that are executed at all
run; rayon may skip tasks once an error has been seen -/
structure Schedule (p : Nat) where
  order : List (Fin p)

/-- run the tasks in schedule order; any failing task makes the result `none` -/
def derivsSched (U : UserModel n m p K E) (st : U.State) (ks : List (Fin p)) :
    U.State × Bool × List (Fin p × Mat n m K) :=
  match ks with
  | [] => (st, false, [])
  | k :: rest =>
    match U.deriv st k with
    | (st1, .error _) =>
      let (st2, _, ds) := derivsSched U st1 rest
      (st2, true, ds)
    | (st1, .ok D) =>
      let (st2, failed, ds) := derivsSched U st1 rest
      (st2, failed, (k, D) :: ds)

/-- `LeastSquaresProblem::jacobian` of the parallel problem under a schedule: the result is
present iff no executed task failed and every column task was executed -/
def Problem.jacobianPar (sched : Schedule p) (P : Problem U s) :
    Problem U s × Option (Mat (n * s) p K) :=
  match P.cached with
  | none => (P, none)
  | some c =>
    match derivsSched U P.st sched.order with
    | (st1, failed, ds) =>
      if failed || !((List.finRange p).all fun k => ds.any fun kd => kd.1 = k) then
        ({ P with st := st1 }, none)
      else ({ P with st := st1 }, some (assembleJac (blockOf P.w c ds)))

/-- numeric part of `LevMarProblemBuilder::build`: weight the data, start at the model's own
parameters, fill the cache through `set_params` -/
def Problem.build (x : Ext K) (o : XOps K) (st0 : U.State) (Y : Mat n s K)
    (w : Option (Vector K n)) (eps : K) : Problem U s :=
  let P : Problem U s := { Yw := wmul w Y, st := st0, eps := eps, w := w, cached := none }
  P.setParams x o (U.params st0)

/-- `FitResult::best_fit`: `Φ(α̂)·Ĉ` from the model's current evaluation (unweighted) -/
def Problem.bestFit (P : Problem U s) : Problem U s × Option (Mat n s K) :=
  match P.cached with
  | none => (P, none)
  | some c =>
    match U.eval P.st with
    | (st1, .error _) => ({ P with st := st1 }, none)
    | (st1, .ok Phi) => ({ P with st := st1 }, some (Phi.mul c.coeff))

end problem
end Varpro
