/-!
# Core/ProblemBuilder — `LevMarProblemBuilder` (src/solvers/levmar/builder.rs)

Shape-level transcription of the builder: the three setters overwrite one field each,
`build` performs the checks in the order of the source.  Payloads (`Y`, `W`) are abstract:
the numeric part of `build` (weighting the data, the initial `set_params`) is
`Problem.build` in `Core/Problem.lean`, which is only reachable through `Built`.
-/
namespace Varpro.PB

/-- `LevMarBuilderError` (the variants `build` can produce) -/
inductive Err where
  | yDataMissing
  | zeroLengthVector
  | invalidLengthOfData (xLength yLength : Nat)
  | invalidLengthOfWeights
deriving DecidableEq, Repr, Inhabited

/-- the four public constructors; they differ only in the const-generic flags -/
inductive Ctor where
  | new | newParallel | mrhs | mrhsParallel
deriving DecidableEq, Repr, Inhabited

def Ctor.isMrhs : Ctor → Bool
  | .mrhs | .mrhsParallel => true
  | _ => false

def Ctor.isParallel : Ctor → Bool
  | .newParallel | .mrhsParallel => true
  | _ => false

/-- observations as handed to the builder: shape and payload -/
structure Obs (Y : Type) where
  rows : Nat
  cols : Nat
  val : Y
deriving Repr

/-- diagonal weights as handed to the builder: length and payload -/
structure Wts (W : Type) where
  len : Nat
  val : W
deriving Repr

/-- builder fields (`Y`, `epsilon`, `weights`; `Weights::Unit` is `none`) -/
structure State (Y W K : Type) where
  y : Option (Obs Y) := none
  eps : Option K := none
  w : Option (Wts W) := none

inductive Call (Y W K : Type) where
  | observations (o : Obs Y)
  | epsilon (e : K)
  | weights (w : Wts W)

variable {Y W K : Type}

/-- one setter call; `abs` is `Float::abs` -/
def step (abs : K → K) (s : State Y W K) : Call Y W K → State Y W K
  | .observations o => { s with y := some o }
  | .epsilon e => { s with eps := some (abs e) }
  | .weights w => { s with w := some w }

def run (abs : K → K) (calls : List (Call Y W K)) : State Y W K :=
  calls.foldl (step abs) {}

/-- what a successful `build` hands to the numeric constructor -/
structure Built (Y W K : Type) where
  rows : Nat
  cols : Nat
  y : Y
  w : Option (Wts W)
  eps : K

/-- `Weights::is_size_correct_for_data_length` -/
def sizeCorrect (w : Option (Wts W)) (len : Nat) : Bool :=
  match w with
  | none => true
  | some d => d.len == len

/-- `LevMarProblemBuilder::build`, checks in source order. `xLen` is `model.output_len()`,
`machEps` is `Float::epsilon()`. -/
def build (machEps : K) (xLen : Nat) (s : State Y W K) : Except Err (Built Y W K) :=
  match s.y with
  | none => .error .yDataMissing
  | some o =>
    let epsilon := s.eps.getD machEps
    if xLen == 0 || o.rows * o.cols == 0 then .error .zeroLengthVector
    else if xLen != o.rows then .error (.invalidLengthOfData xLen o.rows)
    else if !sizeCorrect s.w o.rows then .error .invalidLengthOfWeights
    else .ok { rows := o.rows, cols := o.cols, y := o.val, w := s.w, eps := epsilon }

/-! ## independent specification (what the property says) -/

def lastObs : List (Call Y W K) → Option (Obs Y)
  | [] => none
  | c :: cs => match lastObs cs with
    | some o => some o
    | none => match c with
      | .observations o => some o
      | _ => none

def lastEps : List (Call Y W K) → Option K
  | [] => none
  | c :: cs => match lastEps cs with
    | some e => some e
    | none => match c with
      | .epsilon e => some e
      | _ => none

def lastWts : List (Call Y W K) → Option (Wts W)
  | [] => none
  | c :: cs => match lastWts cs with
    | some w => some w
    | none => match c with
      | .weights w => some w
      | _ => none

/-- the requirement list of the property, in documented order; `none` = all satisfied -/
def firstViolation (xLen : Nat) (y : Option (Obs Y)) (w : Option (Wts W)) : Option Err :=
  match y with
  | none => some .yDataMissing
  | some o =>
    if xLen = 0 ∨ o.rows = 0 ∨ o.cols = 0 then some .zeroLengthVector
    else if xLen ≠ o.rows then some (.invalidLengthOfData xLen o.rows)
    else match w with
      | none => none
      | some d => if d.len = o.rows then none else some .invalidLengthOfWeights

end Varpro.PB
