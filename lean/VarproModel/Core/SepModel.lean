import VarproModel.Core.ModelBuilder
/-!
# Core/SepModel — evaluation of the builder-made `SeparableModel` (src/model/mod.rs,
model_basis_function.rs, basis_function/detail.rs)

The user's functions are abstract (`Sem`): applying a payload to the independent variable and an
argument list yields a column `V` of some length.  Everything that can panic in the Rust code
(slice indexing in the wrapper closure, the arity check in `BasisFunction::eval`) is an explicit
`panic…` outcome here, so that "never panics" is a theorem rather than an artefact of totalisation.
-/
namespace Varpro.MB

/-- `ModelError` plus explicit panic outcomes -/
inductive MErr where
  | unexpectedFunctionOutput (expected actual : Nat)
  | derivativeIndexOutOfBounds (index : Nat)
  | incorrectParameterCount (expected actual : Nat)
  | panicIndexOutOfBounds
  | panicArgumentCount
deriving DecidableEq, Repr, Inhabited

def MErr.isPanic : MErr → Bool
  | .panicIndexOutOfBounds | .panicArgumentCount => true
  | _ => false

/-- semantics of the user-supplied payloads -/
structure Sem (F G X K V : Type) where
  applyF : F → X → List K → V
  applyG : G → X → V
  arity : F → Nat
  xlen : X → Nat
  vlen : V → Nat
  zeroV : Nat → V

variable {N F G X K V : Type}

/-- the closure built by `create_wrapped_basis_function`: select the arguments by the index
mapping (`params[*param_idx]`, panics when out of bounds), then `BasisFunction::eval` (panics when
the slice length differs from the function's arity) -/
def callWrapped (sem : Sem F G X K V) (w : Wrapped F) (x : X) (params : List K) : Except MErr V :=
  match w.map.mapM (fun i => params[i]?) with
  | none => .error .panicIndexOutOfBounds
  | some args =>
    if args.length ≠ sem.arity w.f then .error .panicArgumentCount
    else .ok (sem.applyF w.f x args)

/-- `evaluate_and_check` -/
def checkLen (sem : Sem F G X K V) (x : X) (v : V) : Except MErr V :=
  if sem.vlen v = sem.xlen x then .ok v
  else .error (.unexpectedFunctionOutput (sem.xlen x) (sem.vlen v))

def callFun (sem : Sem F G X K V) (f : Fun F G) (x : X) (params : List K) : Except MErr V :=
  match f with
  | .invariant g => checkLen sem x (sem.applyG g x)
  | .wrapped w =>
    match callWrapped sem w x params with
    | .error e => .error e
    | .ok v => checkLen sem x v

/-- columns in order; the first failing column decides the error -/
def mapCols {A : Type} (f : A → Except MErr V) : List A → Except MErr (List V)
  | [] => .ok []
  | a :: as =>
    match f a with
    | .error e => .error e
    | .ok v =>
      match mapCols f as with
      | .error e => .error e
      | .ok vs => .ok (v :: vs)

/-- `SeparableModel::set_params(&mut self, …)`: the state after the call and the returned value -/
def Model.setParamsMut (m : Model N F G X K) (v : List K) : Model N F G X K × Except MErr Unit :=
  if v.length ≠ m.names.length then
    (m, .error (.incorrectParameterCount m.names.length v.length))
  else ({ m with params := v }, .ok ())

/-- functional view of `set_params`: the new model on success -/
def Model.setParams (m : Model N F G X K) (v : List K) : Except MErr (Model N F G X K) :=
  match (m.setParamsMut v).2 with
  | .ok () => .ok (m.setParamsMut v).1
  | .error e => .error e

/-- `SeparableModel::eval`: the matrix as its list of columns -/
def Model.eval (sem : Sem F G X K V) (m : Model N F G X K) : Except MErr (List V) :=
  if m.params.length ≠ m.names.length then
    .error (.incorrectParameterCount m.names.length m.params.length)
  else mapCols (fun (bf : MBF F G) => callFun sem bf.function m.x m.params) m.fns

/-- `SeparableModel::eval_partial_deriv` -/
def Model.evalPartialDeriv (sem : Sem F G X K V) (m : Model N F G X K) (k : Nat) :
    Except MErr (List V) :=
  if m.params.length ≠ m.names.length then
    .error (.incorrectParameterCount m.names.length m.params.length)
  else if k ≥ m.names.length then .error (.derivativeIndexOutOfBounds k)
  else mapCols (fun (bf : MBF F G) =>
      match mapGet bf.derivatives k with
      | some w =>
        match callWrapped sem w m.x m.params with
        | .error e => .error e
        | .ok v => checkLen sem m.x v
      | none => .ok (sem.zeroV (sem.xlen m.x))) m.fns

end Varpro.MB
