/-!
# Core/Shape — `usize` arithmetic with the two build profiles (overflow checks on / off)
-/
namespace Varpro.Shape

inductive Profile where
  | debug      -- overflow-checks = true: `a - b` with `b > a` panics
  | release    -- wrapping arithmetic
deriving DecidableEq, Repr

inductive Outcome (ε α : Type) where
  | ok (v : α)
  | err (e : ε)
  | panic
deriving DecidableEq, Repr

/-- `a - b` on `usize` -/
def usizeSub (prof : Profile) (a b : Nat) : Outcome Unit Nat :=
  if b ≤ a then .ok (a - b)
  else match prof with
    | .debug => .panic
    | .release => .ok (a + 2 ^ 64 - b)

inductive DofErr where
  | underdetermined
deriving DecidableEq, Repr

/-- the degrees-of-freedom computation of `try_calculate` as it is now: guard first -/
def dof (prof : Profile) (outputLen total : Nat) : Outcome DofErr Nat :=
  if outputLen ≤ total then .err .underdetermined
  else match usizeSub prof outputLen total with
    | .ok d => .ok d
    | .err _ => .panic
    | .panic => .panic

/-- the computation as it was before commit 7f5ce42: subtraction first -/
def dofPrefix (prof : Profile) (outputLen total : Nat) : Outcome DofErr Nat :=
  match usizeSub prof outputLen total with
  | .panic => .panic
  | .err _ => .panic
  | .ok d => if outputLen ≤ total then .err .underdetermined else .ok d

end Varpro.Shape
