import VarproModel.Core.Shape
/-!
# Core/ShapeModel — the shape / effects model of the numeric code paths

Matrices are reduced to their shapes `(rows, cols)`.  Every operation that nalgebra (or varpro's
own `assert!`s) checks at run time is transcribed with its check; a failed check is the outcome
`panic`.  The user's model answers with whatever shapes it likes (`ShapeModel`), or with an error.
Transcribed: `LevMarProblem::set_params`, `jacobian`, `residuals`, `FitResult::best_fit`
(src/solvers/levmar/mod.rs), `model_function_jacobian`, `concat_colwise`, `try_calculate`,
`extract_range` and the variance accessors, `confidence_band_radius` (src/statistics/mod.rs),
`&Weights * M` (src/util/{mod,weights}.rs).

The theorem of interest (Props/C08Shape.lean): for a model honouring the trait contract – `eval` and
`eval_partial_deriv(k)` give `output_len × base_function_count` matrices – and a problem produced by
the builder (observations `output_len × S`, weights of length `output_len`), no operation panics, in
either build profile.
-/
namespace Varpro.Shape

abbrev Sh := Nat × Nat

/-- three-valued results: value, error value (`None` / `Err`), panic -/
inductive R (α : Type) where
  | ok (v : α)
  | none
  | panic (what : String)
deriving Repr, DecidableEq

def R.bind {α β : Type} (r : R α) (f : α → R β) : R β :=
  match r with
  | .ok v => f v
  | .none => .none
  | .panic w => .panic w

def R.isPanic {α : Type} : R α → Bool
  | .panic _ => true
  | _ => false

/-- `A * B` (nalgebra `Mul`): "Matrix multiplication dimensions mismatch" -/
def mulS (a b : Sh) : R Sh := if a.2 = b.1 then .ok (a.1, b.2) else .panic "gemm dimensions"
/-- `A - B`, `A + B`: "Matrix addition/subtraction dimensions mismatch" -/
def subS (a b : Sh) : R Sh := if a = b then .ok a else .panic "subtraction dimensions"
/-- `&Weights * M`: unit weights never check; a diagonal of length `w` asserts `w == rows` -/
def wmulS (w : Option Nat) (a : Sh) : R Sh :=
  match w with
  | none => .ok a
  | some l => if l = a.1 then .ok a else .panic "diagonal matrix multiplication"
/-- `col.copy_from(v)`: shapes must agree -/
def copyFromS (target src : Sh) : R Unit :=
  if target = src then .ok () else .panic "copy_from dimensions"
/-- `to_vector` -/
def vecS (a : Sh) : Sh := (a.1 * a.2, 1)

/-- what the user's model answers, as shapes; `none` = it returned an error -/
structure ShapeModel where
  outputLen : Nat
  baseCount : Nat
  paramCount : Nat
  setParamsOk : Bool
  eval : Option Sh
  deriv : Nat → Option Sh

/-- the trait contract at the level of shapes -/
def ShapeModel.Lawful (M : ShapeModel) : Prop :=
  (∀ s, M.eval = some s → s = (M.outputLen, M.baseCount)) ∧
  (∀ k s, M.deriv k = some s → s = (M.outputLen, M.baseCount))

/-- the shapes held by a problem: weighted data, weights, and (if present) the cache:
`(rows of U, inner dimension q, shape of the coefficients, shape of the residuals)` -/
structure PShape where
  yw : Sh
  w : Option Nat
  cache : Option (Sh × Sh × Sh)     -- (U, coeff, residuals)

/-- `set_params` after a successful model update: the cache or none, or a panic -/
def setParamsS (M : ShapeModel) (P : PShape) : R (Option (Sh × Sh × Sh)) :=
  if !M.setParamsOk then .ok Option.none
  else match M.eval with
    | Option.none => .ok Option.none
    | some phi =>
      (wmulS P.w phi).bind fun phiw =>
      let q := min phiw.1 phiw.2
      let u : Sh := (phiw.1, q)
      -- `svd.solve(&Y_w, eps)`: `u.ad_mul(b)` checks the row counts; a negative epsilon is an Err
      if u.1 ≠ P.yw.1 then .panic "solve: ad_mul dimensions"
      else
        let coeff : Sh := (phiw.2, P.yw.2)
        (mulS phiw coeff).bind fun fit =>
        (subS P.yw fit).bind fun res =>
        .ok (some (u, coeff, res))

/-- one Jacobian column task -/
def jacColS (M : ShapeModel) (P : PShape) (u coeff : Sh) (s k : Nat) : R Unit :=
  match M.deriv k with
  | Option.none => .none
  | some dk =>
    (wmulS P.w dk).bind fun dkw =>
    (mulS dkw coeff).bind fun dkc =>
    (mulS (u.2, u.1) dkc).bind fun utd =>       -- U_t * Dk_C
    (mulS u utd).bind fun proj =>                -- U * (…)
    (subS proj dkc).bind fun minusAk =>
    copyFromS (M.outputLen * s, 1) (vecS minusAk)

/-- accumulate the outcome of the column tasks: a panic anywhere is a panic, otherwise a failed
derivative makes the result `None` -/
def jacStepS (M : ShapeModel) (P : PShape) (u coeff : Sh) (acc : R Unit) (k : Nat) : R Unit :=
  match acc with
  | .panic w => .panic w
  | other =>
    match jacColS M P u coeff P.yw.2 k with
    | .panic w => .panic w
    | .none => .none
    | .ok () => other

/-- `jacobian()` : all column tasks, any order -/
def jacobianS (M : ShapeModel) (P : PShape) : R Unit :=
  match P.cache with
  | Option.none => .none
  | some (u, coeff, _) => (List.range M.paramCount).foldl (jacStepS M P u coeff) (.ok ())

/-- `FitResult::best_fit`: `eval * coeff` -/
def bestFitS (M : ShapeModel) (P : PShape) : R Sh :=
  match P.cache with
  | Option.none => .none
  | some (_, coeff, _) =>
    match M.eval with
    | Option.none => .none
    | some phi => mulS phi coeff

/-- one column of the derivative part of `model_function_jacobian` (`?` stops at the first error) -/
def mfjStepS (M : ShapeModel) (c : Sh) (acc : R Unit) (k : Nat) : R Unit :=
  match acc with
  | .ok () =>
    match M.deriv k with
    | Option.none => .none
    | some dk => (mulS dk c).bind fun v => copyFromS (M.outputLen, 1) v
  | other => other

/-- `model_function_jacobian` -/
def mfjS (M : ShapeModel) (c : Sh) : R Sh :=
  let right : Sh := (M.outputLen, M.paramCount)
  let cols := (List.range M.paramCount).foldl (mfjStepS M c) (.ok ())
  cols.bind fun _ =>
    match M.eval with
    | Option.none => .none
    | some left =>
      -- concat_colwise: assert_eq!(left.nrows(), right.nrows())
      if left.1 = right.1 then .ok (left.1, left.2 + right.2) else .panic "concat_colwise rows"

/-- `try_calculate`; `debugAsserts` = the build has `debug_assert!`s enabled -/
def tryCalculateS (prof : Profile) (debugAsserts : Bool) (M : ShapeModel) (P : PShape) (c : Sh)
    (invertible : Bool) : R Sh :=
  if debugAsserts && (P.yw.2 ≠ c.2 || P.yw.1 ≠ M.outputLen) then .panic "debug_assert"
  else
    (mfjS M c).bind fun j =>
    (wmulS P.w j).bind fun h =>
    match M.eval with
    | Option.none => .none
    | some phi =>
      (wmulS P.w phi).bind fun phiw =>
      (mulS phiw c).bind fun fit =>
      (subS P.yw fit).bind fun _wr =>
      match dof prof M.outputLen (M.paramCount + M.baseCount) with
      | .panic => .panic "usize subtraction"
      | .err _ => .none
      | .ok _ =>
        (mulS (h.2, h.1) h).bind fun hth =>
        if !invertible then .none
        else
          -- per sample: j.dot(&(cov * j)) with j a row of J transposed
          (mulS hth (j.2, 1)).bind fun cj =>
          if (j.2, 1) = cj then .ok hth else .panic "dot dimensions"

/-- `extract_range(vector, start, end)` -/
def extractRangeS (len start stop : Nat) : R Nat :=
  if stop < start then .panic "assert end >= start"
  else if len < stop then .panic "assert end <= len"
  else .ok (stop - start)

/-- the two variance accessors on a covariance of shape `cov` -/
def varianceAccessorsS (cov : Sh) (mCount pCount : Nat) : R (Nat × Nat) :=
  (extractRangeS cov.1 0 mCount).bind fun a =>
  (extractRangeS cov.1 mCount (mCount + pCount)).bind fun b => .ok (a, b)

/-- `confidence_band_radius`: the documented panic for a probability outside `(0,1)` -/
def bandS (probabilityValid : Bool) (n : Nat) : R Nat :=
  if probabilityValid then .ok n else .panic "probability must be in open interval (0.,1.)"

end Varpro.Shape
