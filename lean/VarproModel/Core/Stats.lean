import VarproModel.Core.Problem
/-!
# Core/Stats — `FitStatistics` (src/statistics/mod.rs), scalar-generic

External routines are parameters (`StatExt`): matrix inverse (LU in nalgebra), the Student-t
quantile (`distrs`), `from_usize`.  Model calls thread the model's state and short-circuit on the
first failure exactly like the `?` operators of `model_function_jacobian` / `try_calculate`.
-/
namespace Varpro

/-- `statistics::Error` -/
inductive SErr where
  | modelEvaluation
  | underdetermined
  | integerToFloatConversion (v : Nat)
  | matrixInversion
deriving DecidableEq, Repr, Inhabited

structure StatExt (K : Type) where
  inv : (d : Nat) → Mat d d K → Option (Mat d d K)
  tppf : K → Nat → K
  ofNat : Nat → Option K

/-- `FitStatistics` -/
structure Stats (n m p : Nat) (K : Type) where
  covariance : Mat (m + p) (m + p) K
  weightedResiduals : Mat n 1 K
  reducedChi2 : K
  degreesOfFreedom : Nat
  unscaledConfidenceSigma : Vector K n

section
variable {K E : Type} {n m p : Nat} {U : UserModel n m p K E}
variable [Add K] [Sub K] [Mul K] [Div K] [Zero K]

/-- the derivative part of `model_function_jacobian`: column `k` is `(∂Φ/∂α_k)·c`, evaluated for
`k = 0, 1, …` and stopping at the first failure -/
def derivCols (U : UserModel n m p K E) (c : Mat m 1 K) (st : U.State) (ks : List (Fin p)) :
    U.State × Option (List (Fin p × Mat n 1 K)) :=
  match ks with
  | [] => (st, some [])
  | k :: rest =>
    match U.deriv st k with
    | (st1, .error _) => (st1, none)
    | (st1, .ok D) =>
      match derivCols U c st1 rest with
      | (st2, none) => (st2, none)
      | (st2, some cs) => (st2, some ((k, D.mul c) :: cs))

/-- `model_function_jacobian`: `[Φ | (∂Φ/∂α_1)c | … | (∂Φ/∂α_P)c]`, unweighted -/
def modelFunctionJacobian (U : UserModel n m p K E) (st : U.State) (c : Mat m 1 K) :
    U.State × Option (Mat n (m + p) K) :=
  match derivCols U c st (List.finRange p) with
  | (st1, none) => (st1, none)
  | (st1, some cols) =>
    match U.eval st1 with
    | (st2, .error _) => (st2, none)
    | (st2, .ok Phi) =>
      let right : Mat n p K := Mat.ofFn fun i k =>
        match cols.find? (fun kc => kc.1 = k) with
        | some kc => kc.2.get i ⟨0, by omega⟩
        | none => 0
      (st2, some (Mat.hcat Phi right))

/-- squared Euclidean norm of a one-column matrix -/
def normSq (v : Mat n 1 K) : K := Mat.sumFin fun i => v.get i ⟨0, by omega⟩ * v.get i ⟨0, by omega⟩

/-- quadratic form `jᵀ C j` for row `i` of `J` -/
def quadForm {d : Nat} (C : Mat d d K) (J : Mat n d K) (i : Fin n) : K :=
  Mat.sumFin fun a => J.get i a * Mat.sumFin fun b => C.get a b * J.get i b

/-- `FitStatistics::try_calculate` (after the fix that moves the subtraction behind the guard) -/
def tryCalculate (x : StatExt K) (o : XOps K) (U : UserModel n m p K E) (st : U.State)
    (Yw : Mat n 1 K) (w : Option (Vector K n)) (c : Mat m 1 K) :
    U.State × Except SErr (Stats n m p K) :=
  match modelFunctionJacobian U st c with
  | (st1, none) => (st1, .error .modelEvaluation)
  | (st1, some J) =>
    let H := wmul w J
    match U.eval st1 with
    | (st2, .error _) => (st2, .error .modelEvaluation)
    | (st2, .ok Phi) =>
      let wr := Yw.sub ((wmul w Phi).mul c)
      let total := p + m
      if n ≤ total then (st2, .error .underdetermined)
      else
        let dof := n - total
        match x.ofNat dof with
        | none => (st2, .error (.integerToFloatConversion dof))
        | some dofK =>
          let chi2 := normSq wr / dofK
          let sigma := o.sqrt chi2
          match x.inv (m + p) (H.transpose.mul H) with
          | none => (st2, .error .matrixInversion)
          | some HTHinv =>
            let cov := HTHinv.map fun v => v * sigma * sigma
            let ucs : Vector K n := Vector.ofFn fun i => o.sqrt (quadForm cov J i)
            (st2, .ok { covariance := cov, weightedResiduals := wr, reducedChi2 := chi2,
                        degreesOfFreedom := dof, unscaledConfidenceSigma := ucs })

variable [One K] [LT K] [DecidableLT K]

/-- `regression_standard_error` -/
def Stats.regressionStandardError (o : XOps K) (s : Stats n m p K) : K := o.sqrt s.reducedChi2

/-- `linear_coefficients_variance`: diagonal entries `0 … M−1` -/
def Stats.linearVariance (s : Stats n m p K) : Vector K m :=
  Vector.ofFn fun j => s.covariance.get ⟨j.val, by omega⟩ ⟨j.val, by omega⟩

/-- `nonlinear_parameters_variance`: diagonal entries `M … M+P−1` -/
def Stats.nonlinearVariance (s : Stats n m p K) : Vector K p :=
  Vector.ofFn fun k => s.covariance.get ⟨m + k.val, by omega⟩ ⟨m + k.val, by omega⟩

/-- `calc_correlation_matrix` -/
def Stats.correlation (o : XOps K) (s : Stats n m p K) : Mat (m + p) (m + p) K :=
  Mat.ofFn fun i j =>
    s.covariance.get i j / o.sqrt (s.covariance.get i i * s.covariance.get j j)

/-- `confidence_band_radius`: `none` stands for the documented panic on a probability outside
`(0, 1)` or non-finite; `two` is the constant 2 -/
def Stats.confidenceBandRadius (x : StatExt K) (o : XOps K) (two : K) (s : Stats n m p K) (prob : K) :
    Option (Vector K n) :=
  if o.isFinite prob && decide (0 < prob) && decide (prob < 1) then
    let t := x.tppf ((prob + 1) / two) s.degreesOfFreedom
    some (Vector.ofFn fun i => t * s.unscaledConfidenceSigma[i])
  else none

end
end Varpro
