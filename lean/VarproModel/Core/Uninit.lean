/-!
# Core/Uninit — the two `UninitMatrix::uninit().assume_init()` sites as matrices of optional cells

`SeparableModel::eval` (src/model/mod.rs) and `LevMarProblem::jacobian` (src/solvers/levmar/mod.rs)
allocate an uninitialised matrix and then overwrite it column by column (`copy_from`, which panics
unless the source has exactly as many rows as the column).  A cell that was never written is `none`.
-/
namespace Varpro.Uninit

/-- a matrix of possibly uninitialised cells -/
def Cells (r c : Nat) (K : Type) := Fin r → Fin c → Option K

def uninit {r c : Nat} {K : Type} : Cells r c K := fun _ _ => none

/-- `column.copy_from(&v)` for a source of exactly `r` rows -/
def writeCol {r c : Nat} {K : Type} (M : Cells r c K) (j : Fin c) (v : Fin r → K) : Cells r c K :=
  fun i j' => if j' = j then some (v i) else M i j'

/-- the write loop over a list of column tasks (`zip(column_iter_mut)` in order for `eval` and the
sequential Jacobian; any schedule of the tasks for the parallel Jacobian) -/
def writeAll {r c : Nat} {K : Type} (cols : Fin c → Fin r → K) (order : List (Fin c)) :
    Cells r c K :=
  order.foldl (fun M j => writeCol M j (cols j)) uninit

end Varpro.Uninit
