import VarproModel.Core.LM
import VarproModel.Drv.State
/-!
# Drv/Fit — the fit stream (C04): the decision of `fit`, the returned state, and the optimizer's
model-call trace checked against what `LM.run` can do (trace acceptor)
-/
namespace Varpro.Drv
open Varpro

/-- parse the canonical termination tag printed by the harness -/
def parseTermination (s : String) : LM.Termination :=
  let name := (s.splitOn "(").headD ""
  let arg := ((s.splitOn "(").getD 1 "").replace ")" ""
  match name with
  | "User" => .user arg
  | "Numerical" => .numerical arg
  | "ResidualsZero" => .residualsZero
  | "Orthogonal" => .orthogonal
  | "Converged" => .converged (decide ((arg.splitOn "ftol=true").length > 1)) (decide ((arg.splitOn "xtol=true").length > 1))
  | "NoImprovementPossible" => .noImprovementPossible arg
  | "LostPatience" => .lostPatience
  | "NoParameters" => .noParameters
  | "NoResiduals" => .noResiduals
  | "WrongDimensions" => .wrongDimensions arg
  | _ => .fuelExhausted

inductive Ev where
  | jac (ok : Bool)
  | set (alpha : Array Float) (ok : Bool) (evalOk : Option Bool) (norm : Option Float)
  | eval (ok : Bool)
deriving Inhabited

def parseEv (l : Array String) : Option Ev :=
  match l.getD 1 "" with
  | "jac" => some (.jac (attrStr l "ok" == "1"))
  | "eval" => some (.eval (attrStr l "ok" == "1"))
  | "set" =>
    let a := fvecAt l 2
    let ev := match attrStr l "eval" with | "1" => some true | "0" => some false | _ => none
    let nm := match attrStr l "norm" with | "none" => none | "" => none | h => some (parseF h)
    some (.set a (attrStr l "ok" == "1") ev nm)
  | _ => none

structure TraceRes where
  problems : Array String := #[]
  evals : Nat := 1
  x : Array Float
  rnorm : Float
  accepted : Nat := 0
  rejected : Nat := 0
  reset : Bool := false
  lastTrialAccepted : Bool := true

/-- the trace acceptor: is the observed sequence of parameter applications and Jacobian evaluations
an execution of `LM.run` (for some behaviour of the numerical oracles)?  Checks the call grammar
(trial = one application; accepted trial ⇒ a Jacobian follows or the run ends; a rejected last
trial ⇒ the accepted parameters are re-applied), strict decrease of the residual norm on every
accepted trial (`c04_accept_decreases`) and the evaluation budget (`c04_budget`). -/
def acceptTrace (evs : Array Ev) (x0 : Array Float) (rnorm0 : Float) (maxFev : Nat)
    (term : LM.Termination) (relTol : Float) : TraceRes := Id.run do
  let mut r : TraceRes := { x := x0, rnorm := rnorm0 }
  let mut phaseOuter := true
  let n := evs.size
  for i in [0:n] do
    let ev := evs[i]!
    let isLast := i + 1 == n
    match ev with
    | .eval _ => r := { r with problems := r.problems.push s!"ev{i}:stray-eval" }
    | .jac ok =>
      if !phaseOuter then
        r := { r with problems := r.problems.push s!"ev{i}:jacobian-where-trial-expected" }
      if !ok then
        if !isLast then r := { r with problems := r.problems.push s!"ev{i}:continued-after-failed-jacobian" }
        if term != .user "jacobian" then
          r := { r with problems := r.problems.push s!"ev{i}:failed-jacobian-but-termination-differs" }
      phaseOuter := false
    | .set alpha ok _ norm =>
      if phaseOuter then
        r := { r with problems := r.problems.push s!"ev{i}:trial-where-jacobian-expected" }
      -- terminal re-application of the accepted parameters after a rejected last trial
      if isLast && bitsEq alpha r.x && !r.lastTrialAccepted then
        r := { r with reset := true }
      else
        if r.evals ≥ maxFev && r.evals > 1 then
          r := { r with problems := r.problems.push s!"ev{i}:trial-after-budget({r.evals}>={maxFev})" }
        r := { r with evals := r.evals + 1 }
        let next := evs[i + 1]?
        let acceptedNow : Bool := match next with
          | some (.jac _) => true
          | some (.set _ _ _ _) => false
          | some (.eval _) => false
          | none =>
            -- the run ended at this trial: accepted unless the termination is an error at the trial
            match term with
            | .user _ | .numerical _ | .wrongDimensions _ => false
            | _ => true
        if acceptedNow then
          match norm with
          | some nn =>
            if !(nn < r.rnorm * (1.0 + relTol)) then
              r := { r with problems := r.problems.push s!"ev{i}:accepted-without-decrease({fmtF nn}>={fmtF r.rnorm})" }
            r := { r with x := alpha, rnorm := nn, accepted := r.accepted + 1, lastTrialAccepted := true }
          | none =>
            r := { r with problems := r.problems.push s!"ev{i}:accepted-trial-without-residuals" }
          phaseOuter := true
          let _ := ok
        else
          r := { r with rejected := r.rejected + 1, lastTrialAccepted := false }
          -- an error stop at the trial leaves the target at the trial
          if isLast then
            match term with
            | .user _ | .numerical _ | .wrongDimensions _ => r := { r with x := alpha }
            | _ => r := { r with problems := r.problems.push s!"ev{i}:rejected-last-trial-not-reset" }
  return r

/-- C02 on complete fits: the `FitResult` accessors describe the state of the returned problem –
`nonlinear_parameters()` are its parameters, `best_fit()` is `Φ(α̂)·Ĉ` (unweighted, computed from the
harness' own table of Φ at the returned parameters) in the shape of the observations,
`linear_coefficients()` are the problem's -/
def handleFitAccessors (focus : String) (c : Case) : String := Id.run do
  let (acc0, tag0) := stateCore focus c
  let mut acc := acc0
  let width := attrNat c.header "width" 64
  let n := attrNat c.header "n"; let s := attrNat c.header "s"; let m := attrNat c.header "m"
  let u := unitRoundoff width
  let some rl := c.firstWith "result" | return ({ acc with corr := acc.corr.push "no-result-line" }).render tag0
  let kind := rl.getD 1 ""
  if kind == "hang" || kind == "panic" then return acc.render s!"{tag0}/{kind}"
  let steps := parseSteps c
  if steps.size == 0 then return acc.render tag0
  let fin := steps[steps.size - 1]!
  let fo := fin.get "impl"
  if let some nl := c.firstWith "nonlinear" then
    if let some fp := fo.params then
      acc := { acc with compared := acc.compared + 1 }
      if !bitsEq (fvecAt nl 1) fp then
        acc := { acc with mon := acc.mon.push s!"nonlinear_parameters≠params" }
  if let some bl := c.firstWith "bestfit" then
    if bl.getD 1 "" == "some" then
      let bf := fmatAt bl 2
      if let (some (some ci), some phi) := (fo.coef, fin.tables.phi) then
        let direct := phi.mul ci
        let tolB := 64.0 * u * (m.toFloat + 1.0) * phi.maxAbs * ci.maxAbs + 1e-300
        acc := { acc with compared := acc.compared + 1, nontrivial := true }
        if bf.r != n || bf.c != s then
          acc := { acc with mon := acc.mon.push s!"best_fit-shape-{bf.r}x{bf.c}" }
        else if !(maxDiff direct.a bf.a ≤ tolB) then
          acc := { acc with mon := acc.mon.push s!"best_fit≠ΦC:{fmtF (maxDiff direct.a bf.a)}" }
    else if (fo.coef.getD none).isSome && fin.tables.phi.isSome then
      acc := { acc with mon := acc.mon.push s!"best_fit-absent-with-coefficients-present" }
  if let some fl := c.firstWith "fitcoef" then
    match fl.getD 1 "", fo.coef with
    | "some", some (some ci) =>
      if !bitsEq (fmatAt fl 2).a ci.a then
        acc := { acc with mon := acc.mon.push s!"FitResult.linear_coefficients≠problem.linear_coefficients" }
    | "none", some none => pure ()
    | _, none => pure ()
    | _, _ => acc := { acc with mon := acc.mon.push s!"FitResult.linear_coefficients-presence" }
  return acc.render tag0

def handleFit (focus : String) (c : Case) : String := Id.run do
  if focus == "C02" then return handleFitAccessors focus c
  let (acc0, tag0) := stateCore (if focus == "C04" then "C04state" else focus) c
  let mut acc := acc0
  let width := attrNat c.header "width" 64
  let p := attrNat c.header "p"
  let n := attrNat c.header "n"; let s := attrNat c.header "s"; let m := attrNat c.header "m"
  let u := unitRoundoff width
  let dsvd := svdBackwardError width
  let res := c.firstWith "result"
  match res with
  | none => return ({ acc with corr := acc.corr.push "no-result-line" }).render tag0
  | some rl =>
    let kind := rl.getD 1 ""
    if kind == "hang" || kind == "panic" then
      return ({ acc with mon := acc.mon.push s!"fit-{kind}:{rl.getD 2 ""}", nontrivial := true, compared := acc.compared + 1 }).render s!"{tag0}/{kind}"
    let termS := attrStr rl "term"
    let term := parseTermination termS
    let evalsImpl := attrNat rl "evals"
    let objImpl := parseF (attrStr rl "objective")
    -- (1) the decision of `fit`: Ok iff the termination reason counts as successful (model: LM.fit)
    let modelOk := term.wasSuccessful
    if (kind == "ok") != modelOk then
      acc := { acc with corr := acc.corr.push s!"fit-returned-{kind}-for-{termS}" }
    if (attrStr rl "successful" == "1") != modelOk then
      acc := { acc with corr := acc.corr.push s!"termination-success-flag-differs" }
    if (attrStr rl "was_successful" == "1") != (kind == "ok") then
      acc := { acc with mon := acc.mon.push s!"was_successful-disagrees-with-Ok/Err" }
    acc := { acc with compared := acc.compared + 3 }
    -- (2) trace acceptor
    let lml := (c.firstWith "lm").getD #[]
    let patience := attrNat lml "patience" 100
    let maxFev := patience * (p + 1)
    let steps := parseSteps c
    let evs := (c.linesWith "ev").filterMap parseEv
    -- strip trailing stand-alone evals (best_fit after the fit)
    let evs := Id.run do
      let mut e := evs
      while e.size > 0 && (match e[e.size - 1]! with | .eval _ => true | _ => false) do
        e := e.pop
      return e
    let init := steps[0]!
    let initRes := (init.get "impl").res
    let rnorm0 : Option Float := match initRes with
      | some (some r) => some ((r.foldl (fun a v => a + v * v) 0.0).sqrt)
      | _ => none
    match rnorm0 with
    | none =>
      -- no residuals at the start: LM::new must report User("residuals") without touching the model
      if term != .user "residuals" then
        acc := { acc with mon := acc.mon.push s!"no-initial-residuals-but-{termS}" }
      if evs.size != 0 then
        acc := { acc with mon := acc.mon.push s!"model-calls-without-initial-residuals" }
    | some rn0 =>
      let relTol := if width == 32 then 1e-4 else 1e-9
      let tr := acceptTrace evs init.alpha rn0 maxFev term relTol
      for pr in tr.problems.toList.take 3 do
        acc := { acc with mon := acc.mon.push pr }
      acc := { acc with compared := acc.compared + evs.size }
      if tr.evals != evalsImpl then
        acc := { acc with mon := acc.mon.push s!"evaluations-reported={evalsImpl}-counted={tr.evals}" }
      if evalsImpl > max maxFev 2 then
        acc := { acc with mon := acc.mon.push s!"evaluations={evalsImpl}>budget={maxFev}" }
      -- (3) the final state belongs to the last accepted parameters
      let fin := steps[steps.size - 1]!
      let fo := fin.get "impl"
      if let some fp := fo.params then
        if !bitsEq fp tr.x then
          acc := { acc with mon := acc.mon.push s!"final-params-are-not-the-last-accepted" }
      if let some nl := c.firstWith "nonlinear" then
        if let some fp := fo.params then
          if !bitsEq (fvecAt nl 1) fp then
            acc := { acc with mon := acc.mon.push s!"nonlinear_parameters≠params" }
      -- objective = ½‖residuals‖² of the returned problem, and never above the initial objective
      let obj0 := 0.5 * rn0 * rn0
      if objImpl.isFinite then
        if !(objImpl ≤ obj0 * (1.0 + relTol) + 1e-300) then
          acc := { acc with mon := acc.mon.push s!"objective-increased:{fmtF objImpl}>{fmtF obj0}" }
        if modelOk then
          if let some (some fr) := fo.res then
            let fn2 := 0.5 * (fr.foldl (fun a v => a + v * v) 0.0)
            let tolO := (1e3 * u + 100.0 * dsvd) * (max fn2 obj0) + 1e-300
            if !((fn2 - objImpl).abs ≤ tolO) then
              acc := { acc with mon := acc.mon.push s!"objective≠½|r|²:{fmtF objImpl}vs{fmtF fn2}" }
          else
            acc := { acc with mon := acc.mon.push s!"successful-fit-without-residuals" }
      -- best_fit = Φ(α̂)·Ĉ in the shape of the observations
      if let some bl := c.firstWith "bestfit" then
        if bl.getD 1 "" == "some" then
          let bf := fmatAt bl 2
          if let (some (some ci), some phi) := (fo.coef, fin.tables.phi) then
            let direct := phi.mul ci
            let tolB := 64.0 * u * (m.toFloat + 1.0) * phi.maxAbs * ci.maxAbs + 1e-300
            if bf.r != n || bf.c != s then
              acc := { acc with mon := acc.mon.push s!"best_fit-shape-{bf.r}x{bf.c}" }
            else if !(maxDiff direct.a bf.a ≤ tolB) then
              acc := { acc with mon := acc.mon.push s!"best_fit≠ΦC:{fmtF (maxDiff direct.a bf.a)}" }
        else if (fo.coef.getD none).isSome && fin.tables.phi.isSome then
          acc := { acc with mon := acc.mon.push s!"best_fit-absent-with-coefficients-present" }
      if let some fl := c.firstWith "fitcoef" then
        match fl.getD 1 "", fo.coef with
        | "some", some (some ci) =>
          if !bitsEq (fmatAt fl 2).a ci.a then
            acc := { acc with mon := acc.mon.push s!"FitResult.linear_coefficients≠problem.linear_coefficients" }
        | "none", some none => pure ()
        | _, none => pure ()
        | _, _ => acc := { acc with mon := acc.mon.push s!"FitResult.linear_coefficients-presence" }
      acc := { acc with nontrivial := acc.nontrivial || tr.accepted + tr.rejected ≥ 2 }
    let tname := (termS.splitOn "(").headD ""
    return acc.render s!"{tag0}/{tname}"

end Varpro.Drv

namespace Varpro.Drv
open Varpro

/-- C09: build + caller-driven history are replayed on the model with the same fault window
(correspondence); the fit phase is judged by the property's statement (monitor) -/
def handleFault (focus : String) (c : Case) : String := Id.run do
  let (acc0, tag0) := stateCore "C09" c
  let _ := focus
  let mut acc := acc0
  let hugeN := 1000000000
  let parseIdx (v : String) : Nat := match v.toNat? with | some k => min k hugeN | none => hugeN
  let failFrom := parseIdx (attrStr c.header "failfrom" "x")
  let failTo := parseIdx (attrStr c.header "failto" "x")
  let mode := attrStr c.header "mode" "none"
  let withStats := attrStr c.header "stats" == "1"
  -- panics anywhere are violations
  for l in c.body do
    if l.contains "panic" then
      acc := { acc with mon := acc.mon.push s!"panic:{joinToks l 0}" }
  let fitStart := match c.firstWith "fitstart" with | some l => attrNat l "calls" | none => 0
  let fitEnd := match c.firstWith "fitend" with | some l => attrNat l "calls" | none => hugeN
  match c.firstWith "result" with
  | none =>
    if (c.firstWith "built").isNone then acc := { acc with corr := acc.corr.push "no-result-line" }
  | some rl =>
    let kind := rl.getD 1 ""
    if kind == "hang" || kind == "panic" then
      acc := { acc with mon := acc.mon.push s!"fit-{kind}" }
    else
      let termS := attrStr rl "term"
      let term := parseTermination termS
      let hasStats := attrStr rl "hasstats" == "1"
      -- was a failing call index reached while `fit` ran?
      let hit := max failFrom fitStart < min failTo fitEnd && failFrom < hugeN
      acc := { acc with compared := acc.compared + 1, nontrivial := acc.nontrivial || hit }
      -- C04 under faults: `fit` (without statistics) is Ok exactly when the termination it REPORTS is a successful one
      if !withStats && (kind == "ok") != term.wasSuccessful then
        acc := { acc with mon := acc.mon.push s!"fit-returned-{kind}-with-reported-termination-{termS}" }
      -- the accessors of the fit result are views of the returned problem
      if let some fl := c.firstWith "fr" then
        let steps := parseSteps c
        if steps.size > 0 then
          let lastO := (steps[steps.size - 1]!).get "impl"
          let frCoef := attrStr fl "coef"
          match lastO.coef with
          | some (some cm) =>
            if frCoef == "none" then acc := { acc with mon := acc.mon.push "FitResult::linear_coefficients()-absent-but-problem-has-coefficients" }
            else if frCoef != (floatsStr cm.a).replace " " "," then
              acc := { acc with mon := acc.mon.push "FitResult::linear_coefficients()-differs-from-the-problem's" }
          | some none =>
            if frCoef != "none" then acc := { acc with mon := acc.mon.push "FitResult::linear_coefficients()-present-but-problem-has-none" }
          | none => pure ()
          if frCoef == "none" && attrStr fl "bestfit" != "none" then
            acc := { acc with mon := acc.mon.push "FitResult::best_fit()-present-without-coefficients" }
      if hit then
        if kind == "ok" then
          acc := { acc with mon := acc.mon.push s!"fit-returned-Ok-although-model-call-{max failFrom fitStart}-failed-during-the-fit({termS})" }
        if hasStats then
          acc := { acc with mon := acc.mon.push "statistics-returned-although-a-model-call-failed" }
        if !withStats then
          -- the reported reason must not be a SUCCESSFUL one.  (It need not be `User(..)`: a failure in
          -- the optimizer's final re-application of the accepted parameters comes after the reason was
          -- decided; an unsuccessful reason such as NoImprovementPossible then stands, and the fit is Err.)
          if term.wasSuccessful then
            acc := { acc with mon := acc.mon.push s!"failure-during-fit-but-successful-termination-{termS}" }
      else
        -- no failure reached during the fit: it must behave like the fault-free fit (same decision rule)
        if (kind == "ok") != term.wasSuccessful && !withStats then
          acc := { acc with corr := acc.corr.push s!"fit-returned-{kind}-for-{termS}" }
  return acc.render s!"{tag0}/{mode}/{if withStats then "stats" else "fit"}"

end Varpro.Drv

namespace Varpro.Drv
open Varpro

/-- C08: outcome classes on extreme inputs.  Presence / absence of residuals, coefficients and
Jacobian after build and after an update are replayed on the model (whose SVD oracle is only ever
called on finite matrices – `c08_svd_guard`; where the harness reports that the implementation's
routine broke down on a finite matrix, the model's oracle does the same and the model discards the
decomposition – `c08_nonfinite_sigma_absent`); panics and hangs are violations. -/
def handleRobust (focus : String) (c : Case) : String := Id.run do
  let _ := focus
  let (acc0, tag0) := stateCore "C08" c
  let mut acc := { acc0 with nontrivial := true }
  let what := attrStr c.header "what"
  let mut fitTag := "nofit"
  for l in c.body do
    if l.getD 0 "" == "outcome" then
      acc := { acc with compared := acc.compared + 1 }
      let stage := l.getD 1 ""
      let res := l.getD 2 ""
      if res == "panic" || res == "hang" then
        acc := { acc with mon := acc.mon.push s!"{stage}-{res}:{(l.getD 3 "").take 100}" }
      -- a parameter vector of the wrong length was applied: rejected state, parameters kept
      if stage == "wrongset" && res == "ok" then
        if attrStr l "res" != "none" then
          acc := { acc with mon := acc.mon.push s!"residuals-present-after-a-parameter-vector-of-length-{attrStr l "len"}-was-applied(P={attrStr l "p"})" }
        if attrStr l "plen" != attrStr l "p" then
          acc := { acc with mon := acc.mon.push s!"params()-has-length-{attrStr l "plen"}-after-a-rejected-update(P={attrStr l "p"})" }
      if stage == "fit" && (res == "ok" || res == "err") then
        fitTag := s!"fit-{res}"
        if attrStr l "band" == "panic" then
          acc := { acc with mon := acc.mon.push "confidence_band_radius(0.9)-panics" }
        if let some fl := c.firstWith "final" then
          -- non-finite values never come back as a successful fit
          if res == "ok" && attrStr fl "res" != "finite" then
            acc := { acc with mon := acc.mon.push s!"fit-Ok-with-residuals-{attrStr fl "res"}" }
        -- no residuals before the fit ⇒ the fit fails
        let steps := parseSteps c
        if steps.size > 0 then
          let last := steps[steps.size - 1]!
          if let some none := (last.get "impl").res then
            if res == "ok" then acc := { acc with mon := acc.mon.push "fit-Ok-without-initial-residuals" }
  return acc.render s!"{tag0}/{what}/{fitTag}"

/-- C08: invalid model specifications (one injected defect): no stage may panic or hang; the model
builder's answer itself is C15's business and only recorded in the tag -/
def handleRobustSpec (c : Case) : String := Id.run do
  let mut acc : Acc := { nontrivial := true }
  let mut tag := s!"defect{attrStr c.header "defect"}"
  for l in c.body do
    if l.getD 0 "" == "outcome" then
      acc := { acc with compared := acc.compared + 1 }
      let stage := l.getD 1 ""
      let res := l.getD 2 ""
      tag := tag ++ s!"/{stage}-{res}"
      if res == "panic" || res == "hang" then
        acc := { acc with mon := acc.mon.push s!"{stage}-{res}-for-an-invalid-model-specification:{(l.getD 3 "").take 100}" }
  return acc.render tag

end Varpro.Drv

namespace Varpro.Drv
open Varpro

/-- C05: the certified families (failing-input search).  Thresholds were calibrated on the unchanged
tree (80 000 fits over nine families incl. the long-tail / narrow-peak variants, all successful;
worst values: reproduction 3.2e-13 / 1.3e-4 (f64/f32), cos∠(J_k, r) 7.2e-7 / 1.6e-2,
SSQ(fit)/SSQ(truth) ≤ 0.999994 / 1.00046) and frozen with margins ≥ 20. -/
def handleConv (focus : String) (c : Case) : String := Id.run do
  let _ := focus
  let width := attrNat c.header "width" 64
  let p := attrNat c.header "p"; let n := attrNat c.header "n"; let s := attrNat c.header "s"
  let fam := attrStr c.header "family"
  let noisy := attrStr c.header "noise" != "0e0"
  let tag := s!"{fam}/{width}/{if noisy then "noisy" else "exact"}/{attrStr c.header "flavour"}"
  let mut acc : Acc := { nontrivial := true, compared := 1 }
  let some rl := c.firstWith "result" | return ({ acc with corr := acc.corr.push "no-result" }).render tag
  let kind := rl.getD 1 ""
  if kind != "ok" then
    return ({ acc with mon := acc.mon.push s!"fit-did-not-succeed:{kind}:{attrStr rl "term"}" }).render tag
  let evals := attrNat rl "evals"
  if evals > 100 * (p + 1) then acc := { acc with mon := acc.mon.push s!"evaluations={evals}" }
  let getF (k : String) : Option Float := match attrStr rl k with | "none" => none | "" => none | h => some (parseF h)
  let reproTol := if width == 32 then 5e-3 else 1e-11
  let cosTol := if width == 32 then 0.4 else 2e-5
  let ssqSlack := if width == 32 then 2e-2 else 1e-6
  -- the residuals of the result are those of the parameters it reports (a problem freshly built there
  -- computes the same numbers with the same code: bit for bit on a correct library)
  if let some coh := getF "coh" then
    acc := { acc with compared := acc.compared + 1 }
    if !(coh ≤ 1e-13) then
      acc := { acc with mon := acc.mon.push s!"returned-residuals-are-not-those-of-the-returned-parameters:{fmtF coh}" }
  match getF "repro", getF "ssqfit", getF "ssqtruth", getF "maxcos" with
  | some repro, some ssqfit, some ssqtruth, some maxcos =>
    acc := { acc with compared := acc.compared + 3 }
    if !noisy then
      if !(repro ≤ reproTol) then
        acc := { acc with mon := acc.mon.push s!"noiseless-observations-not-reproduced:{fmtF repro}>{fmtF reproTol}" }
    else
      if !(maxcos ≤ cosTol) then
        acc := { acc with mon := acc.mon.push s!"residual-not-orthogonal-to-Jacobian:cos={fmtF maxcos}>{fmtF cosTol}" }
    -- weighted sum of squares never above that of the generating parameters (slack: rounding of the
    -- reproduction of exact data)
    let slack := (reproTol * 10.0) * (reproTol * 10.0) * (n * s).toFloat * 100.0
    if !(ssqfit ≤ ssqtruth * (1.0 + ssqSlack) + slack) then
      acc := { acc with mon := acc.mon.push s!"SSQ(fit)={fmtF ssqfit}>SSQ(truth)={fmtF ssqtruth}" }
  | _, _, _, _ => acc := { acc with mon := acc.mon.push "successful-fit-without-residuals/best_fit" }
  return acc.render tag

end Varpro.Drv

namespace Varpro.Drv
open Varpro

/-- C19: Monte-Carlo coverage counts produced by the harness on the real code; acceptance bounds
`|freq − p| ≤ 6·√(p(1−p)/n) + 0.01` and `|mean χ² − 1| ≤ 6·√(2/(νn)) + 0.01` (weights exactly 1/σ_i) -/
def handleMc (focus : String) (c : Case) : String := Id.run do
  let _ := focus
  let ok := attrNat c.header "ok"
  let failed := attrNat c.header "failed"
  let dof := attrNat c.header "dof"
  let wmode := attrNat c.header "wmode"
  let tag := s!"{attrStr c.header "config"}"
  let mut acc : Acc := { nontrivial := true }
  if failed > 0 || ok == 0 then
    acc := { acc with mon := acc.mon.push s!"{failed}-fits-without-statistics" }
  let nF := ok.toFloat
  for l in c.body do
    if l.getD 0 "" == "cover" then
      let pr := parseF (attrStr l "p")
      let bound := 6.0 * (pr * (1.0 - pr) / nF).sqrt + 0.01
      let mut section_ := "band"
      let mut idx := 0
      for t in l.toList.drop 2 do
        if t == "band" || t == "lin" || t == "nonlin" then
          section_ := t; idx := 0
        else if t == "|" then pure ()
        else
          match t.toNat? with
          | some hits =>
            let freq := hits.toFloat / nF
            acc := { acc with compared := acc.compared + 1 }
            if !((freq - pr).abs ≤ bound) then
              acc := { acc with mon := acc.mon.push s!"coverage-{section_}[{idx}]-p={fmtF pr}-freq={fmtF freq}-bound={fmtF bound}" }
            idx := idx + 1
          | none => pure ()
    if l.getD 0 "" == "chi2mean" && (wmode == 1 || wmode == 3) then
      let mean := parseF (l.getD 1 "")
      let bound := 6.0 * (2.0 / (dof.toFloat * nF)).sqrt + 0.01
      acc := { acc with compared := acc.compared + 1 }
      if !((mean - 1.0).abs ≤ bound) then
        acc := { acc with mon := acc.mon.push s!"mean-reduced-chi2={fmtF mean}-bound={fmtF bound}" }
  return acc.render tag

end Varpro.Drv
