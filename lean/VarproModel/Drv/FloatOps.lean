import VarproModel.Core.Problem
import VarproModel.Drv.Parse
/-!
# Drv/FloatOps — `Float` instantiation of the external routines (oracle instances, not verified):
one-sided Jacobi SVD, Gauss–Jordan inverse; conversions between arrays and typed matrices;
tolerant comparison helpers.
-/
namespace Varpro.Drv
open Varpro

instance : Zero Float := ⟨0.0⟩
instance : One Float := ⟨1.0⟩

/-- column-major float matrix with runtime dimensions (driver-internal) -/
structure FMat where
  r : Nat
  c : Nat
  a : Array Float
deriving Inhabited

namespace FMat
@[inline] def get (A : FMat) (i j : Nat) : Float := A.a[i + j * A.r]!
@[inline] def set (A : FMat) (i j : Nat) (v : Float) : FMat := { A with a := A.a.set! (i + j * A.r) v }
def ofFn (r c : Nat) (f : Nat → Nat → Float) : FMat := Id.run do
  let mut a := Array.mkEmpty (r * c)
  for j in [0:c] do
    for i in [0:r] do
      a := a.push (f i j)
  return ⟨r, c, a⟩
def mul (A B : FMat) : FMat := ofFn A.r B.c fun i j => Id.run do
  let mut s := 0.0
  for l in [0:A.c] do
    s := s + A.get i l * B.get l j
  return s
def transpose (A : FMat) : FMat := ofFn A.c A.r fun i j => A.get j i
def sub (A B : FMat) : FMat := ofFn A.r A.c fun i j => A.get i j - B.get i j
def maxAbs (A : FMat) : Float := A.a.foldl (fun m v => if v.abs > m || v.isNaN then v.abs else m) 0.0
def identity (n : Nat) : FMat := ofFn n n fun i j => if i == j then 1.0 else 0.0
def toMat (A : FMat) (n m : Nat) : Mat n m Float :=
  Mat.ofFn fun i j => A.a.getD (i.val + j.val * A.r) (Float.ofBits 0x7ff8dead00000002)
def ofMat {n m : Nat} (A : Mat n m Float) : FMat :=
  ofFn n m fun i j => if h : i < n ∧ j < m then A.get ⟨i, h.1⟩ ⟨j, h.2⟩ else 0.0
def allFinite (A : FMat) : Bool := A.a.all Float.isFinite
def frob (A : FMat) : Float := (A.a.foldl (fun s v => s + v * v) 0.0).sqrt
end FMat

/-- one-sided Jacobi on the columns of an `n × m` matrix, `n ≥ m`:
returns `(U n×m, σ, V m×m)` with `A = U diag σ Vᵀ` -/
def jacobiTall (A0 : FMat) (sweeps : Nat := 80) : FMat × Array Float × FMat := Id.run do
  let n := A0.r; let m := A0.c
  let mut A := A0
  let mut V := FMat.identity m
  for _ in [0:sweeps] do
    let mut off := 0.0
    for p in [0:m] do
      for q in [p+1:m] do
        let mut alpha := 0.0; let mut beta := 0.0; let mut gamma := 0.0
        for i in [0:n] do
          alpha := alpha + A.get i p * A.get i p
          beta := beta + A.get i q * A.get i q
          gamma := gamma + A.get i p * A.get i q
        if gamma.abs > 1e-300 && gamma.abs > 1e-17 * (alpha * beta).sqrt then
          off := off + gamma.abs / (alpha * beta).sqrt
          let zeta := (beta - alpha) / (2.0 * gamma)
          let t := (if zeta >= 0.0 then 1.0 else -1.0) / (zeta.abs + (1.0 + zeta * zeta).sqrt)
          let c := 1.0 / (1.0 + t * t).sqrt
          let s := c * t
          for i in [0:n] do
            let ap := A.get i p; let aq := A.get i q
            A := A.set i p (c * ap - s * aq)
            A := A.set i q (s * ap + c * aq)
          for i in [0:m] do
            let vp := V.get i p; let vq := V.get i q
            V := V.set i p (c * vp - s * vq)
            V := V.set i q (s * vp + c * vq)
    if off < 1e-16 then break
  let mut sig := Array.mkEmpty m
  let mut U := A
  for j in [0:m] do
    let mut nn := 0.0
    for i in [0:n] do
      nn := nn + A.get i j * A.get i j
    let sj := nn.sqrt
    sig := sig.push sj
    for i in [0:n] do
      U := U.set i j (if sj > 0.0 then A.get i j / sj else 0.0)
  return (U, sig, V)

/-- thin SVD of any shape as the typed record of the model -/
def jacobiSVD (n m : Nat) (A : Mat n m Float) : SVD n m Float :=
  let F0 := FMat.ofMat A
  -- like the implementation's routine, work on the matrix divided by (the power of two next to) its
  -- largest magnitude, so that sums of squares neither overflow nor vanish as a whole
  let amax := F0.maxAbs
  let e : Int := if amax > 0.0 && amax.isFinite then amax.frExp.2 else 0
  let F : FMat := { F0 with a := F0.a.map (·.scaleB (-e)) }
  let back (sig : Array Float) : Array Float := sig.map (·.scaleB e)
  if n ≥ m then
    let (U, sig, V) := jacobiTall F
    let sig := back sig
    { r := m, U := U.toMat n m, sigma := Vector.ofFn fun i => sig.getD i.val 0.0,
      Vt := V.transpose.toMat m m }
  else
    let (U', sig, V') := jacobiTall F.transpose   -- Aᵀ = U' σ V'ᵀ  (m×n, n, n×n)
    let sig := back sig
    { r := n, U := V'.toMat n n, sigma := Vector.ofFn fun i => sig.getD i.val 0.0,
      Vt := U'.transpose.toMat n m }

def floatExt : Ext Float := { svd := jacobiSVD }
def floatOps : XOps Float := { isFinite := Float.isFinite, abs := Float.abs, sqrt := Float.sqrt }

/-- Gauss–Jordan inverse with partial pivoting; `none` when a pivot is exactly zero or non-finite -/
def gaussInverse (A0 : FMat) : Option FMat := Id.run do
  let n := A0.r
  let mut A := A0
  let mut B := FMat.identity n
  for col in [0:n] do
    -- pivot
    let mut piv := col
    let mut best := (A.get col col).abs
    for r in [col+1:n] do
      if (A.get r col).abs > best then
        best := (A.get r col).abs; piv := r
    if best == 0.0 || !best.isFinite then return none
    if piv != col then
      for j in [0:n] do
        let t := A.get col j; A := A.set col j (A.get piv j); A := A.set piv j t
        let u := B.get col j; B := B.set col j (B.get piv j); B := B.set piv j u
    let d := A.get col col
    for j in [0:n] do
      A := A.set col j (A.get col j / d)
      B := B.set col j (B.get col j / d)
    for r in [0:n] do
      if r != col then
        let f := A.get r col
        if f != 0.0 then
          for j in [0:n] do
            A := A.set r j (A.get r j - f * A.get col j)
            B := B.set r j (B.get r j - f * B.get col j)
  return some B

/-! ### reading matrices / vectors from token lines -/

/-- parse `<rows> <cols> <words…>` starting at token `at_` -/
def fmatAt (l : Array String) (at_ : Nat) : FMat :=
  let r := natAt l at_; let c := natAt l (at_ + 1)
  ⟨r, c, floatsAt l (at_ + 2) (r * c)⟩

/-- parse `<len> <words…>` starting at token `at_` -/
def fvecAt (l : Array String) (at_ : Nat) : Array Float :=
  floatsAt l (at_ + 1) (natAt l at_)

def vecOfArray (n : Nat) (a : Array Float) : Vector Float n :=
  Vector.ofFn fun i => a.getD i.val (Float.ofBits 0x7ff8dead00000003)

/-! ### tolerant comparison -/

def unitRoundoff (width : Nat) : Float := if width == 32 then 5.96e-8 else 1.11e-16

/-- backward error `‖A − UΣVᵗ‖/‖A‖` of the implementation's SVD (nalgebra 0.33.3), calibrated on
20 000 random matrices per width (worst observed 3.6e-10 for f64, 8.9e-4 for f32; typical values are
1e-15 and 1e-6) and taken with a margin of more than 20: the comparison tolerances are perturbation
bounds for an SVD with this backward error -/
def svdBackwardError (width : Nat) : Float := if width == 32 then 2e-2 else 5e-8

def arrMaxAbs (a : Array Float) : Float := a.foldl (fun m v => if v.abs > m then v.abs else m) 0.0

/-- max |a_i − b_i|; NaN anywhere or a length mismatch gives +∞ -/
def maxDiff (a b : Array Float) : Float := Id.run do
  if a.size != b.size then return (1.0 / 0.0)
  let mut d := 0.0
  for i in [0:a.size] do
    let x := a[i]!; let y := b[i]!
    if x.isNaN || y.isNaN then
      if !(x.isNaN && y.isNaN) then return (1.0 / 0.0)
    else if x == y then pure ()
    else
      let e := (x - y).abs
      if e.isNaN then return (1.0 / 0.0)
      if e > d then d := e
  return d

/-- short scientific formatting for messages -/
def fmtF (x : Float) : String :=
  if x.isNaN then "NaN" else if x.isInf then (if x > 0.0 then "inf" else "-inf")
  else if x == 0.0 then "0"
  else
    let a := x.abs
    if a ≥ 1e-3 && a < 1e6 then toString x
    else
      let e := (Float.log10 a).floor
      let m := x / Float.pow 10.0 e
      s!"{(m * 1000.0).round / 1000.0}e{e.toInt64}"

end Varpro.Drv
