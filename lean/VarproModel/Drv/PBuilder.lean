import VarproModel.Core.Mat
import VarproModel.Core.ProblemBuilder
import VarproModel.Drv.Parse
/-!
# Drv/PBuilder — C18 stream: run `PB.build` next to the implementation
-/
namespace Varpro.Drv
open Varpro

abbrev PCall := PB.Call (Array Float) (Array Float) Float

def parsePCalls (c : Case) : Array PCall :=
  c.body.filterMap fun l =>
    if l.getD 0 "" != "call" then none else
    match l.getD 1 "" with
    | "obs" =>
      let r := natAt l 2; let cc := natAt l 3
      some (.observations ⟨r, cc, floatsAt l 4 (r * cc)⟩)
    | "weights" =>
      let n := natAt l 2
      some (.weights ⟨n, floatsAt l 3 n⟩)
    | "eps" => some (.epsilon (parseF (l.getD 2 "")))
    | _ => none

def errStr : PB.Err → String
  | .yDataMissing => "YDataMissing"
  | .zeroLengthVector => "ZeroLengthVector"
  | .invalidLengthOfData x y => s!"InvalidLengthOfData {x} {y}"
  | .invalidLengthOfWeights => "InvalidLengthOfWeights"

/-- column-major array → typed matrix -/
def matOfArray (r c : Nat) (a : Array Float) : Mat r c Float :=
  Mat.ofFn fun i j => a.getD (i.val + j.val * r) (Float.ofBits 0x7ff8dead00000001)

def matToArray {r c : Nat} (A : Mat r c Float) : Array Float := Id.run do
  let mut out := Array.mkEmpty (r * c)
  for hj : j in [0:c] do
    for hi : i in [0:r] do
      out := out.push (A.get ⟨i, hi.2.1⟩ ⟨j, hj.2.1⟩)
  return out

def matStr {r c : Nat} (A : Mat r c Float) : String :=
  s!"{r} {c}" ++ floatsStr (matToArray A)

/-- weighted data as `build` computes it: `&weights * Y` -/
def weightData (width : Nat) (b : PB.Built (Array Float) (Array Float) Float) : Except String String :=
  let Y : Mat b.rows b.cols Float := matOfArray b.rows b.cols b.y
  match b.w with
  | none => .ok (matStr Y)
  | some d =>
    if h : d.val.size = b.rows then
      let w : Vector Float b.rows := ⟨d.val, h⟩
      .ok (matStr ((Mat.rowScale w Y).map (rndW width)))
    else .error "internal: weight payload length"

def pbModelLine (width nmodel : Nat) (calls : Array PCall) : String :=
  let st := PB.run Float.abs calls.toList
  match PB.build (machEps width) nmodel st with
  | .error e => "err " ++ errStr e
  | .ok b =>
    match weightData width b with
    | .error m => m
    | .ok yw =>
      let ws := match b.w with
        | none => "none"
        | some d => s!"some {d.len}" ++ floatsStr d.val
      s!"ok eps {fhex b.eps} yw {yw} w {ws}"

/-- the property's requirement list evaluated directly on the last values (monitor) -/
def pbSpecTag (nmodel : Nat) (calls : Array PCall) : String :=
  match PB.firstViolation nmodel (PB.lastObs calls.toList) (PB.lastWts calls.toList) with
  | some e => "err " ++ errStr e
  | none => "ok"

def handlePBuilder (c : Case) : String :=
  let width := attrNat c.header "width" 64
  let nmodel := attrNat c.header "nmodel"
  let calls := parsePCalls c
  let model := pbModelLine width nmodel calls
  let impl := match c.firstWith "impl" with
    | some l => joinToks l 1
    | none => "missing"
  let corr := if model == impl then "ok" else s!"FAIL(model=[{model}] impl=[{impl}])"
  let spec := pbSpecTag nmodel calls
  let implTag := if impl.startsWith "ok" then "ok" else impl
  let mon := if spec == implTag then "ok" else s!"FAIL(spec=[{spec}] impl=[{implTag}])"
  let tag := (impl.splitOn " ").take 2 |> " ".intercalate |>.replace " " "_"
  s!"corr={corr} mon={mon} nontrivial={if calls.size ≥ 2 then 1 else 0} tag={tag}"

end Varpro.Drv
