import VarproModel.Core.Mat
import VarproModel.Core.ProblemBuilder
import VarproModel.Drv.Parse
/-!
# Drv/PBuilder — C18 stream: run `PB.build` next to the implementation
-/
namespace Varpro.Drv
open Varpro

abbrev PCall := PB.Call (Array Float) (Array Float) Float

def parsePCalls (c : Case) : Array PCall :=
  c.body.filterMap fun l =>
    if l.getD 0 "" != "call" then none else
    match l.getD 1 "" with
    | "obs" =>
      let r := natAt l 2; let cc := natAt l 3
      some (.observations ⟨r, cc, floatsAt l 4 (r * cc)⟩)
    | "weights" =>
      let n := natAt l 2
      some (.weights ⟨n, floatsAt l 3 n⟩)
    | "eps" => some (.epsilon (parseF (l.getD 2 "")))
    | _ => none

def errStr : PB.Err → String
  | .yDataMissing => "YDataMissing"
  | .zeroLengthVector => "ZeroLengthVector"
  | .invalidLengthOfData x y => s!"InvalidLengthOfData {x} {y}"
  | .invalidLengthOfWeights => "InvalidLengthOfWeights"

/-- column-major array → typed matrix -/
def matOfArray (r c : Nat) (a : Array Float) : Mat r c Float :=
  Mat.ofFn fun i j => a.getD (i.val + j.val * r) (Float.ofBits 0x7ff8dead00000001)

def matToArray {r c : Nat} (A : Mat r c Float) : Array Float := Id.run do
  let mut out := Array.mkEmpty (r * c)
  for hj : j in [0:c] do
    for hi : i in [0:r] do
      out := out.push (A.get ⟨i, hi.2.1⟩ ⟨j, hj.2.1⟩)
  return out

def matStr {r c : Nat} (A : Mat r c Float) : String :=
  s!"{r} {c}" ++ floatsStr (matToArray A)

/-- weighted data as `build` computes it: `&weights * Y` -/
def weightData (width : Nat) (b : PB.Built (Array Float) (Array Float) Float) : Except String String :=
  let Y : Mat b.rows b.cols Float := matOfArray b.rows b.cols b.y
  match b.w with
  | none => .ok (matStr Y)
  | some d =>
    if h : d.val.size = b.rows then
      let w : Vector Float b.rows := ⟨d.val, h⟩
      .ok (matStr ((Mat.rowScale w Y).map (rndW width)))
    else .error "internal: weight payload length"

def pbModelLine (width nmodel : Nat) (calls : Array PCall) : String :=
  let st := PB.run Float.abs calls.toList
  match PB.build (machEps width) nmodel st with
  | .error e => "err " ++ errStr e
  | .ok b =>
    match weightData width b with
    | .error m => m
    | .ok yw =>
      let ws := match b.w with
        | none => "none"
        | some d => s!"some {d.len}" ++ floatsStr d.val
      s!"ok eps {fhex b.eps} yw {yw} w {ws}"

/-- the property's requirement list evaluated directly on the last values (monitor) -/
def pbSpecTag (nmodel : Nat) (calls : Array PCall) : String :=
  match PB.firstViolation nmodel (PB.lastObs calls.toList) (PB.lastWts calls.toList) with
  | some e => "err " ++ errStr e
  | none => "ok"

/-- monitor on the state exposed right after `build()`: the basis is the constant column, so the
weighted basis matrix is the weight vector (ones without weights) and its only singular value is
`‖w‖`; the coefficients must be exactly zero when `‖w‖` is clearly at or below the threshold and
must not be when it is clearly above and the data have a component along `w` -/
def pbPostMonitor (width nmodel : Nat) (calls : Array PCall) (cz : String) : Option String :=
  let st := PB.run Float.abs calls.toList
  match PB.build (machEps width) nmodel st with
  | .error _ => none
  | .ok b =>
    let w : Array Float := match b.w with
      | some d => d.val
      | none => Array.replicate b.rows 1.0
    let sigma := (w.foldl (fun a v => a + v * v) 0.0).sqrt
    if cz == "none" then
      if w.all Float.isFinite && b.y.all Float.isFinite then some "no-coefficients-after-build" else none
    else if sigma ≤ b.eps * (1.0 - 1e-5) then
      if cz == "1" then none else some s!"coefficients-not-truncated:sigma={sigma}:eps={b.eps}"
    else if sigma > b.eps * (1.0 + 1e-5) then
      -- projection of every right-hand side on w
      let proj := (List.range b.cols).map fun j =>
        (List.range b.rows).foldl (fun a i => a + (w.getD i 0.0) * (w.getD i 0.0) * b.y.getD (i + j * b.rows) 0.0) 0.0
      let ymax := b.y.foldl (fun a v => max a v.abs) 0.0
      let clearlyNonZero := proj.any fun v => v.abs > 1e-3 * (ymax + 1e-300)
      if clearlyNonZero && cz == "1" then some s!"coefficients-zero-although-sigma={sigma}>eps={b.eps}" else none
    else none

def handlePBuilder (c : Case) : String :=
  let width := attrNat c.header "width" 64
  let nmodel := attrNat c.header "nmodel"
  let calls := parsePCalls c
  let model := pbModelLine width nmodel calls
  let impl := match c.firstWith "impl" with
    | some l => joinToks l 1
    | none => "missing"
  let corr := if model == impl then "ok" else s!"FAIL(model=[{model}] impl=[{impl}])"
  let spec := pbSpecTag nmodel calls
  let implTag := if impl.startsWith "ok" then "ok" else impl
  -- mmode ≠ 0: the model does not evaluate at its own initial parameters (eval fails / set_params
  -- fails / a basis value is NaN).  C18: acceptance is decided by the shapes alone; the built problem
  -- reports the model's initial parameters and exposes no residuals and no coefficients.
  let mmode := attrNat c.header "mmode" 0
  let post := match c.firstWith "post" with
    | some l =>
      let cz := attrStr l "cz"
      let pr := attrStr l "pr"
      let pm := attrStr l "pm"
      if pm == "0" then some "params-are-not-the-model's-initial-parameters"
      else if mmode != 0 then
        (if cz != "none" then some s!"coefficients-exposed-although-the-model-fails-at-its-initial-parameters:mmode={mmode}"
         else if pr == "1" then some s!"residuals-exposed-although-the-model-fails-at-its-initial-parameters:mmode={mmode}"
         else none)
      else if pr == "0" && cz != "none" then some "coefficients-without-residuals"
      else if pr == "1" && cz == "none" then some "residuals-without-coefficients"
      else pbPostMonitor width nmodel calls cz
    | none => none
  let mon := if spec != implTag then s!"FAIL(spec=[{spec}] impl=[{implTag}])"
    else match post with
      | some m => s!"FAIL({m})"
      | none => "ok"
  let tag := (impl.splitOn " ").take 2 |> " ".intercalate |>.replace " " "_"
  s!"corr={corr} mon={mon} nontrivial={if calls.size ≥ 2 then 1 else 0} tag={tag}"

end Varpro.Drv
