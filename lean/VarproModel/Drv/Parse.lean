/-!
# Drv/Parse — line protocol utilities of the driver (not part of the model)
-/
namespace Varpro.Drv

def hexDigit (c : Char) : Option UInt64 :=
  if '0' ≤ c ∧ c ≤ '9' then some (c.toNat - '0'.toNat).toUInt64
  else if 'a' ≤ c ∧ c ≤ 'f' then some (c.toNat - 'a'.toNat + 10).toUInt64
  else none

def hexToU64 (s : String) : Option UInt64 :=
  s.toList.foldl (fun acc c => do
    let a ← acc
    let d ← hexDigit c
    pure (a * 16 + d)) (some 0)

/-- a float given as the 16 hex digits of its IEEE-754 bit pattern -/
def parseF (s : String) : Float :=
  match hexToU64 s with
  | some u => Float.ofBits u
  | none => Float.ofBits 0x7ff8dead00000000   -- malformed input: a NaN with a recognisable payload

def hexChar (d : UInt64) : Char :=
  if d < 10 then Char.ofNat ('0'.toNat + d.toNat) else Char.ofNat ('a'.toNat + d.toNat - 10)

def u64Hex (u : UInt64) : String :=
  String.ofList ((List.range 16).map fun i => hexChar ((u >>> (4 * (15 - i)).toUInt64) &&& 0xF))

def fhex (x : Float) : String := u64Hex x.toBits

/-- round to the nearest `f32` and embed again (the implementation's width-32 arithmetic for a
single operation on width-32 inputs) -/
def rnd32 (x : Float) : Float := x.toFloat32.toFloat

def rndW (width : Nat) (x : Float) : Float := if width == 32 then rnd32 x else x

def machEps (width : Nat) : Float :=
  if width == 32 then Float.ofBits 0x3e80000000000000 else Float.ofBits 0x3cb0000000000000

/-- `key=value` attribute lookup on a header line -/
def attr (toks : Array String) (key : String) : Option String :=
  toks.findSome? fun t =>
    match t.splitOn "=" with
    | k :: v :: rest => if k == key then some ("=".intercalate (v :: rest)) else none
    | _ => none

def attrNat (toks : Array String) (key : String) (dflt : Nat := 0) : Nat :=
  ((attr toks key).bind String.toNat?).getD dflt

def attrStr (toks : Array String) (key : String) (dflt : String := "") : String :=
  (attr toks key).getD dflt

def tokens (line : String) : Array String :=
  ((line.splitOn " ").filter (· ≠ "")).toArray

/-- floats from tokens `[start, start+count)` -/
def floatsAt (toks : Array String) (start count : Nat) : Array Float :=
  (Array.range count).map fun i => parseF (toks.getD (start + i) "")

def natAt (toks : Array String) (i : Nat) : Nat := ((toks.getD i "").toNat?).getD 0

def floatsStr (xs : Array Float) : String :=
  xs.foldl (fun s x => s ++ " " ++ fhex x) ""

/-- one case: header tokens and body lines (tokenised) -/
structure Case where
  id : Nat
  kind : String
  header : Array String
  body : Array (Array String)
deriving Inhabited

/-- lines of a body starting with the given tag -/
def Case.linesWith (c : Case) (tag : String) : Array (Array String) :=
  c.body.filter fun l => l.getD 0 "" == tag

def Case.firstWith (c : Case) (tag : String) : Option (Array String) :=
  c.body.find? fun l => l.getD 0 "" == tag

def joinToks (l : Array String) (from_ : Nat := 0) : String :=
  " ".intercalate (l.toList.drop from_)

end Varpro.Drv
