import VarproModel.Core.ModelSpec
import VarproModel.Drv.Parse
/-!
# Drv/SepModel — C15/C16/C17 streams: builder sessions and operations on the built model,
integer-valued position-sensitive probes, exact comparison
-/
namespace Varpro.Drv
open Varpro Varpro.MB

/-- probe payload: arity, code, optional output-length override -/
structure PF where
  arity : Nat
  code : Int
  len : Option Nat
deriving Repr, Inhabited

abbrev SCall := Call String PF PF (List Int) Int
abbrev SModel := Model String PF PF (List Int) Int

/-- `~` = the empty name; U+2423 = a blank inside a name -/
def decName (s : String) : String := if s == "~" then "" else s.replace "␣" " "

def parsePF (l : Array String) (at_ : Nat) : PF :=
  { arity := natAt l at_, code := ((l.getD (at_ + 1) "").toInt?).getD 0,
    len := (l.getD (at_ + 2) "").toNat? }

def intsAt (l : Array String) (start count : Nat) : List Int :=
  (List.range count).map fun i => ((l.getD (start + i) "").toInt?).getD 0

def afterBar (l : Array String) : List String :=
  ((l.toList.dropWhile (· ≠ "|")).drop 1).map decName

def parseSCall (l : Array String) : Option SCall :=
  match l.getD 1 "" with
  | "function" => some (.function (afterBar l) (parsePF l 2))
  | "deriv" => some (.partialDeriv ((afterBar l).headD "") (parsePF l 2))
  | "invariant" => some (.invariant (parsePF l 2))
  | "x" => some (.indepVar ((List.range (natAt l 2)).map fun (i : Nat) => (Int.ofNat i) + 1))
  | "init" => some (.initParams (intsAt l 3 (natAt l 2)))
  | _ => none

def probeSem (base : Int) : Sem PF PF (List Int) Int (List Int) where
  applyF f x args :=
    let s : Int := f.code * base ^ (args.length + 1) +
      (args.zipIdx.foldl (fun acc ai => acc + ai.1 * base ^ (ai.2 + 1)) 0) +
      (if f.code ≥ 100 then (x.length : Int) else 0)
    -- `len = 1000 + 100 t + L`: L elements if the first argument is ≥ t, the natural length otherwise
    let L := match f.len with
      | some c => if c ≥ 1000 then
          (if (args.headD 0) ≥ ((c - 1000) / 100 : Nat) then (c - 1000) % 100 else x.length)
        else c
      | none => x.length
    (List.range L).map fun i => s + (x[i]?).getD 0
  applyG g x :=
    let L := g.len.getD x.length
    (List.range L).map fun i => g.code + 2 * (x[i]?).getD 0
  arity f := f.arity
  xlen x := x.length
  vlen v := v.length
  zeroV n := List.replicate n 0

def encName (s : String) : String := if s == "" then "~" else s.replace " " "␣"
def encNames (l : List String) : String := " ".intercalate (l.map encName)

def bErrStr : BErr String → String
  | .duplicateParameterNames l => s!"DuplicateParameterNames {encNames l}"
  | .emptyParameters => "EmptyParameters"
  | .functionParameterNotInModel p => s!"FunctionParameterNotInModel {encName p}"
  | .invalidDerivative p fps => s!"InvalidDerivative {encName p} | {encNames fps}"
  | .duplicateDerivative p => s!"DuplicateDerivative {encName p}"
  | .missingDerivative p fps => s!"MissingDerivative {encName p} | {encNames fps}"
  | .emptyModel => "EmptyModel"
  | .unusedParameter p => s!"UnusedParameter {encName p}"
  | .incorrectParameterCount a e => s!"IncorrectParameterCount {a} {e}"
  | .commaInParameterNameNotAllowed p => s!"CommaInParameterNameNotAllowed {encName p}"
  | .missingX => "MissingX"
  | .missingInitialParameters => "MissingInitialParameters"
  | .illegalCallToPartialDeriv => "IllegalCallToPartialDeriv"
  | .logicPanic => "PANIC-logic-error"

/-- inverse of `bErrStr` on the tokens of the implementation's `built err …` line -/
def parseBErr (l : Array String) : Option (BErr String) :=
  let args := l.toList.drop 3
  let afterBar := ((args.dropWhile (· ≠ "|")).drop 1).map decName
  match l.getD 2 "" with
  | "DuplicateParameterNames" => some (.duplicateParameterNames (args.map decName))
  | "EmptyParameters" => some .emptyParameters
  | "FunctionParameterNotInModel" => some (.functionParameterNotInModel (decName (args.headD "~")))
  | "InvalidDerivative" => some (.invalidDerivative (decName (args.headD "~")) afterBar)
  | "DuplicateDerivative" => some (.duplicateDerivative (decName (args.headD "~")))
  | "MissingDerivative" => some (.missingDerivative (decName (args.headD "~")) afterBar)
  | "EmptyModel" => some .emptyModel
  | "UnusedParameter" => some (.unusedParameter (decName (args.headD "~")))
  | "IncorrectParameterCount" =>
    match args with
    | [a, e] => match a.toNat?, e.toNat? with
      | some a, some e => some (.incorrectParameterCount a e)
      | _, _ => none
    | _ => none
  | "CommaInParameterNameNotAllowed" => some (.commaInParameterNameNotAllowed (decName (args.headD "~")))
  | "MissingX" => some .missingX
  | "MissingInitialParameters" => some .missingInitialParameters
  | "IllegalCallToPartialDeriv" => some .illegalCallToPartialDeriv
  | _ => none

def mErrStr : MErr → String
  | .unexpectedFunctionOutput e a => s!"err UnexpectedFunctionOutput {e} {a}"
  | .derivativeIndexOutOfBounds i => s!"err DerivativeIndexOutOfBounds {i}"
  | .incorrectParameterCount e a => s!"err IncorrectParameterCount {e} {a}"
  | .panicIndexOutOfBounds => "panic index-out-of-bounds"
  | .panicArgumentCount => "panic argument-count"

def colsStr (n : Nat) (cols : List (List Int)) : String :=
  let body := cols.foldl (fun s c => c.foldl (fun s v => s ++ " " ++ toString v) s) ""
  s!"ok {n} {cols.length}{body}"

def resStr (n : Nat) : Except MErr (List (List Int)) → String
  | .ok cols => colsStr n cols
  | .error e => mErrStr e

def hasCommaS (s : String) : Bool := s.contains ','

structure OpState where
  model : SModel
  /-- the parameters according to the specification (last accepted vector) -/
  specParams : List Int
  corr : Array String := #[]
  mon : Array String := #[]
  nOps : Nat := 0
  /-- the tokens of the last accepted `set` exactly as written (signed zeros: `-0` ≠ `0`) -/
  lastSet : Option (List String) := none

def natOrHuge (s : String) : Nat := (s.toNat?).getD 0

def stepOp (sem : Sem PF PF (List Int) Int (List Int)) (names : List String)
    (items : List (Item String PF PF (List Int) Int)) (st : OpState) (op res : Array String) : OpState :=
  -- the integer model has no signed zero: `-0` is compared as `0` here; that `params()` hands back the
  -- very numbers that were applied - sign of zero included - is monitored on the tokens below
  let impl := joinToks (res.map fun t => if t == "-0" then "0" else t) 1
  let n := st.model.x.length
  let check (st : OpState) (model spec : String) : OpState :=
    let st := if model == impl then st else
      { st with corr := st.corr.push s!"op{st.nOps}:{joinToks op 1}:model=[{model}]:impl=[{impl}]" }
    let st := if spec == impl then st else
      { st with mon := st.mon.push s!"op{st.nOps}:{joinToks op 1}:spec=[{spec}]:impl=[{impl}]" }
    { st with nOps := st.nOps + 1 }
  match op.getD 1 "" with
  | "set" =>
    let v := intsAt op 3 (natAt op 2)
    match st.model.setParams v with
    | .ok m' =>
      -- spec: accepted iff the count matches; then the vector is stored unchanged
      let spec := if v.length == names.length then "ok" else s!"err IncorrectParameterCount {names.length} {v.length}"
      let toks := (op.toList.drop 3).take (natAt op 2)
      check { st with model := m', specParams := if v.length == names.length then v else st.specParams,
                      lastSet := if v.length == names.length then some toks else st.lastSet } "ok" spec
    | .error e =>
      let spec := if v.length == names.length then "ok" else s!"err IncorrectParameterCount {names.length} {v.length}"
      check st (mErrStr e) spec
  | "eval" =>
    check st (resStr n (st.model.eval sem)) (resStr n (specEval sem names items st.model.x st.specParams))
  | "deriv" =>
    let k := natOrHuge (op.getD 2 "")
    check st (resStr n (st.model.evalPartialDeriv sem k))
      (resStr n (specDeriv sem names items st.model.x st.specParams k))
  | "params" =>
    let ps (l : List Int) := l.foldl (fun s v => s ++ " " ++ toString v) ""
    -- `SeparableModel::parameters()`: the names in model order
    let encN (l : List String) := " ".intercalate (l.map fun s => if s.isEmpty then "~" else s.replace " " "␣")
    let model := s!"ok {st.model.params.length}{ps st.model.params} | {st.model.names.length} {st.model.fns.length} {st.model.x.length} | {encN st.model.names}"
    let nfn := (items.filter Item.isFnLike).length
    let spec := s!"ok {st.specParams.length}{ps st.specParams} | {names.length} {nfn} {st.model.x.length} | {encN names}"
    let st := match st.lastSet with
      | some toks =>
        let got := (res.toList.drop 3).take (natOrHuge (res.getD 2 ""))
        if got == toks then st else
          { st with mon := st.mon.push s!"op{st.nOps}:params()=[{" ".intercalate got}]:last-applied=[{" ".intercalate toks}]" }
      | none => st
    check st model spec
  | _ => st

def handleSepModel (c : Case) : String :=
  let base : Int := (attrNat c.header "base" 8 : Nat)
  let sem := probeSem base
  let names := match c.firstWith "names" with
    | some l => (l.toList.drop 1).map decName
    | none => []
  let calls := (c.linesWith "call").toList.filterMap parseSCall
  let implBuilt := match c.firstWith "built" with
    | some l => joinToks l 1
    | none => "missing"
  let modelRes := MB.run hasCommaS (fun (f : PF) => f.arity) names calls
  let modelBuilt := match modelRes with
    | .ok _ => "ok"
    | .error e => ("err " ++ bErrStr e).trimAscii.toString
  let valid := validB hasCommaS (fun (f : PF) => f.arity) names calls
  let specBuilt := if valid then "ok" else "err"
  let implTag := if implBuilt == "ok" then "ok" else if implBuilt.startsWith "err" then "err" else implBuilt
  let corr0 : Array String := if modelBuilt == implBuilt then #[] else #[s!"built:model=[{modelBuilt}]:impl=[{implBuilt}]"]
  let mon0 : Array String := if specBuilt == implTag then #[] else #[s!"built:spec-valid={valid}:impl=[{implBuilt}]"]
  -- C15, last clause: the error the IMPLEMENTATION returned must name a defect that is present in the
  -- call sequence (`defectB`, Core/ModelSpec; `c15_error_names_defect` shows the model always does)
  let mon0 : Array String :=
    if implTag == "err" then
      match (c.firstWith "built").bind parseBErr with
      | some e =>
        if defectB hasCommaS (fun (f : PF) => f.arity) names calls e then mon0
        else mon0.push s!"built:error-names-a-defect-that-is-not-present:impl=[{implBuilt}]"
      | none => mon0.push s!"built:unknown-error-kind:impl=[{implBuilt}]"
    else mon0
  let items := group (none : Option (FnItem String PF)) calls
  let tagB := ((implBuilt.splitOn " ").take 2 |> "_".intercalate)
  match modelRes with
  | .error _ =>
    let corr := if corr0.isEmpty then "ok" else s!"FAIL({";".intercalate corr0.toList})"
    let mon := if mon0.isEmpty then "ok" else s!"FAIL({";".intercalate mon0.toList})"
    s!"corr={corr} mon={mon} nontrivial={if calls.length ≥ 2 then 1 else 0} tag={tagB}"
  | .ok m =>
    -- pair every op line with the res line that follows it
    let body := c.body
    let st0 : OpState := { model := m, specParams := (lastInit items).getD [], corr := corr0, mon := mon0 }
    let st := Id.run do
      let mut st := st0
      for i in [0:body.size] do
        let l := body[i]!
        if l.getD 0 "" == "op" then
          let res := body.getD (i + 1) #[]
          st := stepOp sem names items st l res
      return st
    let corr := if st.corr.isEmpty then "ok" else s!"FAIL({";".intercalate (st.corr.toList.take 3)})"
    let mon := if st.mon.isEmpty then "ok" else s!"FAIL({";".intercalate (st.mon.toList.take 3)})"
    s!"corr={corr} mon={mon} nontrivial={if st.nOps ≥ 1 ∨ calls.length ≥ 2 then 1 else 0} tag={tagB}"

end Varpro.Drv
