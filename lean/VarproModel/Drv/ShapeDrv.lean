import VarproModel.Core.ShapeModel
import VarproModel.Drv.Parse
/-!
# Drv/ShapeDrv — validation of the shape / effects model against the implementation

The harness' `shape` stream runs models that violate the trait contract at the level of shapes;
the handler evaluates `Shape.setParamsS` / `Shape.jacobianS` on the same shapes and compares the
OUTCOME CLASS (panic / absent / present) of `build()` (which applies the initial parameters),
`residuals()` and `jacobian()`.
-/
namespace Varpro.Drv
open Varpro Varpro.Shape

def parseAns (s : String) : Option Sh :=
  match s.splitOn "x" with
  | [a, b] => match a.toNat?, b.toNat? with
    | some r, some c => some (r, c)
    | _, _ => none
  | _ => none

def handleShape (c : Case) : String := Id.run do
  let n := attrNat c.header "n"; let m := attrNat c.header "m"
  let p := attrNat c.header "p"; let s := attrNat c.header "s"
  let weighted := attrNat c.header "w" == 1
  let derivs := ((attrStr c.header "derivs").splitOn ",").toArray.map parseAns
  let M : ShapeModel := { outputLen := n, baseCount := m, paramCount := p, setParamsOk := true,
                          eval := parseAns (attrStr c.header "eval"), deriv := fun k => (derivs.getD k none) }
  let P0 : PShape := { yw := (n, s), w := if weighted then some n else none, cache := none }
  let lawful := M.eval == some (n, m) && (List.range p).all fun k => M.deriv k == some (n, m)
  let tag := s!"{if lawful then "lawful" else "violating"}/{attrStr c.header "eval"}"
  let mut corr : Array String := #[]
  let implBuilt := match c.firstWith "built" with
    | some l => l.getD 1 ""
    | none => "missing"
  let sp := setParamsS M P0
  let modelBuilt := match sp with
    | .panic _ => "panic"
    | _ => "ok"
  if modelBuilt != implBuilt then
    corr := corr.push s!"build:model={modelBuilt}({reprStr sp}):impl={implBuilt}"
  if implBuilt == "ok" then
    match sp with
    | .ok cache =>
      let implRes := match c.firstWith "res" with
        | some l => l.getD 1 ""
        | none => "missing"
      let modelRes := if cache.isSome then "some" else "none"
      if modelRes != implRes then corr := corr.push s!"residuals:model={modelRes}:impl={implRes}"
      let P : PShape := { P0 with cache := cache }
      let implJac := match c.firstWith "jac" with
        | some l => l.getD 1 ""
        | none => "missing"
      let j := jacobianS M P
      let modelJac := match j with
        | .panic _ => "panic"
        | .none => "none"
        | .ok () => "some"
      -- the column tasks of the implementation stop at the first failure in the sequential flavour
      -- and may stop early in the parallel one: when the model has BOTH a failing derivative and a
      -- later panicking column, either outcome is an execution of the model (schedule dependent)
      let anyNone := (List.range p).any fun k => (M.deriv k).isNone
      let acceptable := modelJac == implJac || (P.cache.isSome && anyNone && modelJac == "panic" && implJac == "none")
      if !acceptable then corr := corr.push s!"jacobian:model={modelJac}({reprStr j}):impl={implJac}"
    | _ => pure ()
  let cs := if corr.isEmpty then "ok" else s!"FAIL({";".intercalate corr.toList})"
  return s!"corr={cs} mon=ok nontrivial={if lawful then 0 else 1} tag={tag}"

end Varpro.Drv
