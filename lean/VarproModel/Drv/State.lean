import VarproModel.Core.Problem
import VarproModel.Core.ProblemBuilder
import VarproModel.Drv.FloatOps
/-!
# Drv/State — the G-state stream: run `Problem.build / setParams / residuals / jacobianSeq` of the
model on `Float` next to the implementation, compare with condition-aware tolerances
(correspondence) and evaluate the properties' identities on the implementation's own outputs
(monitors).  `focus` selects the components that belong to the property being checked.
-/
namespace Varpro.Drv
open Varpro

/-- tables of the user model at one parameter vector, as sent by the harness -/
structure Tables where
  alpha : Array Float
  phi : Option FMat
  d : Array (Option FMat)
deriving Inhabited

/-- state of the table-driven user model: current parameters and the global model-call counter -/
structure TState where
  params : Array Float
  calls : Nat := 0
deriving Inhabited

structure TOracle where
  tables : Array Tables
  failFrom : Nat := 1000000000
  failTo : Nat := 1000000000

def bitsEq (a b : Array Float) : Bool :=
  a.size == b.size && (List.range a.size).all fun i => a[i]!.toBits == b[i]!.toBits

def TOracle.lookup (o : TOracle) (alpha : Array Float) : Option Tables :=
  o.tables.find? fun t => bitsEq t.alpha alpha

def TOracle.fails (o : TOracle) (i : Nat) : Bool := o.failFrom ≤ i && i < o.failTo

/-- the user model seen by the problem: tables looked up by the bit pattern of α, failures injected
by global call index (exactly what the harness' wrapper model does) -/
def tableModel (n m p : Nat) (o : TOracle) : UserModel n m p Float String where
  State := TState
  setParams st α :=
    let st' := { st with calls := st.calls + 1 }
    if o.fails st.calls then (st', .error "injected")
    else ({ st' with params := α.toArray }, .ok ())
  params st := vecOfArray p st.params
  eval st :=
    let st' := { st with calls := st.calls + 1 }
    if o.fails st.calls then (st', .error "injected")
    else match o.lookup st.params with
      | some { phi := some f, .. } => (st', .ok (f.toMat n m))
      | _ => (st', .error "model")
  deriv st k :=
    let st' := { st with calls := st.calls + 1 }
    if o.fails st.calls then (st', .error "injected")
    else match o.lookup st.params with
      | some t => match t.d.getD k.val none with
        | some f => (st', .ok (f.toMat n m))
        | none => (st', .error "model")
      | none => (st', .error "model")

/-- observed outputs of one query block (`impl`, `again`, `fresh`, `twin…`) -/
structure Obs where
  params : Option (Array Float) := none
  res : Option (Option (Array Float)) := none
  coef : Option (Option FMat) := none
  jac : Option (Option FMat) := none
  yw : Option FMat := none
  ywfinal : Option FMat := none
  eps : Option Float := none
  panic : Option String := none
deriving Inhabited

structure Step where
  kind : String          -- build | set
  alpha : Array Float
  tables : Tables
  obs : List (String × Obs)   -- by prefix
  /-- measured quality of the implementation's SVD routine on this step's matrix (harness `svdq`) -/
  svdq : Option Float := none
  /-- the implementation's SVD routine produced singular values that are not finite on this step's
  (finite) matrix (harness `svdq nonfinite`): the oracle `Ext.svd` of the model does the same -/
  svdBreak : Bool := false
deriving Inhabited

def Obs.add (o : Obs) (l : Array String) : Obs :=
  match l.getD 1 "" with
  | "params" => { o with params := some (fvecAt l 2) }
  | "res" => { o with res := some (if l.getD 2 "" == "some" then some (fvecAt l 3) else none) }
  | "coef" => { o with coef := some (if l.getD 2 "" == "some" then some (fmatAt l 3) else none) }
  | "jac" => { o with jac := some (if l.getD 2 "" == "some" then some (fmatAt l 3) else none) }
  | "yw" => { o with yw := some (fmatAt l 2) }
  | "ywfinal" => { o with ywfinal := some (fmatAt l 2) }
  | "eps" => { o with eps := some (parseF (l.getD 2 "")) }
  | "panic" => { o with panic := some (l.getD 2 "") }
  | _ => o

def addObs (obs : List (String × Obs)) (l : Array String) : List (String × Obs) :=
  let pre := l.getD 0 ""
  match obs.find? (·.1 == pre) with
  | some _ => obs.map fun po => if po.1 == pre then (po.1, po.2.add l) else po
  | none => obs ++ [(pre, (default : Obs).add l)]

/-- the SVD oracle of one step: the driver's own routine, or – where the harness reports that the
implementation's routine broke down on the step's matrix – one with singular values that are not
finite -/
def extFor (brk : Bool) : Ext Float :=
  if brk then
    { svd := fun n m A => let d := floatExt.svd n m A; { d with sigma := d.sigma.map fun _ => 0.0 / 0.0 } }
  else floatExt

def parseSteps (c : Case) : Array Step := Id.run do
  let mut steps : Array Step := #[]
  for l in c.body do
    let t := l.getD 0 ""
    if t == "step" then
      let a := fvecAt l 2
      steps := steps.push { kind := l.getD 1 "", alpha := a, tables := { alpha := a, phi := none, d := #[] }, obs := [] }
    else if steps.size > 0 then
      let i := steps.size - 1
      let st := steps[i]!
      if t == "phi" then
        let f := if l.getD 1 "" == "ok" then some (fmatAt l 2) else none
        steps := steps.set! i { st with tables := { st.tables with phi := f } }
      else if t == "d" then
        let f := if l.getD 2 "" == "ok" then some (fmatAt l 3) else none
        steps := steps.set! i { st with tables := { st.tables with d := st.tables.d.push f } }
      else if t == "svdq" && l.getD 1 "" == "nonfinite" then
        steps := steps.set! i { st with svdBreak := true }
      else if t == "svdq" then
        let q := (parseF (l.getD 1 "")).abs + (parseF (l.getD 2 "")).abs + (parseF (l.getD 3 "")).abs
        steps := steps.set! i { st with svdq := some q }
      else if t == "impl" || t == "again" || t == "fresh" || t.startsWith "twin" then
        steps := steps.set! i { st with obs := addObs st.obs l }
  return steps

def Step.get (s : Step) (pre : String) : Obs := ((s.obs.find? (·.1 == pre)).map (·.2)).getD default

/-- result of comparing one component -/
inductive Cmp where
  | ok | skip (why : String) | fail (why : String)

def cmpArr (name : String) (model impl : Array Float) (tol scale : Float) : Cmp :=
  if !(tol ≤ 5e-2 * scale) && !(scale == 0.0 && tol == 0.0) then .skip s!"{name}:ill-conditioned"
  else
    let d := maxDiff model impl
    if d ≤ tol then .ok else .fail s!"{name}:maxdiff={fmtF d}>tol={fmtF tol}"

/-- element-wise relative comparison (exact-arithmetic sub-stream): `|a−b| ≤ rel·max(|a|,|b|) + abs` -/
def cmpRel (name : String) (a b : Array Float) (rel abs : Float) : Cmp := Id.run do
  if a.size != b.size then return .fail s!"{name}:length"
  for i in [0:a.size] do
    let x := a[i]!; let y := b[i]!
    if x.isNaN || y.isNaN then
      if !(x.isNaN && y.isNaN) then return .fail s!"{name}:nan-at-{i}"
    else if x != y then
      let d := (x - y).abs
      if !(d ≤ rel * (max x.abs y.abs) + abs) then
        return .fail s!"{name}:entry-{i}:model={fmtF x}:impl={fmtF y}"
  return .ok

def cmpBits (name : String) (a b : Array Float) : Cmp :=
  if bitsEq a b then .ok else .fail s!"{name}:bits-differ(maxdiff={fmtF (maxDiff a b)})"

structure Acc where
  corr : Array String := #[]
  mon : Array String := #[]
  skips : Nat := 0
  compared : Nat := 0
  nontrivial : Bool := false

def Acc.addCorr (a : Acc) (c : Cmp) : Acc :=
  match c with
  | .ok => { a with compared := a.compared + 1 }
  | .skip _ => { a with skips := a.skips + 1 }
  | .fail w => { a with corr := a.corr.push w, compared := a.compared + 1 }

def Acc.addMon (a : Acc) (c : Cmp) : Acc :=
  match c with
  | .ok => { a with compared := a.compared + 1 }
  | .skip _ => { a with skips := a.skips + 1 }
  | .fail w => { a with mon := a.mon.push w, compared := a.compared + 1 }

def wants (focus : String) (comp : String) : Bool :=
  match focus with
  | "C01" => comp == "coef"
  | "C02" => comp == "res" || comp == "params" || comp == "yw"
  | "C03" => comp == "jac"
  | "C10" => comp == "res" || comp == "coef" || comp == "jac" || comp == "twins" || comp == "params"
  | "C18" => comp == "eps" || comp == "yw" || comp == "params" || comp == "res" || comp == "coef"
  | "C11" => comp == "res" || comp == "coef" || comp == "jac" || comp == "params" || comp == "ptwins"
  | "C08" => false
  | "C09" => comp == "res" || comp == "coef" || comp == "params" || comp == "jac" || comp == "twins"
  | "C04state" => comp == "res" || comp == "coef" || comp == "params" || comp == "twins"
  | "C06" => comp == "res" || comp == "coef" || comp == "jac" || comp == "yw" || comp == "wtwins"
  | "C07" => comp == "res" || comp == "coef" || comp == "jac" || comp == "stwins"
  | _ => true

def optPresence {α : Type} (name : String) (model : Option α) (impl : Option (Option β)) : Cmp :=
  match impl with
  | none => .skip s!"{name}:not-observed"
  | some i =>
    if model.isSome == i.isSome then .ok
    else .fail s!"{name}:model-{if model.isSome then "some" else "none"}-impl-{if i.isSome then "some" else "none"}"

/-- numerical summary of a model cache used for tolerances -/
structure Cond where
  smax : Float
  sminKept : Float
  kappa : Float
  rank : Nat
  full : Bool
  ambiguous : Bool

/-- `band`: how far a singular value computed by the implementation's SVD may lie from the one the
driver computes (backward error of either decomposition times σ_max).  A singular value within the
band of the threshold may be kept by one and dropped by the other: the rank decision is ambiguous
and nothing is compared for that step.  (A column of magnitude 1e-300 has a true singular value of
1e-300, nalgebra reports rounding noise of a few u·σ_max for it, which is above the *absolute*
default threshold ε = u as soon as σ_max ≳ 1.) -/
def condOf {n m s : Nat} (c : Cache n m s Float) (eps : Float) (band : Float := 0.0) : Cond :=
  let sig := c.svd.sigma.toArray
  let smax := arrMaxAbs sig
  let kept := sig.filter (· > eps)
  let smin := kept.foldl (fun a v => if v < a then v else a) smax
  let amb := sig.any fun v => (v > eps / 1e3 && v ≤ eps) || (v > eps && v < eps * 1e3 && v < smax * 1e-6)
    || (v - eps).abs ≤ band * smax
  { smax := smax, sminKept := smin, kappa := if smin > 0.0 then smax / smin else 1e300,
    rank := kept.size, full := kept.size == m && m ≤ n, ambiguous := amb }

def stateCore (focus : String) (c : Case) : Acc × String := Id.run do
  let n := attrNat c.header "n"; let m := attrNat c.header "m"
  let p := attrNat c.header "p"; let s := attrNat c.header "s"
  let width := attrNat c.header "width" 64
  let u := unitRoundoff width
  let cw := 1000.0
  let dsvd := svdBackwardError width
  let steps := parseSteps c
  let tagBase := s!"{attrStr c.header "flavour"}/{width}/{attrStr c.header "wkind"}/{attrStr c.header "origin"}"
  if steps.size == 0 then
    let b := (c.firstWith "built").map (joinToks · 1) |>.getD "missing"
    return ({ corr := #[s!"no-steps:{b.replace " " "_"}"] }, tagBase)
  let epsIn : Option Float := match c.firstWith "eps" with
    | some l => if l.getD 1 "" == "default" then none else some (parseF (l.getD 1 ""))
    | none => none
  let wIn : Option (Array Float) := match c.firstWith "w" with
    | some l => if l.getD 1 "" == "none" then none else some (fvecAt l 1)
    | none => none
  let Yf : FMat := match c.firstWith "Y" with
    | some l => fmatAt l 1
    | none => ⟨0, 0, #[]⟩
  -- builder part of the model (C18): last epsilon through |·|, machine epsilon otherwise
  let pcalls : List (PB.Call Unit Unit Float) := match epsIn with
    | some e => [.epsilon e]
    | none => []
  let eps : Float := ((PB.run Float.abs pcalls).eps).getD (machEps width)
  let w : Option (Vector Float n) := wIn.map (vecOfArray n)
  let exact := attrStr c.header "origin" == "diag"
  -- cases whose model the harness tables do not describe (failing evaluation, values at the edge of the
  -- floating-point range) are judged by the twins on the implementation alone
  let twinsOnly := attrStr c.header "only" == "twins"
  let wants := fun (f comp : String) => if twinsOnly then comp.endsWith "twins" && wants f comp else wants f comp
  let hugeN := 1000000000
  let parseIdx (v : String) : Nat := match v.toNat? with | some k => min k hugeN | none => hugeN
  let faultMode := (attr c.header "failfrom").isSome
  let oracle : TOracle := { tables := steps.map (·.tables),
                            failFrom := parseIdx (attrStr c.header "failfrom" "x"),
                            failTo := parseIdx (attrStr c.header "failto" "x") }
  let U := tableModel n m p oracle
  let Y : Mat n s Float := Yf.toMat n s
  let st0 : TState := { params := steps[0]!.alpha }
  -- `build`: weight the data (one multiplication per entry, rounded to the implementation's width)
  let P0 : Problem U s :=
    let P : Problem U s := { Yw := (wmul w Y).map (rndW width), st := st0, eps := eps, w := w, cached := none }
    P.setParams (extFor steps[0]!.svdBreak) floatOps (U.params st0)
  let mut P := P0
  let mut acc : Acc := {}
  let mut kmax := 0.0
  let mut rankTag := "full"
  for si in [0:steps.size] do
    let step := steps[si]!
    if step.kind == "final" && faultMode then
      -- the state handed back by a fit under fault injection: whatever is present must be the value
      -- a fresh, fault-free problem has at the reported parameters (never a stale one)
      let o := step.get "impl"; let fr := step.get "fresh"
      if let some ip := o.params then
        acc := acc.addMon (cmpBits s!"final:params=alpha" step.alpha ip)
      match o.res, fr.res with
      | some (some x), some (some y) => acc := acc.addMon (cmpBits "final:res-vs-fresh" x y)
      | some (some _), some none => acc := { acc with mon := acc.mon.push "final:residuals-present-but-fresh-problem-has-none" }
      | _, _ => pure ()
      match o.coef, fr.coef with
      | some (some x), some (some y) => acc := acc.addMon (cmpBits "final:coef-vs-fresh" x.a y.a)
      | some (some _), some none => acc := { acc with mon := acc.mon.push "final:coefficients-present-but-fresh-problem-has-none" }
      | _, _ => pure ()
      match o.res, o.coef with
      | some a, some b => if a.isSome != b.isSome then
          acc := { acc with mon := acc.mon.push "final:residuals-and-coefficients-presence-differ" }
      | _, _ => pure ()
      continue
    let callsBefore := if si == 0 then 0 else P.st.calls
    if si > 0 then
      P := P.setParams (extFor step.svdBreak) floatOps (vecOfArray p step.alpha)
    let o := step.get "impl"
    -- C09, first clause, judged on the implementation's outputs alone: an injected failure hit a
    -- model call made by THIS parameter application (`set_params` or the basis evaluation) ⇒ no
    -- residuals and no coefficients may be exposed afterwards
    if faultMode && max callsBefore oracle.failFrom < min P.st.calls oracle.failTo then
      match o.res with
      | some (some _) => acc := { acc with mon := acc.mon.push s!"step{si}:residuals-present-after-a-model-failure-during-this-update" }
      | _ => pure ()
      match o.coef with
      | some (some _) => acc := { acc with mon := acc.mon.push s!"step{si}:coefficients-present-after-a-model-failure-during-this-update" }
      | _ => pure ()
    if let some pm := o.panic then
      acc := { acc with mon := acc.mon.push s!"step{si}:panic:{pm}" }
      break
    -- --- yw / eps (build step)
    if si == 0 then
      if wants focus "yw" then
        if let some yw := o.yw then
          acc := acc.addCorr (cmpBits s!"step{si}:yw" (FMat.ofMat P.Yw).a yw.a)
          -- monitor: the exposed weighted data are W·Y for the observations exactly as supplied
          let direct := (FMat.ofFn n s fun i j => rndW width (Yf.get i j * (match wIn with | some wv => wv[i]! | none => 1.0))).a
          acc := acc.addMon (cmpBits s!"step{si}:yw=W*Y" direct yw.a)
      if wants focus "eps" then
        if let some e := o.eps then
          acc := acc.addCorr (cmpBits s!"step{si}:eps" #[eps] #[e])
    if wants focus "params" then
      if let some ip := o.params then
        acc := acc.addCorr (cmpBits s!"step{si}:params" P.params.toArray ip)
        if !faultMode then
          acc := acc.addMon (cmpBits s!"step{si}:params=alpha" step.alpha ip)
    -- --- presence
    if !twinsOnly then
      acc := acc.addCorr (optPresence s!"step{si}:res-presence" P.residuals o.res)
      acc := acc.addCorr (optPresence s!"step{si}:coef-presence" P.coefficients o.coef)
    -- the implementation's Jacobian query made model calls: the model makes the same ones
    let Pbefore := P
    let (Pj, JmStep) := P.jacobianSeq
    if o.jac.isSome then
      P := Pj
      if (faultMode || wants focus "jac") && !twinsOnly then
        acc := acc.addCorr (optPresence s!"step{si}:jac-presence" JmStep o.jac)
    match Pbefore.cached with
    | none => pure ()
    | some cache =>
      -- backward error of the SVD oracle: measured for this very matrix when the harness supplies it
      -- (nalgebra's SVD is usually accurate to a few u but loses up to 1e-5 (f64) on some
      -- rank-deficient matrices), the calibrated global bound otherwise
      let dsvd := match step.svdq with
        | some q => 16.0 * q
        | none => dsvd
      let cond := condOf cache eps (dsvd + cw * u)
      if cond.kappa > kmax then kmax := cond.kappa
      if !cond.full then rankTag := "deficient"
      let Aw : FMat := match step.tables.phi with
        | some f => FMat.ofMat (wmul w (f.toMat n m))
        | none => ⟨n, m, #[]⟩
      let Cm := FMat.ofMat cache.coeff
      let Rm := FMat.ofMat cache.residuals
      let Ywf := FMat.ofMat P.Yw
      let cmax := Cm.maxAbs; let rmax := Rm.maxAbs; let ymax := Ywf.maxAbs
      let kap := cond.kappa
      -- perturbation bounds for a least-squares solve whose SVD has backward error `dsvd`, plus
      -- rounding of the remaining operations
      let pert := kap * cmax + kap * kap * rmax / cond.smax + ymax / cond.sminKept
      let tolC := (dsvd + cw * u) * pert
      let tolR := (dsvd + cw * u) * (cond.smax * pert + ymax)
      if rmax > 1e-3 * ymax && m ≥ 2 then acc := { acc with nontrivial := true }
      if cond.ambiguous && !exact then
        acc := { acc with skips := acc.skips + 1 }
      else
        -- --- coefficients (C01)
        if wants focus "coef" then
          if let some (some ci) := o.coef then
            -- every singular value at or below the threshold: the minimum-norm minimiser is ZERO, exactly
            -- (the relative comparisons below have no scale in that case and would skip it)
            if cond.rank == 0 then
              acc := { acc with compared := acc.compared + 1 }
              if !(ci.a.all fun v => v == 0.0) then
                acc := { acc with mon := acc.mon.push s!"step{si}:all-singular-values-at-or-below-the-threshold-but-coefficients-not-zero:max={fmtF ci.maxAbs}" }
            if exact then acc := acc.addCorr (cmpRel s!"step{si}:coef" Cm.a ci.a (64.0 * u) (64.0 * u * ymax / cond.smax))
            else acc := acc.addCorr (cmpArr s!"step{si}:coef" Cm.a ci.a tolC (max cmax 1e-300))
            -- monitor: truncated normal equations A_εᵀ (Y_w − A_ε C) = 0 on the implementation's C,
            -- minimum norm (C ⟂ dropped right singular vectors), finiteness
            let Uf := FMat.ofMat cache.svd.U; let Vt := FMat.ofMat cache.svd.Vt
            let sig := cache.svd.sigma.toArray
            let keepS := FMat.ofFn sig.size sig.size fun i j => if i == j && sig[i]! > eps then sig[i]! else 0.0
            let Aeps := (Uf.mul keepS).mul Vt
            let ne := Aeps.transpose.mul (Ywf.sub (Aeps.mul ci))
            let tolNE := if exact then 256.0 * u * cond.smax * (cond.smax * cmax * (m.toFloat + 1.0) + ymax)
              else (dsvd + cw * u) * cond.smax * (cond.smax * cmax * (m.toFloat + 1.0) + ymax) * kap
            if tolNE ≤ 5e-2 * cond.smax * (ymax + cond.smax * cmax) then
              if !(ne.maxAbs ≤ tolNE) then
                acc := { acc with mon := acc.mon.push s!"step{si}:normal-eq={fmtF ne.maxAbs}>tol={fmtF tolNE}" }
              acc := { acc with compared := acc.compared + 1 }
            let dropV := FMat.ofFn sig.size m fun i j => if sig[i]! > eps then 0.0 else Vt.get i j
            let nulC := dropV.mul ci
            -- exact sub-stream (diagonal matrices, exact decomposition on both sides): rounding only
            let tolC := if exact then 256.0 * u * (max cmax (ymax / cond.sminKept)) else tolC
            if tolC ≤ 5e-2 * (max cmax 1e-300) || exact then
              if !(nulC.maxAbs ≤ tolC) then
                acc := { acc with mon := acc.mon.push s!"step{si}:not-min-norm={fmtF nulC.maxAbs}" }
            if !ci.allFinite then
              acc := { acc with mon := acc.mon.push s!"step{si}:coef-not-finite" }
        -- --- residuals (C02)
        if wants focus "res" then
          if let some (some ri) := o.res then
            if exact then acc := acc.addCorr (cmpRel s!"step{si}:res" cache.residuals.vec.toArray ri (64.0 * u) (64.0 * u * ymax))
            else acc := acc.addCorr (cmpArr s!"step{si}:res" cache.residuals.vec.toArray ri tolR (max ymax 1e-300))
            -- monitor: residuals = vec(Y_w − (W Φ) C) for the implementation's OWN coefficients and
            -- the α it reports (tight: same formula, only summation order may differ)
            if let some (some ci) := o.coef then
              let direct := (Ywf.sub (Aw.mul ci)).a
              let tolD := 64.0 * u * (ymax + (m.toFloat + 1.0) * Aw.maxAbs * ci.maxAbs)
              let d := maxDiff direct ri
              if !(d ≤ tolD) then
                acc := { acc with mon := acc.mon.push s!"step{si}:res≠Yw-AwC:{fmtF d}>tol={fmtF tolD}" }
              acc := { acc with compared := acc.compared + 1 }
        -- --- Jacobian (C03): only where the property speaks (full column rank)
        if wants focus "jac" then
          let Jm := JmStep
          if cond.full then
            if let (some J, some (some Ji)) := (Jm, o.jac) then
              let Jf := FMat.ofMat J
              let dmax := step.tables.d.foldl (fun a d => match d with
                | some f => max a (FMat.ofMat (wmul w (f.toMat n m))).maxAbs | none => a) 0.0
              let jscale := max (dmax * cmax * m.toFloat) 1e-300
              let tolJ := (dsvd + cw * u) * kap * jscale + dmax * m.toFloat * tolC
              if exact then acc := acc.addCorr (cmpRel s!"step{si}:jac" Jf.a Ji.a (64.0 * u) (64.0 * u * jscale))
              else acc := acc.addCorr (cmpArr s!"step{si}:jac" Jf.a Ji.a tolJ jscale)
              -- monitors on the implementation's J: every block is orthogonal to range(WΦ);
              -- J_k = −(I − P) D_k C with the driver's own projector and the implementation's C
              if let some (some ci) := o.coef then
                let Uf := FMat.ofMat cache.svd.U
                let Uft := Uf.transpose
                for k in [0:p] do
                  if let some (some dk) := step.tables.d[k]? then
                    let Dk := FMat.ofMat (wmul w (dk.toMat n m))
                    -- a derivative the model itself reports as non-finite (overflow inside the user's
                    -- function) determines no Jacobian column: nothing to check for this k
                    if !Dk.allFinite then continue
                    let X := Dk.mul ci
                    -- (1 − U Uᵀ) X without forming the N×N projector
                    let expect := X.sub (Uf.mul (Uft.mul X))
                    let block := FMat.ofFn n s fun i cc => Ji.get (i + cc * n) k
                    let sum := FMat.ofFn n s fun i cc => block.get i cc + expect.get i cc
                    -- exact sub-stream: the decomposition of a diagonal matrix is exact on both sides
                    let tolJ := if exact then 256.0 * u * jscale else tolJ
                    if tolJ ≤ 5e-2 * jscale then
                      if !(sum.maxAbs ≤ tolJ) then
                        acc := { acc with mon := acc.mon.push s!"step{si}:J{k}+(I-P)DkC={fmtF sum.maxAbs}>tol={fmtF tolJ}" }
                      let orth := Aw.transpose.mul block
                      let tolO := tolJ * cond.smax * n.toFloat
                      if !(orth.maxAbs ≤ tolO) then
                        acc := { acc with mon := acc.mon.push s!"step{si}:AtJ{k}={fmtF orth.maxAbs}>tol={fmtF tolO}" }
                      acc := { acc with compared := acc.compared + 1 }
    -- --- twins on the implementation: repeated query and fresh problem must agree bit for bit (C10)
    if wants focus "twins" then
      for pre in ["again", "fresh", "twinClone"] do
        let t := step.get pre
        -- under fault injection an update may legitimately leave nothing behind (C09; judged by the
        -- model); what IS present must still be what a fresh problem reports
        let absentOk := faultMode && pre == "fresh"
        if let (some a, some b) := (o.res, t.res) then
          match a, b with
          | some x, some y => acc := acc.addMon (cmpBits s!"step{si}:{pre}-res" x y)
          | none, none => pure ()
          | none, some _ => if !absentOk then acc := { acc with mon := acc.mon.push s!"step{si}:{pre}-res-presence" }
          | _, _ => acc := { acc with mon := acc.mon.push s!"step{si}:{pre}-res-presence" }
        if let (some a, some b) := (o.coef, t.coef) then
          match a, b with
          | some x, some y => acc := acc.addMon (cmpBits s!"step{si}:{pre}-coef" x.a y.a)
          | none, none => pure ()
          | none, some _ => if !absentOk then acc := { acc with mon := acc.mon.push s!"step{si}:{pre}-coef-presence" }
          | _, _ => acc := { acc with mon := acc.mon.push s!"step{si}:{pre}-coef-presence" }
        if let (some a, some b) := (o.jac, t.jac) then
          match a, b with
          | some x, some y => acc := acc.addMon (cmpBits s!"step{si}:{pre}-jac" x.a y.a)
          | none, none => pure ()
          | none, some _ => if !absentOk then acc := { acc with mon := acc.mon.push s!"step{si}:{pre}-jac-presence" }
          | _, _ => acc := { acc with mon := acc.mon.push s!"step{si}:{pre}-jac-presence" }
      -- a clone of the problem moved elsewhere = a fresh problem there
      if (step.obs.find? (·.1 == "clone")).isSome && (step.obs.find? (·.1 == "cfresh")).isSome then
        let a := step.get "clone"; let b := step.get "cfresh"
        match a.res, b.res with
        | some (some x), some (some y) => acc := acc.addMon (cmpBits s!"step{si}:clone-res-vs-fresh" x y)
        | some none, some none => pure ()
        | some _, some _ => acc := { acc with mon := acc.mon.push s!"step{si}:clone-res-presence" }
        | _, _ => pure ()
        match a.coef, b.coef with
        | some (some x), some (some y) => acc := acc.addMon (cmpBits s!"step{si}:clone-coef-vs-fresh" x.a y.a)
        | some none, some none => pure ()
        | some _, some _ => acc := { acc with mon := acc.mon.push s!"step{si}:clone-coef-presence" }
        | _, _ => pure ()
        match a.jac, b.jac with
        | some (some x), some (some y) => acc := acc.addMon (cmpBits s!"step{si}:clone-jac-vs-fresh" x.a y.a)
        | some none, some none => pure ()
        | some _, some _ => acc := { acc with mon := acc.mon.push s!"step{si}:clone-jac-presence" }
        | _, _ => pure ()
    -- --- C06 / C11 twins: whole outputs must agree (same arithmetic on both sides)
    let twinList : List String :=
      (if wants focus "wtwins" then ["twinW", "twinU", "twinZ"] else []) ++
      (if wants focus "ptwins" then ["twinSeq", "twinInto", "twinIntoPar"] else []) ++
      -- the problem itself, queried again after a clone of it was moved elsewhere and queried (every focus)
      ["twinAfterClone", "twinCloneSelf"]
    for pre in twinList do
      if (step.obs.find? (·.1 == pre)).isSome then
        let t := step.get pre
        let tolT (a : Array Float) : Float :=
          (if pre == "twinZ" then 100.0 * dsvd else 256.0 * u) * (max (arrMaxAbs a) 1e-300)
        let cmpT (name : String) (a b : Array Float) (acc : Acc) : Acc :=
          let d := maxDiff a b
          let acc := { acc with compared := acc.compared + 1 }
          if d ≤ tolT a then acc else { acc with mon := acc.mon.push s!"step{si}:{pre}-{name}:{fmtF d}>tol={fmtF (tolT a)}" }
        if let some pm := t.panic then
          acc := { acc with mon := acc.mon.push s!"step{si}:{pre}-panic:{pm}" }
        if let (some a, some b) := (o.res, t.res) then
          match a, b with
          | some x, some y => acc := cmpT "res" x y acc
          | none, none => pure ()
          | _, _ => acc := { acc with mon := acc.mon.push s!"step{si}:{pre}-res-presence" }
        if let (some a, some b) := (o.coef, t.coef) then
          match a, b with
          | some x, some y => acc := cmpT "coef" x.a y.a acc
          | none, none => pure ()
          | _, _ => acc := { acc with mon := acc.mon.push s!"step{si}:{pre}-coef-presence" }
        if let (some a, some b) := (o.jac, t.jac) then
          match a, b with
          | some x, some y => acc := cmpT "jac" x.a y.a acc
          | none, none => pure ()
          | _, _ => acc := { acc with mon := acc.mon.push s!"step{si}:{pre}-jac-presence" }
        if let (some a, some b) := (o.params, t.params) then
          acc := acc.addMon (cmpBits s!"step{si}:{pre}-params" a b)
    -- --- C07 twins: block j of the S-column problem = the single problem on column j;
    --     reversed column order permutes blocks and coefficient columns
    if wants focus "stwins" then
      let tolT (a : Array Float) : Float := 256.0 * u * (max (arrMaxAbs a) 1e-300)
      -- the S-column problem and the single problem run the same decomposition but different
      -- product kernels (matrix·matrix / matrix·vector): their roundings differ by a few u of the
      -- INTERMEDIATE magnitudes – Uᵀy/σ for the coefficients, |Φ||c| for the residuals, |D||c| for
      -- the Jacobian – which for an ill-conditioned basis are far above the results themselves
      let (sminK, smaxK) := match Pbefore.cached with
        | some ch => let cd := condOf ch eps; (cd.sminKept, cd.smax)
        | none => (1.0, 1.0)
      let YwF := FMat.ofMat P.Yw
      let yMaxCol (j : Nat) : Float := (Array.range n).foldl (fun a i => max a (YwF.get i j).abs) 0.0
      let wmaxT : Float := match w with
        | some wv => arrMaxAbs wv.toArray
        | none => 1.0
      let dmaxT : Float := step.tables.d.foldl (fun a f => match f with
        | some g => max a (arrMaxAbs g.a)
        | none => a) 0.0
      let mixC (j : Nat) : Float := if sminK > 0.0 then yMaxCol j * (n.toFloat).sqrt / sminK else 0.0
      for j in [0:s] do
        let pre := s!"twinS{j}"
        if (step.obs.find? (·.1 == pre)).isSome then
          let t := step.get pre
          let cj : Float := match t.coef with
            | some (some y) => arrMaxAbs y.a
            | _ => 0.0
          if let (some (some x), some (some y)) := (o.res, t.res) then
            let blk := x.extract (j * n) ((j + 1) * n)
            let d := maxDiff blk y
            acc := { acc with compared := acc.compared + 1 }
            -- relative to the block's OWN magnitude: right-hand sides are independent problems and may
            -- differ by hundreds of orders of magnitude
            let tol := 256.0 * u * (max (max (arrMaxAbs y) 1e-300) (smaxK * m.toFloat * (cj + mixC j)))
            if !(d ≤ tol) then acc := { acc with mon := acc.mon.push s!"step{si}:{pre}-res:{fmtF d}>tol={fmtF tol}" }
          else if let (some a, some b) := (o.res, t.res) then
            if a.isSome != b.isSome then acc := { acc with mon := acc.mon.push s!"step{si}:{pre}-res-presence" }
          if let (some (some x), some (some y)) := (o.coef, t.coef) then
            let colj := (Array.range m).map fun i => x.get i j
            let d := maxDiff colj y.a
            acc := { acc with compared := acc.compared + 1 }
            let tol := 256.0 * u * (max (max (arrMaxAbs y.a) 1e-300) (mixC j))
            if !(d ≤ tol) then acc := { acc with mon := acc.mon.push s!"step{si}:{pre}-coef:{fmtF d}>tol={fmtF tol}" }
          if let (some (some x), some (some y)) := (o.jac, t.jac) then
            let blk := (FMat.ofFn n p fun i k => x.get (i + j * n) k).a
            let d := maxDiff blk y.a
            acc := { acc with compared := acc.compared + 1 }
            let tol := 256.0 * u * (max (max (arrMaxAbs y.a) 1e-300) (wmaxT * dmaxT * m.toFloat * (cj + mixC j)))
            if !(d ≤ tol) then acc := { acc with mon := acc.mon.push s!"step{si}:{pre}-jac:{fmtF d}>tol={fmtF tol}" }
      if (step.obs.find? (·.1 == "twinR")).isSome then
        let t := step.get "twinR"
        if let (some (some x), some (some y)) := (o.res, t.res) then
          let perm := (FMat.ofFn n s fun i j => y.getD (i + (s - 1 - j) * n) 0.0).a
          let d := maxDiff x perm
          acc := { acc with compared := acc.compared + 1 }
          if !(d ≤ tolT x) then acc := { acc with mon := acc.mon.push s!"step{si}:twinR-res:{fmtF d}" }
        if let (some (some x), some (some y)) := (o.coef, t.coef) then
          let perm := (FMat.ofFn m s fun i j => y.get i (s - 1 - j)).a
          let d := maxDiff x.a perm
          acc := { acc with compared := acc.compared + 1 }
          if !(d ≤ tolT x.a) then acc := { acc with mon := acc.mon.push s!"step{si}:twinR-coef:{fmtF d}" }
        if let (some (some x), some (some y)) := (o.jac, t.jac) then
          let perm := (FMat.ofFn (n * s) p fun q k => y.get ((q % n) + (s - 1 - q / n) * n) k).a
          let d := maxDiff x.a perm
          acc := { acc with compared := acc.compared + 1 }
          if !(d ≤ tolT x.a) then acc := { acc with mon := acc.mon.push s!"step{si}:twinR-jac:{fmtF d}" }
    if si + 1 == steps.size && wants focus "yw" then
      if let some ywf := o.ywfinal then
        acc := acc.addMon (cmpBits s!"step{si}:yw-unchanged" (FMat.ofMat P.Yw).a ywf.a)
  let kb := if kmax < 10.0 then "k<1e1" else if kmax < 1e3 then "k<1e3" else if kmax < 1e6 then "k<1e6" else "k>=1e6"
  return (acc, s!"{tagBase}/{rankTag}/{kb}")

def Acc.render (acc : Acc) (tag : String) : String :=
  let corr := if acc.corr.isEmpty then "ok" else s!"FAIL({";".intercalate (acc.corr.toList.take 3)})"
  let mon := if acc.mon.isEmpty then "ok" else s!"FAIL({";".intercalate (acc.mon.toList.take 3)})"
  s!"corr={corr} mon={mon} nontrivial={if acc.nontrivial && acc.compared > 0 then 1 else 0} tag={tag} compared={acc.compared} skipped={acc.skips}"

def handleState (focus : String) (c : Case) : String :=
  let (acc, tag) := stateCore focus c
  acc.render tag

end Varpro.Drv
