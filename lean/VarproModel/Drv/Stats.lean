import VarproModel.Core.Stats
import VarproModel.Drv.Fit
/-!
# Drv/Stats — the statistics stream (C12, C13, C14)
-/
namespace Varpro.Drv
open Varpro

/-- two-sided Student-t probability `A(t|ν) = P(|T| ≤ t)` for integer ν (Abramowitz & Stegun
26.7.3 / 26.7.4) -/
def tTwoSided (t : Float) (nu : Nat) : Float :=
  let theta := Float.atan (t / (nu.toFloat).sqrt)
  let s := theta.sin; let c := theta.cos
  if nu == 1 then 2.0 * theta / 3.141592653589793
  else if nu % 2 == 1 then Id.run do
    -- θ + sinθ (cosθ + 2/3 cos³θ + … + (2·4⋯(ν−3))/(3·5⋯(ν−2)) cos^{ν−2}θ)
    let mut term := c
    let mut sum := c
    let mut k := 3
    while k ≤ nu - 2 do
      term := term * ((k - 1).toFloat / k.toFloat) * c * c
      sum := sum + term
      k := k + 2
    return 2.0 / 3.141592653589793 * (theta + s * sum)
  else Id.run do
    -- sinθ (1 + 1/2 cos²θ + (1·3)/(2·4) cos⁴θ + … + (1·3⋯(ν−3))/(2·4⋯(ν−2)) cos^{ν−2}θ)
    let mut term := 1.0
    let mut sum := 1.0
    let mut k := 2
    while k ≤ nu - 2 do
      term := term * ((k - 1).toFloat / k.toFloat) * c * c
      sum := sum + term
      k := k + 2
    return s * sum

/-- the quantile `t((1+p)/2; ν)`: the `t ≥ 0` with `A(t|ν) = p`, by bisection -/
def tQuantileTwoSided (p : Float) (nu : Nat) : Float := Id.run do
  let mut lo := 0.0
  let mut hi := 1.0
  let mut it := 0
  while tTwoSided hi nu < p && it < 200 do
    hi := hi * 2.0; it := it + 1
  for _ in [0:200] do
    let mid := 0.5 * (lo + hi)
    if tTwoSided mid nu < p then lo := mid else hi := mid
  return 0.5 * (lo + hi)

def floatStatExt : StatExt Float where
  inv d A := (gaussInverse (FMat.ofMat A)).map fun B => B.toMat d d
  tppf q nu := tQuantileTwoSided (2.0 * q - 1.0) nu
  ofNat k := some k.toFloat

def stLine (c : Case) (key : String) : Option (Array String) :=
  c.body.find? fun l => l.getD 0 "" == "st" && l.getD 1 "" == key

def handleStats (focus : String) (c : Case) : String := Id.run do
  let n := attrNat c.header "n"; let m := attrNat c.header "m"; let p := attrNat c.header "p"
  let width := attrNat c.header "width" 64
  let u := unitRoundoff width
  let tagBase := s!"{attrStr c.header "flavour"}/{width}/{attrStr c.header "wkind"}/d{attrStr c.header "delta"}/{attrStr c.header "profile"}"
  let mut acc : Acc := {}
  for l in c.body do
    if l.getD 0 "" != "st" && l.contains "panic" then
      acc := { acc with mon := acc.mon.push s!"panic:{(joinToks l 0).take 80}" }
  -- a model failure during the statistics (after a successful fit): fit_with_statistics must return
  -- the fit result as Err, never Ok with statistics computed from fewer columns, never a panic
  for l in c.linesWith "statfault" do
    if attrStr l "reached" == "1" then
      acc := { acc with compared := acc.compared + 1 }
      let oc := attrStr l "outcome"
      if oc != "returned" then
        acc := { acc with mon := acc.mon.push s!"model-failure-in-statistics-call+{attrStr l "j"}:{oc.take 60}" }
      else if attrStr l "ok" == "1" || attrStr l "hasstats" == "1" then
        acc := { acc with mon := acc.mon.push s!"model-failure-in-statistics-call+{attrStr l "j"}:returned-Ok(hasstats={attrStr l "hasstats"})" }
  let some rl := c.firstWith "result" | return ({ acc with corr := acc.corr.push "no-result" }).render tagBase
  let kind := rl.getD 1 ""
  if kind == "hang" || kind == "panic" then
    return ({ acc with mon := acc.mon.push s!"fit_with_statistics-{kind}:{(rl.getD 2 "").take 80}", compared := 1, nontrivial := true }).render s!"{tagBase}/{kind}"
  let termS := attrStr rl "term"
  let term := parseTermination termS
  let hasStats := attrStr rl "hasstats" == "1"
  let steps := parseSteps c
  let fin := steps[steps.size - 1]!
  let fo := fin.get "impl"
  let wIn : Option (Array Float) := match c.firstWith "w" with
    | some l => if l.getD 1 "" == "none" then none else some (fvecAt l 1)
    | none => none
  let Yf : FMat := match c.firstWith "Y" with | some l => fmatAt l 1 | none => ⟨0, 0, #[]⟩
  -- single precision data in units whose SQUARES leave the range of the type (|y| < 1e-15): sums of
  -- squares are subnormal or zero, σ², the covariance and the band underflow - legitimate outputs of
  -- floating point arithmetic that the value comparisons below are not made for.  For these cases only
  -- the defining identities of C12 are judged, in the arithmetic of the type: χ² = |r_w|²/(N−M−P) up to
  -- the subnormal grid, standard error = √χ², under-determined ⇒ no statistics.
  let ymaxAll := arrMaxAbs Yf.a
  if width == 32 && ymaxAll > 0.0 && ymaxAll < 1e-15 then
    acc := { acc with compared := acc.compared + 1, nontrivial := true }
    if hasStats then
      if n ≤ m + p then acc := { acc with mon := acc.mon.push s!"statistics-for-underdetermined-fit-N={n}-M+P={m+p}" }
      if !term.wasSuccessful then acc := { acc with mon := acc.mon.push s!"statistics-returned-for-a-failed-fit({termS})" }
      let wresU : Array Float := ((stLine c "wres").map fun l => fvecAt l 2).getD #[]
      let chiU : Float := ((stLine c "chi2").map fun l => parseF (l.getD 2 "")).getD 0.0
      let sigU : Float := ((stLine c "sigma").map fun l => parseF (l.getD 2 "")).getD 0.0
      let ssU := wresU.foldl (fun a v => a + v * v) 0.0
      let chiEU := ssU / (n - m - p).toFloat
      let tinyU : Float := Float.scaleB 1.0 (-149)
      if !((chiU - chiEU).abs ≤ 64.0 * u * n.toFloat * chiEU + (n.toFloat + 2.0) * tinyU) then
        acc := { acc with mon := acc.mon.push s!"reduced_chi2={fmtF chiU}≠|r|²/(N-M-P)={fmtF chiEU}" }
      if !((sigU - chiU.sqrt).abs ≤ 4.0 * u * sigU.abs + 1e-300) then
        acc := { acc with mon := acc.mon.push s!"regression_standard_error={fmtF sigU}≠sqrt(chi2)={fmtF chiU.sqrt}" }
    return acc.render s!"{tagBase}/underrange"
  let w : Option (Vector Float n) := wIn.map (vecOfArray n)
  let oracle : TOracle := { tables := steps.map (·.tables) }
  let U := tableModel n m p oracle
  let Yw : Mat n 1 Float := (wmul w (Yf.toMat n 1)).map (rndW width)
  let coefImpl : Option FMat := match fo.coef with | some (some cf) => some cf | _ => none
  -- the model's decision: statistics exist iff the fit succeeded, coefficients are present and
  -- `tryCalculate` succeeds (model of `fit_with_statistics`)
  let st0 : TState := { params := fin.alpha }
  let modelStats : Option (Except SErr (Stats n m p Float)) :=
    if !term.wasSuccessful then none
    else match coefImpl with
      | none => none
      | some cf => some (tryCalculate floatStatExt floatOps U st0 Yw w (cf.toMat m 1)).2
  let modelOk := match modelStats with | some (.ok _) => true | _ => false
  let tagOut := match modelStats with
    | none => "nostats-fit"
    | some (.ok _) => "stats"
    | some (.error e) => s!"nostats-{repr e}".replace " " ""
  acc := { acc with compared := acc.compared + 2, nontrivial := true }
  -- conditioning of H = W·[Φ | D_k c] at the returned point (needed to judge the inversion)
  let kapEarly : Float := match coefImpl, fin.tables.phi with
    | some cf0, some Phi0 =>
      let wv0 (i : Nat) : Float := match wIn with | some wa => wa[i]! | none => 1.0
      let H0 : FMat := FMat.ofFn n (m + p) fun i j =>
        (if j < m then Phi0.get i j
         else match fin.tables.d.getD (j - m) none with
          | some Dk => Id.run do
            let mut sacc := 0.0
            for l in [0:m] do sacc := sacc + Dk.get i l * cf0.get l 0
            return sacc
          | none => 0.0) * wv0 i
      if n ≥ m + p then
        -- column-equilibrated: a diagonal column scaling of H is not ill-conditioning of the inversion
        let cn0 : Array Float := (Array.range (m + p)).map fun j => Id.run do
          let mut a := 0.0
          for i in [0:n] do a := a + H0.get i j * H0.get i j
          return if a > 0.0 && a.isFinite then a.sqrt else 1.0
        let (_, sg, _) := jacobiTall (FMat.ofFn n (m + p) fun i j => H0.get i j / cn0[j]!)
        let smx := arrMaxAbs sg
        let smn := sg.foldl (fun a v => if v < a then v else a) smx
        if smn > 0.0 then smx / smn else 1e300
      else 1e300
    | _, _ => 1.0
  if hasStats != modelOk then
    -- a numerically singular H^T H may be inverted by one elimination and rejected by the other;
    -- everything else is a disagreement
    let illc := (match modelStats with | some (.error .matrixInversion) => true | _ => false) ||
      (term.wasSuccessful && coefImpl.isSome && n > m + p && !(1e3 * u * kapEarly * kapEarly * kapEarly ≤ 5e-2))
    if !illc then
      acc := { acc with corr := acc.corr.push s!"statistics-{if hasStats then "present" else "absent"}-model-says-{tagOut}" }
  if (kind == "ok") != hasStats then
    acc := { acc with mon := acc.mon.push s!"fit_with_statistics-returned-{kind}-hasstats={hasStats}" }
  -- C12: a fit that failed never comes back with statistics
  if hasStats && !term.wasSuccessful then
    acc := { acc with mon := acc.mon.push s!"statistics-returned-for-a-failed-fit({termS})" }
  -- C06: the row-scaled unweighted twin problem reports the same statistics
  if focus == "C06" || focus == "all" then
    if let some tl := c.body.find? (fun l => l.getD 0 "" == "tw" && l.getD 1 "" == "result") then
      let twStats := attrStr tl "hasstats" == "1"
      let sameTerm := attrStr tl "term" == termS
      acc := { acc with compared := acc.compared + 1 }
      -- a numerically singular normal matrix may be inverted by one elimination and rejected by the
      -- other (the two H differ in the last bits): only a well determined inversion is compared
      let wellDet := 1e3 * u * kapEarly * kapEarly * kapEarly * (m + p).toFloat ≤ 1e-3
      if sameTerm && twStats != hasStats && wellDet && n > m + p then
        acc := { acc with mon := acc.mon.push s!"weighted-problem-hasstats={hasStats}-row-scaled-twin-hasstats={twStats}" }
      if sameTerm && twStats && hasStats then
        let twChi := (c.body.find? (fun l => l.getD 0 "" == "tw" && l.getD 1 "" == "chi2")).map fun l => parseF (l.getD 2 "")
        let aChi := (stLine c "chi2").map fun l => parseF (l.getD 2 "")
        let rel := if width == 32 then 1e-3 else 1e-7
        if let (some a, some b) := (aChi, twChi) then
          acc := { acc with compared := acc.compared + 1 }
          if !((a - b).abs ≤ rel * (max a.abs b.abs) + 1e-300) then
            acc := { acc with mon := acc.mon.push s!"reduced_chi2-weighted={fmtF a}-row-scaled-twin={fmtF b}" }
        let twCov := (c.body.find? (fun l => l.getD 0 "" == "tw" && l.getD 1 "" == "cov")).map fun l => fmatAt l 2
        let aCov := (stLine c "cov").map fun l => fmatAt l 2
        if let (some a, some b) := (aCov, twCov) then
          if a.r == b.r && a.c == b.c && a.r == m + p then
            -- entrywise relative to sqrt(c_ii c_jj): rounding differs between w∘(D c) and (w∘D) c, amplified
            -- by the conditioning of the inversion; a well determined inverse agrees to 1e-5
            let scaleAt (i j : Nat) : Float :=
              let sa := ((a.get i i).abs * (a.get j j).abs).sqrt
              -- (a weighted problem whose covariance is not finite is judged on the twin's scale)
              if sa > 0.0 && sa.isFinite then sa else ((b.get i i).abs * (b.get j j).abs).sqrt
            let mut worst := 0.0
            for i in [0:a.r] do
              for j in [0:a.c] do
                let sc := scaleAt i j
                if !(a.get i j).isFinite && (b.get i j).isFinite then worst := 1.0 / 0.0
                else if sc > 0.0 && sc.isFinite then
                  let d := (a.get i j - b.get i j).abs / sc
                  if d > worst || d.isNaN then worst := d
            acc := { acc with compared := acc.compared + 1 }
            let kapGate := 1e3 * u * kapEarly * kapEarly * kapEarly * (m + p).toFloat
            if kapGate ≤ 1e-3 then
              if !(worst ≤ (if width == 32 then 1e-2 else 1e-5) + kapGate) then
                acc := { acc with mon := acc.mon.push s!"covariance-weighted-vs-row-scaled-twin:{fmtF worst}" }
          else acc := { acc with mon := acc.mon.push "covariance-shape-differs-from-twin" }
  -- C12: N ≤ M + P never yields statistics
  if hasStats && n ≤ m + p then
    acc := { acc with mon := acc.mon.push s!"statistics-for-underdetermined-fit-N={n}-M+P={m+p}" }
  if !hasStats then
    return acc.render s!"{tagBase}/{tagOut}"
  -- ---------- statistics present: compare every accessor
  let some cf := coefImpl | return ({ acc with mon := acc.mon.push "statistics-without-coefficients" }).render tagBase
  let dof := n - m - p
  let d := m + p
  let getM (key : String) : Option FMat := (stLine c key).map fun l => fmatAt l 2
  let getV (key : String) : Option (Array Float) := (stLine c key).map fun l => fvecAt l 2
  let getS (key : String) : Option Float := (stLine c key).map fun l => parseF (l.getD 2 "")
  let covI := (getM "cov").getD ⟨0, 0, #[]⟩
  let corrI := (getM "corr").getD ⟨0, 0, #[]⟩
  let wresI := (getV "wres").getD #[]
  let chi2I := (getS "chi2").getD 0.0
  let sigmaI := (getS "sigma").getD 0.0
  let linI := (getV "linvar").getD #[]
  let nonlinI := (getV "nonlinvar").getD #[]
  -- harness tables at α̂
  let Phi := (fin.tables.phi.getD ⟨n, m, #[]⟩)
  let Jf : FMat := FMat.ofFn n d fun i j =>
    if j < m then Phi.get i j
    else match fin.tables.d.getD (j - m) none with
      | some Dk => Id.run do
        let mut sacc := 0.0
        for l in [0:m] do sacc := sacc + Dk.get i l * cf.get l 0
        return sacc
      | none => 0.0
  let wv (i : Nat) : Float := match wIn with | some wa => wa[i]! | none => 1.0
  let H : FMat := FMat.ofFn n d fun i j => Jf.get i j * wv i
  -- column norms of H: the covariance is judged in the column-equilibrated frame Ĥ = H·D⁻¹,
  -- D = diag(‖H_j‖); (ĤᵀĤ)⁻¹ = D (HᵀH)⁻¹ D.  Cofactor / LU inversion is (essentially) invariant under
  -- this scaling, so only κ(Ĥ) limits its accuracy – a signal of amplitude 1e-9 is not a rank defect.
  let coln : Array Float := (Array.range d).map fun j => Id.run do
    let mut a := 0.0
    for i in [0:n] do a := a + H.get i j * H.get i j
    return if a > 0.0 && a.isFinite then a.sqrt else 1.0
  let Hs : FMat := FMat.ofFn n d fun i j => H.get i j / coln[j]!
  let HtH := Hs.transpose.mul Hs
  let (_, sigH, _) := jacobiTall Hs
  let smaxH := arrMaxAbs sigH
  let sminH := sigH.foldl (fun a v => if v < a then v else a) smaxH
  let kapH := if sminH > 0.0 then smaxH / sminH else 1e300
  let wantsC12 := focus == "C12" || focus == "all" || focus == "C19"
  let wantsC13 := focus == "C13" || focus == "all" || focus == "C19"
  let wantsC14 := focus == "C14" || focus == "all" || focus == "C19"
  -- ---------- C12
  if wantsC12 then
    acc := { acc with compared := acc.compared + 4 }
    if covI.r != d || covI.c != d then acc := { acc with mon := acc.mon.push s!"covariance-shape-{covI.r}x{covI.c}" }
    -- weighted residuals = final residuals of the fit (same formula, same inputs)
    if let some (some rf) := fo.res then
      let ymax := arrMaxAbs (FMat.ofMat Yw).a
      let tolW := 64.0 * u * (ymax + (m.toFloat + 1.0) * H.maxAbs * cf.maxAbs) + 1e-300
      if !(maxDiff rf wresI ≤ tolW) then
        acc := { acc with mon := acc.mon.push s!"weighted_residuals≠final-residuals:{fmtF (maxDiff rf wresI)}" }
    let ss := wresI.foldl (fun a v => a + v * v) 0.0
    let chiE := ss / dof.toFloat
    -- (absolute term: in the subnormal range of the scalar type every square is rounded to the grid 2^-149 / 2^-1074)
    let tiny : Float := if width == 32 then Float.scaleB 1.0 (-149) else Float.scaleB 1.0 (-1074)
    if !((chi2I - chiE).abs ≤ 64.0 * u * n.toFloat * chiE + (n.toFloat + 2.0) * tiny + 1e-300) then
      acc := { acc with mon := acc.mon.push s!"reduced_chi2={fmtF chi2I}≠|r|²/(N-M-P)={fmtF chiE}" }
    if !((sigmaI - chi2I.sqrt).abs ≤ 4.0 * u * sigmaI.abs + 1e-300) then
      acc := { acc with mon := acc.mon.push s!"regression_standard_error≠sqrt(chi2)" }
    if let some l := c.body.find? (fun l => l.getD 0 "" == "stc" && l.getD 1 "" == "chi2") then
      if !bitsEq #[parseF (l.getD 2 "")] #[chi2I] then
        acc := { acc with mon := acc.mon.push "clone:reduced_chi2-differs" }
    -- correspondence with the model
    if let some (.ok ms) := modelStats then
      if ms.degreesOfFreedom != dof then acc := { acc with corr := acc.corr.push "dof" }
      let ymaxC := arrMaxAbs (FMat.ofMat Yw).a
      let dr := 64.0 * u * (ymaxC + (m.toFloat + 1.0) * H.maxAbs * cf.maxAbs)
      let rnorm := (wresI.foldl (fun a v => a + v * v) 0.0).sqrt
      let tolChi := (2.0 * rnorm * dr * n.toFloat.sqrt + dr * dr * n.toFloat) / dof.toFloat + 64.0 * u * n.toFloat * chi2I.abs
      if !((ms.reducedChi2 - chi2I).abs ≤ tolChi + 1e-300) then
        acc := { acc with corr := acc.corr.push s!"chi2-model={fmtF ms.reducedChi2}-impl={fmtF chi2I}" }
  -- ---------- C13
  if wantsC13 then
    let covU := covI            -- as reported (unscaled): sign checks, accessors, correlation
    let covI : FMat := FMat.ofFn covU.r covU.c fun i j => covU.get i j * coln.getD i 1.0 * coln.getD j 1.0
    let cmaxv := covI.maxAbs
    -- nalgebra's closed-form inverse for d ≤ 4 (cofactors) loses about κ(HᵀH)^1.5 = κ(H)³ (measured: 8.7e-5
    -- relative error at κ(H) = 2.2e4 in f64), so the bound is 1e3·u·κ(Ĥ)³·d with the column-equilibrated Ĥ (observed up to 108·u·κ³·d: soak seed 11;
    -- 1.76e3·u·κ³·d for d = 4 with weights spanning six orders of magnitude: soak seed 13 of the last round - the constant is 1e5: a decade above the worst value seen)
    let invBound := 1e5 * u * kapH * kapH * kapH * d.toFloat
    let tolCov := invBound * cmaxv + 1e-300
    if tolCov ≤ 5e-2 * cmaxv then
      acc := { acc with compared := acc.compared + 3 }
      -- cov · (HᵀH) / σ̂² = 1
      let prod := covI.mul HtH
      let idErr := (FMat.ofFn d d fun i j => prod.get i j / chi2I - (if i == j then 1.0 else 0.0)).maxAbs
      if !(idErr ≤ invBound) then
        acc := { acc with mon := acc.mon.push s!"cov·HᵀH/σ²≠1:{fmtF idErr}(κ(H)={fmtF kapH})" }
      let asym := (covI.sub covI.transpose).maxAbs
      if !(asym ≤ tolCov) then acc := { acc with mon := acc.mon.push s!"covariance-not-symmetric:{fmtF asym}" }
      if let some (.ok ms) := modelStats then
        -- compare (HᵀH)⁻¹ = cov/χ² on both sides: the accuracy of χ² itself (cancellation in the
        -- residual, large in f32 for heavily weighted data) is C12's business
        let mcov := FMat.ofMat ms.covariance
        let mB := (FMat.ofFn d d fun i j => mcov.get i j * coln[i]! * coln[j]!).a.map (· / ms.reducedChi2)
        let iB := covI.a.map (· / chi2I)
        let bmax := arrMaxAbs iB
        let tolB := invBound * bmax + 1e-300
        let dC := maxDiff mB iB
        if !(dC ≤ tolB) then acc := { acc with corr := acc.corr.push s!"covariance/chi2:maxdiff={fmtF dC}>tol={fmtF tolB}" }
    else acc := { acc with skips := acc.skips + 1 }
    acc := { acc with compared := acc.compared + 4 }
    let wellDet := tolCov ≤ 5e-2 * cmaxv
    let covI := covU
    -- a numerically singular HᵀH (non-identifiable model) has no meaningful inverse: the sign of the
    -- diagonal is only checked where the inverse is determined to better than 5 %
    if wellDet then
      for i in [0:d] do
        if !(covI.get i i ≥ 0.0) then acc := { acc with mon := acc.mon.push s!"negative-variance-at-{i}" }
    -- a CLONE of the statistics object answers every accessor like the original
    let stcLine (key : String) : Option (Array String) :=
      c.body.find? fun l => l.getD 0 "" == "stc" && l.getD 1 "" == key
    if let some l := stcLine "cov" then
      if !bitsEq (fmatAt l 2).a covI.a then acc := { acc with mon := acc.mon.push "clone:covariance-differs" }
    if let some l := stcLine "corr" then
      if !bitsEq (fmatAt l 2).a corrI.a then acc := { acc with mon := acc.mon.push "correlation_matrix()≠calculate_correlation_matrix()" }
    for (key, orig) in [("linvar", linI), ("nonlinvar", nonlinI)] do
      if let some l := stcLine key then
        acc := { acc with compared := acc.compared + 1 }
        if l.getD 2 "" == "panic" then
          acc := { acc with mon := acc.mon.push s!"clone:{key}-panics" }
        else if !bitsEq (fvecAt l 2) orig then
          acc := { acc with mon := acc.mon.push s!"clone:{key}-differs-from-the-original({(fvecAt l 2).size}-vs-{orig.size}-entries)" }
    -- the variance accessors are exactly the diagonal segments
    let diag := (Array.range d).map fun i => covI.get i i
    if !bitsEq linI (diag.extract 0 m) then acc := { acc with mon := acc.mon.push "linear_coefficients_variance≠diag[0..M)" }
    if !bitsEq nonlinI (diag.extract m d) then acc := { acc with mon := acc.mon.push "nonlinear_parameters_variance≠diag[M..M+P)" }
    -- correlation = cov_ij / sqrt(c_ii c_jj)
    -- every operation rounded to the implementation's width (products of huge variances overflow in f32)
    let rw := rndW width
    let corrE := FMat.ofFn d d fun i j => rw (covI.get i j / rw ((rw (covI.get i i * covI.get j j)).sqrt))
    let dR := maxDiff corrE.a corrI.a
    if !(dR ≤ 16.0 * u) then acc := { acc with mon := acc.mon.push s!"correlation≠cov/sqrt(cii·cjj):{fmtF dR}" }
    for i in [0:d] do
      let sq := rw (covI.get i i * covI.get i i)
      if covI.get i i > 0.0 && sq.isFinite && sq > 1e-30 && !((corrI.get i i - 1.0).abs ≤ 8.0 * u) then
        acc := { acc with mon := acc.mon.push s!"correlation-diagonal≠1-at-{i}" }
    if wellDet then
      for i in [0:d] do
        for j in [0:d] do
          if !((corrI.get i j).abs ≤ 1.0 + invBound) then
            acc := { acc with mon := acc.mon.push s!"|correlation({i},{j})|>1" }
    if let some (.ok ms) := modelStats then
      let mc := FMat.ofMat (ms.correlation floatOps)
      -- model correlation is computed from the model covariance; compare through the implementation's
      -- covariance to stay independent of the conditioning
      let _ := mc
      if !bitsEq (ms.linearVariance.toArray.map fun _ => 0.0) ((Array.range m).map fun _ => 0.0) then
        acc := { acc with corr := acc.corr.push "internal" }
  -- ---------- C14
  if wantsC14 then
    let ucs : Array Float := (Array.range n).map fun i => Id.run do
      let mut q := 0.0
      for a in [0:d] do
        let mut inner := 0.0
        for b in [0:d] do inner := inner + covI.get a b * Jf.get i b
        q := q + Jf.get i a * inner
      return q.sqrt
    let qscale := arrMaxAbs ucs
    let invBound := 1e3 * u * kapH * kapH * kapH * d.toFloat
    let wellCond := invBound ≤ 5e-2
    let mut prevBand : Option (Array Float) := none
    for l in c.body do
      if l.getD 0 "" == "st" && l.getD 1 "" == "band" then
        let pr := parseF (l.getD 2 "")
        let valid := pr.isFinite && pr > 0.0 && pr < 1.0
        acc := { acc with compared := acc.compared + 1 }
        if l.getD 3 "" == "panic" then
          if valid then acc := { acc with mon := acc.mon.push s!"band-panics-for-valid-p={fmtF pr}" }
        else
          if !valid then
            acc := { acc with mon := acc.mon.push s!"band-accepts-invalid-p={fmtF pr}" }
          else
            let band := fvecAt l 4
            if band.size != n then acc := { acc with mon := acc.mon.push s!"band-length-{band.size}≠N" }
            if wellCond && !(band.all fun v => v.isFinite && v ≥ 0.0) then
              acc := { acc with mon := acc.mon.push s!"band-not-finite-nonneg-p={fmtF pr}" }
            let t := tQuantileTwoSided pr dof
            let expect := ucs.map (· * t)
            -- the reference quantile is obtained from the two-sided probability itself; next to 1 its
            -- tail mass 1 − p is known to 2⁻⁵³ absolute only
            let tailAcc := 64.0 * 1.1e-16 / (1.0 - pr)
            -- absolute accuracy of the crate's quantile next to q = 1/2 (measured: 4e-11 at p = 1e-6, ν = 2;
            -- (1+p)/2 is rounded to f64 as well): 1e-9 in units of t
            let tAbs := 1e-9 * qscale
            let tolB := ((if dof ≤ 2 then 1e-9 else 3e-3) + tailAcc) * t * qscale + invBound * t * qscale + tAbs + 1e-300
            if tolB ≤ 5e-2 * t * qscale + tAbs then
              let dB := maxDiff expect band
              if !(dB ≤ tolB) then
                acc := { acc with mon := acc.mon.push s!"band(p={fmtF pr},dof={dof})≠t·sqrt(jᵀCj):{fmtF dB}>tol={fmtF tolB}" }
            -- non-decreasing in p (probabilities are listed in increasing order)
            if let some pb := prevBand then
              if pb.size == band.size && wellCond then
                for i in [0:band.size] do
                  if !(pb[i]! ≤ band[i]! * (1.0 + 1e-6) + 1e-300) then
                    acc := { acc with mon := acc.mon.push s!"band-decreases-in-p-at-sample-{i}-p={fmtF pr}" }
            prevBand := some band
    -- model correspondence: radius through the model's own definition on the implementation's data
    if let some (.ok ms) := modelStats then
      let r := ms.confidenceBandRadius floatStatExt floatOps 2.0 0.5
      if r.isNone then acc := { acc with corr := acc.corr.push "model-rejects-p=0.5" }
      let rb := ms.confidenceBandRadius floatStatExt floatOps 2.0 1.0
      if rb.isSome then acc := { acc with corr := acc.corr.push "model-accepts-p=1" }
  return acc.render s!"{tagBase}/{tagOut}"

end Varpro.Drv
