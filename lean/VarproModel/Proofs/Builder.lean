import VarproModel.Proofs.Names
/-!
# Proofs/Builder — the builder state machine, call by call, equals an item-level machine run over
the grouped call sequence (`group`)
-/
namespace Varpro.MB
set_option linter.unusedSectionVars false

variable {N F G X K : Type} [DecidableEq N]

/-- the function builder after `function(fps, f)` and the derivative calls of the item -/
def fbOf (hc : N → Bool) (ar : F → Nat) (names : List N) (g : FnItem N F) : FnB N F G :=
  g.derivs.foldl (fun b pd => b.partialDeriv hc ar pd.1 pd.2) (FnB.new hc ar names g.fps g.f)

/-- one item applied to the (normal or failed) builder -/
def stepItem (hc : N → Bool) (ar : F → Nat) :
    Except (BErr N) (Unfinished N F G X K) → Item N F G X K → Except (BErr N) (Unfinished N F G X K)
  | .error e, _ => .error e
  | .ok m, .fn g => extend hc m (fbOf hc ar m.names g)
  | .ok m, .inv g => .ok { m with fns := m.fns ++ [{ function := .invariant g }] }
  | .ok m, .x x => .ok { m with x := some x }
  | .ok m, .init v =>
    if m.names.length ≠ v.length then .error (.incorrectParameterCount v.length m.names.length)
    else .ok { m with init := some v }
  | .ok _, .stray _ => .error .illegalCallToPartialDeriv

def finishE (r : Except (BErr N) (Unfinished N F G X K)) : Except (BErr N) (Model N F G X K) :=
  match r with
  | .error e => .error e
  | .ok m => finish m

theorem foldl_stepItem_error (hc : N → Bool) (ar : F → Nat) (e : BErr N) (its : List (Item N F G X K)) :
    its.foldl (stepItem hc ar) (.error e) = .error e := by
  induction its with
  | nil => rfl
  | cons it its ih => simpa [List.foldl_cons, stepItem] using ih

theorem foldl_step_error' (hc : N → Bool) (ar : F → Nat) (e : BErr N) (cs : List (Call N F G X K)) :
    cs.foldl (step hc ar) (.error e) = .error e := by
  induction cs with
  | nil => rfl
  | cons c cs ih =>
    simp only [List.foldl_cons]
    have : step hc ar (.error e : B N F G X K) c = .error e := by cases c <;> rfl
    rw [this]; exact ih

theorem fbOf_snoc (hc : N → Bool) (ar : F → Nat) (names : List N) (g : FnItem N F) (p : N) (d : F) :
    (fbOf hc ar names { g with derivs := g.derivs ++ [(p, d)] } : FnB N F G)
      = (fbOf hc ar names g).partialDeriv hc ar p d := by
  simp [fbOf, List.foldl_append]

theorem fbOf_nil (hc : N → Bool) (ar : F → Nat) (names fps : List N) (f : F) :
    (fbOf hc ar names { fps := fps, f := f } : FnB N F G) = FnB.new hc ar names fps f := rfl

/-- **call level = item level.**  Running the builder over a call sequence and building equals
running the item-level machine over the grouped sequence and finishing – from the `Normal` state and
from the `FunctionBuilding` state whose pending function is the open item. -/
theorem build_eq_items (hc : N → Bool) (ar : F → Nat) (calls : List (Call N F G X K)) :
    (∀ m : Unfinished N F G X K,
      build hc (calls.foldl (step hc ar) (.normal m))
        = finishE ((group none calls).foldl (stepItem hc ar) (.ok m))) ∧
    (∀ (m : Unfinished N F G X K) (g : FnItem N F),
      build hc (calls.foldl (step hc ar) (.building m (fbOf hc ar m.names g)))
        = finishE ((group (some g) calls).foldl (stepItem hc ar) (.ok m))) := by
  induction calls with
  | nil =>
    constructor
    · intro m; simp [build, group, flush, finishE]
    · intro m g
      simp only [List.foldl_nil, build, group, flush, List.foldl_cons, stepItem]
      cases extend hc m (fbOf hc ar m.names g) <;> simp [finishE]
  | cons c cs ih =>
    obtain ⟨ih1, ih2⟩ := ih
    -- the step from the Normal state, shared by both parts
    have normalCase : ∀ m : Unfinished N F G X K,
        build hc (cs.foldl (step hc ar) (stepNormal hc ar m c))
          = finishE ((group none (c :: cs)).foldl (stepItem hc ar) (.ok m)) := by
      intro m
      cases c with
      | function fps f =>
        simp only [stepNormal, group, flush, List.nil_append]
        rw [← fbOf_nil]
        exact ih2 m _
      | partialDeriv p d =>
        simp only [stepNormal, group, List.foldl_cons, stepItem, foldl_step_error',
          foldl_stepItem_error, build, finishE]
      | invariant g =>
        simp only [stepNormal, group, flush, List.nil_append, List.foldl_cons, stepItem]
        exact ih1 _
      | indepVar x =>
        simp only [stepNormal, group, flush, List.nil_append, List.foldl_cons, stepItem]
        exact ih1 _
      | initParams v =>
        simp only [stepNormal, group, flush, List.nil_append, List.foldl_cons, stepItem]
        by_cases hl : m.names.length ≠ v.length
        · rw [if_pos hl, if_pos hl]
          simp only [foldl_step_error', foldl_stepItem_error, build, finishE]
        · rw [if_neg hl, if_neg hl]
          exact ih1 _
    constructor
    · intro m
      simp only [List.foldl_cons]
      have : step hc ar (.normal m) c = stepNormal hc ar m c := by cases c <;> rfl
      rw [this]
      exact normalCase m
    · intro m g
      simp only [List.foldl_cons]
      cases c with
      | partialDeriv p d =>
        simp only [step, group]
        rw [← fbOf_snoc]
        exact ih2 m _
      | function fps f =>
        simp only [step]
        have hg : group (some g) (Call.function fps f :: cs)
            = Item.fn g :: group (none : Option (FnItem N F)) (Call.function fps f :: cs) := by
          simp [group, flush]
        rw [hg, List.foldl_cons, stepItem]
        cases he : extend hc m (fbOf hc ar m.names g) with
        | error e => simp [foldl_step_error', foldl_stepItem_error, build, finishE]
        | ok m' => exact normalCase m'
      | invariant gi =>
        simp only [step]
        have hg : group (some g) (Call.invariant gi :: cs)
            = Item.fn g :: group (none : Option (FnItem N F)) (Call.invariant gi :: cs) := by
          simp [group, flush]
        rw [hg, List.foldl_cons, stepItem]
        cases he : extend hc m (fbOf hc ar m.names g) with
        | error e => simp [foldl_step_error', foldl_stepItem_error, build, finishE]
        | ok m' => exact normalCase m'
      | indepVar x =>
        simp only [step]
        have hg : group (some g) (Call.indepVar x :: cs)
            = Item.fn g :: group (none : Option (FnItem N F)) (Call.indepVar x :: cs) := by
          simp [group, flush]
        rw [hg, List.foldl_cons, stepItem]
        cases he : extend hc m (fbOf hc ar m.names g) with
        | error e => simp [foldl_step_error', foldl_stepItem_error, build, finishE]
        | ok m' => exact normalCase m'
      | initParams v =>
        simp only [step]
        have hg : group (some g) (Call.initParams v :: cs)
            = Item.fn g :: group (none : Option (FnItem N F)) (Call.initParams v :: cs) := by
          simp [group, flush]
        rw [hg, List.foldl_cons, stepItem]
        cases he : extend hc m (fbOf hc ar m.names g) with
        | error e => simp [foldl_step_error', foldl_stepItem_error, build, finishE]
        | ok m' => exact normalCase m'

/-- the whole session in item form -/
theorem run_eq_items (hc : N → Bool) (ar : F → Nat) (names : List N) (calls : List (Call N F G X K)) :
    run hc ar names calls =
      match checkNames hc names with
      | .error e => .error e
      | .ok () => finishE ((group none calls).foldl (stepItem hc ar) (.ok { names := names })) := by
  unfold run B.new
  cases hn : checkNames hc names with
  | error e => simp [foldl_step_error', build]
  | ok u => exact (build_eq_items hc ar calls).1 _

end Varpro.MB
