import VarproModel.Proofs.FnBuilder
/-!
# Proofs/BuilderItems — the item-level machine accepts exactly the valid item lists and produces
the model whose basis functions are the items' functions in order
-/
namespace Varpro.MB
set_option linter.unusedSectionVars false
variable {N F G X K : Type} [DecidableEq N]

/-- validity of one function item (Prop level; `fnItemOk` is its executable form) -/
def FnItemValid (hc : N → Bool) (ar : F → Nat) (names : List N) (g : FnItem N F) (im : List Nat) : Prop :=
  FnOK hc ar names g.fps g.f im ∧ DerivsOK ar g.fps g.derivs ∧ ∀ n ∈ g.fps, ∃ pd ∈ g.derivs, pd.1 = n

/-- the basis function a valid item becomes -/
def itemMBF (names : List N) (g : FnItem N F) (im : List Nat) : MBF F G :=
  { function := .wrapped ⟨g.f, im⟩, derivatives := derivMap names im g.derivs }

/-- `extend` on a function item: success iff the item is valid; the appended function is `itemMBF` -/
theorem extend_fn (hc : N → Bool) (ar : F → Nat) (m : Unfinished N F G X K) (g : FnItem N F)
    (hn : checkNames hc m.names = .ok ()) :
    (∀ im, FnItemValid hc ar m.names g im →
      extend hc m (fbOf hc ar m.names g) = .ok { m with fns := m.fns ++ [itemMBF m.names g im] }) ∧
    ((¬ ∃ im, FnItemValid hc ar m.names g im) → ∃ e, extend hc m (fbOf hc ar m.names g) = .error e) := by
  constructor
  · intro im ⟨hok, hd, hcov⟩
    have hg0 := new_good (G := G) hc ar m.names g.fps g.f im hok
    have hfold := (foldl_spec hc ar m.names g.fps g.f im hok g.derivs [] _ hg0 ⟨by simp, by simp⟩).1
      (by simpa using hd)
    simp only [List.nil_append] at hfold
    have hb := (build_good hc ar m.names g.fps g.f im hok g.derivs _ hfold hd).1 hcov
    unfold extend
    simp only [fbOf, hb, itemMBF]
  · intro hinv
    unfold extend
    by_cases hfn : ∃ im, FnOK hc ar m.names g.fps g.f im
    · obtain ⟨im, hok⟩ := hfn
      have hg0 := new_good (G := G) hc ar m.names g.fps g.f im hok
      have hspec := foldl_spec hc ar m.names g.fps g.f im hok g.derivs [] _ hg0 ⟨by simp, by simp⟩
      simp only [List.nil_append] at hspec
      by_cases hd : DerivsOK ar g.fps g.derivs
      · have hfold := hspec.1 hd
        have hncov : ¬ ∀ n ∈ g.fps, ∃ pd ∈ g.derivs, pd.1 = n := fun hc' => hinv ⟨im, hok, hd, hc'⟩
        obtain ⟨n, _, hb⟩ := (build_good hc ar m.names g.fps g.f im hok g.derivs _ hfold hd).2 hncov
        refine ⟨.missingDerivative n g.fps, ?_⟩
        simp only [fbOf, hb]
      · obtain ⟨e, he⟩ := hspec.2 hd
        have : (fbOf hc ar m.names g : FnB N F G).build hc = .error e := by
          simp [FnB.build, FnB.checkCompletion, fbOf, he]
        exact ⟨e, by simp only [this]⟩
    · obtain ⟨e, he⟩ := new_bad (G := G) hc ar m.names g.fps g.f hn hfn
      obtain ⟨e', he'⟩ := foldl_error_stays hc ar g.derivs _ ⟨e, he⟩
      have : (fbOf hc ar m.names g : FnB N F G).build hc = .error e' := by
        simp [FnB.build, FnB.checkCompletion, fbOf, he']
      exact ⟨e', by simp only [this]⟩

/-- validity of an item against the model's parameter names -/
def ItemValid (hc : N → Bool) (ar : F → Nat) (names : List N) : Item N F G X K → Prop
  | .stray _ => False
  | .fn g => ∃ im, FnItemValid hc ar names g im
  | .init v => v.length = names.length
  | .inv _ => True
  | .x _ => True

/-- the basis function an item contributes (none for x / init / stray, and for invalid functions) -/
def itemFn (names : List N) : Item N F G X K → Option (MBF F G)
  | .inv g => some { function := .invariant g }
  | .fn g => match indexMapping names g.fps with
    | .ok im => some (itemMBF names g im)
    | .error _ => none
  | _ => none

def stepX (it : Item N F G X K) (old : Option X) : Option X :=
  match it with | .x x => some x | _ => old
def stepInit (it : Item N F G X K) (old : Option (List K)) : Option (List K) :=
  match it with | .init v => some v | _ => old

theorem lastX_cons (it : Item N F G X K) (rest : List (Item N F G X K)) (old : Option X) :
    (lastX rest <|> stepX it old) = (lastX (it :: rest) <|> old) := by
  simp only [lastX, stepX]
  cases lastX rest <;> cases it <;> simp

theorem lastInit_cons (it : Item N F G X K) (rest : List (Item N F G X K)) (old : Option (List K)) :
    (lastInit rest <|> stepInit it old) = (lastInit (it :: rest) <|> old) := by
  simp only [lastInit, stepInit]
  cases lastInit rest <;> cases it <;> simp

/-- **the item-level machine**: starting from a builder whose names are valid, the items are
accepted iff each of them is valid, and then the unfinished model holds the items' functions in
order, the last independent variable and the last initial guess. -/
theorem foldl_items (hc : N → Bool) (ar : F → Nat) (items : List (Item N F G X K)) :
    ∀ m : Unfinished N F G X K, checkNames hc m.names = .ok () →
      ((∀ it ∈ items, ItemValid hc ar m.names it) →
        items.foldl (stepItem hc ar) (.ok m) = .ok
          { names := m.names, fns := m.fns ++ items.filterMap (itemFn m.names),
            x := (lastX items <|> m.x), init := (lastInit items <|> m.init) }) ∧
      ((¬ ∀ it ∈ items, ItemValid hc ar m.names it) →
        ∃ e, items.foldl (stepItem hc ar) (.ok m) = .error e) := by
  induction items with
  | nil =>
    intro m _
    refine ⟨fun _ => by simp [lastX, lastInit], fun h => absurd (by simp) h⟩
  | cons it rest ih =>
    intro m hn
    simp only [List.foldl_cons]
    -- one step, by kind of item
    have hstep : (ItemValid hc ar m.names it →
          ∃ m', stepItem hc ar (.ok m) it = .ok m' ∧ m'.names = m.names ∧
            m'.fns = m.fns ++ (itemFn m.names it).toList ∧
            m'.x = stepX it m.x ∧ m'.init = stepInit it m.init) ∧
        (¬ ItemValid hc ar m.names it → ∃ e, stepItem hc ar (.ok m) it = .error e) := by
      cases it with
      | fn g =>
        constructor
        · rintro ⟨im, hv⟩
          refine ⟨_, (extend_fn hc ar m g hn).1 im hv, rfl, ?_, rfl, rfl⟩
          simp [itemFn, hv.1.him]
        · intro hnv; exact (extend_fn hc ar m g hn).2 hnv
      | inv g => exact ⟨fun _ => ⟨_, rfl, rfl, by simp [itemFn], rfl, rfl⟩, fun h => absurd trivial h⟩
      | x x => exact ⟨fun _ => ⟨_, rfl, rfl, by simp [itemFn], rfl, rfl⟩, fun h => absurd trivial h⟩
      | init v =>
        constructor
        · intro hv
          simp only [ItemValid] at hv
          refine ⟨{ m with init := some v }, ?_, rfl, by simp [itemFn], rfl, rfl⟩
          simp [stepItem, hv]
        · intro hnv
          simp only [ItemValid] at hnv
          have : m.names.length ≠ v.length := fun h => hnv h.symm
          refine ⟨.incorrectParameterCount v.length m.names.length, ?_⟩
          simp [stepItem, this]
      | stray p => exact ⟨fun h => absurd h (by simp [ItemValid]), fun _ => ⟨_, rfl⟩⟩
    by_cases hv : ItemValid hc ar m.names it
    · obtain ⟨m', hm', hnm, hfns, hx, hinit⟩ := hstep.1 hv
      rw [hm']
      have hn' : checkNames hc m'.names = .ok () := by rw [hnm]; exact hn
      obtain ⟨ihok, ihbad⟩ := ih m' hn'
      constructor
      · intro hall
        have hrest : ∀ it' ∈ rest, ItemValid hc ar m'.names it' := by
          intro it' hit'; rw [hnm]; exact hall it' (List.mem_cons_of_mem _ hit')
        have e1 : (m.fns ++ (itemFn m.names it).toList) ++ List.filterMap (itemFn m.names) rest
            = m.fns ++ List.filterMap (itemFn m.names) (it :: rest) := by
          simp only [List.filterMap_cons, List.append_assoc]
          cases itemFn m.names it <;> simp
        rw [ihok hrest, hnm, hfns, hx, hinit, e1, lastX_cons, lastInit_cons]
      · intro hnall
        apply ihbad
        intro hrest
        apply hnall
        intro it' hit'
        rcases List.mem_cons.mp hit' with rfl | h
        · exact hv
        · have := hrest it' h; rwa [hnm] at this
    · obtain ⟨e, he⟩ := hstep.2 hv
      rw [he]
      constructor
      · intro hall; exact absurd (hall it (by simp)) hv
      · intro _; exact ⟨e, foldl_stepItem_error hc ar e rest⟩

end Varpro.MB
