import VarproModel.Proofs.Builder
/-!
# Proofs/FnBuilder — the function builder (`FnB`) accepts exactly the valid function items and
stores the user function / derivatives with the index mapping that realises "by name"
-/
namespace Varpro.MB
set_option linter.unusedSectionVars false

variable {N F G X K : Type} [DecidableEq N]

theorem derivIndex_go (fps : List N) (p : N) (l : List N) (i : Nat) :
    derivIndex.go fps p l i = if p ∈ fps then (position l p).map (· + i) else none := by
  induction l generalizing i with
  | nil => simp [derivIndex.go, position]
  | cons a as ih =>
    by_cases hap : a = p
    · subst hap
      by_cases hm : a ∈ fps
      · simp [derivIndex.go, position, hm]
      · have hne : (fps.contains a && decide (a = a)) = false := by simp [hm]
        simp only [derivIndex.go, hne, Bool.false_eq_true, if_false, hm]
        rw [ih]; simp [hm]
    · have hne : (fps.contains a && decide (a = p)) = false := by simp [hap]
      simp only [derivIndex.go, hne, Bool.false_eq_true, if_false, position, hap]
      rw [ih]
      by_cases hm : p ∈ fps
      · simp only [hm, if_true, Option.map_map]
        cases position as p with
        | none => simp
        | some k => simp; omega
      · simp [hm]

/-- the slot a derivative is stored under: the position of the parameter in the model's list,
provided the function depends on it -/
theorem derivIndex_eq (mps fps : List N) (p : N) :
    derivIndex mps fps p = if p ∈ fps then position mps p else none := by
  unfold derivIndex
  rw [derivIndex_go]
  by_cases hm : p ∈ fps
  · simp only [hm, if_true]
    cases position mps p <;> simp
  · simp [hm]

theorem checkNames_ok_iff (hc : N → Bool) (l : List N) :
    checkNames hc l = .ok () ↔ namesOk hc l = true := by
  unfold checkNames namesOk
  by_cases he : l.isEmpty = true
  · simp [he]
  · simp only [he, Bool.false_eq_true, if_false, Bool.not_false, Bool.true_and]
    cases hf : l.find? hc with
    | some p =>
      have : l.any hc = true := by
        rw [List.any_eq_true]
        exact ⟨p, List.mem_of_find?_eq_some hf, List.find?_some hf⟩
      simp [this]
    | none =>
      have : l.any hc = false := by
        rw [Bool.eq_false_iff]
        intro h
        rw [List.any_eq_true] at h
        obtain ⟨x, hx, hcx⟩ := h
        have := List.find?_eq_none.mp hf x hx
        exact this hcx
      by_cases hu : allUnique l = true
      · simp [this, hu]
      · simp [this, hu]

/-- `wrap` on valid name lists -/
theorem wrap_eq (hc : N → Bool) (ar : F → Nat) (names fps : List N) (f : F) (im : List Nat)
    (hn : checkNames hc names = .ok ()) (hf : checkNames hc fps = .ok ())
    (him : indexMapping names fps = .ok im) :
    wrap hc ar names fps f =
      if fps.length ≠ ar f then .error (.incorrectParameterCount fps.length (ar f)) else .ok ⟨f, im⟩ := by
  simp [wrap, hn, hf, him]

end Varpro.MB

namespace Varpro.MB
set_option linter.unusedSectionVars false
variable {N F G X K : Type} [DecidableEq N]

/-- the slot of the parameter named `p` -/
def keyOf (names : List N) (p : N) : Nat := (position names p).getD 0

/-- the derivative map a valid item produces: for every supplied derivative, in the order of the
calls, the slot of its parameter and the wrapped user derivative -/
def derivMap (names : List N) (im : List Nat) (ds : List (N × F)) : List (Nat × Wrapped F) :=
  ds.map fun pd => (keyOf names pd.1, ⟨pd.2, im⟩)

theorem keyOf_spec {names : List N} {p : N} (h : p ∈ names) :
    position names p = some (keyOf names p) := by
  obtain ⟨i, hi⟩ := position_of_mem h
  simp [keyOf, hi]

theorem keyOf_inj {names : List N} {p q : N} (hp : p ∈ names) (hq : q ∈ names)
    (h : keyOf names p = keyOf names q) : p = q := by
  have h1 := position_some (keyOf_spec hp)
  have h2 := position_some (keyOf_spec hq)
  obtain ⟨i1, e1, _⟩ := h1
  obtain ⟨i2, e2, _⟩ := h2
  rw [← e1, ← e2]
  simp [h]

theorem mem_of_indexMapping {names fps : List N} {im : List Nat} (h : indexMapping names fps = .ok im)
    {n : N} (hn : n ∈ fps) : n ∈ names := by
  have hm := indexMapping_ok h
  have : position names n ∈ fps.map (position names) := List.mem_map.mpr ⟨n, hn, rfl⟩
  rw [hm] at this
  obtain ⟨i, _, hi⟩ := List.mem_map.mp this
  obtain ⟨hlt, he, _⟩ := position_some hi.symm
  rw [← he]; exact List.getElem_mem hlt

/-- hypotheses under which `function(fps, f)` starts a healthy function builder -/
structure FnOK (hc : N → Bool) (ar : F → Nat) (names fps : List N) (f : F) (im : List Nat) : Prop where
  hnames : checkNames hc names = .ok ()
  hfps : checkNames hc fps = .ok ()
  him : indexMapping names fps = .ok im
  harity : fps.length = ar f

/-- the builder is healthy and has recorded exactly the derivatives `ds` -/
structure GoodFnB (names fps : List N) (f : F) (im : List Nat) (ds : List (N × F)) (b : FnB N F G) : Prop where
  mps : b.mps = names
  fps : b.fps = fps
  res : b.res = .ok { function := .wrapped ⟨f, im⟩, derivatives := derivMap names im ds }

theorem new_good (hc : N → Bool) (ar : F → Nat) (names fps : List N) (f : F) (im : List Nat)
    (h : FnOK hc ar names fps f im) : GoodFnB names fps f im [] (FnB.new hc ar names fps f : FnB N F G) := by
  unfold FnB.new
  simp only [h.hfps]
  rw [wrap_eq hc ar names fps f im h.hnames h.hfps h.him]
  simp only [h.harity, ne_eq, not_true_eq_false, if_false]
  exact ⟨rfl, rfl, rfl⟩

/-- if the function itself is not acceptable, the builder starts (and stays) in an error state -/
theorem new_bad (hc : N → Bool) (ar : F → Nat) (names fps : List N) (f : F)
    (hn : checkNames hc names = .ok ())
    (h : ¬ ∃ im, FnOK hc ar names fps f im) :
    ∃ e, (FnB.new hc ar names fps f : FnB N F G).res = .error e := by
  unfold FnB.new
  cases hf : checkNames hc fps with
  | error e => exact ⟨e, rfl⟩
  | ok u =>
    simp only
    cases hw : wrap hc ar names fps f with
    | error e => exact ⟨e, rfl⟩
    | ok w =>
      exfalso
      apply h
      unfold wrap at hw
      simp only [hn, hf] at hw
      by_cases hl : fps.length ≠ ar f
      · simp [hl] at hw
      · simp only [hl, if_false] at hw
        cases him : indexMapping names fps with
        | error e => simp [him] at hw
        | ok im => exact ⟨im, hn, hf, him, by simpa using hl⟩

theorem mapContains_derivMap {names : List N} {im : List Nat} {ds : List (N × F)} (k : Nat) :
    mapContains (derivMap names im ds) k = true ↔ ∃ pd ∈ ds, keyOf names pd.1 = k := by
  simp [mapContains, derivMap, List.any_eq_true]

theorem partialDeriv_good (hc : N → Bool) (ar : F → Nat) (names fps : List N) (f : F) (im : List Nat)
    (h : FnOK hc ar names fps f im) (ds : List (N × F)) (b : FnB N F G)
    (hg : GoodFnB names fps f im ds b) (hsub : ∀ pd ∈ ds, pd.1 ∈ fps)
    (p : N) (d : F) (hp : p ∈ fps) (har : ar d = fps.length) (hnew : ∀ pd ∈ ds, pd.1 ≠ p) :
    GoodFnB names fps f im (ds ++ [(p, d)]) (b.partialDeriv hc ar p d) := by
  have hpn : p ∈ names := mem_of_indexMapping h.him hp
  unfold FnB.partialDeriv
  rw [hg.mps, hg.fps, derivIndex_eq]
  simp only [hp, if_true, keyOf_spec hpn, hg.res]
  rw [wrap_eq hc ar names fps d im h.hnames h.hfps h.him]
  simp only [har, ne_eq, not_true_eq_false, if_false]
  have hnot : (derivMap names im ds).any (fun kv => kv.1 == keyOf names p) = false := by
    rw [Bool.eq_false_iff]
    intro hany
    have := (mapContains_derivMap (keyOf names p)).mp hany
    obtain ⟨pd, hpd, hk⟩ := this
    have hq : pd.1 ∈ names := mem_of_indexMapping h.him (hsub pd hpd)
    exact hnew pd hpd (keyOf_inj hq hpn hk)
  simp only [mapInsert, hnot, Bool.false_eq_true, if_false]
  refine ⟨rfl, rfl, ?_⟩
  simp [derivMap]

theorem partialDeriv_bad (hc : N → Bool) (ar : F → Nat) (names fps : List N) (f : F) (im : List Nat)
    (h : FnOK hc ar names fps f im) (ds : List (N × F)) (b : FnB N F G)
    (hg : GoodFnB names fps f im ds b) (hsub : ∀ pd ∈ ds, pd.1 ∈ fps)
    (p : N) (d : F) (hbad : ¬ (p ∈ fps ∧ ar d = fps.length ∧ ∀ pd ∈ ds, pd.1 ≠ p)) :
    ∃ e, (b.partialDeriv hc ar p d).res = .error e := by
  unfold FnB.partialDeriv
  rw [hg.mps, hg.fps, derivIndex_eq]
  by_cases hp : p ∈ fps
  · have hpn : p ∈ names := mem_of_indexMapping h.him hp
    simp only [hp, if_true, keyOf_spec hpn, hg.res]
    rw [wrap_eq hc ar names fps d im h.hnames h.hfps h.him]
    by_cases har : ar d = fps.length
    · simp only [har, ne_eq, not_true_eq_false, if_false]
      have hdup : ∃ pd ∈ ds, pd.1 = p := by
        apply Classical.byContradiction
        intro hno
        apply hbad
        refine ⟨hp, har, ?_⟩
        intro pd hpd he
        exact hno ⟨pd, hpd, he⟩
      obtain ⟨pd, hpd, he⟩ := hdup
      have hany : (derivMap names im ds).any (fun kv => kv.1 == keyOf names p) = true :=
        (mapContains_derivMap (keyOf names p)).mpr ⟨pd, hpd, by rw [he]⟩
      simp only [mapInsert, hany, if_true]
      exact ⟨_, rfl⟩
    · have : fps.length ≠ ar d := fun e => har e.symm
      simp only [this, ne_eq, not_false_eq_true, if_true]
      exact ⟨_, rfl⟩
  · simp only [hp, if_false]
    exact ⟨_, rfl⟩

theorem partialDeriv_error_stays (hc : N → Bool) (ar : F → Nat) (b : FnB N F G) (p : N) (d : F)
    (h : ∃ e, b.res = .error e) : ∃ e, (b.partialDeriv hc ar p d).res = .error e := by
  obtain ⟨e, he⟩ := h
  unfold FnB.partialDeriv
  split
  · simp [he]
  · exact ⟨_, rfl⟩

theorem foldl_error_stays (hc : N → Bool) (ar : F → Nat) (ds : List (N × F)) (b : FnB N F G)
    (h : ∃ e, b.res = .error e) :
    ∃ e, (ds.foldl (fun b pd => b.partialDeriv hc ar pd.1 pd.2) b).res = .error e := by
  induction ds generalizing b with
  | nil => exact h
  | cons pd ds ih => exact ih _ (partialDeriv_error_stays hc ar b pd.1 pd.2 h)

/-- the derivative calls of an item are acceptable: each names a parameter of the function, has the
function's arity, and no parameter is named twice -/
def DerivsOK (ar : F → Nat) (fps : List N) (ds : List (N × F)) : Prop :=
  (∀ pd ∈ ds, pd.1 ∈ fps ∧ ar pd.2 = fps.length) ∧ (ds.map (·.1)).Nodup

theorem foldl_spec (hc : N → Bool) (ar : F → Nat) (names fps : List N) (f : F) (im : List Nat)
    (h : FnOK hc ar names fps f im) (rest : List (N × F)) :
    ∀ (ds0 : List (N × F)) (b : FnB N F G), GoodFnB names fps f im ds0 b → DerivsOK ar fps ds0 →
      (DerivsOK ar fps (ds0 ++ rest) →
        GoodFnB names fps f im (ds0 ++ rest) (rest.foldl (fun b pd => b.partialDeriv hc ar pd.1 pd.2) b)) ∧
      (¬ DerivsOK ar fps (ds0 ++ rest) →
        ∃ e, (rest.foldl (fun b pd => b.partialDeriv hc ar pd.1 pd.2) b).res = .error e) := by
  induction rest with
  | nil =>
    intro ds0 b hg hok
    simp only [List.append_nil, List.foldl_nil]
    exact ⟨fun _ => hg, fun hn => absurd hok hn⟩
  | cons pd rest ih =>
    intro ds0 b hg hok
    simp only [List.foldl_cons]
    have hsub : ∀ q ∈ ds0, q.1 ∈ fps := fun q hq => (hok.1 q hq).1
    have happ : ds0 ++ pd :: rest = (ds0 ++ [pd]) ++ rest := by simp
    by_cases hstep : pd.1 ∈ fps ∧ ar pd.2 = fps.length ∧ ∀ q ∈ ds0, q.1 ≠ pd.1
    · have hg' := partialDeriv_good hc ar names fps f im h ds0 b hg hsub pd.1 pd.2 hstep.1 hstep.2.1 hstep.2.2
      have hok' : DerivsOK ar fps (ds0 ++ [pd]) := by
        constructor
        · intro q hq
          rcases List.mem_append.mp hq with hq | hq
          · exact hok.1 q hq
          · simp only [List.mem_singleton] at hq; subst hq; exact ⟨hstep.1, hstep.2.1⟩
        · rw [List.map_append, List.nodup_append]
          refine ⟨hok.2, by simp, ?_⟩
          intro a ha b' hb'
          simp only [List.map_cons, List.map_nil, List.mem_singleton] at hb'
          subst hb'
          obtain ⟨q, hq, rfl⟩ := List.mem_map.mp ha
          exact hstep.2.2 q hq
      rw [happ]
      exact ih (ds0 ++ [pd]) _ hg' hok'
    · constructor
      · intro hall
        exfalso
        apply hstep
        have h1 := hall.1 pd (by simp)
        refine ⟨h1.1, h1.2, ?_⟩
        intro q hq he
        have hnd := hall.2
        rw [List.map_append, List.map_cons, List.nodup_append] at hnd
        exact hnd.2.2 q.1 (List.mem_map.mpr ⟨q, hq, rfl⟩) pd.1 (by simp) he
      · intro _
        exact foldl_error_stays hc ar rest _
          (partialDeriv_bad hc ar names fps f im h ds0 b hg hsub pd.1 pd.2 hstep)

end Varpro.MB

namespace Varpro.MB
set_option linter.unusedSectionVars false
variable {N F G X K : Type} [DecidableEq N]

theorem im_eq_map_keyOf {names fps : List N} {im : List Nat} (h : indexMapping names fps = .ok im) :
    im = fps.map (keyOf names) := by
  induction fps generalizing im with
  | nil => simp [indexMapping] at h; subst h; rfl
  | cons v vs ih =>
    simp only [indexMapping] at h
    cases hp : position names v with
    | none => simp [hp] at h
    | some i =>
      simp only [hp] at h
      cases hr : indexMapping names vs with
      | error e => simp [hr] at h
      | ok is =>
        simp only [hr] at h
        cases h
        simp [keyOf, hp, ih hr]

theorem zip_map_self {α β : Type} (l : List α) (g : α → β) :
    (l.map g).zip l = l.map (fun n => (g n, n)) := by
  induction l with
  | nil => rfl
  | cons a as ih => simp [List.zip_cons_cons, ih]

/-- a duplicate-free list of names from `fps` that covers `fps` has as many entries as `fps` -/
theorem length_eq_of_cover {fps : List N} {l : List N} (hf : fps.Nodup) (hl : l.Nodup)
    (hsub : ∀ a ∈ l, a ∈ fps) (hcov : ∀ a ∈ fps, a ∈ l) : l.length = fps.length := by
  apply List.Perm.length_eq
  rw [List.perm_iff_count]
  intro a
  rw [hl.count, hf.count]
  by_cases ha : a ∈ fps
  · simp [ha, hcov a ha]
  · have : a ∉ l := fun h => ha (hsub a h)
    simp [ha, this]

/-- `build` of a healthy function builder: succeeds iff every listed parameter received its
derivative; the `panic!` branch is unreachable -/
theorem build_good (hc : N → Bool) (ar : F → Nat) (names fps : List N) (f : F) (im : List Nat)
    (h : FnOK hc ar names fps f im) (ds : List (N × F)) (b : FnB N F G)
    (hg : GoodFnB names fps f im ds b) (hok : DerivsOK ar fps ds) :
    ((∀ n ∈ fps, ∃ pd ∈ ds, pd.1 = n) →
      b.build hc = .ok { function := .wrapped ⟨f, im⟩, derivatives := derivMap names im ds }) ∧
    ((¬ ∀ n ∈ fps, ∃ pd ∈ ds, pd.1 = n) →
      ∃ n, n ∈ fps ∧ b.build hc = .error (.missingDerivative n fps)) := by
  have hnodup : fps.Nodup := by
    have := (checkNames_ok_iff hc fps).mp h.hfps
    simp only [namesOk, Bool.and_eq_true] at this
    exact (allUnique_iff_nodup fps).mp this.2
  have himk := im_eq_map_keyOf h.him
  have hzip : im.zip fps = fps.map (fun n => (keyOf names n, n)) := by
    rw [himk]; exact zip_map_self fps (keyOf names)
  have hcontains : ∀ n ∈ fps, (mapContains (derivMap names im ds) (keyOf names n) = true ↔ ∃ pd ∈ ds, pd.1 = n) := by
    intro n hn
    rw [mapContains_derivMap]
    constructor
    · rintro ⟨pd, hpd, hk⟩
      exact ⟨pd, hpd, keyOf_inj (mem_of_indexMapping h.him (hok.1 pd hpd).1) (mem_of_indexMapping h.him hn) hk⟩
    · rintro ⟨pd, hpd, rfl⟩; exact ⟨pd, hpd, rfl⟩
  unfold FnB.build FnB.checkCompletion
  simp only [hg.res, hg.mps, hg.fps, h.hnames, h.hfps, h.him, hzip]
  constructor
  · intro hcov
    have hfind : (fps.map (fun n => (keyOf names n, n))).find?
        (fun ip => !mapContains (derivMap names im ds) ip.1) = none := by
      rw [List.find?_eq_none]
      intro ip hip
      obtain ⟨n, hn, rfl⟩ := List.mem_map.mp hip
      simp [(hcontains n hn).mpr (hcov n hn)]
    have hlen : im.length = (derivMap names im ds).length := by
      have h1 : im.length = fps.length := by rw [himk]; simp
      have h2 : (ds.map (·.1)).length = fps.length :=
        length_eq_of_cover hnodup hok.2
          (fun a ha => by obtain ⟨pd, hpd, rfl⟩ := List.mem_map.mp ha; exact (hok.1 pd hpd).1)
          (fun a ha => by obtain ⟨pd, hpd, he⟩ := hcov a ha; exact List.mem_map.mpr ⟨pd, hpd, he⟩)
      simp only [derivMap, List.length_map] at h2 ⊢
      omega
    simp [hfind, hlen]
  · intro hncov
    cases hfind : (fps.map (fun n => (keyOf names n, n))).find?
        (fun ip => !mapContains (derivMap names im ds) ip.1) with
    | none =>
      exfalso
      apply hncov
      intro n hn
      rw [List.find?_eq_none] at hfind
      have := hfind (keyOf names n, n) (List.mem_map.mpr ⟨n, hn, rfl⟩)
      simp only [Bool.not_eq_true', Bool.not_eq_false] at this
      exact (hcontains n hn).mp (by simpa using this)
    | some ip =>
      have hmem := List.mem_of_find?_eq_some hfind
      obtain ⟨n, hn, rfl⟩ := List.mem_map.mp hmem
      exact ⟨n, hn, by simp⟩

end Varpro.MB
