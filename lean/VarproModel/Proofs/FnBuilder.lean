import VarproModel.Proofs.Builder
/-!
# Proofs/FnBuilder — the function builder (`FnB`) accepts exactly the valid function items and
stores the user function / derivatives with the index mapping that realises "by name"
-/
namespace Varpro.MB
set_option linter.unusedSectionVars false

variable {N F G X K : Type} [DecidableEq N]

theorem derivIndex_go (fps : List N) (p : N) (l : List N) (i : Nat) :
    derivIndex.go fps p l i = if fps.contains p then (position l p).map (· + i) else none := by
  induction l generalizing i with
  | nil => simp [derivIndex.go, position]
  | cons a as ih =>
    simp only [derivIndex.go, position]
    by_cases hap : a = p
    · subst hap
      by_cases hc : fps.contains a = true
      · simp [hc]
      · simp only [hc, Bool.false_and, Bool.false_eq_true, if_false]
        rw [ih]; simp [hc]
    · have : (fps.contains a && decide (a = p)) = false := by simp [hap]
      simp only [this, Bool.false_eq_true, if_false, hap]
      rw [ih]
      by_cases hc : fps.contains p = true
      · simp only [hc, if_true, Option.map_map]
        congr 1
        funext k; simp; omega
      · simp [hc]

/-- the slot a derivative is stored under: the position of the parameter in the model's list,
provided the function depends on it -/
theorem derivIndex_eq (mps fps : List N) (p : N) :
    derivIndex mps fps p = if fps.contains p then position mps p else none := by
  unfold derivIndex
  rw [derivIndex_go]
  by_cases hc : fps.contains p = true
  · simp only [hc, if_true]
    cases position mps p <;> simp
  · simp [hc]

theorem checkNames_ok_iff (hc : N → Bool) (l : List N) :
    checkNames hc l = .ok () ↔ namesOk hc l = true := by
  unfold checkNames namesOk
  by_cases he : l.isEmpty = true
  · simp [he]
  · simp only [he, Bool.false_eq_true, if_false, Bool.not_false, Bool.true_and]
    cases hf : l.find? hc with
    | some p =>
      have : l.any hc = true := by
        rw [List.any_eq_true]
        exact ⟨p, List.mem_of_find?_eq_some hf, List.find?_some hf⟩
      simp [this]
    | none =>
      have : l.any hc = false := by
        rw [Bool.eq_false_iff]
        intro h
        rw [List.any_eq_true] at h
        obtain ⟨x, hx, hcx⟩ := h
        have := List.find?_eq_none.mp hf x hx
        exact this hcx
      by_cases hu : allUnique l = true
      · simp [this, hu]
      · simp [this, hu]

/-- `wrap` on valid name lists -/
theorem wrap_eq (hc : N → Bool) (ar : F → Nat) (names fps : List N) (f : F) (im : List Nat)
    (hn : checkNames hc names = .ok ()) (hf : checkNames hc fps = .ok ())
    (him : indexMapping names fps = .ok im) :
    wrap hc ar names fps f =
      if fps.length ≠ ar f then .error (.incorrectParameterCount fps.length (ar f)) else .ok ⟨f, im⟩ := by
  simp [wrap, hn, hf, him]

end Varpro.MB
