import VarproModel.Core.LM
/-!
# Proofs/LMHom — the optimizer commutes with homomorphisms of least-squares problems

If `f : T → T'` maps the states of one `LeastSquaresProblem` to those of another such that
parameters, residuals and Jacobians are the same and `set_params` / `jacobian` commute with `f`,
then running the optimizer on `f t` gives the `f`-image of the final problem and *the same report*
as running it on `t`.  This is the bridge between a concrete problem (with its model's hidden state,
its schedule of parallel tasks, its weights …) and a small abstract specification of it.
-/
namespace Varpro.LM
set_option linter.unusedSectionVars false

variable {T T' K Vx Vr J LLS : Type}
variable [Add K] [Sub K] [Mul K] [Div K] [Neg K] [Zero K] [One K] [LT K] [LE K]
  [DecidableLT K] [DecidableLE K] [DecidableEq K]

/-- `f` is a homomorphism from the problem `P` to the problem `P'` -/
structure Hom (P : LSP T K Vx Vr J) (P' : LSP T' K Vx Vr J) (f : T → T') : Prop where
  params : ∀ t, P'.params (f t) = P.params t
  residuals : ∀ t, P'.residuals (f t) = P.residuals t
  setParams : ∀ t v, P'.setParams (f t) v = f (P.setParams t v)
  jacobian : ∀ t, P'.jacobian (f t) = (f (P.jacobian t).1, (P.jacobian t).2)

/-- transport the optimizer state along `f` -/
@[reducible] def St.map (f : T → T') (st : St T K Vx) : St T' K Vx :=
  { x := st.x, target := f st.target, evaluations := st.evaluations, objective := st.objective,
    delta := st.delta, lambda := st.lambda, xnorm := st.xnorm, gnorm := st.gnorm,
    residualsNorm := st.residualsNorm, diag := st.diag, firstTR := st.firstTR,
    firstUpdate := st.firstUpdate, maxFev := st.maxFev, m := st.m }

@[simp] theorem St.map_x (f : T → T') (st : St T K Vx) : (st.map f).x = st.x := rfl
@[simp] theorem St.map_evaluations (f : T → T') (st : St T K Vx) : (st.map f).evaluations = st.evaluations := rfl
@[simp] theorem St.map_objective (f : T → T') (st : St T K Vx) : (st.map f).objective = st.objective := rfl
@[simp] theorem St.map_delta (f : T → T') (st : St T K Vx) : (st.map f).delta = st.delta := rfl
@[simp] theorem St.map_lambda (f : T → T') (st : St T K Vx) : (st.map f).lambda = st.lambda := rfl
@[simp] theorem St.map_xnorm (f : T → T') (st : St T K Vx) : (st.map f).xnorm = st.xnorm := rfl
@[simp] theorem St.map_gnorm (f : T → T') (st : St T K Vx) : (st.map f).gnorm = st.gnorm := rfl
@[simp] theorem St.map_residualsNorm (f : T → T') (st : St T K Vx) : (st.map f).residualsNorm = st.residualsNorm := rfl
@[simp] theorem St.map_diag (f : T → T') (st : St T K Vx) : (st.map f).diag = st.diag := rfl
@[simp] theorem St.map_firstTR (f : T → T') (st : St T K Vx) : (st.map f).firstTR = st.firstTR := rfl
@[simp] theorem St.map_firstUpdate (f : T → T') (st : St T K Vx) : (st.map f).firstUpdate = st.firstUpdate := rfl
@[simp] theorem St.map_maxFev (f : T → T') (st : St T K Vx) : (st.map f).maxFev = st.maxFev := rfl
@[simp] theorem St.map_m (f : T → T') (st : St T K Vx) : (st.map f).m = st.m := rfl
@[simp] theorem St.map_target (f : T → T') (st : St T K Vx) : (st.map f).target = f st.target := rfl

/-- normalise projections of a transported state -/
macro "map_proj" : tactic => `(tactic| try dsimp only [St.map_target, St.map_x, St.map_evaluations, St.map_objective, St.map_delta, St.map_lambda, St.map_xnorm, St.map_gnorm, St.map_residualsNorm, St.map_diag, St.map_firstTR, St.map_firstUpdate, St.map_maxFev, St.map_m])

def TR.map (f : T → T') : TR T K Vx Vr → TR T' K Vx Vr
  | .accepted st r => .accepted (st.map f) r
  | .rejected st => .rejected (st.map f)
  | .stop st t => .stop (st.map f) t

def mapRes (f : T → T') (r : T × Report K) : T' × Report K := (f r.1, r.2)

theorem report_map (f : T → T') (st : St T K Vx) (t : Termination) :
    (st.map f).report t = mapRes f (st.report t) := rfl

variable {P : LSP T K Vx Vr J} {P' : LSP T' K Vx Vr J} {f : T → T'}

/-- `Except` results whose success value is an optimizer state -/
def mapE {ε : Type} (f : T → T') : Except ε (St T K Vx) → Except ε (St T' K Vx)
  | .error e => .error e
  | .ok s => .ok (s.map f)

theorem new_hom (h : Hom P P' f) (o : Ops K Vx Vr J LLS) (nm : Num K) (cfg : Config K) (t : T) :
    new P' o nm cfg (f t) =
      match new P o nm cfg t with
      | .error r => .error (mapRes f r)
      | .ok (st, r) => .ok (st.map f, r) := by
  unfold new
  rw [h.params, h.residuals]
  cases P.residuals t with
  | none => rfl
  | some r =>
    simp only
    split
    · rfl
    split
    · rfl
    split
    · rfl
    split <;> rfl

theorem updateDiag_map (o : Ops K Vx Vr J LLS) (nm : Num K) (cfg : Config K) (st : St T K Vx) (lls : LLS) :
    updateDiag o nm cfg (st.map f) lls = mapE f (updateDiag o nm cfg st lls) := by
  unfold updateDiag
  have : updateDiagNum o nm cfg (st.map f) lls = updateDiagNum o nm cfg st lls := rfl
  rw [this]
  cases updateDiagNum o nm cfg st lls with
  | error t => rfl
  | ok v => obtain ⟨g, d, xn, dl, fu⟩ := v; rfl

theorem resetParamsIf_map (h : Hom P P' f) (st : St T K Vx) (b : Bool) :
    resetParamsIf P' (st.map f) b = (resetParamsIf P st b).map f := by
  unfold resetParamsIf
  cases b with
  | false => rfl
  | true =>
    simp only [if_true]
    show ({ st.map f with target := P'.setParams (f st.target) st.x } : St T' K Vx) = _
    rw [h.setParams]

theorem trRegion_map (nm : Num K) (st : St T K Vx) (a b c d e : K) :
    trRegion nm (st.map f) a b c d e = (trRegion nm st a b c d e).map f := rfl

theorem trTests_map (nm : Num K) (cfg : Config K) (st : St T K Vx) (a b c : K) :
    trTests nm cfg (st.map f) a b c = trTests nm cfg st a b c := rfl

theorem trAccept_map (o : Ops K Vx Vr J LLS) (nm : Num K) (cfg : Config K) (st : St T K Vx) (tmp : Vx) (nn : K) :
    trAccept o nm cfg (st.map f) tmp nn = mapE f (trAccept o nm cfg st tmp nn) := by
  unfold trAccept
  have : trAcceptNum o nm cfg (st.map f).diag tmp = trAcceptNum o nm cfg st.diag tmp := rfl
  rw [this]
  cases trAcceptNum o nm cfg st.diag tmp <;> rfl

theorem trPre_map (st : St T K Vx) (param : K × K × Vx) :
    trPre (st.map f) param = (trPre st param).map f := by
  unfold trPre
  map_proj
  by_cases hc : (st.firstTR && decide (param.2.1 < st.delta)) = true
  · simp only [if_pos hc]
  · simp only [if_neg hc]

theorem trAfter_hom (h : Hom P P' f) (o : Ops K Vx Vr J LLS) (nm : Num K) (cfg : Config K)
    (st : St T K Vx) (tmp : Vx) (residuals : Vr) (pnorm predicted dirDer : K) :
    trAfter P' o nm cfg (st.map f) tmp residuals pnorm predicted dirDer =
      (trAfter P o nm cfg st tmp residuals pnorm predicted dirDer).map f := by
  unfold trAfter
  map_proj
  simp only [trRegion_map]
  generalize trRegion nm st pnorm
      (ratioOf (actualReduction nm st.residualsNorm (o.enormR residuals)) predicted)
      (actualReduction nm st.residualsNorm (o.enormR residuals)) dirDer (o.enormR residuals) = s1
  by_cases hg : nm.p0001 ≤ ratioOf (actualReduction nm st.residualsNorm (o.enormR residuals)) predicted
  · simp only [hg, decide_true, if_true, trAccept_map]
    cases trAccept o nm cfg s1 tmp (o.enormR residuals) with
    | error t => rfl
    | ok s2 =>
      simp only [mapE, trTests_map]
      cases trTests nm cfg s2 (actualReduction nm st.residualsNorm (o.enormR residuals)) predicted
          (ratioOf (actualReduction nm st.residualsNorm (o.enormR residuals)) predicted) with
      | none => rfl
      | some t =>
        simp only [Bool.not_true, resetParamsIf_map h]
        rfl
  · simp only [hg, decide_false, if_false, Bool.false_eq_true, trTests_map]
    cases trTests nm cfg s1 (actualReduction nm st.residualsNorm (o.enormR residuals)) predicted
        (ratioOf (actualReduction nm st.residualsNorm (o.enormR residuals)) predicted) with
    | none => rfl
    | some t =>
      simp only [Bool.not_false, resetParamsIf_map h]
      rfl

theorem tr_hom (h : Hom P P' f) (o : Ops K Vx Vr J LLS) (nm : Num K) (cfg : Config K)
    (st : St T K Vx) (lls : LLS) (param : K × K × Vx) :
    trustRegionIteration P' o nm cfg (st.map f) lls param =
      (trustRegionIteration P o nm cfg st lls param).map f := by
  unfold trustRegionIteration
  have hpre : trPrelude o nm ({ st.map f with lambda := param.1 } : St T' K Vx) lls param.2.1 param.2.2
      = trPrelude o nm ({ st with lambda := param.1 } : St T K Vx) lls param.2.1 param.2.2 := rfl
  rw [hpre]
  cases trPrelude o nm ({ st with lambda := param.1 } : St T K Vx) lls param.2.1 param.2.2 with
  | error t => rfl
  | ok pd =>
    obtain ⟨predicted, dirDer⟩ := pd
    rw [trPre_map]
    generalize trPre st param = s1
    map_proj
    simp only [h.setParams, h.residuals]
    cases P.residuals (P.setParams s1.target (o.subStep s1.x param.2.2)) with
    | none => rfl
    | some r =>
      dsimp only
      by_cases hlen : o.lenR r ≠ s1.m
      · simp only [if_pos hlen]; rfl
      · simp only [if_neg hlen]
        exact trAfter_hom h o nm cfg
          ({ s1 with target := P.setParams s1.target (o.subStep s1.x param.2.2),
                     evaluations := s1.evaluations + 1 }) _ r _ _ _

theorem run_hom (h : Hom P P' f) (o : Ops K Vx Vr J LLS) (nm : Num K) (cfg : Config K) :
    ∀ (fuel : Nat) (st : St T K Vx) (ph : Phase Vr LLS),
      run P' o nm cfg fuel (st.map f) ph = mapRes f (run P o nm cfg fuel st ph) := by
  intro fuel
  induction fuel with
  | zero => intro st ph; rfl
  | succ n ih =>
    intro st ph
    cases ph with
    | outer r =>
      simp only [run]
      map_proj
      rw [h.jacobian]
      cases hj : P.jacobian st.target with
      | mk t1 oj =>
        cases oj with
        | none => rfl
        | some jac =>
          map_proj
          by_cases hd : (decide (o.jacCols jac ≠ o.lenX st.x) || decide (o.jacRows jac ≠ st.m)) = true
          · simp only [if_pos hd]; rfl
          · simp only [if_neg hd]
            change (match updateDiag o nm cfg (({ st with target := t1 } : St T K Vx).map f) (o.mkLLS jac r) with
              | .error t => _ | .ok s => _) = _
            rw [updateDiag_map]
            cases updateDiag o nm cfg { st with target := t1 } (o.mkLLS jac r) with
            | error t => rfl
            | ok s => exact ih s _
    | inner lls =>
      cases hl : o.lmpar lls st.diag st.delta st.lambda with
      | mk param lls' =>
      simp only [run, hl]
      rw [tr_hom h]
      cases trustRegionIteration P o nm cfg st lls' param with
      | stop s t => rfl
      | accepted s r => exact ih s _
      | rejected s => exact ih s _

/-- **the optimizer commutes with problem homomorphisms** -/
theorem minimize_hom (h : Hom P P' f) (o : Ops K Vx Vr J LLS) (nm : Num K) (cfg : Config K) (t : T) :
    minimize P' o nm cfg (f t) = mapRes f (minimize P o nm cfg t) := by
  unfold minimize
  rw [new_hom h]
  cases new P o nm cfg t with
  | error r => rfl
  | ok sr =>
    obtain ⟨st, r⟩ := sr
    simp only
    exact run_hom h o nm cfg _ st _

/-- transport a fit result -/
def FitResult.map (f : T → T') (r : FitResult T K) : FitResult T' K :=
  { problem := f r.problem, report := r.report }

/-- `fit` commutes with problem homomorphisms: same decision, same report, image of the problem -/
theorem fit_hom (h : Hom P P' f) (o : Ops K Vx Vr J LLS) (nm : Num K) (cfg : Config K) (t : T) :
    fit P' o nm cfg (f t) =
      match fit P o nm cfg t with
      | .ok r => .ok (r.map f)
      | .error r => .error (r.map f) := by
  unfold fit
  rw [minimize_hom h]
  cases minimize P o nm cfg t with
  | mk problem report =>
    have hfr : finalReport P' (f problem) report = finalReport P problem report := by
      unfold finalReport
      rw [h.residuals]
    show (if (⟨f problem, finalReport P' (f problem) report⟩ : FitResult T' K).wasSuccessful then _ else _) = _
    rw [hfr]
    by_cases hs : (⟨problem, finalReport P problem report⟩ : FitResult T K).wasSuccessful = true
    · have hs' : (⟨f problem, finalReport P problem report⟩ : FitResult T' K).wasSuccessful = true := hs
      simp only [hs, hs', if_true]; rfl
    · have hs' : ¬ (⟨f problem, finalReport P problem report⟩ : FitResult T' K).wasSuccessful = true := hs
      simp only [hs, hs']; rfl

/-! ### restriction of a problem to an invariant set of states -/

/-- `Inv` is preserved by the two operations that change the problem -/
structure Preserved (P : LSP T K Vx Vr J) (Inv : T → Prop) : Prop where
  setParams : ∀ t v, Inv t → Inv (P.setParams t v)
  jacobian : ∀ t, Inv t → Inv (P.jacobian t).1

/-- the same problem on the states satisfying `Inv` -/
def subLSP (P : LSP T K Vx Vr J) (Inv : T → Prop) (h : Preserved P Inv) :
    LSP { t : T // Inv t } K Vx Vr J where
  setParams t v := ⟨P.setParams t.1 v, h.setParams t.1 v t.2⟩
  params t := P.params t.1
  residuals t := P.residuals t.1
  jacobian t := (⟨(P.jacobian t.1).1, h.jacobian t.1 t.2⟩, (P.jacobian t.1).2)

theorem subLSP_hom (P : LSP T K Vx Vr J) (Inv : T → Prop) (h : Preserved P Inv) :
    Hom (subLSP P Inv h) P Subtype.val :=
  ⟨fun _ => rfl, fun _ => rfl, fun _ _ => rfl, fun _ => rfl⟩

/-- an invariant of `set_params` and `jacobian` holds for the problem the optimizer hands back -/
theorem minimize_inv (P : LSP T K Vx Vr J) (Inv : T → Prop) (h : Preserved P Inv)
    (o : Ops K Vx Vr J LLS) (nm : Num K) (cfg : Config K) (t : T) (ht : Inv t) :
    Inv (minimize P o nm cfg t).1 := by
  have := minimize_hom (subLSP_hom P Inv h) o nm cfg ⟨t, ht⟩
  simp only at this
  rw [this]
  exact (minimize (subLSP P Inv h) o nm cfg ⟨t, ht⟩).1.2

end Varpro.LM
