import VarproModel.Core.LM
/-!
# Proofs/LMInv — which fields of the optimizer state the pieces of `trust_region_iteration` touch,
and the evaluation-budget / fuel invariant of `LM.run`
-/
namespace Varpro.LM
set_option linter.unusedSectionVars false

variable {T K Vx Vr J LLS : Type}
variable [Add K] [Sub K] [Mul K] [Div K] [Neg K] [Zero K] [One K] [LT K] [LE K]
  [DecidableLT K] [DecidableLE K] [DecidableEq K]

/-- the "bookkeeping" part of the state that the numerical updates never touch -/
structure SameBook (a b : St T K Vx) : Prop where
  x : a.x = b.x
  target : a.target = b.target
  evaluations : a.evaluations = b.evaluations
  objective : a.objective = b.objective
  residualsNorm : a.residualsNorm = b.residualsNorm
  maxFev : a.maxFev = b.maxFev
  m : a.m = b.m

theorem SameBook.refl (a : St T K Vx) : SameBook a a := ⟨rfl, rfl, rfl, rfl, rfl, rfl, rfl⟩

theorem SameBook.trans {a b c : St T K Vx} (h1 : SameBook a b) (h2 : SameBook b c) : SameBook a c :=
  ⟨h1.x.trans h2.x, h1.target.trans h2.target, h1.evaluations.trans h2.evaluations,
   h1.objective.trans h2.objective, h1.residualsNorm.trans h2.residualsNorm,
   h1.maxFev.trans h2.maxFev, h1.m.trans h2.m⟩

theorem trRegion_book (nm : Num K) (st : St T K Vx) (pn r a d nn : K) :
    SameBook (trRegion nm st pn r a d nn) st := ⟨rfl, rfl, rfl, rfl, rfl, rfl, rfl⟩

theorem updateDiag_book (o : Ops K Vx Vr J LLS) (nm : Num K) (cfg : Config K) (st st' : St T K Vx)
    (lls : LLS) (h : updateDiag o nm cfg st lls = .ok st') : SameBook st' st := by
  unfold updateDiag at h
  cases hn : updateDiagNum o nm cfg st lls with
  | error t => simp [hn] at h
  | ok v =>
    obtain ⟨g, d, xn, dl, fu⟩ := v
    simp only [hn] at h
    cases h
    exact ⟨rfl, rfl, rfl, rfl, rfl, rfl, rfl⟩

theorem updateDiag_error (o : Ops K Vx Vr J LLS) (nm : Num K) (cfg : Config K) (st : St T K Vx)
    (lls : LLS) (t : Termination) (h : updateDiag o nm cfg st lls = .error t) :
    t = .orthogonal ∨ ∃ w, t = .numerical w := by
  unfold updateDiag at h
  cases hn : updateDiagNum o nm cfg st lls with
  | ok v => obtain ⟨g, d, xn, dl, fu⟩ := v; simp [hn] at h
  | error t' =>
    simp only [hn] at h
    cases h
    unfold updateDiagNum at hn
    cases hm : o.maxAtBScaled lls st.residualsNorm with
    | none => simp [hm] at hn; exact Or.inr ⟨_, hn.symm⟩
    | some g =>
      simp only [hm] at hn
      by_cases hg : g ≤ cfg.gtol
      · simp [hg] at hn; exact Or.inl hn.symm
      · simp only [hg, if_false] at hn
        by_cases hf : st.firstUpdate = true
        · simp only [hf, if_true] at hn
          generalize (if cfg.scaleDiag = true then o.enormX (o.mulDiag (if cfg.scaleDiag = true then o.initDiag lls else st.diag) st.x) else o.enormX st.x) = xn at hn
          by_cases hfin : nm.isFinite xn = true
          · simp [hfin] at hn
          · simp [hfin] at hn; exact Or.inr ⟨_, hn.symm⟩
        · simp only [hf] at hn
          by_cases hsd : cfg.scaleDiag = true <;> simp [hsd] at hn

theorem trAccept_ok (o : Ops K Vx Vr J LLS) (nm : Num K) (cfg : Config K) (st st' : St T K Vx)
    (tmp : Vx) (nn : K) (h : trAccept o nm cfg st tmp nn = .ok st') :
    st'.x = tmp ∧ st'.target = st.target ∧ st'.evaluations = st.evaluations ∧
    st'.objective = some (nn * nn * nm.half) ∧ st'.residualsNorm = nn ∧ st'.maxFev = st.maxFev ∧
    st'.m = st.m := by
  unfold trAccept at h
  cases hn : trAcceptNum o nm cfg st.diag tmp with
  | error t => simp [hn] at h
  | ok xn =>
    simp only [hn] at h
    cases h
    exact ⟨rfl, rfl, rfl, rfl, rfl, rfl, rfl⟩

theorem trAccept_error (o : Ops K Vx Vr J LLS) (nm : Num K) (cfg : Config K) (st : St T K Vx)
    (tmp : Vx) (nn : K) (t : Termination) (h : trAccept o nm cfg st tmp nn = .error t) :
    t = .numerical "new x" := by
  unfold trAccept at h
  cases hn : trAcceptNum o nm cfg st.diag tmp with
  | ok xn => simp [hn] at h
  | error t' =>
    simp only [hn] at h
    cases h
    unfold trAcceptNum at hn
    simp only at hn
    generalize (if cfg.scaleDiag = true then o.enormX (o.mulDiag st.diag tmp) else o.enormX tmp) = xn at hn
    by_cases hfin : nm.isFinite xn = true
    · simp [hfin] at hn
    · simp [hfin] at hn; exact hn.symm

theorem trTests_some (nm : Num K) (cfg : Config K) (st : St T K Vx) (a p r : K) (t : Termination)
    (h : trTests nm cfg st a p r = some t) :
    t = .residualsZero ∨ (∃ f x, t = .converged f x) ∨ t = .lostPatience ∨
      ∃ w, t = .noImprovementPossible w := by
  unfold trTests at h
  split at h
  · cases h; exact Or.inl rfl
  · simp only at h
    split at h
    · cases h; exact Or.inr (Or.inl ⟨_, _, rfl⟩)
    · split at h
      · cases h; exact Or.inr (Or.inr (Or.inl rfl))
      · split at h
        · cases h; exact Or.inr (Or.inr (Or.inr ⟨_, rfl⟩))
        · split at h
          · cases h; exact Or.inr (Or.inr (Or.inr ⟨_, rfl⟩))
          · split at h
            · cases h; exact Or.inr (Or.inr (Or.inr ⟨_, rfl⟩))
            · cases h

theorem trTests_none_budget (nm : Num K) (cfg : Config K) (st : St T K Vx) (a p r : K)
    (h : trTests nm cfg st a p r = none) : st.evaluations < st.maxFev := by
  unfold trTests at h
  split at h
  · cases h
  · simp only at h
    split at h
    · cases h
    · split at h
      · cases h
      · rename_i hlt; omega

theorem trPrelude_error (o : Ops K Vx Vr J LLS) (nm : Num K) (st : St T K Vx) (lls : LLS) (pn : K)
    (step : Vx) (t : Termination) (h : trPrelude o nm st lls pn step = .error t) :
    ∃ w, t = .numerical w := by
  unfold trPrelude at h
  split at h
  · cases h; exact ⟨_, rfl⟩
  · simp only at h
    split at h
    · cases h; exact ⟨_, rfl⟩
    · split at h
      · cases h; exact ⟨_, rfl⟩
      · cases h

theorem trPre_book (st : St T K Vx) (param : K × K × Vx) : SameBook (trPre st param) st := by
  unfold trPre
  simp only
  split <;> exact ⟨rfl, rfl, rfl, rfl, rfl, rfl, rfl⟩

theorem resetParamsIf_fields (P : LSP T K Vx Vr J) (st : St T K Vx) (b : Bool) :
    (resetParamsIf P st b).evaluations = st.evaluations ∧ (resetParamsIf P st b).maxFev = st.maxFev ∧
    (resetParamsIf P st b).x = st.x ∧ (resetParamsIf P st b).objective = st.objective ∧
    (resetParamsIf P st b).residualsNorm = st.residualsNorm := by
  unfold resetParamsIf
  cases b <;> simp

/-- the part after the evaluation keeps the counter; it only continues below the budget -/
theorem trAfter_budget (P : LSP T K Vx Vr J) (o : Ops K Vx Vr J LLS) (nm : Num K) (cfg : Config K)
    (st : St T K Vx) (tmp : Vx) (r : Vr) (pn pred dd : K) :
    match trAfter P o nm cfg st tmp r pn pred dd with
    | .stop st' t => st'.maxFev = st.maxFev ∧ st'.evaluations = st.evaluations ∧ t ≠ .fuelExhausted
    | .accepted st' _ => st'.maxFev = st.maxFev ∧ st'.evaluations = st.evaluations ∧
        st'.evaluations < st'.maxFev
    | .rejected st' => st'.maxFev = st.maxFev ∧ st'.evaluations = st.evaluations ∧
        st'.evaluations < st'.maxFev := by
  unfold trAfter
  simp only
  generalize hs2 : trRegion nm st pn (ratioOf (actualReduction nm st.residualsNorm (o.enormR r)) pred)
    (actualReduction nm st.residualsNorm (o.enormR r)) dd (o.enormR r) = s2
  have hb2 : SameBook s2 st := by rw [← hs2]; exact trRegion_book _ _ _ _ _ _ _
  generalize hr : ratioOf (actualReduction nm st.residualsNorm (o.enormR r)) pred = ratio
  generalize ha : actualReduction nm st.residualsNorm (o.enormR r) = actual
  by_cases hg : nm.p0001 ≤ ratio
  · simp only [hg, decide_true, if_true, Bool.not_true]
    cases hacc : trAccept o nm cfg s2 tmp (o.enormR r) with
    | error t =>
      have := trAccept_error _ _ _ _ _ _ _ hacc
      subst this
      exact ⟨hb2.maxFev, hb2.evaluations, by simp⟩
    | ok s3 =>
      obtain ⟨_, _, h3, _, _, h6, _⟩ := trAccept_ok _ _ _ _ _ _ _ hacc
      simp only
      cases ht : trTests nm cfg s3 actual pred ratio with
      | some t =>
        simp only
        refine ⟨by simp [resetParamsIf, h6, hb2.maxFev], by simp [resetParamsIf, h3, hb2.evaluations], ?_⟩
        rcases trTests_some _ _ _ _ _ _ _ ht with rfl | ⟨_, _, rfl⟩ | rfl | ⟨_, rfl⟩ <;> simp
      | none =>
        have hlt := trTests_none_budget _ _ _ _ _ _ ht
        exact ⟨h6.trans hb2.maxFev, h3.trans hb2.evaluations, hlt⟩
  · simp only [hg, decide_false, Bool.false_eq_true, if_false, Bool.not_false]
    cases ht : trTests nm cfg s2 actual pred ratio with
    | some t =>
      simp only
      obtain ⟨e1, e2, _⟩ := resetParamsIf_fields P s2 true
      refine ⟨e2.trans hb2.maxFev, e1.trans hb2.evaluations, ?_⟩
      rcases trTests_some _ _ _ _ _ _ _ ht with rfl | ⟨_, _, rfl⟩ | rfl | ⟨_, rfl⟩ <;> simp
    | none =>
      have hlt := trTests_none_budget _ _ _ _ _ _ ht
      exact ⟨hb2.maxFev, hb2.evaluations, hlt⟩

/-- what one trust-region iteration does to the evaluation counter -/
theorem tr_budget (P : LSP T K Vx Vr J) (o : Ops K Vx Vr J LLS) (nm : Num K) (cfg : Config K)
    (st : St T K Vx) (lls : LLS) (param : K × K × Vx) :
    match trustRegionIteration P o nm cfg st lls param with
    | .stop st' t => st'.maxFev = st.maxFev ∧ st'.evaluations ≤ st.evaluations + 1 ∧ t ≠ .fuelExhausted
    | .accepted st' _ => st'.maxFev = st.maxFev ∧ st'.evaluations = st.evaluations + 1 ∧
        st'.evaluations < st'.maxFev
    | .rejected st' => st'.maxFev = st.maxFev ∧ st'.evaluations = st.evaluations + 1 ∧
        st'.evaluations < st'.maxFev := by
  unfold trustRegionIteration
  cases hp : trPrelude o nm { st with lambda := param.1 } lls param.2.1 param.2.2 with
  | error t =>
    obtain ⟨w, rfl⟩ := trPrelude_error _ _ _ _ _ _ _ hp
    exact ⟨rfl, by simp, by simp⟩
  | ok pd =>
    obtain ⟨predicted, dirDer⟩ := pd
    simp only
    have hb := trPre_book st param
    generalize trPre st param = s0 at hb
    cases hres : P.residuals (P.setParams s0.target (o.subStep s0.x param.2.2)) with
    | none => exact ⟨hb.maxFev, by simp [hb.evaluations], by simp⟩
    | some residuals =>
      simp only
      by_cases hlen : o.lenR residuals = s0.m
      case neg =>
        simp only [ne_eq, hlen, not_false_eq_true, if_true]
        exact ⟨hb.maxFev, by simp [hb.evaluations], by simp⟩
      case pos =>
        simp only [ne_eq, hlen, not_true_eq_false, if_false]
        have := trAfter_budget P o nm cfg
          { s0 with target := P.setParams s0.target (o.subStep s0.x param.2.2), evaluations := s0.evaluations + 1 }
          (o.subStep s0.x param.2.2) residuals param.2.1 predicted dirDer
        revert this
        cases trAfter P o nm cfg
          { s0 with target := P.setParams s0.target (o.subStep s0.x param.2.2), evaluations := s0.evaluations + 1 }
          (o.subStep s0.x param.2.2) residuals param.2.1 predicted dirDer with
        | stop s t =>
          intro h; exact ⟨h.1.trans hb.maxFev, by rw [h.2.1]; simp [hb.evaluations], h.2.2⟩
        | accepted s r =>
          intro h; exact ⟨h.1.trans hb.maxFev, by rw [h.2.1]; simp [hb.evaluations], h.2.2⟩
        | rejected s =>
          intro h; exact ⟨h.1.trans hb.maxFev, by rw [h.2.1]; simp [hb.evaluations], h.2.2⟩

/-- **the budget / fuel invariant of the main loop**: started with enough fuel, `run` never runs
out of it, and the number of evaluations never exceeds `max(max_fev, evaluations at entry + 1)`. -/
theorem run_budget (P : LSP T K Vx Vr J) (o : Ops K Vx Vr J LLS) (nm : Num K) (cfg : Config K) :
    ∀ (fuel : Nat) (st : St T K Vx) (ph : Phase Vr LLS),
      2 * (st.maxFev - st.evaluations) + (match ph with | .outer _ => 1 | .inner _ => 0) < fuel →
      (run P o nm cfg fuel st ph).2.termination ≠ .fuelExhausted ∧
      (run P o nm cfg fuel st ph).2.evaluations ≤ max st.maxFev (st.evaluations + 1) := by
  intro fuel
  induction fuel with
  | zero => intro st ph h; omega
  | succ f ih =>
    intro st ph hfuel
    cases ph with
    | outer residuals =>
      simp only [run]
      cases hj : P.jacobian st.target with
      | mk t1 oj =>
        cases oj with
        | none => simp [St.report]; omega
        | some jac =>
          simp only
          split
          · simp [St.report]; omega
          · cases hu : updateDiag o nm cfg { st with target := t1 } (o.mkLLS jac residuals) with
            | error t =>
              simp only [St.report]
              rcases updateDiag_error _ _ _ _ _ _ hu with rfl | ⟨w, rfl⟩ <;> simp <;> omega
            | ok st' =>
              simp only
              have hb := updateDiag_book _ _ _ _ _ _ hu
              have he : st'.evaluations = st.evaluations := hb.evaluations
              have hm : st'.maxFev = st.maxFev := hb.maxFev
              have := ih st' (.inner (o.mkLLS jac residuals)) (by simp only [he, hm]; simp only at hfuel; omega)
              rw [he, hm] at this
              exact this
    | inner lls =>
      cases hl : o.lmpar lls st.diag st.delta st.lambda with
      | mk param lls' =>
        simp only [run, hl]
        have hb := tr_budget P o nm cfg st lls' param
        revert hb
        cases trustRegionIteration P o nm cfg st lls' param with
        | stop s t =>
          intro hb
          simp only [St.report]
          exact ⟨hb.2.2, by have := hb.2.1; omega⟩
        | accepted s r =>
          intro hb
          simp only
          obtain ⟨hm, he, hlt⟩ := hb
          have := ih s (.outer r) (by simp only at hfuel ⊢; omega)
          refine ⟨this.1, ?_⟩
          have h2 := this.2
          rw [hm, he] at h2
          rw [hm] at hlt
          omega
        | rejected s =>
          intro hb
          simp only
          obtain ⟨hm, he, hlt⟩ := hb
          have := ih s (.inner lls') (by simp only at hfuel ⊢; omega)
          refine ⟨this.1, ?_⟩
          have h2 := this.2
          rw [hm, he] at h2
          rw [hm] at hlt
          omega

theorem new_ok (P : LSP T K Vx Vr J) (o : Ops K Vx Vr J LLS) (nm : Num K) (cfg : Config K) (t : T)
    (st : St T K Vx) (r : Vr) (h : new P o nm cfg t = .ok (st, r)) :
    st.evaluations = 1 ∧ st.maxFev = cfg.patience * (o.lenX (P.params t) + 1) ∧ st.target = t ∧
    st.x = P.params t ∧ P.residuals t = some r ∧ st.residualsNorm = o.enormR r ∧
    st.objective = some (o.enormR r * o.enormR r * nm.half) ∧ ¬ (o.enormR r ≤ nm.minPositive) := by
  unfold new at h
  cases hr : P.residuals t with
  | none => simp [hr] at h
  | some res =>
    simp only [hr] at h
    by_cases h1 : o.lenX (P.params t) = 0
    · simp [h1] at h
    · simp only [h1, if_false] at h
      by_cases h2 : o.lenR res = 0
      · simp [h2] at h
      · simp only [h2, if_false] at h
        by_cases h3 : nm.isFinite (o.enormR res) = true
        · simp only [h3, Bool.not_true, Bool.false_eq_true, if_false] at h
          by_cases h4 : o.enormR res ≤ nm.minPositive
          · simp [h4] at h
          · simp only [h4, if_false] at h
            have := Except.ok.inj h
            simp only [Prod.mk.injEq] at this
            obtain ⟨rfl, rfl⟩ := this
            exact ⟨rfl, rfl, rfl, rfl, rfl, rfl, rfl, h4⟩
        · simp [h3] at h

theorem new_error (P : LSP T K Vx Vr J) (o : Ops K Vx Vr J LLS) (nm : Num K) (cfg : Config K) (t : T)
    (rep : T × Report K) (h : new P o nm cfg t = .error rep) :
    rep.1 = t ∧ rep.2.evaluations = 1 ∧ rep.2.termination ≠ .fuelExhausted ∧
    (∀ res, P.residuals t = some res → rep.2.objective = some (o.enormR res * o.enormR res * nm.half)) ∧
    (rep.2.termination.wasSuccessful = true → ∃ res, P.residuals t = some res) := by
  unfold new at h
  cases hr : P.residuals t with
  | none =>
    simp only [hr] at h; cases h
    refine ⟨rfl, rfl, by simp, ?_, ?_⟩
    · intro res hres; cases hres
    · intro hs; cases hs
  | some res =>
    simp only [hr] at h
    have hobj : ∀ res', some res = some res' →
        some (o.enormR res * o.enormR res * nm.half) = some (o.enormR res' * o.enormR res' * nm.half) := by
      intro res' he; cases he; rfl
    by_cases h1 : o.lenX (P.params t) = 0
    · simp only [h1, if_true] at h; cases h
      exact ⟨rfl, rfl, by simp, hobj, fun _ => ⟨res, rfl⟩⟩
    · simp only [h1, if_false] at h
      by_cases h2 : o.lenR res = 0
      · simp only [h2, if_true] at h; cases h
        exact ⟨rfl, rfl, by simp, hobj, fun _ => ⟨res, rfl⟩⟩
      · simp only [h2, if_false] at h
        by_cases h3 : nm.isFinite (o.enormR res) = true
        · simp only [h3, Bool.not_true, Bool.false_eq_true, if_false] at h
          by_cases h4 : o.enormR res ≤ nm.minPositive
          · simp only [h4, if_true] at h; cases h
            exact ⟨rfl, rfl, by simp, hobj, fun _ => ⟨res, rfl⟩⟩
          · simp [h4] at h
        · simp only [h3, Bool.not_false, if_true] at h; cases h
          exact ⟨rfl, rfl, by simp, hobj, fun _ => ⟨res, rfl⟩⟩

/-- **totality and budget of `minimize`**: the fuel never runs out, and the reported number of
evaluations is at most `max(patience·(P+1), 2)`. -/
theorem minimize_budget (P : LSP T K Vx Vr J) (o : Ops K Vx Vr J LLS) (nm : Num K) (cfg : Config K)
    (t : T) :
    (minimize P o nm cfg t).2.termination ≠ .fuelExhausted ∧
    (minimize P o nm cfg t).2.evaluations ≤ max (cfg.patience * (o.lenX (P.params t) + 1)) 2 := by
  unfold minimize
  cases hn : new P o nm cfg t with
  | error rep =>
    obtain ⟨_, h2, h3, _, _⟩ := new_error P o nm cfg t rep hn
    exact ⟨h3, by rw [h2]; omega⟩
  | ok sr =>
    obtain ⟨st, r⟩ := sr
    obtain ⟨he, hm, _⟩ := new_ok P o nm cfg t st r hn
    simp only
    have := run_budget P o nm cfg (2 * st.maxFev + 4) st (.outer r) (by simp only; omega)
    refine ⟨this.1, ?_⟩
    have h2 := this.2
    rw [he] at h2
    rw [← hm]
    exact h2

end Varpro.LM
