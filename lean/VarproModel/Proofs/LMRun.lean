import VarproModel.Proofs.LMInv
/-!
# Proofs/LMRun — an induction principle for `LM.run`: phase invariants ⇒ property of the result
-/
namespace Varpro.LM
set_option linter.unusedSectionVars false

variable {T K Vx Vr J LLS : Type}
variable [Add K] [Sub K] [Mul K] [Div K] [Neg K] [Zero K] [One K] [LT K] [LE K]
  [DecidableLT K] [DecidableLE K] [DecidableEq K]

/-- If `IO` holds whenever the outer loop is entered, `II` whenever the inner loop is entered, each
is re-established by one step of the respective loop, and every way of stopping satisfies `F`, then
the result of `run` satisfies `F`. -/
theorem run_induct (P : LSP T K Vx Vr J) (o : Ops K Vx Vr J LLS) (nm : Num K) (cfg : Config K)
    (IO : St T K Vx → Vr → Prop) (II : St T K Vx → Prop) (F : T × Report K → Prop)
    (h_fuel : ∀ (st : St T K Vx) (ph : Phase Vr LLS),
        (match ph with | .outer r => IO st r | .inner _ => II st) → F (st.report .fuelExhausted))
    (h_jacfail : ∀ st r t1, IO st r → P.jacobian st.target = (t1, none) →
        F (({ st with target := t1 } : St T K Vx).report (.user "jacobian")))
    (h_dims : ∀ st r t1 jac, IO st r → P.jacobian st.target = (t1, some jac) →
        F (({ st with target := t1 } : St T K Vx).report (.wrongDimensions "jacobian")))
    (h_diag_err : ∀ st r t1 jac t, IO st r → P.jacobian st.target = (t1, some jac) →
        updateDiag o nm cfg { st with target := t1 } (o.mkLLS jac r) = .error t →
        F (({ st with target := t1 } : St T K Vx).report t))
    (h_diag_ok : ∀ st r t1 jac st', IO st r → P.jacobian st.target = (t1, some jac) →
        updateDiag o nm cfg { st with target := t1 } (o.mkLLS jac r) = .ok st' → II st')
    (h_inner : ∀ st lls param, II st →
        match trustRegionIteration P o nm cfg st lls param with
        | .stop st' t => F (st'.report t)
        | .accepted st' r => IO st' r
        | .rejected st' => II st') :
    ∀ (fuel : Nat) (st : St T K Vx) (ph : Phase Vr LLS),
      (match ph with | .outer r => IO st r | .inner _ => II st) → F (run P o nm cfg fuel st ph) := by
  intro fuel
  induction fuel with
  | zero => intro st ph h; exact h_fuel st ph h
  | succ f ih =>
    intro st ph hinv
    cases ph with
    | outer r =>
      simp only at hinv
      simp only [run]
      cases hj : P.jacobian st.target with
      | mk t1 oj =>
        cases oj with
        | none => exact h_jacfail st r t1 hinv hj
        | some jac =>
          simp only
          split
          · exact h_dims st r t1 jac hinv hj
          · cases hu : updateDiag o nm cfg { st with target := t1 } (o.mkLLS jac r) with
            | error t => exact h_diag_err st r t1 jac t hinv hj hu
            | ok st' => exact ih st' (.inner (o.mkLLS jac r)) (h_diag_ok st r t1 jac st' hinv hj hu)
    | inner lls =>
      simp only at hinv
      cases hl : o.lmpar lls st.diag st.delta st.lambda with
      | mk param lls' =>
        simp only [run, hl]
        have hstep := h_inner st lls' param hinv
        revert hstep
        cases trustRegionIteration P o nm cfg st lls' param with
        | stop s t => intro h; exact h
        | accepted s r => intro h; exact ih s (.outer r) h
        | rejected s => intro h; exact ih s (.inner lls') h

end Varpro.LM
