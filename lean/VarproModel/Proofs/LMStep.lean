import VarproModel.Proofs.LMRun
/-!
# Proofs/LMStep — what one `trust_region_iteration` does to parameters, target, residual norm and
reported objective (purely structural: no assumption on the numerical oracles)
-/
namespace Varpro.LM
set_option linter.unusedSectionVars false

variable {T K Vx Vr J LLS : Type}
variable [Add K] [Sub K] [Mul K] [Div K] [Neg K] [Zero K] [One K] [LT K] [LE K]
  [DecidableLT K] [DecidableLE K] [DecidableEq K]

/-- the state after an accepted trial `tmp` with residuals `r` -/
structure Updated (P : LSP T K Vx Vr J) (o : Ops K Vx Vr J LLS) (nm : Num K) (s s' : St T K Vx)
    (tmp : Vx) (r : Vr) (pred : K) : Prop where
  res : P.residuals (P.setParams s.target tmp) = some r
  target : s'.target = P.setParams s.target tmp
  x : s'.x = tmp
  rnorm : s'.residualsNorm = o.enormR r
  obj : s'.objective = some (o.enormR r * o.enormR r * nm.half)
  acc : nm.p0001 ≤ ratioOf (actualReduction nm s.residualsNorm (o.enormR r)) pred

/-- facts about the part after the evaluation; `s` is the state right after the trial was applied
(`s.target = setParams _ tmp` already), `r` the residuals obtained -/
theorem trAfter_spec (P : LSP T K Vx Vr J) (o : Ops K Vx Vr J LLS) (nm : Num K) (cfg : Config K)
    (s : St T K Vx) (tmp : Vx) (r : Vr) (pn pred dd : K) :
    match trAfter P o nm cfg s tmp r pn pred dd with
    | .accepted s' r' => r' = r ∧ s'.target = s.target ∧ s'.x = tmp ∧ s'.residualsNorm = o.enormR r ∧
        s'.objective = some (o.enormR r * o.enormR r * nm.half) ∧
        nm.p0001 ≤ ratioOf (actualReduction nm s.residualsNorm (o.enormR r)) pred ∧
        ¬ (s'.residualsNorm ≤ nm.minPositive)
    | .rejected s' => s'.target = s.target ∧ s'.x = s.x ∧ s'.residualsNorm = s.residualsNorm ∧
        s'.objective = s.objective
    | .stop s' t =>
        (s'.objective = s.objective ∧ s'.residualsNorm = s.residualsNorm ∧
          (t.wasSuccessful = true → s'.x = s.x ∧ s'.target = P.setParams s.target s.x)) ∨
        (s'.target = s.target ∧ s'.x = tmp ∧ s'.residualsNorm = o.enormR r ∧
          s'.objective = some (o.enormR r * o.enormR r * nm.half) ∧
          nm.p0001 ≤ ratioOf (actualReduction nm s.residualsNorm (o.enormR r)) pred) := by
  unfold trAfter
  simp only
  generalize hs2 : trRegion nm s pn (ratioOf (actualReduction nm s.residualsNorm (o.enormR r)) pred)
    (actualReduction nm s.residualsNorm (o.enormR r)) dd (o.enormR r) = s2
  have hb2 : SameBook s2 s := by rw [← hs2]; exact trRegion_book _ _ _ _ _ _ _
  generalize hr : ratioOf (actualReduction nm s.residualsNorm (o.enormR r)) pred = ratio
  generalize ha : actualReduction nm s.residualsNorm (o.enormR r) = actual
  by_cases hg : nm.p0001 ≤ ratio
  · simp only [hg, decide_true, if_true, Bool.not_true]
    cases hacc : trAccept o nm cfg s2 tmp (o.enormR r) with
    | error t =>
      have := trAccept_error _ _ _ _ _ _ _ hacc
      subst this
      left
      exact ⟨hb2.objective, hb2.residualsNorm, by intro h; cases h⟩
    | ok s3 =>
      obtain ⟨h1, h2, _, h4, h5, _, _⟩ := trAccept_ok _ _ _ _ _ _ _ hacc
      simp only
      cases ht : trTests nm cfg s3 actual pred ratio with
      | some t =>
        simp only
        right
        simp only [resetParamsIf, Bool.false_eq_true, if_false]
        exact ⟨h2.trans hb2.target, h1, h5, h4, trivial⟩
      | none =>
        simp only
        refine ⟨trivial, h2.trans hb2.target, h1, h5, h4, trivial, ?_⟩
        unfold trTests at ht
        split at ht
        · cases ht
        · assumption
  · simp only [hg, decide_false, Bool.false_eq_true, if_false, Bool.not_false]
    cases ht : trTests nm cfg s2 actual pred ratio with
    | some t =>
      simp only
      left
      obtain ⟨_, _, e3, e4, e5⟩ := resetParamsIf_fields P s2 true
      refine ⟨e4.trans hb2.objective, e5.trans hb2.residualsNorm, ?_⟩
      intro _
      refine ⟨e3.trans hb2.x, ?_⟩
      simp only [resetParamsIf, if_true, hb2.target, hb2.x]
    | none =>
      exact ⟨hb2.target, hb2.x, hb2.residualsNorm, hb2.objective⟩

/-- the predicted reduction delivered by the prelude is the expression `a² + b²/½` -/
theorem trPrelude_ok (o : Ops K Vx Vr J LLS) (nm : Num K) (st : St T K Vx) (lls : LLS) (pn : K)
    (step : Vx) (pred dd : K) (h : trPrelude o nm st lls pn step = .ok (pred, dd)) :
    ∃ a b : K, pred = a * a + b * b / nm.half := by
  unfold trPrelude at h
  by_cases h1 : nm.isFinite pn = true
  · simp only [h1, Bool.not_true, Bool.false_eq_true, if_false] at h
    generalize (o.axNorm lls step / st.residualsNorm) = a at h
    by_cases h2 : nm.isFinite (a * a) = true
    · simp only [h2, Bool.not_true, Bool.false_eq_true, if_false] at h
      generalize (nm.sqrt st.lambda * pn / st.residualsNorm) = b at h
      by_cases h3 : nm.isFinite (b * b) = true
      · simp only [h3, Bool.not_true, Bool.false_eq_true, if_false] at h
        have := Except.ok.inj h
        simp only [Prod.mk.injEq] at this
        exact ⟨a, b, this.1.symm⟩
      · simp [h3] at h
    · simp [h2] at h
  · simp [h1] at h

/-- one whole iteration, relative to the state `st` before it -/
theorem tr_spec (P : LSP T K Vx Vr J) (o : Ops K Vx Vr J LLS) (nm : Num K) (cfg : Config K)
    (st : St T K Vx) (lls : LLS) (param : K × K × Vx) :
    let tmp := o.subStep st.x param.2.2
    match trustRegionIteration P o nm cfg st lls param with
    | .accepted s' r => ∃ pred a b, pred = a * a + b * b / nm.half ∧ Updated P o nm st s' tmp r pred ∧
        ¬ (s'.residualsNorm ≤ nm.minPositive)
    | .rejected s' => s'.target = P.setParams st.target tmp ∧ s'.x = st.x ∧
        s'.residualsNorm = st.residualsNorm ∧ s'.objective = st.objective
    | .stop s' t =>
        (s'.objective = st.objective ∧ s'.residualsNorm = st.residualsNorm ∧
          (t.wasSuccessful = true → s'.x = st.x ∧
            s'.target = P.setParams (P.setParams st.target tmp) st.x)) ∨
        (∃ r pred a b, pred = a * a + b * b / nm.half ∧ Updated P o nm st s' tmp r pred) := by
  intro tmp
  unfold trustRegionIteration
  cases hp : trPrelude o nm { st with lambda := param.1 } lls param.2.1 param.2.2 with
  | error t =>
    obtain ⟨w, rfl⟩ := trPrelude_error _ _ _ _ _ _ _ hp
    left
    exact ⟨rfl, rfl, by intro h; cases h⟩
  | ok pd =>
    obtain ⟨predicted, dirDer⟩ := pd
    obtain ⟨a, b, hab⟩ := trPrelude_ok _ _ _ _ _ _ _ _ hp
    simp only
    have hb := trPre_book st param
    generalize trPre st param = s0 at hb
    have hx : o.subStep s0.x param.2.2 = tmp := by rw [hb.x]
    rw [hx]
    cases hres : P.residuals (P.setParams s0.target tmp) with
    | none =>
      left
      exact ⟨hb.objective, hb.residualsNorm, by intro h; cases h⟩
    | some residuals =>
      simp only
      by_cases hlen : o.lenR residuals = s0.m
      case neg =>
        simp only [ne_eq, hlen, not_false_eq_true, if_true]
        left
        exact ⟨hb.objective, hb.residualsNorm, by intro h; cases h⟩
      case pos =>
        simp only [ne_eq, hlen, not_true_eq_false, if_false]
        have hsp := trAfter_spec P o nm cfg
          { s0 with target := P.setParams s0.target tmp, evaluations := s0.evaluations + 1 }
          tmp residuals param.2.1 predicted dirDer
        revert hsp
        have hres' : P.residuals (P.setParams st.target tmp) = some residuals := by
          rw [← hb.target]; exact hres
        cases trAfter P o nm cfg
          { s0 with target := P.setParams s0.target tmp, evaluations := s0.evaluations + 1 }
          tmp residuals param.2.1 predicted dirDer with
        | accepted s' r' =>
          intro h
          obtain ⟨rfl, h1, h2, h3, h4, h5, h6⟩ := h
          refine ⟨predicted, a, b, hab, ⟨hres', ?_, h2, h3, h4, ?_⟩, h6⟩
          · rw [h1]; simp [hb.target]
          · simpa [hb.residualsNorm] using h5
        | rejected s' =>
          intro h
          obtain ⟨h1, h2, h3, h4⟩ := h
          refine ⟨?_, ?_, ?_, ?_⟩
          · rw [h1]; simp [hb.target]
          · rw [h2]; exact hb.x
          · rw [h3]; exact hb.residualsNorm
          · rw [h4]; exact hb.objective
        | stop s' t =>
          intro h
          rcases h with ⟨h1, h2, h3⟩ | ⟨h1, h2, h3, h4, h5⟩
          · left
            refine ⟨h1.trans hb.objective, h2.trans hb.residualsNorm, ?_⟩
            intro hs
            obtain ⟨e1, e2⟩ := h3 hs
            exact ⟨e1.trans hb.x, by rw [e2]; simp [hb.target, hb.x]⟩
          · right
            refine ⟨residuals, predicted, a, b, hab, ⟨hres', ?_, h2, h3, h4, ?_⟩⟩
            · rw [h1]; simp [hb.target]
            · simpa [hb.residualsNorm] using h5

end Varpro.LM
