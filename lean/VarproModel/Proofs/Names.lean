import VarproModel.Core.ModelSpec
/-!
# Proofs/Names — lemmas about `position`, `allUnique`, `indexMapping`, `paramByName`
-/
namespace Varpro.MB
variable {N K : Type} [DecidableEq N]

theorem position_some {l : List N} {v : N} {i : Nat} (h : position l v = some i) :
    ∃ hi : i < l.length, l[i] = v ∧ ∀ j (hj : j < i), l[j]'(by omega) ≠ v := by
  induction l generalizing i with
  | nil => simp [position] at h
  | cons a as ih =>
    simp only [position] at h
    by_cases hav : a = v
    · simp [hav] at h; subst h
      exact ⟨by simp, by simp [hav], by intro j hj; omega⟩
    · simp only [hav, if_false, Option.map_eq_some_iff] at h
      obtain ⟨k, hk, rfl⟩ := h
      obtain ⟨hi, hv, hm⟩ := ih hk
      refine ⟨by simp; omega, by simpa using hv, ?_⟩
      intro j hj
      cases j with
      | zero => simpa using hav
      | succ j' => simpa using hm j' (by omega)

theorem position_none {l : List N} {v : N} (h : position l v = none) : v ∉ l := by
  induction l with
  | nil => simp
  | cons a as ih =>
    simp only [position] at h
    by_cases hav : a = v
    · simp [hav] at h
    · simp only [hav, if_false, Option.map_eq_none_iff] at h
      simp [ih h, Ne.symm hav]

theorem position_of_mem {l : List N} {v : N} (h : v ∈ l) : ∃ i, position l v = some i := by
  cases hp : position l v with
  | none => exact absurd h (position_none hp)
  | some i => exact ⟨i, rfl⟩

theorem allUnique_iff_nodup (l : List N) : allUnique l = true ↔ l.Nodup := by
  induction l with
  | nil => simp [allUnique]
  | cons a as ih =>
    simp [allUnique, ih, List.nodup_cons]

/-- on a duplicate-free list `position` is the inverse of indexing -/
theorem position_getElem {l : List N} (hn : l.Nodup) (i : Nat) (hi : i < l.length) :
    position l l[i] = some i := by
  induction l generalizing i with
  | nil => simp at hi
  | cons a as ih =>
    rw [List.nodup_cons] at hn
    cases i with
    | zero => simp [position]
    | succ j =>
      have hj : j < as.length := by simpa using hi
      have hne : a ≠ as[j] := by
        intro h; exact hn.1 (h ▸ List.getElem_mem hj)
      simp [position, hne, ih hn.2 j hj]

theorem indexMapping_ok {full sub : List N} {im : List Nat} (h : indexMapping full sub = .ok im) :
    sub.map (position full) = im.map some := by
  induction sub generalizing im with
  | nil => simp [indexMapping] at h; subst h; rfl
  | cons v vs ih =>
    simp only [indexMapping] at h
    cases hp : position full v with
    | none => simp [hp] at h
    | some i =>
      simp only [hp] at h
      cases hr : indexMapping full vs with
      | error e => simp [hr] at h
      | ok is =>
        simp only [hr] at h
        cases h
        simp [hp, ih hr]

theorem indexMapping_error {full sub : List N} {e : BErr N} (h : indexMapping full sub = .error e) :
    ∃ v ∈ sub, v ∉ full ∧ e = .functionParameterNotInModel v := by
  induction sub with
  | nil => simp [indexMapping] at h
  | cons v vs ih =>
    simp only [indexMapping] at h
    cases hp : position full v with
    | none =>
      simp only [hp] at h; cases h
      exact ⟨v, by simp, position_none hp, rfl⟩
    | some i =>
      simp only [hp] at h
      cases hr : indexMapping full vs with
      | ok is => simp [hr] at h
      | error e' =>
        simp only [hr] at h; cases h
        obtain ⟨w, hw, hnf, he⟩ := ih hr
        exact ⟨w, by simp [hw], hnf, he⟩

theorem indexMapping_total {full sub : List N} (h : ∀ v ∈ sub, v ∈ full) :
    ∃ im, indexMapping full sub = .ok im := by
  cases hr : indexMapping full sub with
  | ok im => exact ⟨im, rfl⟩
  | error e =>
    obtain ⟨v, hv, hnf, _⟩ := indexMapping_error hr
    exact absurd (h v hv) hnf

theorem indexMapping_length {full sub : List N} {im : List Nat} (h : indexMapping full sub = .ok im) :
    im.length = sub.length := by
  have := congrArg List.length (indexMapping_ok h)
  simpa using this.symm

theorem indexMapping_lt {full sub : List N} {im : List Nat} (h : indexMapping full sub = .ok im) :
    ∀ i ∈ im, i < full.length := by
  intro i hi
  have hm := indexMapping_ok h
  have : some i ∈ im.map some := List.mem_map.mpr ⟨i, hi, rfl⟩
  rw [← hm] at this
  obtain ⟨v, _, hv⟩ := List.mem_map.mp this
  exact (position_some hv).1

/-- selecting by the index mapping = looking every function parameter up **by name** -/
theorem mapM_index_eq_byName {names fps : List N} {im : List Nat} (params : List K)
    (h : indexMapping names fps = .ok im) :
    im.mapM (fun i => params[i]?) = fps.mapM (paramByName names params) := by
  induction fps generalizing im with
  | nil => simp [indexMapping] at h; subst h; rfl
  | cons v vs ih =>
    simp only [indexMapping] at h
    cases hp : position names v with
    | none => simp [hp] at h
    | some i =>
      simp only [hp] at h
      cases hr : indexMapping names vs with
      | error e => simp [hr] at h
      | ok is =>
        simp only [hr] at h
        cases h
        simp [List.mapM_cons, paramByName, hp, ih hr]

end Varpro.MB
