import VarproModel.Proofs.ToMatrix
import Mathlib.LinearAlgebra.Matrix.DotProduct
import Mathlib.Algebra.Order.Field.Basic
import Mathlib.Algebra.Order.BigOperators.Ring.Finset
import Mathlib.Tactic.Ring
import Mathlib.Tactic.FieldSimp
import Mathlib.Tactic.Linarith
import Mathlib.Tactic.Abel
/-!
# Proofs/Solve — algebra of the truncated SVD solve (`solveTruncVal`) over an ordered field
-/
namespace Varpro
open Matrix

variable {K : Type} [Field K] [LinearOrder K] [IsStrictOrderedRing K] {n m s : Nat}
set_option linter.unusedSectionVars false

/-- what is assumed of the external SVD routine for the matrix it was applied to -/
structure SVDSpec (A : Mat n m K) (d : SVD n m K) : Prop where
  recompose : A.toM = d.U.toM * Matrix.diagonal (fun i => d.sigma[i]) * d.Vt.toM
  uorth : d.U.toMᵀ * d.U.toM = 1
  vorth : d.Vt.toM * d.Vt.toMᵀ = 1
  nonneg : ∀ i : Fin d.r, 0 ≤ d.sigma[i]

/-- kept singular values (`σ_i > ε`), others replaced by zero -/
def keepσ (d : SVD n m K) (eps : K) : Fin d.r → K :=
  fun i => if eps < d.sigma[i] then d.sigma[i] else 0

/-- inverses of the kept singular values, zero for the others -/
def invσ (d : SVD n m K) (eps : K) : Fin d.r → K :=
  fun i => if eps < d.sigma[i] then (d.sigma[i])⁻¹ else 0

/-- the truncated matrix `A_ε = U (Σ∘keep) Vᵗ` -/
def Aeps (d : SVD n m K) (eps : K) : Matrix (Fin n) (Fin m) K :=
  d.U.toM * Matrix.diagonal (keepσ d eps) * d.Vt.toM

theorem solveTrunc_ok (d : SVD n m K) (B : Mat n s K) (eps : K) (h : 0 ≤ eps) :
    solveTrunc d B eps = .ok (solveTruncVal d B eps) := by
  simp [solveTrunc, not_lt.mpr h]

theorem solveTrunc_neg (d : SVD n m K) (B : Mat n s K) (eps : K) (h : eps < 0) :
    ∃ e, solveTrunc d B eps = .error e := by
  simp [solveTrunc, h]

theorem solveTruncVal_toM (d : SVD n m K) (B : Mat n s K) (eps : K) :
    (solveTruncVal d B eps).toM
      = d.Vt.toMᵀ * (Matrix.diagonal (invσ d eps) * (d.U.toMᵀ * B.toM)) := by
  unfold solveTruncVal
  rw [toM_mul, toM_transpose]
  congr 1
  ext i j
  simp only [toM_apply, Mat.get_ofFn, Matrix.mul_apply, Matrix.diagonal_apply, invσ]
  rw [Finset.sum_eq_single i]
  · simp only [if_true]
    split
    · rw [div_eq_inv_mul]
      congr 1
      have := congrFun (congrFun (toM_mul d.U.transpose B) i) j
      simp only [toM_apply, toM_transpose] at this
      rw [this, Matrix.mul_apply]
      simp
    · simp
  · intro b _ hb; simp [Ne.symm hb]
  · simp

theorem keep_inv_keep (d : SVD n m K) (eps : K) (h : 0 ≤ eps) :
    Matrix.diagonal (keepσ d eps) * Matrix.diagonal (keepσ d eps) * Matrix.diagonal (invσ d eps)
      = Matrix.diagonal (keepσ d eps) := by
  rw [Matrix.diagonal_mul_diagonal, Matrix.diagonal_mul_diagonal]
  congr 1; funext i
  simp only [keepσ, invσ]
  split
  · rename_i hlt
    have : d.sigma[i] ≠ 0 := ne_of_gt (lt_of_le_of_lt h hlt)
    field_simp
  · simp

/-- the truncated normal equations `A_εᵀ (B − A_ε C) = 0` for `C = solveTruncVal` -/
theorem normal_eq_val (d : SVD n m K) (huo : d.U.toMᵀ * d.U.toM = 1) (hvo : d.Vt.toM * d.Vt.toMᵀ = 1)
    (B : Mat n s K) (eps : K) (h : 0 ≤ eps) :
    (Aeps d eps)ᵀ * (B.toM - Aeps d eps * (solveTruncVal d B eps).toM) = 0 := by
  rw [solveTruncVal_toM]
  simp only [Aeps, Matrix.transpose_mul, Matrix.diagonal_transpose, Matrix.mul_sub]
  have e1 : d.Vt.toMᵀ * (Matrix.diagonal (keepσ d eps) * d.U.toMᵀ) *
      (d.U.toM * Matrix.diagonal (keepσ d eps) * d.Vt.toM *
        (d.Vt.toMᵀ * (Matrix.diagonal (invσ d eps) * (d.U.toMᵀ * B.toM))))
      = d.Vt.toMᵀ * ((Matrix.diagonal (keepσ d eps) * (d.U.toMᵀ * d.U.toM) * Matrix.diagonal (keepσ d eps)) *
        ((d.Vt.toM * d.Vt.toMᵀ) * Matrix.diagonal (invσ d eps)) * (d.U.toMᵀ * B.toM)) := by
    simp only [Matrix.mul_assoc]
  rw [e1, huo, hvo, Matrix.mul_one, Matrix.one_mul, keep_inv_keep d eps h]
  simp only [Matrix.mul_assoc, sub_self]

/-- no singular value is truncated ⇒ `A_ε = A` -/
theorem Aeps_eq_of_all_kept (A : Mat n m K) (d : SVD n m K) (hs : SVDSpec A d) (eps : K)
    (hk : ∀ i : Fin d.r, eps < d.sigma[i]) : Aeps d eps = A.toM := by
  have : keepσ d eps = fun i => d.sigma[i] := by
    funext i; simp only [keepσ]; rw [if_pos (hk i)]
  rw [hs.recompose, Aeps, this]

/-- only exactly vanishing singular values are truncated ⇒ `A_ε = A` -/
theorem Aeps_eq_of_dropped_zero (A : Mat n m K) (d : SVD n m K) (hs : SVDSpec A d) (eps : K)
    (hz : ∀ i : Fin d.r, ¬ eps < d.sigma[i] → d.sigma[i] = 0) : Aeps d eps = A.toM := by
  have : keepσ d eps = fun i => d.sigma[i] := by
    funext i
    simp only [keepσ]
    split
    · rfl
    · rename_i hn; exact (hz i hn).symm
  rw [hs.recompose, Aeps, this]

/-- normal equations ⇒ minimiser (Pythagoras), for one right-hand side -/
theorem ls_opt (A : Matrix (Fin n) (Fin m) K) (y : Fin n → K) (c : Fin m → K)
    (h : Aᵀ *ᵥ (y - A *ᵥ c) = 0) (c' : Fin m → K) :
    (y - A *ᵥ c) ⬝ᵥ (y - A *ᵥ c) ≤ (y - A *ᵥ c') ⬝ᵥ (y - A *ᵥ c') := by
  have hsplit : y - A *ᵥ c' = (y - A *ᵥ c) + A *ᵥ (c - c') := by
    rw [mulVec_sub]; abel_nf
  have hcross : (A *ᵥ (c - c')) ⬝ᵥ (y - A *ᵥ c) = 0 := by
    rw [dotProduct_comm, dotProduct_mulVec, ← mulVec_transpose, h, zero_dotProduct]
  rw [hsplit, add_dotProduct, dotProduct_add, dotProduct_add, hcross,
    dotProduct_comm _ (A *ᵥ (c - c')), hcross]
  have : 0 ≤ (A *ᵥ (c - c')) ⬝ᵥ (A *ᵥ (c - c')) := by
    unfold dotProduct
    exact Finset.sum_nonneg (fun i _ => mul_self_nonneg _)
  linarith

/-- column `j` of a matrix as a vector -/
def colV {a b : Nat} (M : Matrix (Fin a) (Fin b) K) (j : Fin b) : Fin a → K := fun i => M i j

theorem colV_mul {a b c : Nat} (M : Matrix (Fin a) (Fin b) K) (N : Matrix (Fin b) (Fin c) K) (j : Fin c) :
    colV (M * N) j = M *ᵥ colV N j := by
  funext i; simp [colV, Matrix.mul_apply, Matrix.mulVec, dotProduct]

theorem colV_sub {a b : Nat} (M N : Matrix (Fin a) (Fin b) K) (j : Fin b) :
    colV (M - N) j = colV M j - colV N j := by
  funext i; simp [colV]

end Varpro
