import VarproModel.Core.Problem
import Mathlib.Data.Matrix.Mul
import Mathlib.Data.Matrix.Diagonal
import Mathlib.Algebra.BigOperators.Fin
/-!
# Proofs/ToMatrix — the bridge from the executable `Mat` to Mathlib's `Matrix`
-/
namespace Varpro
open Matrix

def Mat.toM {K : Type} {n m : Nat} (A : Mat n m K) : Matrix (Fin n) (Fin m) K := fun i j => A.get i j

@[simp] theorem toM_apply {K : Type} {n m : Nat} (A : Mat n m K) (i : Fin n) (j : Fin m) :
    A.toM i j = A.get i j := rfl

theorem toM_injective {K : Type} {n m : Nat} {A B : Mat n m K} (h : A.toM = B.toM) : A = B :=
  Mat.ext_get fun i j => congrFun (congrFun h i) j

theorem sumFin_eq {K : Type} [AddCommMonoid K] {n : Nat} (f : Fin n → K) :
    Mat.sumFin f = ∑ i, f i := by
  simp [Mat.sumFin, List.sum_ofFn]

@[simp] theorem toM_ofFn {K : Type} {n m : Nat} (f : Fin n → Fin m → K) :
    (Mat.ofFn f).toM = Matrix.of f := by
  ext i j; simp [Mat.toM]

@[simp] theorem toM_mul {K : Type} [Semiring K] {n k m : Nat} (A : Mat n k K) (B : Mat k m K) :
    (A.mul B).toM = A.toM * B.toM := by
  ext i j
  simp [Mat.toM, Mat.mul, sumFin_eq, Matrix.mul_apply]

@[simp] theorem toM_transpose {K : Type} {n m : Nat} (A : Mat n m K) : A.transpose.toM = A.toMᵀ := by
  ext i j; simp [Mat.toM, Mat.transpose]

@[simp] theorem toM_sub {K : Type} [Sub K] {n m : Nat} (A B : Mat n m K) :
    (A.sub B).toM = A.toM - B.toM := by
  ext i j; simp [Mat.toM, Mat.sub]

@[simp] theorem toM_add {K : Type} [Add K] {n m : Nat} (A B : Mat n m K) :
    (A.add B).toM = A.toM + B.toM := by
  ext i j; simp [Mat.toM, Mat.add]

@[simp] theorem toM_zero {K : Type} [Zero K] {n m : Nat} : (Mat.zero : Mat n m K).toM = 0 := by
  ext i j; simp [Mat.toM, Mat.zero]

/-- row scaling is multiplication by the diagonal matrix from the left -/
theorem toM_rowScale {K : Type} [CommSemiring K] {n m : Nat} (w : Vector K n) (A : Mat n m K) :
    (Mat.rowScale w A).toM = Matrix.diagonal (fun i => w[i]) * A.toM := by
  ext i j
  simp [Mat.toM, Mat.rowScale, Matrix.diagonal_mul, mul_comm]

/-- the weight matrix `W` of a problem (identity for unit weights) -/
def weightM {K : Type} [Zero K] [One K] {n : Nat} (w : Option (Vector K n)) : Matrix (Fin n) (Fin n) K :=
  match w with
  | none => 1
  | some d => Matrix.diagonal (fun i => d[i])

theorem toM_wmul {K : Type} [CommSemiring K] {n m : Nat} (w : Option (Vector K n)) (A : Mat n m K) :
    (wmul w A).toM = weightM w * A.toM := by
  cases w with
  | none => simp [wmul, weightM]
  | some d => simp [wmul, weightM, toM_rowScale]

end Varpro
