import VarproModel.Proofs.Solve
import VarproModel.Props.C02
/-!
# C01 — the linear coefficients are the weighted least-squares optimum for the current α

Over any linearly ordered field, every shape `N, M, S`, every user model, every weight vector and
every SVD routine satisfying `SVDSpec` on the matrix it is applied to.
`A = W·Φ(α)`, `A_ε` = `A` with the singular values `≤ ε` replaced by zero.
-/
namespace Varpro
open Matrix

variable {K E : Type} [Field K] [LinearOrder K] [IsStrictOrderedRing K] {n m p s : Nat}
variable {U : UserModel n m p K E}

/-- what a present cache consists of -/
theorem computeCache_some (x : Ext K) (o : XOps K) (Yw : Mat n s K) (eps : K) (A : Mat n m K)
    (c : Cache n m s K) (h : computeCache x o Yw eps A = some c) :
    0 ≤ eps ∧ c.svd = x.svd n m A ∧ c.coeff = solveTruncVal (x.svd n m A) Yw eps ∧
      c.residuals = Yw.sub (A.mul c.coeff) := by
  unfold computeCache at h
  by_cases hf : (A.all o.isFinite) = true
  · simp only [hf, if_true] at h
    by_cases hs : (x.svd n m A).sigma.all o.isFinite = true
    · simp only [hs, if_true] at h
      by_cases hneg : eps < 0
      · simp [solveTrunc, hneg] at h
      · simp only [solveTrunc, hneg, if_false] at h
        cases h
        exact ⟨not_lt.mp hneg, rfl, rfl, rfl⟩
    · simp [hs] at h
  · simp [hf] at h

/-- **c01_normal_eq**: whenever coefficients are present after `set_params α`, they satisfy the
normal equations of the truncated problem, for all right-hand sides at once:
`A_εᵀ (Y_w − A_ε C) = 0` with `A = W·Φ` for the basis matrix the model returned for α. -/
theorem c01_normal_eq (x : Ext K) (o : XOps K) (P : Problem U s) (α : Vector K p)
    (c : Cache n m s K) (h : (P.setParams x o α).cached = some c)
    (hsvd : ∀ A : Mat n m K, SVDSpec A (x.svd n m A)) :
    ∃ Phi : Mat n m K, ∃ st1 st2, U.setParams P.st α = (st1, .ok ()) ∧ U.eval st1 = (st2, .ok Phi) ∧
      0 ≤ P.eps ∧ c.svd = x.svd n m (wmul P.w Phi) ∧
      (Aeps c.svd P.eps)ᵀ * (P.Yw.toM - Aeps c.svd P.eps * c.coeff.toM) = 0 := by
  obtain ⟨st1, st2, Phi, h1, h2, _, hc, _⟩ := c02_cache_is_computed_now x o P α c h
  obtain ⟨he, hd, hC, _⟩ := computeCache_some x o P.Yw P.eps _ c hc
  refine ⟨Phi, st1, st2, h1, h2, he, hd, ?_⟩
  have hs := hsvd (wmul P.w Phi)
  rw [hC, hd]
  exact normal_eq_val _ hs.uorth hs.vorth P.Yw P.eps he

/-- **c01_minimises**: for every right-hand side `j`, the coefficient column minimises
`‖y_j − A_ε c‖²` over all `c`. -/
theorem c01_minimises (d : SVD n m K) (huo : d.U.toMᵀ * d.U.toM = 1) (hvo : d.Vt.toM * d.Vt.toMᵀ = 1)
    (Yw : Mat n s K) (eps : K) (he : 0 ≤ eps) (j : Fin s) (c' : Fin m → K) :
    let C := (solveTruncVal d Yw eps).toM
    let r := colV Yw.toM j - Aeps d eps *ᵥ colV C j
    r ⬝ᵥ r ≤ (colV Yw.toM j - Aeps d eps *ᵥ c') ⬝ᵥ (colV Yw.toM j - Aeps d eps *ᵥ c') := by
  intro C r
  apply ls_opt
  have hne := normal_eq_val d huo hvo Yw eps he
  have := congrArg (fun M => colV M j) hne
  simp only [colV_mul, colV_sub] at this
  rw [this]
  funext i; simp [colV]

/-- **c01_original_problem**: if every truncated singular value is exactly zero (in particular if
none is truncated), `A_ε = A = W·Φ`: the coefficients minimise the original weighted problem
`‖W(y_j − Φ c)‖²`, also in the genuinely rank-deficient case. -/
theorem c01_original_problem (A : Mat n m K) (d : SVD n m K) (hs : SVDSpec A d)
    (Yw : Mat n s K) (eps : K) (he : 0 ≤ eps)
    (hz : ∀ i : Fin d.r, ¬ eps < d.sigma[i] → d.sigma[i] = 0) (j : Fin s) (c' : Fin m → K) :
    let C := (solveTruncVal d Yw eps).toM
    (colV Yw.toM j - A.toM *ᵥ colV C j) ⬝ᵥ (colV Yw.toM j - A.toM *ᵥ colV C j)
      ≤ (colV Yw.toM j - A.toM *ᵥ c') ⬝ᵥ (colV Yw.toM j - A.toM *ᵥ c') := by
  intro C
  have := c01_minimises d hs.uorth hs.vorth Yw eps he j c'
  rw [Aeps_eq_of_dropped_zero A d hs eps hz] at this
  exact this

/-- normal equations + trivial kernel ⇒ the minimiser is unique -/
theorem ls_unique (A : Matrix (Fin n) (Fin m) K) (y : Fin n → K) (c : Fin m → K)
    (h : Aᵀ *ᵥ (y - A *ᵥ c) = 0) (hinj : ∀ v, A *ᵥ v = 0 → v = 0) (c' : Fin m → K)
    (hmin : (y - A *ᵥ c') ⬝ᵥ (y - A *ᵥ c') ≤ (y - A *ᵥ c) ⬝ᵥ (y - A *ᵥ c)) : c' = c := by
  have hsplit : y - A *ᵥ c' = (y - A *ᵥ c) + A *ᵥ (c - c') := by
    rw [mulVec_sub]; abel_nf
  have hcross : (A *ᵥ (c - c')) ⬝ᵥ (y - A *ᵥ c) = 0 := by
    rw [dotProduct_comm, dotProduct_mulVec, ← mulVec_transpose, h, zero_dotProduct]
  rw [hsplit, add_dotProduct, dotProduct_add, dotProduct_add, hcross,
    dotProduct_comm _ (A *ᵥ (c - c')), hcross] at hmin
  have hnn : 0 ≤ (A *ᵥ (c - c')) ⬝ᵥ (A *ᵥ (c - c')) := by
    unfold dotProduct
    exact Finset.sum_nonneg (fun i _ => mul_self_nonneg _)
  have hz : (A *ᵥ (c - c')) ⬝ᵥ (A *ᵥ (c - c')) = 0 := by linarith
  have := hinj _ (dotProduct_self_eq_zero.mp hz)
  exact (sub_eq_zero.mp this).symm

/-- **c01_unique**: when `W·Φ` has full column rank (trivial kernel) and no non-zero singular value
is truncated, the reported column is the *only* minimiser of `‖W(y_j − Φ c)‖²`: any `c'` that fits
at least as well is equal to it. -/
theorem c01_unique (A : Mat n m K) (d : SVD n m K) (hs : SVDSpec A d)
    (Yw : Mat n s K) (eps : K) (he : 0 ≤ eps)
    (hz : ∀ i : Fin d.r, ¬ eps < d.sigma[i] → d.sigma[i] = 0)
    (hinj : ∀ v, A.toM *ᵥ v = 0 → v = 0) (j : Fin s) (c' : Fin m → K)
    (hfit : (colV Yw.toM j - A.toM *ᵥ c') ⬝ᵥ (colV Yw.toM j - A.toM *ᵥ c')
      ≤ (colV Yw.toM j - A.toM *ᵥ colV (solveTruncVal d Yw eps).toM j) ⬝ᵥ
        (colV Yw.toM j - A.toM *ᵥ colV (solveTruncVal d Yw eps).toM j)) :
    c' = colV (solveTruncVal d Yw eps).toM j := by
  apply ls_unique A.toM _ _ _ hinj c' hfit
  have hne := normal_eq_val d hs.uorth hs.vorth Yw eps he
  rw [Aeps_eq_of_dropped_zero A d hs eps hz] at hne
  have := congrArg (fun M => colV M j) hne
  simp only [colV_mul, colV_sub] at this
  rw [this]
  funext i; simp [colV]

/-- **c01_min_norm**: among all `c'` that fit the truncated problem equally well
(`A_ε c' = A_ε c_j`) the returned column has the smallest norm. -/
theorem c01_min_norm (d : SVD n m K) (huo : d.U.toMᵀ * d.U.toM = 1)
    (Yw : Mat n s K) (eps : K) (j : Fin s) (c' : Fin m → K)
    (hfit : Aeps d eps *ᵥ c' = Aeps d eps *ᵥ colV (solveTruncVal d Yw eps).toM j) :
    colV (solveTruncVal d Yw eps).toM j ⬝ᵥ colV (solveTruncVal d Yw eps).toM j ≤ c' ⬝ᵥ c' := by
  set c := colV (solveTruncVal d Yw eps).toM j with hc
  -- c = Vtᵀ z with z supported on the kept indices
  set z : Fin d.r → K := Matrix.diagonal (invσ d eps) *ᵥ (d.U.toMᵀ *ᵥ colV Yw.toM j) with hz
  have hcz : c = d.Vt.toMᵀ *ᵥ z := by
    rw [hc, solveTruncVal_toM, colV_mul, colV_mul, colV_mul]
  -- Σk Vt (c' − c) = 0
  have hdiff : Matrix.diagonal (keepσ d eps) *ᵥ (d.Vt.toM *ᵥ (c' - c)) = 0 := by
    have h0 : Aeps d eps *ᵥ (c' - c) = 0 := by rw [mulVec_sub, hfit, sub_self]
    have h1 : d.U.toMᵀ *ᵥ (Aeps d eps *ᵥ (c' - c)) = 0 := by rw [h0, mulVec_zero]
    simp only [Aeps] at h1
    rw [mulVec_mulVec, ← Matrix.mul_assoc, ← Matrix.mul_assoc, huo, Matrix.one_mul, ← mulVec_mulVec] at h1
    exact h1
  have horth : z ⬝ᵥ (d.Vt.toM *ᵥ (c' - c)) = 0 := by
    unfold dotProduct
    apply Finset.sum_eq_zero
    intro i _
    have hi := congrFun hdiff i
    simp only [mulVec_diagonal, Pi.zero_apply] at hi
    have hzi : z i = invσ d eps i * (d.U.toMᵀ *ᵥ colV Yw.toM j) i := by
      rw [hz, mulVec_diagonal]
    by_cases hk : eps < d.sigma[i]
    · by_cases h0 : d.sigma[i] = 0
      · have : z i = 0 := by
          rw [hzi]; simp only [invσ]; rw [if_pos hk, h0, inv_zero, zero_mul]
        rw [this, zero_mul]
      · have hkp : keepσ d eps i = d.sigma[i] := by simp only [keepσ]; rw [if_pos hk]
        rw [hkp] at hi
        rcases mul_eq_zero.mp hi with h | h
        · exact absurd h h0
        · rw [h, mul_zero]
    · have : z i = 0 := by
        rw [hzi]; simp only [invσ]; rw [if_neg hk, zero_mul]
      rw [this, zero_mul]
  have key : ∀ v : Fin m → K, (d.Vt.toMᵀ *ᵥ z) ⬝ᵥ v = z ⬝ᵥ (d.Vt.toM *ᵥ v) := by
    intro v
    rw [dotProduct_comm, dotProduct_mulVec, ← mulVec_transpose, transpose_transpose, dotProduct_comm]
  have hcross : c ⬝ᵥ (c' - c) = 0 := by
    calc c ⬝ᵥ (c' - c) = (d.Vt.toMᵀ *ᵥ z) ⬝ᵥ (c' - c) := congrArg (· ⬝ᵥ (c' - c)) hcz
      _ = z ⬝ᵥ (d.Vt.toM *ᵥ (c' - c)) := key _
      _ = 0 := horth
  have hsplit : c' = c + (c' - c) := by abel
  have hnn : 0 ≤ (c' - c) ⬝ᵥ (c' - c) := by
    unfold dotProduct
    exact Finset.sum_nonneg (fun i _ => mul_self_nonneg _)
  calc c ⬝ᵥ c ≤ c ⬝ᵥ c + (c' - c) ⬝ᵥ (c' - c) := by linarith
    _ = (c + (c' - c)) ⬝ᵥ (c + (c' - c)) := by
        rw [add_dotProduct, dotProduct_add, dotProduct_add, hcross, dotProduct_comm (c' - c) c, hcross]
        ring
    _ = c' ⬝ᵥ c' := by rw [← hsplit]

/-- **c01_linear**: the coefficients depend linearly on the (weighted) observations. -/
theorem c01_linear (d : SVD n m K) (B1 B2 : Mat n s K) (a eps : K) :
    (solveTruncVal d (B1.add (B2.map (a * ·))) eps).toM
      = (solveTruncVal d B1 eps).toM + a • (solveTruncVal d B2 eps).toM := by
  have hB : (B1.add (B2.map (a * ·))).toM = B1.toM + a • B2.toM := by
    ext i j; simp [Mat.toM, Mat.add, Mat.map]
  simp only [solveTruncVal_toM, hB, Matrix.mul_add, Matrix.mul_smul]

/-- **c01_threshold**: a negative threshold can never reach the solve: a problem whose threshold
is negative has no cache after any update (the builder stores `|ε|`, see C18). -/
theorem c01_negative_eps_absent (x : Ext K) (o : XOps K) (P : Problem U s) (α : Vector K p)
    (h : P.eps < 0) : (P.setParams x o α).cached = none := by
  cases hc : (P.setParams x o α).cached with
  | none => rfl
  | some c =>
    obtain ⟨_, _, Phi, _, _, _, hcc, _⟩ := c02_cache_is_computed_now x o P α c hc
    have := (computeCache_some x o P.Yw P.eps _ c hcc).1
    exact absurd h (not_lt.mpr this)

/-! ### non-vacuity: a concrete 3×2 rational matrix with an explicit SVD (σ = 2, 1/2; ε = 1/2
truncates the second singular value, "at or below counts as zero") -/

private def eye (a b : Nat) : Mat a b ℚ := Mat.ofFn fun i j => if i.val = j.val then 1 else 0
private def dDemo : SVD 3 2 ℚ := { r := 2, U := eye 3 2, sigma := #v[2, 1/2], Vt := eye 2 2 }
private def aDemo : Mat 3 2 ℚ := Mat.ofFn fun i j => if i.val = j.val then (if i.val = 0 then 2 else 1/2) else 0

example : SVDSpec aDemo dDemo := by
  refine ⟨by decide +kernel, by decide +kernel, by decide +kernel, by decide +kernel⟩

end Varpro
