import VarproModel.Props.C01
/-!
# C01 — coefficient `j` belongs to the `j`-th basis function; divisions of the truncated solve

`c01_basis_order`: reordering the basis functions reorders the coefficients with them (each
coefficient travels with its function), for every pair of SVD routines used on the two orderings.
`c01_product_by_function`: `(W·Φ)·c` is the sum over the basis functions of coefficient × column.
`c01_divisors`: the truncated solve divides only by singular values strictly above the threshold,
hence by strictly positive numbers.
-/
namespace Varpro
open Matrix
variable {K : Type} [Field K] [LinearOrder K] [IsStrictOrderedRing K] {n m s : Nat}

/-- the model's fit is the superposition "coefficient `j` × column `j`" -/
theorem c01_product_by_function (A : Mat n m K) (c : Fin m → K) (i : Fin n) :
    (A.toM *ᵥ c) i = ∑ j, c j * A.get i j := by
  simp only [mulVec, dotProduct, Mat.toM]
  exact Finset.sum_congr rfl fun j _ => mul_comm _ _

theorem mulVec_selectCols (A : Mat n m K) (π : Equiv.Perm (Fin m)) (c : Fin m → K) :
    (A.selectCols π).toM *ᵥ (c ∘ π) = A.toM *ᵥ c := by
  funext i
  simp only [mulVec, dotProduct, Mat.toM, Mat.selectCols, Mat.get_ofFn, Function.comp]
  exact Equiv.sum_comp π (fun j => A.get i j * c j)

/-- **c01_basis_order**: let the basis functions be listed in another order (`A' = A` with its
columns permuted by `π`), and let the two problems be solved with *any* two SVD routines meeting
`SVDSpec`.  When `W·Φ` has full column rank (and nothing but exact zeros is truncated), coefficient
`k` of the reordered problem is coefficient `π k` of the original one, for every right-hand side:
each coefficient belongs to its basis function, not to its position. -/
theorem c01_basis_order (A : Mat n m K) (π : Equiv.Perm (Fin m))
    (d : SVD n m K) (hs : SVDSpec A d) (d' : SVD n m K) (hs' : SVDSpec (A.selectCols π) d')
    (Yw : Mat n s K) (eps : K) (he : 0 ≤ eps)
    (hz : ∀ i : Fin d.r, ¬ eps < d.sigma[i] → d.sigma[i] = 0)
    (hz' : ∀ i : Fin d'.r, ¬ eps < d'.sigma[i] → d'.sigma[i] = 0)
    (hinj : ∀ v, A.toM *ᵥ v = 0 → v = 0) (j : Fin s) (k : Fin m) :
    (solveTruncVal d' Yw eps).toM k j = (solveTruncVal d Yw eps).toM (π k) j := by
  set c := colV (solveTruncVal d Yw eps).toM j with hc
  set c' := colV (solveTruncVal d' Yw eps).toM j with hc'
  -- the permuted matrix has trivial kernel as well
  have hinj' : ∀ v, (A.selectCols π).toM *ᵥ v = 0 → v = 0 := by
    intro v hv
    have : (A.selectCols π).toM *ᵥ ((v ∘ π.symm) ∘ π) = A.toM *ᵥ (v ∘ π.symm) :=
      mulVec_selectCols A π (v ∘ π.symm)
    have hvv : (v ∘ π.symm) ∘ π = v := by funext x; simp
    rw [hvv, hv] at this
    have h0 := hinj _ this.symm
    funext x
    have := congrFun h0 (π x)
    simpa using this
  -- c ∘ π fits the reordered problem at least as well as its own solution
  have hfit : (colV Yw.toM j - (A.selectCols π).toM *ᵥ (c ∘ π)) ⬝ᵥ (colV Yw.toM j - (A.selectCols π).toM *ᵥ (c ∘ π))
      ≤ (colV Yw.toM j - (A.selectCols π).toM *ᵥ c') ⬝ᵥ (colV Yw.toM j - (A.selectCols π).toM *ᵥ c') := by
    rw [mulVec_selectCols]
    have hback : (A.selectCols π).toM *ᵥ c' = A.toM *ᵥ (c' ∘ π.symm) := by
      have := mulVec_selectCols A π (c' ∘ π.symm)
      have hvv : (c' ∘ π.symm) ∘ π = c' := by funext x; simp
      rw [hvv] at this
      exact this
    rw [hback]
    exact c01_original_problem A d hs Yw eps he hz j (c' ∘ π.symm)
  have := c01_unique (A.selectCols π) d' hs' Yw eps he hz' hinj' j (c ∘ π) hfit
  have hk := congrFun this k
  simp only [Function.comp, hc, colV] at hk
  exact hk.symm

/-- **c01_divisors**: every division performed by the truncated solve has a divisor strictly above
the (non-negative) threshold – in particular strictly positive: no division by a vanishing singular
value, whatever the SVD routine returns. -/
theorem c01_divisors (d : SVD n m K) (B : Mat n s K) (eps : K) (he : 0 ≤ eps) (i : Fin d.r) (j : Fin s) :
    (eps < d.sigma[i] → 0 < d.sigma[i]) ∧
    (¬ eps < d.sigma[i] →
      (Mat.ofFn fun (i : Fin d.r) (j : Fin s) =>
        if eps < d.sigma[i] then (d.U.transpose.mul B).get i j / d.sigma[i] else (0 : K)).get i j = 0) := by
  constructor
  · intro h; exact lt_of_le_of_lt he h
  · intro h
    rw [Mat.get_ofFn, if_neg h]

end Varpro
