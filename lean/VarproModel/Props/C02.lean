import VarproModel.Core.Problem
/-!
# C02 — residuals, weighted data, coefficients and parameters describe one state (part 1)
Core-only statements about `Problem.setParams`; the matrix identities over an ordered field are
in the Mathlib-based part.
-/
namespace Varpro
variable {K E : Type} {n m p s : Nat} {U : UserModel n m p K E}
variable [Add K] [Sub K] [Mul K] [Div K] [Zero K] [LT K] [DecidableLT K]
set_option linter.unusedSectionVars false

/-- **c02_weighted_data**: no parameter update touches the weighted data, the threshold or the
weights: they are those given at construction, for every history. -/
theorem c02_fields_constant (x : Ext K) (o : XOps K) (P : Problem U s) (α : Vector K p) :
    (P.setParams x o α).Yw = P.Yw ∧ (P.setParams x o α).eps = P.eps ∧ (P.setParams x o α).w = P.w := by
  unfold Problem.setParams
  split
  · exact ⟨rfl, rfl, rfl⟩
  · split <;> exact ⟨rfl, rfl, rfl⟩

theorem c02_weighted_data (x : Ext K) (o : XOps K) (P : Problem U s) (hist : List (Vector K p)) :
    (hist.foldl (fun P α => P.setParams x o α) P).weightedData = P.weightedData := by
  induction hist generalizing P with
  | nil => rfl
  | cons a as ih =>
    simp only [List.foldl_cons]
    rw [ih]
    exact (c02_fields_constant x o P a).1

/-- **c02_cache_is_computed_now**: after `set_params α`, a present cache was computed in this very
call from the basis matrix the model returned for the parameters it accepted – with this problem's
weights, data and threshold; the residual matrix in it is `Y_w − (W·Φ)·C` for the coefficient matrix
in it. -/
theorem c02_cache_is_computed_now (x : Ext K) (o : XOps K) (P : Problem U s) (α : Vector K p)
    (c : Cache n m s K) (h : (P.setParams x o α).cached = some c) :
    ∃ st1 st2 Phi, U.setParams P.st α = (st1, .ok ()) ∧ U.eval st1 = (st2, .ok Phi) ∧
      (P.setParams x o α).st = st2 ∧
      computeCache x o P.Yw P.eps (wmul P.w Phi) = some c ∧
      c.residuals = P.Yw.sub ((wmul P.w Phi).mul c.coeff) := by
  unfold Problem.setParams at h ⊢
  cases h1 : U.setParams P.st α with
  | mk st1 r1 =>
    cases r1 with
    | error e => simp [h1] at h
    | ok u =>
      cases h2 : U.eval st1 with
      | mk st2 r2 =>
        cases r2 with
        | error e => simp [h1, h2] at h
        | ok Phi =>
          simp only [h1, h2] at h ⊢
          refine ⟨st1, st2, Phi, rfl, h2, rfl, h, ?_⟩
          unfold computeCache at h
          split at h
          · simp only at h
            split at h
            · split at h
              · cases h
              · cases h; rfl
            · cases h
          · cases h

/-- **c02_residual_layout**: the residual vector is the column-after-column stacking of the cached
residual matrix: element `i + j·N` is entry `(i, j)`. -/
theorem c02_residual_layout (P : Problem U s) (c : Cache n m s K) (h : P.cached = some c)
    (i : Fin n) (j : Fin s) :
    ∃ r, P.residuals = some r ∧
      r[i.val + j.val * n]'(by
        have := i.isLt; have := j.isLt
        calc i.val + j.val * n < n + j.val * n := by omega
          _ = (j.val + 1) * n := by rw [Nat.add_mul, Nat.one_mul, Nat.add_comm]
          _ ≤ s * n := Nat.mul_le_mul_right n (by omega)
          _ = n * s := Nat.mul_comm s n) = c.residuals.get i j := by
  refine ⟨c.residuals.vec, by simp [Problem.residuals, h], ?_⟩
  have hn : 0 < n := by have := i.isLt; omega
  simp only [Mat.vec, Vector.getElem_ofFn, Mat.vecGet]
  congr 1
  · apply Fin.ext; simp [Nat.add_mul_mod_self_right, Nat.mod_eq_of_lt i.isLt]
  · apply Fin.ext
    simp [Nat.add_mul_div_right _ _ hn, Nat.div_eq_of_lt i.isLt]

end Varpro
