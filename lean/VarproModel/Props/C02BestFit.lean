import VarproModel.Props.C02
import VarproModel.Core.FitProblem
import VarproModel.Proofs.ToMatrix
import Mathlib.Algebra.Ring.Basic
import Mathlib.Tactic.Abel
/-!
# C02 (part 3) — `best_fit` belongs to the same state as residuals, coefficients and weighted data

`FitResult::best_fit` evaluates the model once more and multiplies with the cached coefficients.
For a model honouring the trait contract (evaluation is a function of the parameters in effect):

* `c02_best_fit`: after `set_params α` with a present cache `c`, `best_fit` is `Φ(α)·C` for exactly the
  `Φ(α)` the cache was computed from and the coefficients in the cache, in the shape `N × S` of the
  observations, and it leaves the problem's cache, data and parameters alone;
* `c02_best_fit_identity`: weights, best fit, residuals and weighted data satisfy
  `W·best_fit + residuals = Y_w` — the four observable quantities describe one single state, with
  the weights applied exactly once;
* `c02_best_fit_absent`: no cache ⇒ no best fit (never one computed from stale coefficients).
-/
namespace Varpro
open Matrix
set_option linter.unusedSectionVars false

variable {K E : Type} {n m p s : Nat} {U : UserModel n m p K E}

section core
variable [Add K] [Sub K] [Mul K] [Div K] [Zero K] [LT K] [DecidableLT K]

/-- **c02_best_fit_absent** -/
theorem c02_best_fit_absent (P : Problem U s) (h : P.cached = none) : P.bestFit.2 = none := by
  simp [Problem.bestFit, h]

/-- **c02_best_fit** -/
theorem c02_best_fit (x : Ext K) (o : XOps K) (evalF : Vector K p → Except E (Mat n m K))
    (derivF : Vector K p → Fin p → Except E (Mat n m K)) (hU : Lawful U evalF derivF)
    (P : Problem U s) (α : Vector K p) (c : Cache n m s K)
    (h : (P.setParams x o α).cached = some c) :
    ∃ Phi, evalF α = .ok Phi ∧
      computeCache x o P.Yw P.eps (wmul P.w Phi) = some c ∧
      (P.setParams x o α).bestFit.2 = some (Phi.mul c.coeff) ∧
      (P.setParams x o α).bestFit.1.cached = some c ∧
      (P.setParams x o α).bestFit.1.params = α ∧
      (P.setParams x o α).bestFit.1.Yw = P.Yw := by
  obtain ⟨st1, st2, Phi, hs, he, hst, hc, _⟩ := c02_cache_is_computed_now x o P α c h
  have hp1 : U.params st1 = α := by
    have := hU.set_params P.st α; rw [hs] at this; exact this
  have hv : evalF α = .ok Phi := by
    have := hU.eval_val st1; rw [he, hp1] at this; exact this.symm
  have hp2 : U.params st2 = α := by
    have := hU.eval_params st1; rw [he, hp1] at this; exact this
  have hY := (c02_fields_constant x o P α).1
  refine ⟨Phi, hv, hc, ?_, ?_, ?_, ?_⟩
  all_goals
    unfold Problem.bestFit
    simp only [h, hst]
    have hv2 := hU.eval_val st2
    rw [hp2, hv] at hv2
    have hp3 := hU.eval_params st2
    cases he2 : U.eval st2 with
    | mk st3 r =>
      rw [he2] at hv2 hp3
      simp only at hv2 hp3
      subst hv2
      first
        | rfl
        | exact h
        | (simp only [Problem.params]; rw [hp3, hp2])
        | exact hY
end core

section ring
variable [Field K] [LinearOrder K] [IsStrictOrderedRing K]

/-- **c02_best_fit_identity**: `W·best_fit + residuals = Y_w` (as matrices), whenever a cache is
present after `set_params α`. -/
theorem c02_best_fit_identity (x : Ext K) (o : XOps K) (evalF : Vector K p → Except E (Mat n m K))
    (derivF : Vector K p → Fin p → Except E (Mat n m K)) (hU : Lawful U evalF derivF)
    (P : Problem U s) (α : Vector K p) (c : Cache n m s K)
    (h : (P.setParams x o α).cached = some c) :
    ∃ B, (P.setParams x o α).bestFit.2 = some B ∧
      weightM P.w * B.toM + c.residuals.toM = P.Yw.toM := by
  obtain ⟨Phi, hv, _, hb, _, _, _⟩ := c02_best_fit x o evalF derivF hU P α c h
  obtain ⟨st1, st2, Phi2, hs, he, _, _, hres2⟩ := c02_cache_is_computed_now x o P α c h
  refine ⟨Phi.mul c.coeff, hb, ?_⟩
  -- the Φ of the cache is the Φ of the best fit: both are `evalF α`
  have hp1 : U.params st1 = α := by
    have := hU.set_params P.st α; rw [hs] at this; exact this
  have hv2 : evalF α = .ok Phi2 := by
    have := hU.eval_val st1; rw [he, hp1] at this; exact this.symm
  have hPhi : Phi = Phi2 := by rw [hv] at hv2; exact Except.ok.inj hv2
  rw [hres2, hPhi, toM_sub, toM_mul, toM_mul, toM_wmul, Matrix.mul_assoc]
  abel

end ring
end Varpro
