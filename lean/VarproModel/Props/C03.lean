import VarproModel.Proofs.Solve
import Mathlib.Analysis.Calculus.Deriv.Mul
import Mathlib.Analysis.Calculus.Deriv.Add
/-!
# C03 — the Jacobian is the Kaufman variable-projection Jacobian of the residuals

`A = W·Φ(α) = U Σ Vᵗ` (thin SVD as returned by the external routine), `P = U Uᵀ`,
`D_k = W·∂Φ/∂α_k`, `C` the cached coefficients.
-/
namespace Varpro
open Matrix

variable {K E : Type} [Field K] [LinearOrder K] [IsStrictOrderedRing K] {n m p s : Nat}
variable {U : UserModel n m p K E}
set_option linter.unusedSectionVars false

/-- the projector used by the Jacobian -/
def projU (d : SVD n m K) : Matrix (Fin n) (Fin n) K := d.U.toM * d.U.toMᵀ

/-- **c03_projector (1)**: `P` is symmetric and idempotent and fixes `A`: an orthogonal projector
whose range contains the range of `A` – for whatever SVD the oracle returns. -/
theorem c03_projector_basic (A : Mat n m K) (d : SVD n m K) (hs : SVDSpec A d) :
    (projU d)ᵀ = projU d ∧ projU d * projU d = projU d ∧ projU d * A.toM = A.toM := by
  refine ⟨?_, ?_, ?_⟩
  · simp [projU, Matrix.transpose_mul]
  · simp only [projU]
    rw [Matrix.mul_assoc, ← Matrix.mul_assoc d.U.toMᵀ, hs.uorth, Matrix.one_mul]
  · simp only [projU]
    rw [hs.recompose, Matrix.mul_assoc d.U.toM d.U.toMᵀ, ← Matrix.mul_assoc d.U.toMᵀ,
      ← Matrix.mul_assoc d.U.toMᵀ, hs.uorth, Matrix.one_mul, Matrix.mul_assoc]

/-- **c03_projector (2)**: at full column rank (no vanishing singular value) the range of `P` is
exactly the range of `A`: `P v = v ↔ ∃ c, v = A c`.  So `P` is *the* orthogonal projector onto
range(W·Φ). -/
theorem c03_projector_range (A : Mat n m K) (d : SVD n m K) (hs : SVDSpec A d)
    (hfull : ∀ i : Fin d.r, d.sigma[i] ≠ 0) (v : Fin n → K) :
    projU d *ᵥ v = v ↔ ∃ c : Fin m → K, v = A.toM *ᵥ c := by
  constructor
  · intro h
    refine ⟨d.Vt.toMᵀ *ᵥ (Matrix.diagonal (fun i => (d.sigma[i])⁻¹) *ᵥ (d.U.toMᵀ *ᵥ v)), ?_⟩
    have hdd : Matrix.diagonal (fun i => d.sigma[i]) * Matrix.diagonal (fun i : Fin d.r => (d.sigma[i])⁻¹) = 1 := by
      rw [Matrix.diagonal_mul_diagonal]
      have : (fun i : Fin d.r => d.sigma[i] * (d.sigma[i])⁻¹) = fun _ => 1 := by
        funext i; exact mul_inv_cancel₀ (hfull i)
      rw [this]; exact Matrix.diagonal_one
    rw [hs.recompose]
    simp only [mulVec_mulVec]
    have : d.U.toM * Matrix.diagonal (fun i => d.sigma[i]) * d.Vt.toM *
        (d.Vt.toMᵀ * (Matrix.diagonal (fun i : Fin d.r => (d.sigma[i])⁻¹) * d.U.toMᵀ))
        = d.U.toM * (Matrix.diagonal (fun i => d.sigma[i]) * ((d.Vt.toM * d.Vt.toMᵀ) *
          Matrix.diagonal (fun i : Fin d.r => (d.sigma[i])⁻¹))) * d.U.toMᵀ := by
      simp only [Matrix.mul_assoc]
    rw [this, hs.vorth, Matrix.one_mul, hdd, Matrix.mul_one]
    exact h.symm
  · rintro ⟨c, rfl⟩
    rw [mulVec_mulVec, (c03_projector_basic A d hs).2.2]

/-- **c03_column**: the block of Jacobian column `k` (before flattening) is
`−(1 − P)·(W·D_k)·C`. -/
theorem c03_column (w : Option (Vector K n)) (c : Cache n m s K) (Dk : Mat n m K) :
    (jacBlock w c Dk).toM = -((1 - projU c.svd) * ((weightM w * Dk.toM) * c.coeff.toM)) := by
  simp only [jacBlock, toM_sub, toM_mul, toM_transpose, toM_wmul, projU]
  rw [Matrix.sub_mul, Matrix.one_mul, neg_sub, Matrix.mul_assoc c.svd.U.toM]

/-- **c03_orthogonal**: every Jacobian block is orthogonal to the range of `A = W·Φ`:
`Aᵀ·J_k = 0` for every right-hand side at once. -/
theorem c03_orthogonal (A : Mat n m K) (w : Option (Vector K n)) (c : Cache n m s K)
    (hs : SVDSpec A c.svd) (Dk : Mat n m K) :
    A.toMᵀ * (jacBlock w c Dk).toM = 0 := by
  obtain ⟨hsym, _, hPA⟩ := c03_projector_basic A c.svd hs
  rw [c03_column, Matrix.mul_neg, ← Matrix.mul_assoc, Matrix.mul_sub, Matrix.mul_one]
  have : A.toMᵀ * projU c.svd = A.toMᵀ := by
    have := congrArg Matrix.transpose hPA
    rwa [Matrix.transpose_mul, hsym] at this
  rw [this, sub_self, Matrix.zero_mul, neg_zero]

/-- **c03_JTr**: for a residual `r` orthogonal to range(A) (which the normal equations give at
full rank), `J_kᵀ r = −(D_k c)ᵀ r`: the projection drops out. -/
theorem c03_JTr (d : SVD n m K) (X : Matrix (Fin n) (Fin s) K) (r : Fin n → K)
    (hr : d.U.toMᵀ *ᵥ r = 0) (j : Fin s) :
    colV (-((1 - projU d) * X)) j ⬝ᵥ r = -(colV X j ⬝ᵥ r) := by
  have hP : projU d *ᵥ r = 0 := by
    simp only [projU]; rw [← mulVec_mulVec, hr, mulVec_zero]
  have hsym : (projU d)ᵀ = projU d := by simp [projU, Matrix.transpose_mul]
  have : colV (-((1 - projU d) * X)) j = -(colV X j) + projU d *ᵥ colV X j := by
    funext i
    simp only [colV, Matrix.neg_apply, Matrix.sub_mul, Matrix.one_mul, Matrix.sub_apply,
      Pi.add_apply, Pi.neg_apply, Matrix.mul_apply, mulVec, dotProduct]
    ring
  rw [this, add_dotProduct, neg_dotProduct]
  have : (projU d *ᵥ colV X j) ⬝ᵥ r = 0 := by
    rw [dotProduct_comm, dotProduct_mulVec, ← mulVec_transpose, hsym, hP, zero_dotProduct]
  rw [this, add_zero]

/-! ### the flattened Jacobian and "all or nothing" -/

/-- entry `(i + j·N, k)` of the assembled Jacobian is entry `(i, j)` of block `k`: the same
column-after-column layout as the residual vector (C02). -/
theorem c03_layout {K : Type} (blocks : Fin p → Mat n s K) (k : Fin p) (q : Fin (n * s)) :
    (assembleJac blocks).get q k = (blocks k).vec[q] := by
  simp [assembleJac, Mat.vec]

section seq
variable {K E : Type} {n m p s : Nat} {U : UserModel n m p K E}

theorem derivsSeq_some (st : U.State) (ks : List (Fin p)) (st' : U.State)
    (ds : List (Fin p × Mat n m K)) (h : derivsSeq U st ks = (st', some ds)) :
    ds.map (·.1) = ks := by
  induction ks generalizing st ds with
  | nil => simp [derivsSeq] at h; simp [h.2.symm]
  | cons k rest ih =>
    simp only [derivsSeq] at h
    cases hd : U.deriv st k with
    | mk st1 r =>
      cases r with
      | error e => simp [hd] at h
      | ok D =>
        simp only [hd] at h
        cases hr : derivsSeq U st1 rest with
        | mk st2 o =>
          cases o with
          | none => simp [hr] at h
          | some ds' =>
            simp only [hr, Prod.mk.injEq, Option.some.injEq] at h
            obtain ⟨rfl, rfl⟩ := h
            simp [ih st1 ds' hr]

/-- a failing derivative anywhere in the sequence makes the whole result absent -/
theorem derivsSeq_none_of_error (st : U.State) (pre : List (Fin p)) (k : Fin p) (post : List (Fin p))
    (hfail : ∀ st0, ∃ st1 e, U.deriv st0 k = (st1, .error e)) :
    (derivsSeq U st (pre ++ k :: post)).2 = none := by
  induction pre generalizing st with
  | nil =>
    obtain ⟨st1, e, he⟩ := hfail st
    simp [derivsSeq, he]
  | cons a as ih =>
    simp only [List.cons_append, derivsSeq]
    cases hd : U.deriv st a with
    | mk st1 r =>
      cases r with
      | error e => rfl
      | ok D =>
        simp only
        have := ih st1
        cases hr : derivsSeq U st1 (as ++ k :: post) with
        | mk st2 o =>
          rw [hr] at this
          simp only at this
          subst this
          rfl
end seq

variable [Add K] [Sub K] [Mul K] [Zero K]

/-- **c03_all_or_nothing**: if some partial derivative fails to evaluate (whenever it is asked),
no Jacobian is produced – never a partially filled one. -/
theorem c03_all_or_nothing {K E : Type} {n m p s : Nat} {U : UserModel n m p K E}
    [Add K] [Sub K] [Mul K] [Zero K] (P : Problem U s) (k : Fin p)
    (hfail : ∀ st0, ∃ st1 e, U.deriv st0 k = (st1, .error e)) :
    (P.jacobianSeq).2 = none := by
  unfold Problem.jacobianSeq
  cases P.cached with
  | none => rfl
  | some c =>
    simp only
    obtain ⟨pre, post, hsplit⟩ := List.append_of_mem (List.mem_finRange k)
    have := derivsSeq_none_of_error (U := U) P.st pre k post hfail
    rw [← hsplit] at this
    cases hr : derivsSeq U P.st (List.finRange p) with
    | mk st1 o =>
      rw [hr] at this
      simp only at this
      subst this
      rfl

/-- **c03_gradient** (one right-hand side, over ℝ): along any differentiable curve
`t ↦ (A(t), c(t))` that satisfies the normal equations at `t`, the derivative of the projected
objective `‖y − A(t)c(t)‖²` is `2·Σ_i (−(A'(t) c(t))_i)·r_i` – the coefficient derivative drops out
(envelope argument).  With `c03_JTr` this is `2·J_kᵀ r` when the curve moves `α_k`. -/
theorem c03_gradient {n m : Nat} (A : ℝ → Matrix (Fin n) (Fin m) ℝ) (A' : Matrix (Fin n) (Fin m) ℝ)
    (c : ℝ → Fin m → ℝ) (c' : Fin m → ℝ) (y : Fin n → ℝ) (t : ℝ)
    (hA : ∀ i j, HasDerivAt (fun s => A s i j) (A' i j) t)
    (hc : ∀ j, HasDerivAt (fun s => c s j) (c' j) t)
    (hne : (A t)ᵀ *ᵥ (y - A t *ᵥ c t) = 0) :
    HasDerivAt (fun s => ∑ i, (y i - ∑ j, A s i j * c s j) * (y i - ∑ j, A s i j * c s j))
      (2 * ∑ i, (-(∑ j, A' i j * c t j)) * (y i - ∑ j, A t i j * c t j)) t := by
  set r : Fin n → ℝ := fun i => y i - ∑ j, A t i j * c t j with hrdef
  have hr : ∀ i, HasDerivAt (fun s => y i - ∑ j, A s i j * c s j)
      (-(∑ j, (A' i j * c t j + A t i j * c' j))) t := by
    intro i
    have h1 : HasDerivAt (fun s => ∑ j, A s i j * c s j) (∑ j, (A' i j * c t j + A t i j * c' j)) t :=
      HasDerivAt.fun_sum (fun j _ => (hA i j).mul (hc j))
    simpa using (hasDerivAt_const t (y i)).fun_sub h1
  have hsum := HasDerivAt.fun_sum (u := Finset.univ) (fun i _ => (hr i).mul (hr i))
  have hkill : ∑ i, (∑ j, A t i j * c' j) * r i = 0 := by
    have h0 : c' ⬝ᵥ ((A t)ᵀ *ᵥ (y - A t *ᵥ c t)) = 0 := by rw [hne, dotProduct_zero]
    rw [← h0]
    simp only [dotProduct, mulVec, transpose_apply, Finset.mul_sum, Finset.sum_mul, hrdef, Pi.sub_apply]
    rw [Finset.sum_comm]
    refine Finset.sum_congr rfl (fun j _ => Finset.sum_congr rfl (fun i _ => by ring))
  refine hsum.congr_deriv ?_
  have : ∀ i, (-(∑ j, (A' i j * c t j + A t i j * c' j))) * r i + r i * (-(∑ j, (A' i j * c t j + A t i j * c' j)))
      = 2 * ((-(∑ j, A' i j * c t j)) * r i) - 2 * ((∑ j, A t i j * c' j) * r i) := by
    intro i; rw [Finset.sum_add_distrib]; ring
  simp only [hrdef] at this hkill
  rw [Finset.sum_congr rfl (fun i _ => this i), Finset.sum_sub_distrib, ← Finset.mul_sum, ← Finset.mul_sum, hkill]
  ring

end Varpro
