import VarproModel.Proofs.LMInv
import Mathlib.Algebra.Order.Field.Basic
import Mathlib.Tactic.Linarith
import Mathlib.Tactic.Positivity
import Mathlib.Tactic.FieldSimp
/-!
# C04 — fit() reports success truthfully and returns a coherent, no-worse final state (part 1)

For every behaviour of the numerical oracles (`Ops`), every problem, every configuration.
-/
namespace Varpro.LM
set_option linter.unusedSectionVars false

section decision
variable {T K Vx Vr J LLS : Type}
variable [Add K] [Sub K] [Mul K] [Div K] [Neg K] [Zero K] [One K] [LT K] [LE K]
  [DecidableLT K] [DecidableLE K] [DecidableEq K]

/-- **c04_ok_iff**: `fit` returns `Ok` exactly when the termination reason it reports counts as
successful, `Err` otherwise; in both cases it hands back exactly the optimizer's final problem
together with the report. -/
theorem c04_ok_iff (P : LSP T K Vx Vr J) (o : Ops K Vx Vr J LLS) (nm : Num K) (cfg : Config K) (t : T) :
    let mr := minimize P o nm cfg t
    let rep := finalReport P mr.1 mr.2
    (rep.termination.wasSuccessful = true → fit P o nm cfg t = .ok { problem := mr.1, report := rep }) ∧
    (rep.termination.wasSuccessful = false → fit P o nm cfg t = .error { problem := mr.1, report := rep }) := by
  intro mr rep
  constructor <;> intro h <;> simp [fit, FitResult.wasSuccessful, mr, rep, h]

/-- **c04_report**: the reported termination is the optimizer's own, unless that was a successful
one while the returned problem exposes no residuals – then (and only then) it is `User(..)`; the
evaluation count and the objective are always the optimizer's. -/
theorem c04_report (P : LSP T K Vx Vr J) (problem : T) (report : Report K) :
    (finalReport P problem report).evaluations = report.evaluations ∧
    (finalReport P problem report).objective = report.objective ∧
    ((P.residuals problem).isSome = true → finalReport P problem report = report) ∧
    (report.termination.wasSuccessful = false → finalReport P problem report = report) ∧
    ((finalReport P problem report).termination.wasSuccessful = true →
        (P.residuals problem).isSome = true) := by
  unfold finalReport
  cases hs : report.termination.wasSuccessful <;> cases hr : P.residuals problem <;>
    simp [hs, show ∀ s, (Termination.user s).wasSuccessful = false from fun _ => rfl]

/-- the successful termination reasons are exactly ResidualsZero, Orthogonal, Converged -/
theorem c04_successful_iff (t : Termination) :
    t.wasSuccessful = true ↔ t = .residualsZero ∨ t = .orthogonal ∨ ∃ f x, t = .converged f x := by
  cases t <;> simp [Termination.wasSuccessful]

/-- **c04_budget (local)**: the optimizer only goes on to another trial while the number of
evaluations is below the budget `patience·(P+1)`. -/
theorem c04_tests_budget (nm : Num K) (cfg : Config K) (st : St T K Vx) (a p r : K)
    (h : trTests nm cfg st a p r = none) : st.evaluations < st.maxFev := by
  unfold trTests at h
  split at h
  · cases h
  · simp only at h
    split at h
    · cases h
    · split at h
      · cases h
      · rename_i hlt; omega

/-- **c04_budget**: the number of evaluations `fit` reports – and therefore the number of trial
parameter applications the optimizer makes – never exceeds the budget `patience·(P+1)` of the
configuration supplied (2 in the degenerate case of a budget below 2), and the model of the
optimizer always terminates by itself. -/
theorem c04_budget (P : LSP T K Vx Vr J) (o : Ops K Vx Vr J LLS) (nm : Num K) (cfg : Config K) (t : T) :
    (minimize P o nm cfg t).2.termination ≠ .fuelExhausted ∧
    (minimize P o nm cfg t).2.evaluations ≤ max (cfg.patience * (o.lenX (P.params t) + 1)) 2 :=
  minimize_budget P o nm cfg t

/-- **c04_fws**: `fit_with_statistics` returns the fit result as `Err` iff the fit failed, the
coefficients are absent or the statistics could not be computed; otherwise `Ok` with the same fit
result. -/
theorem c04_fws {C S Es : Type} (P : LSP T K Vx Vr J) (o : Ops K Vx Vr J LLS) (nm : Num K)
    (cfg : Config K) (coeffs : T → Option C) (stats : T → C → Except Es S) (t : T) :
    (∀ r, fit P o nm cfg t = .error r → fitWithStatistics P o nm cfg coeffs stats t = .error r) ∧
    (∀ r, fit P o nm cfg t = .ok r → coeffs r.problem = none →
        fitWithStatistics P o nm cfg coeffs stats t = .error r) ∧
    (∀ r c e, fit P o nm cfg t = .ok r → coeffs r.problem = some c → stats r.problem c = .error e →
        fitWithStatistics P o nm cfg coeffs stats t = .error r) ∧
    (∀ r c s, fit P o nm cfg t = .ok r → coeffs r.problem = some c → stats r.problem c = .ok s →
        fitWithStatistics P o nm cfg coeffs stats t = .ok (r, s)) := by
  have hsucc : ∀ r, fit P o nm cfg t = .ok r → r.report.termination.wasSuccessful = true := by
    intro r hr
    unfold fit at hr
    simp only at hr
    split at hr
    · rename_i h; cases hr; exact h
    · cases hr
  refine ⟨?_, ?_, ?_, ?_⟩
  · intro r h; simp [fitWithStatistics, h]
  · intro r h hc; simp [fitWithStatistics, h, hsucc r h, hc]
  · intro r c e h hc hs; simp [fitWithStatistics, h, hsucc r h, hc, hs]
  · intro r c s h hc hs; simp [fitWithStatistics, h, hsucc r h, hc, hs]
end decision

section arithmetic
variable {K : Type} [Field K] [LinearOrder K] [IsStrictOrderedRing K]

/-- the predicted reduction is a sum of squares -/
theorem c04_predicted_nonneg (t1 t2 half : K) (hh : 0 < half) (a b : K) (h1 : t1 = a * a) (h2 : t2 = b * b) :
    0 ≤ t1 + t2 / half := by
  subst h1 h2
  have : 0 ≤ b * b / half := div_nonneg (mul_self_nonneg b) hh.le
  have := mul_self_nonneg a
  linarith

/-- **c04_accept_decreases**: a trial step is only accepted (`ratio ≥ 10⁻⁴`) if it strictly
decreases the residual norm. -/
theorem c04_accept_decreases (nm : Num K) (oldNorm newNorm predicted : K)
    (hp : 0 < nm.p0001) (hold : 0 < oldNorm) (hnew : 0 ≤ newNorm) (hpred : 0 ≤ predicted)
    (hacc : nm.p0001 ≤ ratioOf (actualReduction nm oldNorm newNorm) predicted) :
    newNorm < oldNorm := by
  have hr : 0 < ratioOf (actualReduction nm oldNorm newNorm) predicted := lt_of_lt_of_le hp hacc
  unfold ratioOf at hr
  split at hr
  · exact absurd hr (lt_irrefl _)
  · rename_i hne
    have hpos : 0 < predicted := lt_of_le_of_ne hpred (Ne.symm hne)
    have hact : 0 < actualReduction nm oldNorm newNorm := by
      by_contra hcon
      push_neg at hcon
      have : actualReduction nm oldNorm newNorm / predicted ≤ 0 :=
        div_nonpos_of_nonpos_of_nonneg hcon hpos.le
      linarith
    unfold actualReduction at hact
    split at hact
    · have hq : (newNorm / oldNorm) * (newNorm / oldNorm) < 1 := by linarith
      have hq0 : 0 ≤ newNorm / oldNorm := div_nonneg hnew hold.le
      have hlt1 : newNorm / oldNorm < 1 := by
        by_contra h1
        push_neg at h1
        have : 1 ≤ (newNorm / oldNorm) * (newNorm / oldNorm) := by nlinarith
        linarith
      rwa [div_lt_one hold] at hlt1
    · linarith

/-- consequently the reported objective `½‖r‖²` strictly decreases on every accepted step -/
theorem c04_objective_decreases (half oldNorm newNorm : K) (hh : 0 < half) (hnew : 0 ≤ newNorm)
    (hlt : newNorm < oldNorm) : newNorm * newNorm * half < oldNorm * oldNorm * half := by
  have : newNorm * newNorm < oldNorm * oldNorm := by nlinarith
  exact mul_lt_mul_of_pos_right this hh

/-! ### non-vacuity -/
private def nmQ : Num ℚ where
  p1 := 1/10
  p0001 := 1/10000
  half := 1/2
  quarter := 1/4
  threeQuarter := 3/4
  ten := 10
  epsmch := 0
  minPositive := 0
  isFinite := fun _ => true
  isNegative := fun x => decide (x < 0)
  abs := fun x => abs x
  sqrt := fun x => x

example : ratioOf (actualReduction nmQ 2 1) (1/2) = 3/2 := by
  norm_num [ratioOf, actualReduction, nmQ]
end arithmetic

end Varpro.LM
