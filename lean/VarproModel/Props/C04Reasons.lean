import VarproModel.Props.C04Run
import Mathlib.Tactic.NormNum
/-!
# C04 (part 3) / C05 — the termination reason the optimizer reports is *truthful*

For every behaviour of the numerical oracles, every least-squares problem and every configuration:

* `c04_reason_orthogonal`: `Orthogonal` is only reported when the gradient test `max_j |J_jᵀr| / (‖J_j‖‖r‖)
  ≤ gtol` was evaluated **on the Jacobian and the residuals of the returned problem's own state**
  (the problem handed back is the one the Jacobian was taken from, and `r` are its residuals) — the
  hypothesis of `c05_stationary_partial` is therefore the thing the optimizer tested, not a stale one;
* `c04_reason_residualsZero`: `ResidualsZero` ⇒ the returned problem exposes residuals of norm
  `≤ MIN_POSITIVE`;
* `c04_reason_lostPatience`: `LostPatience` ⇒ the evaluation budget `patience·(P+1)` was really used up
  (together with `c04_budget`: the count is *exactly* the budget, for budgets ≥ 2);
* `c04_reason_converged`: `Converged{ftol, xtol}` never carries two `false` flags.
-/
namespace Varpro.LM
set_option linter.unusedSectionVars false

variable {T K Vx Vr J LLS : Type} [Field K] [LinearOrder K] [IsStrictOrderedRing K]

/-- what a stop inside `trust_region_iteration` can be, with the fact that justifies it -/
def Reason (nm : Num K) (s' : St T K Vx) (t : Termination) : Prop :=
  (∃ w, t = .numerical w) ∨ (t = .residualsZero ∧ s'.residualsNorm ≤ nm.minPositive) ∨
  (∃ f x, t = .converged f x ∧ (f || x) = true) ∨ (t = .lostPatience ∧ s'.maxFev ≤ s'.evaluations) ∨
  (∃ w, t = .noImprovementPossible w) ∨ (∃ w, t = .user w) ∨ (∃ w, t = .wrongDimensions w)

theorem trTests_reason (nm : Num K) (cfg : Config K) (st : St T K Vx) (a p r : K) (t : Termination)
    (h : trTests nm cfg st a p r = some t) : Reason nm st t := by
  unfold trTests at h
  split at h
  · rename_i hz
    cases h; exact Or.inr (Or.inl ⟨rfl, hz⟩)
  · simp only at h
    split at h
    · rename_i hc
      cases h
      exact Or.inr (Or.inr (Or.inl ⟨_, _, rfl, hc⟩))
    · split at h
      · rename_i hp
        cases h; exact Or.inr (Or.inr (Or.inr (Or.inl ⟨rfl, hp⟩)))
      · split at h
        · cases h; exact Or.inr (Or.inr (Or.inr (Or.inr (Or.inl ⟨_, rfl⟩))))
        · split at h
          · cases h; exact Or.inr (Or.inr (Or.inr (Or.inr (Or.inl ⟨_, rfl⟩))))
          · split at h
            · cases h; exact Or.inr (Or.inr (Or.inr (Or.inr (Or.inl ⟨_, rfl⟩))))
            · cases h

theorem reason_of_fields (nm : Num K) (s s' : St T K Vx) (t : Termination)
    (h1 : s'.residualsNorm = s.residualsNorm) (h2 : s'.maxFev = s.maxFev) (h3 : s'.evaluations = s.evaluations)
    (h : Reason nm s t) : Reason nm s' t := by
  rcases h with h | ⟨e, h⟩ | h | ⟨e, h⟩ | h | h | h
  · exact Or.inl h
  · exact Or.inr (Or.inl ⟨e, by rw [h1]; exact h⟩)
  · exact Or.inr (Or.inr (Or.inl h))
  · exact Or.inr (Or.inr (Or.inr (Or.inl ⟨e, by rw [h2, h3]; exact h⟩)))
  · exact Or.inr (Or.inr (Or.inr (Or.inr (Or.inl h))))
  · exact Or.inr (Or.inr (Or.inr (Or.inr (Or.inr (Or.inl h)))))
  · exact Or.inr (Or.inr (Or.inr (Or.inr (Or.inr (Or.inr h)))))

theorem trAfter_reason (P : LSP T K Vx Vr J) (o : Ops K Vx Vr J LLS) (nm : Num K) (cfg : Config K)
    (s : St T K Vx) (tmp : Vx) (r : Vr) (pn pred dd : K) :
    match trAfter P o nm cfg s tmp r pn pred dd with
    | .stop s' t => Reason nm s' t
    | _ => True := by
  unfold trAfter
  simp only
  generalize trRegion nm s pn (ratioOf (actualReduction nm s.residualsNorm (o.enormR r)) pred)
    (actualReduction nm s.residualsNorm (o.enormR r)) dd (o.enormR r) = s2
  generalize ratioOf (actualReduction nm s.residualsNorm (o.enormR r)) pred = ratio
  generalize actualReduction nm s.residualsNorm (o.enormR r) = actual
  by_cases hg : nm.p0001 ≤ ratio
  · simp only [hg, decide_true, if_true, Bool.not_true]
    cases hacc : trAccept o nm cfg s2 tmp (o.enormR r) with
    | error t =>
      have := trAccept_error _ _ _ _ _ _ _ hacc
      subst this
      exact Or.inl ⟨_, rfl⟩
    | ok s3 =>
      simp only
      cases ht : trTests nm cfg s3 actual pred ratio with
      | some t =>
        simp only
        obtain ⟨e1, e2, _, _, e5⟩ := resetParamsIf_fields P s3 false
        exact reason_of_fields nm s3 _ t e5 e2 e1 (trTests_reason nm cfg s3 actual pred ratio t ht)
      | none => simp only
  · simp only [hg, decide_false, Bool.false_eq_true, if_false, Bool.not_false]
    cases ht : trTests nm cfg s2 actual pred ratio with
    | some t =>
      simp only
      obtain ⟨e1, e2, _, _, e5⟩ := resetParamsIf_fields P s2 true
      exact reason_of_fields nm s2 _ t e5 e2 e1 (trTests_reason nm cfg s2 actual pred ratio t ht)
    | none => simp only

theorem tr_reason (P : LSP T K Vx Vr J) (o : Ops K Vx Vr J LLS) (nm : Num K) (cfg : Config K)
    (st : St T K Vx) (lls : LLS) (param : K × K × Vx) :
    match trustRegionIteration P o nm cfg st lls param with
    | .stop s' t => Reason nm s' t
    | _ => True := by
  unfold trustRegionIteration
  cases hp : trPrelude o nm { st with lambda := param.1 } lls param.2.1 param.2.2 with
  | error t =>
    obtain ⟨w, rfl⟩ := trPrelude_error _ _ _ _ _ _ _ hp
    exact Or.inl ⟨w, rfl⟩
  | ok pd =>
    obtain ⟨predicted, dirDer⟩ := pd
    simp only
    generalize trPre st param = s0
    cases hres : P.residuals (P.setParams s0.target (o.subStep s0.x param.2.2)) with
    | none => exact Or.inr (Or.inr (Or.inr (Or.inr (Or.inr (Or.inl ⟨_, rfl⟩)))))
    | some residuals =>
      simp only
      by_cases hlen : o.lenR residuals = s0.m
      case neg =>
        simp only [ne_eq, hlen, not_false_eq_true, if_true]
        exact Or.inr (Or.inr (Or.inr (Or.inr (Or.inr (Or.inr ⟨_, rfl⟩)))))
      case pos =>
        simp only [ne_eq, hlen, not_true_eq_false, if_false]
        exact trAfter_reason P o nm cfg _ _ residuals param.2.1 predicted dirDer

theorem updateDiag_orthogonal (o : Ops K Vx Vr J LLS) (nm : Num K) (cfg : Config K) (st : St T K Vx)
    (lls : LLS) (h : updateDiag o nm cfg st lls = .error .orthogonal) :
    ∃ g, o.maxAtBScaled lls st.residualsNorm = some g ∧ g ≤ cfg.gtol := by
  unfold updateDiag at h
  cases hn : updateDiagNum o nm cfg st lls with
  | ok v => obtain ⟨g, d, xn, dl, fu⟩ := v; simp [hn] at h
  | error t' =>
    simp only [hn] at h
    cases h
    unfold updateDiagNum at hn
    cases hm : o.maxAtBScaled lls st.residualsNorm with
    | none => simp [hm] at hn
    | some g =>
      simp only [hm] at hn
      by_cases hg : g ≤ cfg.gtol
      · exact ⟨g, rfl, hg⟩
      · simp only [hg, if_false] at hn
        by_cases hf : st.firstUpdate = true
        · simp only [hf, if_true] at hn
          generalize (if cfg.scaleDiag = true then o.enormX (o.mulDiag (if cfg.scaleDiag = true then o.initDiag lls else st.diag) st.x) else o.enormX st.x) = xn at hn
          by_cases hfin : nm.isFinite xn = true
          · simp [hfin] at hn
          · simp [hfin] at hn
        · simp only [hf] at hn
          by_cases hsd : cfg.scaleDiag = true <;> simp [hsd] at hn

theorem new_error_reason (P : LSP T K Vx Vr J) (o : Ops K Vx Vr J LLS) (nm : Num K) (cfg : Config K)
    (t : T) (rep : T × Report K) (h : new P o nm cfg t = .error rep) :
    rep.2.termination ≠ .orthogonal ∧ rep.2.termination ≠ .lostPatience ∧
    (∀ f x, rep.2.termination ≠ .converged f x) ∧
    (rep.2.termination = .residualsZero → ∃ r, P.residuals t = some r ∧ o.enormR r ≤ nm.minPositive) := by
  unfold new at h
  cases hr : P.residuals t with
  | none =>
    simp only [hr] at h; cases h
    simp
  | some res =>
    simp only [hr] at h
    split at h
    · cases h; simp
    · split at h
      · cases h; simp
      · split at h
        · cases h; simp
        · split at h
          · rename_i hz
            cases h
            refine ⟨by simp, by simp, by simp, fun _ => ⟨res, rfl, hz⟩⟩
          · cases h

/-- the four truthfulness clauses of a finished run -/
def Truthful (P : LSP T K Vx Vr J) (o : Ops K Vx Vr J LLS) (nm : Num K) (cfg : Config K) (M : Nat)
    (res : T × Report K) : Prop :=
  (res.2.termination = .orthogonal → ∃ t0 r jac g, P.jacobian t0 = (res.1, some jac) ∧
      P.residuals t0 = some r ∧ o.maxAtBScaled (o.mkLLS jac r) (o.enormR r) = some g ∧ g ≤ cfg.gtol) ∧
  (res.2.termination = .residualsZero → ∃ r, P.residuals res.1 = some r ∧ o.enormR r ≤ nm.minPositive) ∧
  (res.2.termination = .lostPatience → M ≤ res.2.evaluations) ∧
  (∀ f x, res.2.termination = .converged f x → (f || x) = true)

theorem truthful_of_reason (P : LSP T K Vx Vr J) (o : Ops K Vx Vr J LLS) (nm : Num K) (cfg : Config K)
    (M : Nat) (s' : St T K Vx) (t : Termination) (hr : Reason nm s' t) (hM : s'.maxFev = M)
    (hz : s'.residualsNorm ≤ nm.minPositive → ∃ r, P.residuals s'.target = some r ∧ o.enormR r ≤ nm.minPositive) :
    Truthful P o nm cfg M (s'.report t) := by
  simp only [Truthful, St.report]
  rcases hr with ⟨w, rfl⟩ | ⟨rfl, h⟩ | ⟨f, x, rfl, h⟩ | ⟨rfl, h⟩ | ⟨w, rfl⟩ | ⟨w, rfl⟩ | ⟨w, rfl⟩
  · simp
  · exact ⟨by simp, fun _ => hz h, by simp, by simp⟩
  · refine ⟨by simp, by simp, by simp, ?_⟩
    intro f' x' he
    cases he; exact h
  · exact ⟨by simp, by simp, fun _ => by rw [← hM]; exact h, by simp⟩
  · simp
  · simp
  · simp

/-- **all four clauses**, for every run of `minimize` -/
theorem c04_reasons (P : LSP T K Vx Vr J) (o : Ops K Vx Vr J LLS) (nm : Num K) (cfg : Config K) (t : T) :
    Truthful P o nm cfg (cfg.patience * (o.lenX (P.params t) + 1)) (minimize P o nm cfg t) := by
  set M := cfg.patience * (o.lenX (P.params t) + 1) with hMdef
  unfold minimize
  cases hn : new P o nm cfg t with
  | error rep =>
    obtain ⟨h1, h2, h3, h4⟩ := new_error_reason P o nm cfg t rep hn
    obtain ⟨ht, _⟩ := new_error P o nm cfg t rep hn
    refine ⟨fun h => absurd h h1, ?_, fun h => absurd h h2, fun f x h => absurd h (h3 f x)⟩
    intro hz
    simp only
    rw [ht]; exact h4 hz
  | ok sr =>
    obtain ⟨st, r⟩ := sr
    simp only
    obtain ⟨_, hmf, htgt, _, hres, hrn, _, hnz⟩ := new_ok P o nm cfg t st r hn
    let IO : St T K Vx → Vr → Prop := fun s r =>
      P.residuals s.target = some r ∧ s.residualsNorm = o.enormR r ∧
      ¬ (s.residualsNorm ≤ nm.minPositive) ∧ s.maxFev = M
    let II : St T K Vx → Prop := fun s => ¬ (s.residualsNorm ≤ nm.minPositive) ∧ s.maxFev = M
    have hinit : IO st r := ⟨by rw [htgt]; exact hres, hrn, by rw [hrn]; exact hnz, hmf⟩
    exact run_induct P o nm cfg IO II (Truthful P o nm cfg M)
      (by intro s ph _; simp [Truthful, St.report])
      (by intro s r t1 _ _; simp [Truthful, St.report])
      (by intro s r t1 jac _ _; simp [Truthful, St.report])
      (by
        intro s r t1 jac tt hio hj hu
        rcases updateDiag_error _ _ _ _ _ _ hu with rfl | ⟨w, rfl⟩
        · obtain ⟨g, hg1, hg2⟩ := updateDiag_orthogonal o nm cfg _ _ hu
          simp only at hg1
          refine ⟨fun _ => ⟨s.target, r, jac, g, hj, hio.1, by rw [← hio.2.1]; exact hg1, hg2⟩, ?_, ?_, ?_⟩ <;>
            simp [St.report]
        · simp [Truthful, St.report])
      (by
        intro s r t1 jac s' hio _ hu
        have hb := updateDiag_book _ _ _ _ _ _ hu
        exact ⟨by rw [hb.residualsNorm]; exact hio.2.2.1, by rw [hb.maxFev]; exact hio.2.2.2⟩)
      (by
        intro s lls param hii
        have hsp := tr_spec P o nm cfg s lls param
        have hrs := tr_reason P o nm cfg s lls param
        have hbd := tr_budget P o nm cfg s lls param
        simp only at hsp
        revert hsp hrs hbd
        cases trustRegionIteration P o nm cfg s lls param with
        | stop s' tt =>
          intro hsp hrs hbd
          refine truthful_of_reason P o nm cfg M s' tt hrs (hbd.1.trans hii.2) ?_
          intro hz
          rcases hsp with ⟨_, h2, _⟩ | ⟨r', pred, a, b, _, hu⟩
          · rw [h2] at hz; exact absurd hz hii.1
          · exact ⟨r', by rw [hu.target]; exact hu.res, by rw [← hu.rnorm]; exact hz⟩
        | accepted s' r' =>
          intro hsp _ hbd
          obtain ⟨pred, a, b, _, hu, hnz'⟩ := hsp
          exact ⟨by rw [hu.target]; exact hu.res, hu.rnorm, hnz', hbd.1.trans hii.2⟩
        | rejected s' =>
          intro hsp _ hbd
          obtain ⟨_, _, h3, _⟩ := hsp
          exact ⟨by rw [h3]; exact hii.1, hbd.1.trans hii.2⟩)
      (2 * st.maxFev + 4) st (.outer r) hinit

/-- **c04_reason_orthogonal** -/
theorem c04_reason_orthogonal (P : LSP T K Vx Vr J) (o : Ops K Vx Vr J LLS) (nm : Num K) (cfg : Config K)
    (t : T) (h : (minimize P o nm cfg t).2.termination = .orthogonal) :
    ∃ t0 r jac g, P.jacobian t0 = ((minimize P o nm cfg t).1, some jac) ∧ P.residuals t0 = some r ∧
      o.maxAtBScaled (o.mkLLS jac r) (o.enormR r) = some g ∧ g ≤ cfg.gtol :=
  (c04_reasons P o nm cfg t).1 h

/-- **c04_reason_residualsZero** -/
theorem c04_reason_residualsZero (P : LSP T K Vx Vr J) (o : Ops K Vx Vr J LLS) (nm : Num K) (cfg : Config K)
    (t : T) (h : (minimize P o nm cfg t).2.termination = .residualsZero) :
    ∃ r, P.residuals (minimize P o nm cfg t).1 = some r ∧ o.enormR r ≤ nm.minPositive :=
  (c04_reasons P o nm cfg t).2.1 h

/-- **c04_reason_lostPatience** -/
theorem c04_reason_lostPatience (P : LSP T K Vx Vr J) (o : Ops K Vx Vr J LLS) (nm : Num K) (cfg : Config K)
    (t : T) (h : (minimize P o nm cfg t).2.termination = .lostPatience) :
    cfg.patience * (o.lenX (P.params t) + 1) ≤ (minimize P o nm cfg t).2.evaluations :=
  (c04_reasons P o nm cfg t).2.2.1 h

/-- **c04_reason_converged** -/
theorem c04_reason_converged (P : LSP T K Vx Vr J) (o : Ops K Vx Vr J LLS) (nm : Num K) (cfg : Config K)
    (t : T) (f x : Bool) (h : (minimize P o nm cfg t).2.termination = .converged f x) : (f || x) = true :=
  (c04_reasons P o nm cfg t).2.2.2 f x h

/-! ### non-vacuity -/
section example_
def toyP : LSP Unit ℚ Unit Unit Unit :=
  { setParams := fun _ _ => (), params := fun _ => (), residuals := fun _ => some (), jacobian := fun t => (t, some ()) }
def toyO : Ops ℚ Unit Unit Unit Unit :=
  { enormR := fun _ => 1, enormX := fun _ => 1, lenX := fun _ => 1, lenR := fun _ => 1, jacRows := fun _ => 1,
    jacCols := fun _ => 1, ones := fun _ => (), mulDiag := fun _ _ => (), subStep := fun _ _ => (),
    mkLLS := fun _ _ => (), maxAtBScaled := fun _ _ => some 0, initDiag := fun _ => (), maxDiag := fun _ _ => (),
    lmpar := fun _ _ _ _ => ((0, 0, ()), ()), axNorm := fun _ _ => 0 }
def toyN : Num ℚ :=
  { p1 := 1/10, p0001 := 1/10000, half := 1/2, quarter := 1/4, threeQuarter := 3/4, ten := 10, epsmch := 0,
    minPositive := 0, isFinite := fun _ => true, isNegative := fun v => decide (v < 0), abs := fun v => |v|, sqrt := id }
def toyC : Config ℚ := { ftol := 0, xtol := 0, gtol := 0, stepbound := 100, patience := 3, scaleDiag := true }
/-- non-vacuity: a run that ends with `Orthogonal` (so the premise of `c04_reason_orthogonal` is
satisfiable) -/
example : (minimize toyP toyO toyN toyC ()).2.termination = .orthogonal := by
  have h : ¬ ((1 : ℚ) ≤ 0) := by norm_num
  simp [minimize, new, toyP, toyO, toyN, toyC, run, updateDiag, updateDiagNum, St.report, h]
end example_

end Varpro.LM
