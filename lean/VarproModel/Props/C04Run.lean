import VarproModel.Proofs.LMStep
import VarproModel.Props.C04
/-!
# C04 (part 2) — properties of a whole optimizer run, for every behaviour of the numerical oracles

`c04_monotone`: the reported objective never exceeds the objective at the initial guess.
`c04_coherent`: after a successful termination the returned problem is in the state of the last
accepted parameters and the reported objective is `½‖residuals‖²` of that very state.
-/
namespace Varpro.LM
set_option linter.unusedSectionVars false

variable {T K Vx Vr J LLS : Type} [Field K] [LinearOrder K] [IsStrictOrderedRing K]

/-- what is assumed of constants and norms -/
structure NumLaws (o : Ops K Vx Vr J LLS) (nm : Num K) : Prop where
  half_pos : 0 < nm.half
  p0001_pos : 0 < nm.p0001
  minPositive_nonneg : 0 ≤ nm.minPositive
  enorm_nonneg : ∀ r, 0 ≤ o.enormR r

private def Mono (nm : Num K) (bound : K) (st : St T K Vx) : Prop :=
  st.objective = some (st.residualsNorm * st.residualsNorm * nm.half) ∧
  0 < st.residualsNorm ∧ st.residualsNorm ≤ bound

theorem sq_half_le (nm : Num K) (hh : 0 < nm.half) (a b : K) (ha : 0 ≤ a) (hab : a ≤ b) :
    a * a * nm.half ≤ b * b * nm.half := by
  have : a * a ≤ b * b := by nlinarith
  exact mul_le_mul_of_nonneg_right this hh.le

/-- **c04_monotone**: for every termination, the objective reported by the optimizer is not larger
than the objective at the initial guess `½‖r(α₀)‖²`. -/
theorem c04_monotone (P : LSP T K Vx Vr J) (o : Ops K Vx Vr J LLS) (nm : Num K) (cfg : Config K)
    (hl : NumLaws o nm) (t : T) (r0 : Vr) (hr0 : P.residuals t = some r0) (v : K)
    (hv : (minimize P o nm cfg t).2.objective = some v) :
    v ≤ o.enormR r0 * o.enormR r0 * nm.half := by
  set bound := o.enormR r0 with hbound
  unfold minimize at hv
  cases hn : new P o nm cfg t with
  | error rep =>
    rw [hn] at hv
    obtain ⟨_, _, _, hobj, _⟩ := new_error P o nm cfg t rep hn
    have := hobj r0 hr0
    simp only at hv
    rw [this] at hv
    cases hv
    exact le_refl _
  | ok sr =>
    obtain ⟨st, r⟩ := sr
    rw [hn] at hv
    simp only at hv
    obtain ⟨_, _, _, _, hres, hrn, hob, hnz⟩ := new_ok P o nm cfg t st r hn
    have hrr : r = r0 := by rw [hr0] at hres; exact (Option.some.inj hres).symm
    subst hrr
    have hpos : 0 < st.residualsNorm := by
      rw [hrn]
      exact lt_of_le_of_lt hl.minPositive_nonneg (not_le.mp hnz)
    have hinit : Mono nm bound st := ⟨by rw [hob, hrn], hpos, by rw [hrn]⟩
    have key := run_induct P o nm cfg (fun s _ => Mono nm bound s) (Mono nm bound)
      (fun res => ∀ v, res.2.objective = some v → v ≤ bound * bound * nm.half)
      (by
        intro s ph hinv v hv
        have hm : Mono nm bound s := by cases ph <;> exact hinv
        simp only [St.report] at hv
        rw [hm.1] at hv; cases hv
        exact sq_half_le nm hl.half_pos _ _ hm.2.1.le hm.2.2)
      (by
        intro s r t1 hm _ v hv
        simp only [St.report] at hv
        rw [hm.1] at hv; cases hv
        exact sq_half_le nm hl.half_pos _ _ hm.2.1.le hm.2.2)
      (by
        intro s r t1 jac hm _ v hv
        simp only [St.report] at hv
        rw [hm.1] at hv; cases hv
        exact sq_half_le nm hl.half_pos _ _ hm.2.1.le hm.2.2)
      (by
        intro s r t1 jac tt hm _ _ v hv
        simp only [St.report] at hv
        rw [hm.1] at hv; cases hv
        exact sq_half_le nm hl.half_pos _ _ hm.2.1.le hm.2.2)
      (by
        intro s r t1 jac s' hm _ hu
        have hb := updateDiag_book _ _ _ _ _ _ hu
        exact ⟨by rw [hb.objective, hb.residualsNorm]; exact hm.1, by rw [hb.residualsNorm]; exact hm.2.1,
          by rw [hb.residualsNorm]; exact hm.2.2⟩)
      (by
        intro s lls param hm
        have hs := tr_spec P o nm cfg s lls param
        simp only at hs
        revert hs
        cases trustRegionIteration P o nm cfg s lls param with
        | stop s' tt =>
          intro hs v hv
          simp only [St.report] at hv
          rcases hs with ⟨h1, h2, _⟩ | ⟨r', pred, a, b, hab, hu⟩
          · rw [h1, hm.1] at hv; cases hv
            exact sq_half_le nm hl.half_pos _ _ hm.2.1.le hm.2.2
          · rw [hu.obj] at hv; cases hv
            have hpred : 0 ≤ pred := by
              rw [hab]; exact c04_predicted_nonneg _ _ _ hl.half_pos a b rfl rfl
            have hlt := c04_accept_decreases nm s.residualsNorm (o.enormR r') pred hl.p0001_pos hm.2.1
              (hl.enorm_nonneg r') hpred hu.acc
            exact sq_half_le nm hl.half_pos _ _ (hl.enorm_nonneg r') (le_trans hlt.le hm.2.2)
        | accepted s' r' =>
          intro hs
          obtain ⟨pred, a, b, hab, hu, hnz'⟩ := hs
          have hpred : 0 ≤ pred := by
            rw [hab]; exact c04_predicted_nonneg _ _ _ hl.half_pos a b rfl rfl
          have hlt := c04_accept_decreases nm s.residualsNorm (o.enormR r') pred hl.p0001_pos hm.2.1
            (hl.enorm_nonneg r') hpred hu.acc
          refine ⟨by rw [hu.obj, hu.rnorm], ?_, ?_⟩
          · exact lt_of_le_of_lt hl.minPositive_nonneg (not_le.mp hnz')
          · rw [hu.rnorm]; exact le_trans hlt.le hm.2.2
        | rejected s' =>
          intro hs
          obtain ⟨_, _, h3, h4⟩ := hs
          exact ⟨by rw [h4, h3]; exact hm.1, by rw [h3]; exact hm.2.1, by rw [h3]; exact hm.2.2⟩)
      (2 * st.maxFev + 4) st (.outer r) hinit
    exact key v hv

/-- the contract of a least-squares problem whose outputs are a function of the applied parameters
(for varpro's problem this is C10) -/
structure LSPLaws (P : LSP T K Vx Vr J) (R : Vx → Option Vr) : Prop where
  params_set : ∀ t v, P.params (P.setParams t v) = v
  residuals_set : ∀ t v, P.residuals (P.setParams t v) = R v
  jac_params : ∀ t, P.params (P.jacobian t).1 = P.params t
  jac_residuals : ∀ t, P.residuals (P.jacobian t).1 = P.residuals t

/-- **c04_coherent**: if the optimizer terminates successfully, the problem it hands back reports
residuals that are the residuals *of the parameters it reports* (`R (params)`), and the reported
objective is `½‖residuals‖²` of exactly these residuals – also when the last trial step was
rejected (the accepted parameters are re-applied) and for every behaviour of the numerical oracles. -/
theorem c04_coherent (P : LSP T K Vx Vr J) (o : Ops K Vx Vr J LLS) (nm : Num K) (cfg : Config K)
    (R : Vx → Option Vr) (hP : LSPLaws P R) (t : T) (h0 : P.residuals t = R (P.params t))
    (hs : (minimize P o nm cfg t).2.termination.wasSuccessful = true) :
    ∃ r, P.residuals (minimize P o nm cfg t).1 = some r ∧
      R (P.params (minimize P o nm cfg t).1) = some r ∧
      (minimize P o nm cfg t).2.objective = some (o.enormR r * o.enormR r * nm.half) := by
  let F : T × Report K → Prop := fun res =>
    res.2.termination.wasSuccessful = true →
      ∃ r, P.residuals res.1 = some r ∧ R (P.params res.1) = some r ∧
        res.2.objective = some (o.enormR r * o.enormR r * nm.half)
  suffices hF : F (minimize P o nm cfg t) from hF hs
  unfold minimize
  cases hn : new P o nm cfg t with
  | error rep =>
    obtain ⟨h1, _, _, hobj, hsucc⟩ := new_error P o nm cfg t rep hn
    intro hs'
    obtain ⟨res, hres⟩ := hsucc hs'
    refine ⟨res, by simp only; rw [h1]; exact hres, by simp only; rw [h1, ← h0]; exact hres, hobj res hres⟩
  | ok sr =>
    obtain ⟨st, r⟩ := sr
    simp only
    obtain ⟨_, _, htgt, hx, hres, hrn, hob, _⟩ := new_ok P o nm cfg t st r hn
    let IO : St T K Vx → Vr → Prop := fun s r =>
      P.params s.target = s.x ∧ P.residuals s.target = some r ∧ R s.x = some r ∧
      s.residualsNorm = o.enormR r ∧ s.objective = some (o.enormR r * o.enormR r * nm.half)
    let II : St T K Vx → Prop := fun s =>
      ∃ r, R s.x = some r ∧ s.residualsNorm = o.enormR r ∧
        s.objective = some (o.enormR r * o.enormR r * nm.half)
    have hinit : IO st r := by
      refine ⟨by rw [htgt, hx], by rw [htgt]; exact hres, ?_, hrn, hob⟩
      rw [hx, ← h0]; exact hres
    exact run_induct P o nm cfg IO II F
      (by intro s ph _ hs'; cases hs')
      (by intro s r t1 _ _ hs'; cases hs')
      (by intro s r t1 jac _ _ hs'; cases hs')
      (by
        intro s r t1 jac tt hio hj hu hs'
        simp only [St.report] at hs' ⊢
        have ht1 : t1 = (P.jacobian s.target).1 := by rw [hj]
        obtain ⟨h1, h2, h3, _, h5⟩ := hio
        refine ⟨r, ?_, ?_, h5⟩
        · rw [ht1, hP.jac_residuals]; exact h2
        · rw [ht1, hP.jac_params, h1]; exact h3)
      (by
        intro s r t1 jac s' hio _ hu
        have hb := updateDiag_book _ _ _ _ _ _ hu
        obtain ⟨_, _, h3, h4, h5⟩ := hio
        exact ⟨r, by rw [hb.x]; exact h3, by rw [hb.residualsNorm]; exact h4, by rw [hb.objective]; exact h5⟩)
      (by
        intro s lls param hii
        obtain ⟨r0, hR, hrn0, hob0⟩ := hii
        have hsp := tr_spec P o nm cfg s lls param
        simp only at hsp
        revert hsp
        cases trustRegionIteration P o nm cfg s lls param with
        | stop s' tt =>
          intro hsp hs'
          simp only [St.report] at hs' ⊢
          rcases hsp with ⟨h1, h2, h3⟩ | ⟨r', pred, a, b, _, hu⟩
          · obtain ⟨e1, e2⟩ := h3 hs'
            refine ⟨r0, ?_, ?_, ?_⟩
            · rw [e2, hP.residuals_set]; exact hR
            · rw [e2, hP.params_set]; exact hR
            · rw [h1]; exact hob0
          · refine ⟨r', ?_, ?_, hu.obj⟩
            · rw [hu.target]; exact hu.res
            · rw [hu.target, hP.params_set, ← hP.residuals_set s.target]; exact hu.res
        | accepted s' r' =>
          intro hsp
          obtain ⟨pred, a, b, _, hu, _⟩ := hsp
          refine ⟨by rw [hu.target, hP.params_set, hu.x], by rw [hu.target]; exact hu.res, ?_, hu.rnorm, hu.obj⟩
          rw [hu.x, ← hP.residuals_set s.target]; exact hu.res
        | rejected s' =>
          intro hsp
          obtain ⟨_, h2, h3, h4⟩ := hsp
          exact ⟨r0, by rw [h2]; exact hR, by rw [h3]; exact hrn0, by rw [h4]; exact hob0⟩)
      (2 * st.maxFev + 4) st (.outer r) hinit

end Varpro.LM
