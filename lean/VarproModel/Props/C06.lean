import VarproModel.Proofs.ToMatrix
/-!
# C06 — weights act as row scaling of model and data, applied exactly once
-/
namespace Varpro
open Matrix
variable {K E : Type} {n m p s : Nat}
set_option linter.unusedSectionVars false

section core
variable [Add K] [Sub K] [Mul K] [Div K] [Zero K] [LT K] [DecidableLT K]

/-- **c06_equiv (cache)**: the weighted problem and the unweighted problem whose basis matrix and
observations have row `i` multiplied by `w_i` feed *identical* inputs to the SVD, the solve and the
residual: coefficients, residuals and the stored decomposition coincide. -/
theorem c06_equiv_cache (x : Ext K) (o : XOps K) (w : Vector K n) (Y : Mat n s K) (Phi : Mat n m K) (eps : K) :
    computeCache x o (wmul (some w) Y) eps (wmul (some w) Phi)
      = computeCache x o (wmul none (Mat.rowScale w Y)) eps (wmul none (Mat.rowScale w Phi)) := rfl

/-- **c06_equiv (Jacobian)**: likewise every Jacobian block, with the derivative rows scaled. -/
theorem c06_equiv_jac (w : Vector K n) (c : Cache n m s K) (Dk : Mat n m K) :
    jacBlock (some w) c Dk = jacBlock none c (Mat.rowScale w Dk) := rfl

/-- **c06_zero_weight**: a sample with weight zero has no influence: two matrices (data, basis
functions or derivatives) that differ only in rows whose weight is zero are indistinguishable after
weighting, provided `a * 0 = 0` in the scalar type. -/
theorem c06_zero_weight {c : Nat} (hz : ∀ a : K, a * 0 = 0) (w : Vector K n) (A A' : Mat n c K)
    (h : ∀ i j, w[i] ≠ 0 → A.get i j = A'.get i j) [DecidableEq K] :
    wmul (some w) A = wmul (some w) A' := by
  apply Mat.ext_get
  intro i j
  simp only [wmul, Mat.rowScale, Mat.get_ofFn]
  by_cases hw : w[i] = 0
  · rw [hw, hz, hz]
  · rw [h i j hw]
end core

variable [Field K]

/-- **c06_unit**: unit weights are equivalent to supplying no weights. -/
theorem c06_unit {c : Nat} (w : Vector K n) (h1 : ∀ i : Fin n, w[i] = 1) (A : Mat n c K) :
    wmul (some w) A = wmul none A := by
  apply Mat.ext_get
  intro i j
  simp only [wmul, Mat.rowScale, Mat.get_ofFn]
  rw [h1 i, mul_one]

/-- **c06_weights_once**: the residual matrix of a weighted problem is `W·(Y − Φ·C)`: every weight
multiplies its row exactly once. -/
theorem c06_weights_once (w : Option (Vector K n)) (Y : Mat n s K) (Phi : Mat n m K) (C : Mat m s K) :
    ((wmul w Y).sub ((wmul w Phi).mul C)).toM = weightM w * (Y.toM - Phi.toM * C.toM) := by
  rw [toM_sub, toM_mul, toM_wmul, toM_wmul, Matrix.mul_sub, Matrix.mul_assoc]

/-- entrywise form: residual `(i, j)` is `w_i · (Y − ΦC)_{ij}` -/
theorem c06_weights_once_entry (w : Vector K n) (Y : Mat n s K) (Phi : Mat n m K) (C : Mat m s K)
    (i : Fin n) (j : Fin s) :
    ((wmul (some w) Y).sub ((wmul (some w) Phi).mul C)).get i j
      = w[i] * (Y.toM - Phi.toM * C.toM) i j := by
  have := congrFun (congrFun (c06_weights_once (some w) Y Phi C) i) j
  simpa [weightM, Matrix.diagonal_mul] using this

end Varpro
