import VarproModel.Core.Problem
import Mathlib.Algebra.BigOperators.Group.Finset.Basic
import Mathlib.Algebra.BigOperators.Fin
/-!
# C07 — multiple right-hand sides: shared α, independent per-column coefficients

`selectCols f` takes column `f j` of the observations as column `j`: a single column (`s' = 1`),
a permutation, duplicated columns – all at once.  The single-right-hand-side constructors and the
multiple-right-hand-side constructors build the same `Problem` (they differ in type-level flags
only, `PB.Ctor`), so "the single problem for column `j`" is the problem on `Y.selectCols (fun _ => j)`.
-/
namespace Varpro
variable {K : Type} {n m p s s' : Nat}
set_option linter.unusedSectionVars false

section core
variable [Add K] [Sub K] [Mul K] [Div K] [Zero K] [LT K] [DecidableLT K]

theorem mul_selectCols {a b : Nat} (A : Mat a b K) (B : Mat b s K) (f : Fin s' → Fin s) :
    A.mul (B.selectCols f) = (A.mul B).selectCols f := by
  apply Mat.ext_get; intro i j
  simp [Mat.mul, Mat.selectCols]

theorem sub_selectCols (A B : Mat n s K) (f : Fin s' → Fin s) :
    (A.selectCols f).sub (B.selectCols f) = (A.sub B).selectCols f := by
  apply Mat.ext_get; intro i j
  simp [Mat.sub, Mat.selectCols]

/-- **c07_column (coefficients)**: the coefficient columns are computed independently:
solving for selected observation columns gives the selected coefficient columns. -/
theorem c07_solve_cols (d : SVD n m K) (B : Mat n s K) (eps : K) (f : Fin s' → Fin s) :
    solveTruncVal d (B.selectCols f) eps = (solveTruncVal d B eps).selectCols f := by
  apply Mat.ext_get; intro i j
  simp [solveTruncVal, Mat.mul, Mat.selectCols, Mat.transpose]

/-- column selection on a cache (residual blocks and coefficient columns; the decomposition is
shared) -/
def Cache.selectCols (f : Fin s' → Fin s) (c : Cache n m s K) : Cache n m s' K :=
  { residuals := c.residuals.selectCols f, svd := c.svd, coeff := c.coeff.selectCols f }

/-- **c07_column**: at every α, the cache (coefficients, residual blocks, decomposition) of the
problem on selected observation columns is the selection of the cache of the full problem. -/
theorem c07_cache_cols (x : Ext K) (o : XOps K) (Yw : Mat n s K) (eps : K) (A : Mat n m K)
    (f : Fin s' → Fin s) :
    computeCache x o (Yw.selectCols f) eps A = (computeCache x o Yw eps A).map (Cache.selectCols f) := by
  unfold computeCache
  by_cases hf : (A.all o.isFinite) = true
  · by_cases hneg : eps < 0
    · simp [hf, solveTrunc, hneg]
    · simp [hf, solveTrunc, hneg, Cache.selectCols, c07_solve_cols, sub_selectCols, mul_selectCols]
  · simp [hf]

/-- weighting commutes with column selection, so the statement holds for the raw observations -/
theorem wmul_selectCols (w : Option (Vector K n)) (Y : Mat n s K) (f : Fin s' → Fin s) :
    wmul w (Y.selectCols f) = (wmul w Y).selectCols f := by
  cases w with
  | none => rfl
  | some d =>
    apply Mat.ext_get; intro i j
    simp [wmul, Mat.rowScale, Mat.selectCols]

/-- **c07_column (Jacobian)**: block `j` of every Jacobian column of the selected problem is block
`f j` of the full problem's Jacobian column. -/
theorem c07_jac_cols (w : Option (Vector K n)) (c : Cache n m s K) (Dk : Mat n m K)
    (f : Fin s' → Fin s) :
    jacBlock w (c.selectCols f) Dk = (jacBlock w c Dk).selectCols f := by
  simp only [jacBlock, Cache.selectCols, mul_selectCols, sub_selectCols]

/-- **c07_one_column**: for a single selected column the statement reads: column `j` of the
coefficients / block `j` of the residuals of the `S`-column problem are those of the
single-right-hand-side problem on observation column `j`. -/
theorem c07_single (x : Ext K) (o : XOps K) (Y : Mat n s K) (w : Option (Vector K n)) (eps : K)
    (A : Mat n m K) (j : Fin s) :
    computeCache x o (wmul w (Y.selectCols (fun _ : Fin 1 => j))) eps A
      = (computeCache x o (wmul w Y) eps A).map (Cache.selectCols (fun _ : Fin 1 => j)) := by
  rw [wmul_selectCols, c07_cache_cols]
end core

/-- **c07_perm (objective)**: permuting the observation columns leaves the sum of squares of the
residuals – the quantity the optimizer minimises – unchanged. -/
theorem c07_sumsq_perm [CommSemiring K] (R : Mat n s K) (σ : Equiv.Perm (Fin s)) :
    (∑ j, ∑ i, (R.selectCols σ).get i j * (R.selectCols σ).get i j)
      = ∑ j, ∑ i, R.get i j * R.get i j := by
  simp only [Mat.selectCols, Mat.get_ofFn]
  exact Equiv.sum_comp σ (fun j => ∑ i, R.get i j * R.get i j)

/-- **c07_perm (normal matrix)**: likewise `JᵀJ = Σ_j J_jᵀJ_j` and `Jᵀr = Σ_j J_jᵀ r_j`, everything the
optimizer's step depends on, are sums over the blocks and therefore invariant. -/
theorem c07_blocksum_perm [AddCommMonoid K] (g : Fin s → K) (σ : Equiv.Perm (Fin s)) :
    ∑ j, g (σ j) = ∑ j, g j := Equiv.sum_comp σ g

end Varpro
