import VarproModel.Proofs.LMInv
import VarproModel.Props.C09
/-!
# C08 — construction and fitting always terminate without panicking (the part that is logic)
-/
namespace Varpro
variable {K E : Type} {n m p s : Nat} {U : UserModel n m p K E}
variable [Add K] [Sub K] [Mul K] [Div K] [Zero K] [LT K] [DecidableLT K]
set_option linter.unusedSectionVars false

/-- **c08_nonfinite_absent**: a weighted basis matrix with a non-finite entry never reaches the SVD:
the cache is absent (a rejected state), whatever the SVD routine would do. -/
theorem c08_nonfinite_absent (x : Ext K) (o : XOps K) (Yw : Mat n s K) (eps : K) (A : Mat n m K)
    (h : A.all o.isFinite = false) : computeCache x o Yw eps A = none := by
  simp [computeCache, h]

/-- **c08_nonfinite_sigma_absent**: a decomposition whose singular values are not all finite (the
SVD routine can produce NaN singular values for a finite matrix whose entries span very many orders
of magnitude) is discarded: the cache is absent – a rejected state – and nothing downstream (the
sorting of the singular values, the truncated solve) ever sees it. -/
theorem c08_nonfinite_sigma_absent (x : Ext K) (o : XOps K) (Yw : Mat n s K) (eps : K) (A : Mat n m K)
    (h : (x.svd n m A).sigma.all o.isFinite = false) : computeCache x o Yw eps A = none := by
  unfold computeCache
  by_cases hf : A.all o.isFinite = true
  · simp [hf, h]
  · simp [hf]

/-- a present cache holds a decomposition with finite singular values of a finite matrix -/
theorem c08_cache_finite (x : Ext K) (o : XOps K) (Yw : Mat n s K) (eps : K) (A : Mat n m K)
    (c : Cache n m s K) (h : computeCache x o Yw eps A = some c) :
    A.all o.isFinite = true ∧ c.svd.sigma.all o.isFinite = true := by
  unfold computeCache at h
  by_cases hf : A.all o.isFinite = true
  · by_cases hs : (x.svd n m A).sigma.all o.isFinite = true
    · simp only [hf, hs, if_true] at h
      split at h
      · cases h
      · cases h; exact ⟨hf, hs⟩
    · simp [hf, hs] at h
  · simp [hf] at h

/-- **c08_svd_guard**: `set_params` (hence `build`) does not depend on the behaviour of the SVD
routine on matrices with non-finite entries: two routines that agree on finite matrices give the
same problem.  In particular a routine that loops forever on NaN/∞ is never called there. -/
theorem c08_svd_guard (x x' : Ext K) (o : XOps K)
    (hagree : ∀ (A : Mat n m K), A.all o.isFinite = true → x.svd n m A = x'.svd n m A)
    (P : Problem U s) (α : Vector K p) : P.setParams x o α = P.setParams x' o α := by
  have hc : ∀ (Yw : Mat n s K) (eps : K) (A : Mat n m K),
      computeCache x o Yw eps A = computeCache x' o Yw eps A := by
    intro Yw eps A
    unfold computeCache
    by_cases hf : A.all o.isFinite = true
    · rw [hagree A hf]
    · simp [hf]
  unfold Problem.setParams
  simp only [hc]

theorem c08_build_guard (x x' : Ext K) (o : XOps K)
    (hagree : ∀ (A : Mat n m K), A.all o.isFinite = true → x.svd n m A = x'.svd n m A)
    (st0 : U.State) (Y : Mat n s K) (w : Option (Vector K n)) (eps : K) :
    (Problem.build x o st0 Y w eps : Problem U s) = Problem.build x' o st0 Y w eps := by
  unfold Problem.build
  exact c08_svd_guard x x' o hagree _ _

/-! ### the panic site of the decomposition step, made explicit

`Matrix::svd(true, true)` sorts the singular values with `partial_cmp(..).expect("Singular value was
NaN")`: it panics exactly when a singular value is NaN.  The step as it was before the repair
(`svdStepOld`) and as it is now (`svdStepNew`: unordered decomposition, finiteness check, then the
sort) are modelled with the panic as an outcome. -/

/-- outcome of the decomposition step of `set_params` -/
inductive SvdStep (n m : Nat) (K : Type) where
  | panic
  | rejected
  | ok (d : SVD n m K)

/-- before the repair: decompose and sort; the sort panics on a NaN singular value -/
def svdStepOld (x : Ext K) (isNaN : K → Bool) (A : Mat n m K) : SvdStep n m K :=
  let d := x.svd n m A
  if d.sigma.any isNaN then .panic else .ok d

/-- after the repair: decompose, discard a decomposition with a singular value that is not finite,
sort the others (the sort is reached with finite – hence comparable – values only) -/
def svdStepNew (x : Ext K) (o : XOps K) (isNaN : K → Bool) (A : Mat n m K) : SvdStep n m K :=
  let d := x.svd n m A
  if d.sigma.all o.isFinite then (if d.sigma.any isNaN then .panic else .ok d) else .rejected

/-- **c08_old_panics_iff**: the old step panics exactly on a decomposition with a NaN singular
value – for a FINITE input matrix too (the genuine defect repaired by commit 88a7c8e). -/
theorem c08_old_panics_iff (x : Ext K) (isNaN : K → Bool) (A : Mat n m K) :
    svdStepOld x isNaN A = .panic ↔ (x.svd n m A).sigma.any isNaN = true := by
  unfold svdStepOld
  by_cases h : (x.svd n m A).sigma.any isNaN = true <;> simp [h]

/-- **c08_new_never_panics**: a finite value is not NaN, so the repaired step never reaches the
sort with a NaN: it has no panic outcome, whatever the SVD routine returns. -/
theorem c08_new_never_panics (x : Ext K) (o : XOps K) (isNaN : K → Bool)
    (hfin : ∀ v, o.isFinite v = true → isNaN v = false) (A : Mat n m K) :
    svdStepNew x o isNaN A ≠ .panic := by
  unfold svdStepNew
  by_cases h : (x.svd n m A).sigma.all o.isFinite = true
  · have hn : (x.svd n m A).sigma.any isNaN = false := by
      rw [Bool.eq_false_iff]
      intro hany
      rw [Vector.any_eq_true] at hany
      obtain ⟨i, hi, hv⟩ := hany
      have := (Vector.all_eq_true.mp h) i hi
      rw [hfin _ this] at hv
      cases hv
    simp [h, hn]
  · simp [h]

/-- where the repaired step accepts, the old step accepted the same decomposition; where the old
step panicked, the repaired one rejects: behaviour changed on the panicking inputs only
(and on decompositions with infinite singular values, which are now rejected as well). -/
theorem c08_new_refines_old (x : Ext K) (o : XOps K) (isNaN : K → Bool)
    (hfin : ∀ v, o.isFinite v = true → isNaN v = false) (A : Mat n m K) :
    (∀ d, svdStepNew x o isNaN A = .ok d → svdStepOld x isNaN A = .ok d) ∧
    (svdStepOld x isNaN A = .panic → svdStepNew x o isNaN A = .rejected) := by
  constructor
  · intro d h
    unfold svdStepNew at h
    unfold svdStepOld
    by_cases hf : (x.svd n m A).sigma.all o.isFinite = true
    · by_cases hn : (x.svd n m A).sigma.any isNaN = true
      · simp [hf, hn] at h
      · simpa [hf, hn] using h
    · simp [hf] at h
  · intro h
    have hn := (c08_old_panics_iff x isNaN A).mp h
    unfold svdStepNew
    have hf : ¬ (x.svd n m A).sigma.all o.isFinite = true := by
      intro hf
      rw [Vector.any_eq_true] at hn
      obtain ⟨i, hi, hv⟩ := hn
      have := (Vector.all_eq_true.mp hf) i hi
      rw [hfin _ this] at hv
      cases hv
    simp [hf]

/-- `computeCache` is the repaired step followed by the truncated solve: its cache is present only
where the step accepted -/
theorem c08_cache_some_step_ok (x : Ext K) (o : XOps K) (isNaN : K → Bool)
    (hfin : ∀ v, o.isFinite v = true → isNaN v = false)
    (Yw : Mat n s K) (eps : K) (A : Mat n m K) (c : Cache n m s K)
    (h : computeCache x o Yw eps A = some c) :
    svdStepNew x o isNaN A = .ok c.svd := by
  have hs := (c08_cache_finite x o Yw eps A c h).2
  have hd : c.svd = x.svd n m A := by
    unfold computeCache at h
    by_cases hf : A.all o.isFinite = true
    · by_cases hsg : (x.svd n m A).sigma.all o.isFinite = true
      · simp only [hf, hsg, if_true] at h
        split at h
        · cases h
        · cases h; rfl
      · simp [hf, hsg] at h
    · simp [hf] at h
  rw [hd] at hs ⊢
  unfold svdStepNew
  have hn : (x.svd n m A).sigma.any isNaN = false := by
    rw [Bool.eq_false_iff]
    intro hany
    rw [Vector.any_eq_true] at hany
    obtain ⟨i, hi, hv⟩ := hany
    have := (Vector.all_eq_true.mp hs) i hi
    rw [hfin _ this] at hv
    cases hv
  simp [hs, hn]

/-! non-vacuity: a routine that answers with a "NaN" (here the integer −1 stands for the one value that
is neither finite nor comparable) for a finite 1×1 matrix: the old step panics, the repaired step
rejects, and `computeCache` is absent -/
section example_
def toyExt : Ext Int := { svd := fun n m _ =>
  { r := 1, U := Mat.ofFn fun _ _ => 1, sigma := #v[(-1 : Int)], Vt := Mat.ofFn fun _ _ => 1 } }
def toyOps : XOps Int := { isFinite := fun v => v != -1, abs := fun v => v.natAbs, sqrt := id }
def toyA : Mat 1 1 Int := Mat.ofFn fun _ _ => 5

example : svdStepOld toyExt (fun v => v == -1) toyA = .panic :=
  (c08_old_panics_iff toyExt _ toyA).mpr (by simp [toyExt])
example : svdStepNew toyExt toyOps (fun v => v == -1) toyA ≠ .panic :=
  c08_new_never_panics toyExt toyOps _ (by intro v h; simpa [toyOps] using h) toyA
example : computeCache toyExt toyOps (Mat.ofFn fun _ _ => 1 : Mat 1 1 Int) 0 toyA = none :=
  c08_nonfinite_sigma_absent toyExt toyOps _ 0 toyA (by simp [toyExt, toyOps])
end example_

end Varpro

namespace Varpro.LM
variable {T K Vx Vr J LLS : Type}
variable [Add K] [Sub K] [Mul K] [Div K] [Neg K] [Zero K] [One K] [LT K] [LE K]
  [DecidableLT K] [DecidableLE K] [DecidableEq K]

/-- **c08_lm_total**: `minimize` is a total function (structural recursion on fuel) whose fuel is
never exhausted, and it stops after at most `max(patience·(P+1), 2)` evaluations of the problem –
for every behaviour of the problem and of the numerical sub-routines. -/
theorem c08_lm_total (P : LSP T K Vx Vr J) (o : Ops K Vx Vr J LLS) (nm : Num K) (cfg : Config K) (t : T) :
    (minimize P o nm cfg t).2.termination ≠ .fuelExhausted ∧
    (minimize P o nm cfg t).2.evaluations ≤ max (cfg.patience * (o.lenX (P.params t) + 1)) 2 :=
  minimize_budget P o nm cfg t

/-- **c08_nonfinite_fails**: a problem that exposes no residuals at the start (non-finite model
values ⇒ rejected state, `c08_nonfinite_absent`) makes the fit fail with `User("residuals")`,
without a single further model call. -/
theorem c08_nonfinite_fails (P : LSP T K Vx Vr J) (o : Ops K Vx Vr J LLS) (nm : Num K) (cfg : Config K)
    (t : T) (h : P.residuals t = none) :
    minimize P o nm cfg t = (t, { termination := .user "residuals", evaluations := 1, objective := none }) ∧
    ∃ r, fit P o nm cfg t = .error r := by
  have hm : minimize P o nm cfg t
      = (t, { termination := .user "residuals", evaluations := 1, objective := none }) := by
    simp [minimize, new, h]
  refine ⟨hm, ?_⟩
  have := (c09_fit_err P o nm cfg t).2 "residuals" (by rw [hm])
  obtain ⟨r, hr, _⟩ := this
  exact ⟨r, hr⟩

end Varpro.LM
