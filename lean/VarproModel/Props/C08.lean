import VarproModel.Proofs.LMInv
import VarproModel.Props.C09
/-!
# C08 — construction and fitting always terminate without panicking (the part that is logic)
-/
namespace Varpro
variable {K E : Type} {n m p s : Nat} {U : UserModel n m p K E}
variable [Add K] [Sub K] [Mul K] [Div K] [Zero K] [LT K] [DecidableLT K]
set_option linter.unusedSectionVars false

/-- **c08_nonfinite_absent**: a weighted basis matrix with a non-finite entry never reaches the SVD:
the cache is absent (a rejected state), whatever the SVD routine would do. -/
theorem c08_nonfinite_absent (x : Ext K) (o : XOps K) (Yw : Mat n s K) (eps : K) (A : Mat n m K)
    (h : A.all o.isFinite = false) : computeCache x o Yw eps A = none := by
  simp [computeCache, h]

/-- **c08_nonfinite_sigma_absent**: a decomposition whose singular values are not all finite (the
SVD routine can produce NaN singular values for a finite matrix whose entries span very many orders
of magnitude) is discarded: the cache is absent – a rejected state – and nothing downstream (the
sorting of the singular values, the truncated solve) ever sees it. -/
theorem c08_nonfinite_sigma_absent (x : Ext K) (o : XOps K) (Yw : Mat n s K) (eps : K) (A : Mat n m K)
    (h : (x.svd n m A).sigma.all o.isFinite = false) : computeCache x o Yw eps A = none := by
  unfold computeCache
  by_cases hf : A.all o.isFinite = true
  · simp [hf, h]
  · simp [hf]

/-- a present cache holds a decomposition with finite singular values of a finite matrix -/
theorem c08_cache_finite (x : Ext K) (o : XOps K) (Yw : Mat n s K) (eps : K) (A : Mat n m K)
    (c : Cache n m s K) (h : computeCache x o Yw eps A = some c) :
    A.all o.isFinite = true ∧ c.svd.sigma.all o.isFinite = true := by
  unfold computeCache at h
  by_cases hf : A.all o.isFinite = true
  · by_cases hs : (x.svd n m A).sigma.all o.isFinite = true
    · simp only [hf, hs, if_true] at h
      split at h
      · cases h
      · cases h; exact ⟨hf, hs⟩
    · simp [hf, hs] at h
  · simp [hf] at h

/-- **c08_svd_guard**: `set_params` (hence `build`) does not depend on the behaviour of the SVD
routine on matrices with non-finite entries: two routines that agree on finite matrices give the
same problem.  In particular a routine that loops forever on NaN/∞ is never called there. -/
theorem c08_svd_guard (x x' : Ext K) (o : XOps K)
    (hagree : ∀ (A : Mat n m K), A.all o.isFinite = true → x.svd n m A = x'.svd n m A)
    (P : Problem U s) (α : Vector K p) : P.setParams x o α = P.setParams x' o α := by
  have hc : ∀ (Yw : Mat n s K) (eps : K) (A : Mat n m K),
      computeCache x o Yw eps A = computeCache x' o Yw eps A := by
    intro Yw eps A
    unfold computeCache
    by_cases hf : A.all o.isFinite = true
    · rw [hagree A hf]
    · simp [hf]
  unfold Problem.setParams
  simp only [hc]

theorem c08_build_guard (x x' : Ext K) (o : XOps K)
    (hagree : ∀ (A : Mat n m K), A.all o.isFinite = true → x.svd n m A = x'.svd n m A)
    (st0 : U.State) (Y : Mat n s K) (w : Option (Vector K n)) (eps : K) :
    (Problem.build x o st0 Y w eps : Problem U s) = Problem.build x' o st0 Y w eps := by
  unfold Problem.build
  exact c08_svd_guard x x' o hagree _ _

end Varpro

namespace Varpro.LM
variable {T K Vx Vr J LLS : Type}
variable [Add K] [Sub K] [Mul K] [Div K] [Neg K] [Zero K] [One K] [LT K] [LE K]
  [DecidableLT K] [DecidableLE K] [DecidableEq K]

/-- **c08_lm_total**: `minimize` is a total function (structural recursion on fuel) whose fuel is
never exhausted, and it stops after at most `max(patience·(P+1), 2)` evaluations of the problem –
for every behaviour of the problem and of the numerical sub-routines. -/
theorem c08_lm_total (P : LSP T K Vx Vr J) (o : Ops K Vx Vr J LLS) (nm : Num K) (cfg : Config K) (t : T) :
    (minimize P o nm cfg t).2.termination ≠ .fuelExhausted ∧
    (minimize P o nm cfg t).2.evaluations ≤ max (cfg.patience * (o.lenX (P.params t) + 1)) 2 :=
  minimize_budget P o nm cfg t

/-- **c08_nonfinite_fails**: a problem that exposes no residuals at the start (non-finite model
values ⇒ rejected state, `c08_nonfinite_absent`) makes the fit fail with `User("residuals")`,
without a single further model call. -/
theorem c08_nonfinite_fails (P : LSP T K Vx Vr J) (o : Ops K Vx Vr J LLS) (nm : Num K) (cfg : Config K)
    (t : T) (h : P.residuals t = none) :
    minimize P o nm cfg t = (t, { termination := .user "residuals", evaluations := 1, objective := none }) ∧
    ∃ r, fit P o nm cfg t = .error r := by
  have hm : minimize P o nm cfg t
      = (t, { termination := .user "residuals", evaluations := 1, objective := none }) := by
    simp [minimize, new, h]
  refine ⟨hm, ?_⟩
  have := (c09_fit_err P o nm cfg t).2 "residuals" (by rw [hm])
  obtain ⟨r, hr, _⟩ := this
  exact ⟨r, hr⟩

end Varpro.LM
