import VarproModel.Core.ShapeModel
/-!
# C08 (shape level) — no dimension check, assertion or `usize` subtraction can fail

For a model honouring the trait contract (shapes `output_len × base_function_count` from `eval` and
every `eval_partial_deriv`) and a problem as the builder makes it (observations with `output_len`
rows, weights – if any – of length `output_len`): `set_params`, `jacobian`, `best_fit`,
`try_calculate` (both arithmetic profiles, `debug_assert!`s on or off), the variance accessors and
`confidence_band_radius` with a valid probability never reach a panic, for all sizes including 0.
The only panic is the documented one: a probability outside `(0, 1)`.
-/
namespace Varpro.Shape

/-- a problem as `LevMarProblemBuilder::build` makes it, with a cache (if any) as `set_params`
leaves it -/
structure Built (M : ShapeModel) (P : PShape) : Prop where
  rows : P.yw.1 = M.outputLen
  weights : ∀ l, P.w = some l → l = M.outputLen
  cache : ∀ u c r, P.cache = some (u, c, r) →
    u = (M.outputLen, min M.outputLen M.baseCount) ∧ c = (M.baseCount, P.yw.2) ∧ r = P.yw

theorem c12_no_panic' (prof : Profile) (n total : Nat) :
    (n ≤ total → dof prof n total = .err .underdetermined) ∧
    (total < n → dof prof n total = .ok (n - total)) := by
  constructor
  · intro h; simp [dof, h]
  · intro h
    have : ¬ n ≤ total := by omega
    simp [dof, this, usizeSub, Nat.le_of_lt h]

theorem wmulS_ok (w : Option Nat) (a : Sh) (h : ∀ l, w = some l → l = a.1) : wmulS w a = .ok a := by
  unfold wmulS
  cases w with
  | none => rfl
  | some l => simp [h l rfl]

/-- **c08_rejected_update**: a parameter vector the model rejects – in particular one of the wrong
length – never reaches a dimension check or any other operation of the problem: the update ends
with an empty cache, whatever the shapes of the problem and of the model's other answers are (no
contract assumed for them). -/
theorem c08_rejected_update (M : ShapeModel) (P : PShape) (h : M.setParamsOk = false) :
    setParamsS M P = .ok none := by
  simp [setParamsS, h]

/-- **c08_set_params_no_panic**: `set_params` never panics and leaves a cache of the expected shapes
(or none). -/
theorem c08_set_params_no_panic (M : ShapeModel) (hL : M.Lawful) (P : PShape) (hB : Built M P) :
    (setParamsS M P = .ok none) ∨
    (setParamsS M P = .ok (some ((M.outputLen, min M.outputLen M.baseCount), (M.baseCount, P.yw.2), P.yw))) := by
  unfold setParamsS
  cases hs : M.setParamsOk with
  | false => left; rfl
  | true =>
    simp only [Bool.not_true, Bool.false_eq_true, if_false]
    cases he : M.eval with
    | none => left; rfl
    | some phi =>
      right
      have hphi := hL.1 phi he
      subst hphi
      simp only
      rw [wmulS_ok P.w (M.outputLen, M.baseCount) (fun l h => hB.weights l h)]
      simp only [R.bind, ne_eq]
      rw [if_neg (by rw [hB.rows]; simp)]
      simp only [mulS, if_true, R.bind, subS]
      have : P.yw = (M.outputLen, P.yw.2) := by rw [← hB.rows]
      rw [if_pos this]

/-- a Jacobian column task on a built problem: success or "derivative failed", never a panic -/
theorem jacColS_no_panic (M : ShapeModel) (hL : M.Lawful) (P : PShape) (hB : Built M P) (k : Nat) :
    jacColS M P (M.outputLen, min M.outputLen M.baseCount) (M.baseCount, P.yw.2) P.yw.2 k = .ok () ∨
    jacColS M P (M.outputLen, min M.outputLen M.baseCount) (M.baseCount, P.yw.2) P.yw.2 k = .none := by
  unfold jacColS
  cases hd : M.deriv k with
  | none => right; rfl
  | some dk =>
    left
    have := hL.2 k dk hd
    subst this
    simp only
    rw [wmulS_ok P.w (M.outputLen, M.baseCount) (fun l h => hB.weights l h)]
    simp [R.bind, mulS, subS, copyFromS, vecS]

/-- **c08_jacobian_no_panic** -/
theorem c08_jacobian_no_panic (M : ShapeModel) (hL : M.Lawful) (P : PShape) (hB : Built M P) :
    (jacobianS M P).isPanic = false := by
  unfold jacobianS
  cases hc : P.cache with
  | none => rfl
  | some t =>
    obtain ⟨u, c, r⟩ := t
    obtain ⟨hu, hcf, _⟩ := hB.cache u c r hc
    subst hu hcf
    simp only
    -- the fold never produces a panic
    have key : ∀ (ks : List Nat) (acc : R Unit), acc.isPanic = false →
        (ks.foldl (jacStepS M P (M.outputLen, min M.outputLen M.baseCount) (M.baseCount, P.yw.2)) acc).isPanic
          = false := by
      intro ks
      induction ks with
      | nil => intro acc h; exact h
      | cons k rest ih =>
        intro acc h
        simp only [List.foldl_cons]
        apply ih
        unfold jacStepS
        cases acc with
        | panic w => simp [R.isPanic] at h
        | ok v =>
          rcases jacColS_no_panic M hL P hB k with h' | h' <;> simp only [h'] <;> rfl
        | none =>
          rcases jacColS_no_panic M hL P hB k with h' | h' <;> simp only [h'] <;> rfl
    exact key _ _ rfl

/-- **c08_best_fit_no_panic** -/
theorem c08_best_fit_no_panic (M : ShapeModel) (hL : M.Lawful) (P : PShape) (hB : Built M P) :
    (bestFitS M P).isPanic = false := by
  unfold bestFitS
  cases hc : P.cache with
  | none => rfl
  | some t =>
    obtain ⟨u, c, r⟩ := t
    obtain ⟨_, hcf, _⟩ := hB.cache u c r hc
    subst hcf
    simp only
    cases he : M.eval with
    | none => rfl
    | some phi =>
      have := hL.1 phi he
      subst this
      simp [mulS, R.isPanic]

theorem mfjS_lawful (M : ShapeModel) (hL : M.Lawful) (s : Nat) :
    mfjS M (M.baseCount, s) = .none ∨
    (s = 1 → mfjS M (M.baseCount, s) = .ok (M.outputLen, M.baseCount + M.paramCount)) ∧
    (mfjS M (M.baseCount, s)).isPanic = false ∨ s ≠ 1 := by
  by_cases hs : s = 1
  · subst hs
    -- the column loop
    have key : ∀ (ks : List Nat) (acc : R Unit), (acc = .ok () ∨ acc = .none) →
        (ks.foldl (mfjStepS M (M.baseCount, 1)) acc = .ok () ∨
         ks.foldl (mfjStepS M (M.baseCount, 1)) acc = .none) := by
      intro ks
      induction ks with
      | nil => intro acc h; exact h
      | cons k rest ih =>
        intro acc h
        simp only [List.foldl_cons]
        apply ih
        unfold mfjStepS
        rcases h with h | h
        · subst h
          simp only
          cases hd : M.deriv k with
          | none => right; rfl
          | some dk =>
            have := hL.2 k dk hd
            subst this
            left
            simp [mulS, R.bind, copyFromS]
        · subst h; right; rfl
    have hcols := key (List.range M.paramCount) (.ok ()) (Or.inl rfl)
    unfold mfjS
    simp only
    rcases hcols with h | h
    · rw [h]
      simp only [R.bind]
      cases he : M.eval with
      | none => left; rfl
      | some left =>
        have := hL.1 left he
        subst this
        right; left
        exact ⟨fun _ => by simp, by simp [R.isPanic]⟩
    · rw [h]; left; rfl
  · right; right; exact hs

/-- **c08_try_calculate_no_panic**: in both arithmetic profiles and with `debug_assert!`s on or off,
for every size (under-determined ones included) and whether or not the normal matrix is invertible:
an error value or the covariance shape `(M+P) × (M+P)`, never a panic. -/
theorem c08_try_calculate_no_panic (prof : Profile) (dbg : Bool) (M : ShapeModel) (hL : M.Lawful)
    (P : PShape) (hB : Built M P) (hs : P.yw.2 = 1) (inv : Bool) :
    tryCalculateS prof dbg M P (M.baseCount, 1) inv = .none ∨
    tryCalculateS prof dbg M P (M.baseCount, 1) inv =
      .ok (M.baseCount + M.paramCount, M.baseCount + M.paramCount) := by
  unfold tryCalculateS
  have hdbg : (dbg && (P.yw.2 ≠ (M.baseCount, 1).2 || P.yw.1 ≠ M.outputLen)) = false := by
    simp [hs, hB.rows]
  rw [hdbg]
  simp only [Bool.false_eq_true, if_false]
  rcases mfjS_lawful M hL 1 with h | ⟨h, _⟩ | h
  · rw [h]; left; rfl
  · rw [h rfl]
    simp only [R.bind]
    rw [wmulS_ok P.w _ (fun l hl => hB.weights l hl)]
    simp only
    cases he : M.eval with
    | none => left; rfl
    | some phi =>
      have := hL.1 phi he
      subst this
      simp only
      rw [wmulS_ok P.w _ (fun l hl => hB.weights l hl)]
      have hyw : P.yw = (M.outputLen, 1) := by rw [← hB.rows, ← hs]
      simp only [R.bind, mulS, if_true, subS, hyw]
      obtain ⟨hle, hgt⟩ := c12_no_panic' prof M.outputLen (M.paramCount + M.baseCount)
      by_cases hu : M.outputLen ≤ M.paramCount + M.baseCount
      · rw [hle hu]; left; rfl
      · rw [hgt (by omega)]
        simp only
        cases inv with
        | false => left; rfl
        | true => right; simp
  · exact absurd rfl h

/-- **c08_accessors_no_panic**: the two variance accessors slice `[0, M)` and `[M, M+P)` of a diagonal
of length `M + P` -/
theorem c08_accessors_no_panic (mC pC : Nat) :
    varianceAccessorsS (mC + pC, mC + pC) mC pC = .ok (mC, pC) := by
  have h1 : ¬ mC + pC < mC := by omega
  simp [varianceAccessorsS, extractRangeS, R.bind, h1]

/-- **c08_band_panic_iff**: `confidence_band_radius` panics exactly for an invalid probability -/
theorem c08_band_panic_iff (valid : Bool) (n : Nat) : (bandS valid n).isPanic = !valid := by
  cases valid <;> rfl

/-- non-vacuity: a lawful model and a built problem exist (2 samples, 1 basis function, 1 parameter,
3 right-hand sides, diagonal weights) -/
example : (⟨2, 1, 1, true, some (2, 1), fun _ => some (2, 1)⟩ : ShapeModel).Lawful :=
  ⟨fun s h => by cases h; rfl, fun _ s h => by cases h; rfl⟩
example : setParamsS ⟨2, 1, 1, true, some (2, 1), fun _ => some (2, 1)⟩ ⟨(2, 3), some 2, none⟩
    = .ok (some ((2, 1), (1, 3), (2, 3))) := by decide
/-- and a model that breaks the contract does panic in the model (the checks are really there) -/
example : (setParamsS ⟨2, 1, 1, true, some (3, 1), fun _ => some (2, 1)⟩ ⟨(2, 3), some 2, none⟩).isPanic = true := by
  decide

end Varpro.Shape
