import VarproModel.Props.C10
import VarproModel.Core.LM
/-!
# C09 — model failures propagate as absent values and failed fits, never as stale data

The user's model is an arbitrary state machine (`UserModel`): it may fail at any call, depending on
any hidden state – this subsumes every fault schedule (transient, persistent, by call index).
-/
namespace Varpro
variable {K E : Type} {n m p s : Nat} {U : UserModel n m p K E}
variable [Add K] [Sub K] [Mul K] [Div K] [Zero K] [LT K] [DecidableLT K]
set_option linter.unusedSectionVars false

/-- **c09_absent**: if the model reports an error while the parameters are applied or while the
basis functions are evaluated, then afterwards the problem exposes no residuals, no coefficients
and no Jacobian. -/
theorem c09_absent (x : Ext K) (o : XOps K) (P : Problem U s) (α : Vector K p)
    (hfail : (∃ st1 e, U.setParams P.st α = (st1, .error e)) ∨
      (∃ st1 st2 e, U.setParams P.st α = (st1, .ok ()) ∧ U.eval st1 = (st2, .error e))) :
    (P.setParams x o α).residuals = none ∧ (P.setParams x o α).coefficients = none ∧
      ((P.setParams x o α).jacobianSeq).2 = none := by
  have h := c10_failed_update_clears x o P α hfail
  refine ⟨by simp [Problem.residuals, h], by simp [Problem.coefficients, h], ?_⟩
  simp [Problem.jacobianSeq, h]

/-- **c09_params_on_rejection**: if the model rejects the parameters, nothing is recomputed: the
model is not evaluated again with whatever parameters it still holds (the state of the model is the
one its own failing call left). -/
theorem c09_no_recompute_on_rejection (x : Ext K) (o : XOps K) (P : Problem U s) (α : Vector K p)
    (st1 : U.State) (e : E) (h : U.setParams P.st α = (st1, .error e)) :
    (P.setParams x o α).st = st1 ∧ (P.setParams x o α).cached = none := by
  simp [Problem.setParams, h]

/-- **c09_deriv**: a failing partial derivative makes the Jacobian absent while residuals and
coefficients – correct for the parameters in effect – stay. -/
theorem c09_deriv (P : Problem U s) (k : Fin p)
    (hfail : ∀ st0, ∃ st1 e, U.deriv st0 k = (st1, .error e)) :
    (P.jacobianSeq).2 = none ∧ (P.jacobianSeq).1.residuals = P.residuals ∧
      (P.jacobianSeq).1.coefficients = P.coefficients := by
  refine ⟨?_, (c10_query_pure P).2.2.1, (c10_query_pure P).2.2.2⟩
  unfold Problem.jacobianSeq
  cases hc : P.cached with
  | none => rfl
  | some c =>
    simp only
    obtain ⟨pre, post, hsplit⟩ := List.append_of_mem (List.mem_finRange k)
    -- a failing derivative anywhere in the sequence makes the whole result absent
    have key : ∀ (ks : List (Fin p)) (st : U.State), k ∈ ks → (derivsSeq U st ks).2 = none := by
      intro ks
      induction ks with
      | nil => intro _ h; cases h
      | cons a as ih =>
        intro st hmem
        simp only [derivsSeq]
        cases hd : U.deriv st a with
        | mk st1 r =>
          cases r with
          | error e => rfl
          | ok D =>
            simp only
            have hne : a ≠ k := by
              intro h; subst h
              obtain ⟨_, e, he⟩ := hfail st
              rw [hd] at he; cases he
            have hk : k ∈ as := by
              rcases List.mem_cons.mp hmem with h | h
              · exact absurd h.symm hne
              · exact h
            have := ih st1 hk
            cases hr : derivsSeq U st1 as with
            | mk st2 o2 =>
              rw [hr] at this; simp only at this; subst this; rfl
    have := key (List.finRange p) P.st (List.mem_finRange k)
    cases hr : derivsSeq U P.st (List.finRange p) with
    | mk st1 o2 =>
      rw [hr] at this; simp only at this; subst this; rfl

/-- **c09_coherent**: for every history and every model, whenever residuals and coefficients are
present after an update they were computed from the basis matrix the model returned *in that
update* for the parameters it accepted *in that update* – never from an earlier evaluation. -/
theorem c09_coherent (x : Ext K) (o : XOps K) (P : Problem U s) (α : Vector K p)
    (c : Cache n m s K) (h : (P.setParams x o α).cached = some c) :
    ∃ st1 st2 Phi, U.setParams P.st α = (st1, .ok ()) ∧ U.eval st1 = (st2, .ok Phi) ∧
      some c = computeCache x o P.Yw P.eps (wmul P.w Phi) := by
  unfold Problem.setParams at h
  cases h1 : U.setParams P.st α with
  | mk st1 r1 =>
    cases r1 with
    | error e => simp [h1] at h
    | ok u =>
      cases h2 : U.eval st1 with
      | mk st2 r2 =>
        cases r2 with
        | error e => simp [h1, h2] at h
        | ok Phi =>
          simp only [h1, h2] at h
          exact ⟨st1, st2, Phi, rfl, h2, h.symm⟩

end Varpro

namespace Varpro.LM
variable {T K Vx Vr J LLS : Type}
variable [Add K] [Sub K] [Mul K] [Div K] [Neg K] [Zero K] [One K] [LT K] [LE K]
  [DecidableLT K] [DecidableLE K] [DecidableEq K]

/-- **c09_fit_err (trial)**: if the problem exposes no residuals after a trial step was applied
(the model failed in `set_params`), the optimizer stops with `User("residuals")`, the problem being
in the state of the failure. -/
theorem c09_trial_failure (P : LSP T K Vx Vr J) (o : Ops K Vx Vr J LLS) (nm : Num K) (cfg : Config K)
    (st : St T K Vx) (lls : LLS) (param : K × K × Vx)
    (hfail : ∀ t v, P.residuals (P.setParams t v) = none) :
    ∃ st', (trustRegionIteration P o nm cfg st lls param = .stop st' (.user "residuals") ∧
        P.residuals st'.target = none) ∨
      ∃ w, trustRegionIteration P o nm cfg st lls param = .stop st' (.numerical w) := by
  unfold trustRegionIteration
  simp only
  cases hp : trPrelude o nm { st with lambda := param.1 } lls param.2.1 param.2.2 with
  | error t =>
    unfold trPrelude at hp
    refine ⟨{ st with lambda := param.1 }, Or.inr ?_⟩
    split at hp
    · cases hp; exact ⟨_, rfl⟩
    · simp only at hp
      split at hp
      · cases hp; exact ⟨_, rfl⟩
      · split at hp
        · cases hp; exact ⟨_, rfl⟩
        · cases hp
  | ok pd =>
    obtain ⟨predicted, dirDer⟩ := pd
    simp only [hfail]
    exact ⟨_, Or.inl ⟨rfl, hfail _ _⟩⟩

/-- **c09_fit_err (Jacobian)**: if the Jacobian is absent (a derivative failed), the run ends with
`User("jacobian")`. -/
theorem c09_jacobian_failure (P : LSP T K Vx Vr J) (o : Ops K Vx Vr J LLS) (nm : Num K) (cfg : Config K)
    (fuel : Nat) (st : St T K Vx) (r : Vr) (t1 : T) (h : P.jacobian st.target = (t1, none)) :
    (run P o nm cfg (fuel + 1) st (.outer r)).2.termination = .user "jacobian" := by
  simp [run, h, St.report]

/-- **c09_fit_err**: whatever the optimizer reports, a fit whose final problem exposes no residuals
is an `Err` carrying that problem; and a `User(..)`/`Numerical(..)` termination is always an `Err`. -/
theorem c09_fit_err (P : LSP T K Vx Vr J) (o : Ops K Vx Vr J LLS) (nm : Num K) (cfg : Config K) (t : T) :
    (P.residuals (minimize P o nm cfg t).1 = none →
      ∃ r, fit P o nm cfg t = .error r ∧ r.problem = (minimize P o nm cfg t).1) ∧
    (∀ w, (minimize P o nm cfg t).2.termination = .user w →
      ∃ r, fit P o nm cfg t = .error r ∧ r.problem = (minimize P o nm cfg t).1) := by
  constructor
  · intro h
    refine ⟨{ problem := (minimize P o nm cfg t).1,
              report := finalReport P (minimize P o nm cfg t).1 (minimize P o nm cfg t).2 }, ?_, rfl⟩
    unfold fit
    simp only [FitResult.wasSuccessful, finalReport, h, Option.isNone_none, Bool.and_true]
    cases hs : (minimize P o nm cfg t).2.termination.wasSuccessful <;>
      simp [hs, show ∀ s, (Termination.user s).wasSuccessful = false from fun _ => rfl]
  · intro w hw
    refine ⟨{ problem := (minimize P o nm cfg t).1,
              report := finalReport P (minimize P o nm cfg t).1 (minimize P o nm cfg t).2 }, ?_, rfl⟩
    unfold fit
    simp [FitResult.wasSuccessful, finalReport, hw,
      show ∀ s, (Termination.user s).wasSuccessful = false from fun _ => rfl]

end Varpro.LM
