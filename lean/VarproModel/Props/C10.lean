import VarproModel.Core.Problem
import VarproModel.Core.Uninit
/-!
# C10 — problem state is a function of the current α only (no history, no garbage)
-/
namespace Varpro
variable {K E : Type} {n m p s : Nat} {U : UserModel n m p K E}
variable [Add K] [Sub K] [Mul K] [Div K] [Zero K] [LT K] [DecidableLT K]
set_option linter.unusedSectionVars false

/-- **c10_function_of_alpha**: if the model accepts α and evaluates to `Φ`, the cache after
`set_params α` is `computeCache` of this problem's data, threshold and weights and of `W·Φ` –
nothing of the previous cache, of earlier parameter vectors or of earlier failures enters. -/
theorem c10_function_of_alpha (x : Ext K) (o : XOps K) (P : Problem U s) (α : Vector K p)
    (st1 st2 : U.State) (Phi : Mat n m K)
    (h1 : U.setParams P.st α = (st1, .ok ())) (h2 : U.eval st1 = (st2, .ok Phi)) :
    (P.setParams x o α).cached = computeCache x o P.Yw P.eps (wmul P.w Phi) ∧
    (P.setParams x o α).st = st2 := by
  simp [Problem.setParams, h1, h2]

/-- **c10_history_free**: two problems over the same data, threshold and weights – one with an
arbitrary history (any cache, any model state), the other anything else, e.g. freshly built –
report the same coefficients and residuals after `set_params α`, provided the model gives the same
`Φ` for α in both (which a model honouring the trait contract does). -/
theorem c10_history_free (x : Ext K) (o : XOps K) (P P' : Problem U s) (α : Vector K p)
    (hY : P.Yw = P'.Yw) (he : P.eps = P'.eps) (hw : P.w = P'.w)
    (st1 st2 st1' st2' : U.State) (Phi : Mat n m K)
    (h1 : U.setParams P.st α = (st1, .ok ())) (h2 : U.eval st1 = (st2, .ok Phi))
    (h1' : U.setParams P'.st α = (st1', .ok ())) (h2' : U.eval st1' = (st2', .ok Phi)) :
    (P.setParams x o α).residuals = (P'.setParams x o α).residuals ∧
    (P.setParams x o α).coefficients = (P'.setParams x o α).coefficients := by
  have a := (c10_function_of_alpha x o P α st1 st2 Phi h1 h2).1
  have b := (c10_function_of_alpha x o P' α st1' st2' Phi h1' h2').1
  simp [Problem.residuals, Problem.coefficients, a, b, hY, he, hw]

/-- **c10_build_is_set**: a freshly built problem is the blank problem after `set_params` at the
model's own parameters: its cache obeys the same formula. -/
theorem c10_build_is_set (x : Ext K) (o : XOps K) (st0 : U.State) (Y : Mat n s K)
    (w : Option (Vector K n)) (eps : K) (st1 st2 : U.State) (Phi : Mat n m K)
    (h1 : U.setParams st0 (U.params st0) = (st1, .ok ())) (h2 : U.eval st1 = (st2, .ok Phi)) :
    (Problem.build x o st0 Y w eps : Problem U s).cached
      = computeCache x o (wmul w Y) eps (wmul w Phi) := by
  simp [Problem.build, Problem.setParams, h1, h2]

/-- **c10_failed_update_clears**: a failed update leaves no cache behind (so nothing stale can be
read later), whatever the state before. -/
theorem c10_failed_update_clears (x : Ext K) (o : XOps K) (P : Problem U s) (α : Vector K p)
    (hfail : (∃ st1 e, U.setParams P.st α = (st1, .error e)) ∨
      (∃ st1 st2 e, U.setParams P.st α = (st1, .ok ()) ∧ U.eval st1 = (st2, .error e))) :
    (P.setParams x o α).cached = none := by
  rcases hfail with ⟨st1, e, h⟩ | ⟨st1, st2, e, h1, h2⟩
  · simp [Problem.setParams, h]
  · simp [Problem.setParams, h1, h2]

/-- **c10_query_pure**: computing the Jacobian changes neither cache, data, threshold nor weights,
so residuals and coefficients queried before and after are identical. -/
theorem c10_query_pure (P : Problem U s) :
    (P.jacobianSeq).1.cached = P.cached ∧ (P.jacobianSeq).1.Yw = P.Yw ∧
    (P.jacobianSeq).1.residuals = P.residuals ∧ (P.jacobianSeq).1.coefficients = P.coefficients := by
  unfold Problem.jacobianSeq
  cases hc : P.cached with
  | none => simp [hc]
  | some c =>
    simp only
    cases hd : derivsSeq U P.st (List.finRange p) with
    | mk st1 o =>
      cases o <;> simp [Problem.residuals, Problem.coefficients, hc]

/-! ### no uninitialised element survives -/
open Uninit

theorem writeAll_mem {r c : Nat} {K : Type} (cols : Fin c → Fin r → K) (order : List (Fin c))
    (M0 : Cells r c K) (i : Fin r) (j : Fin c) (hj : j ∈ order) :
    (order.foldl (fun M j => writeCol M j (cols j)) M0) i j = some (cols j i) := by
  induction order generalizing M0 with
  | nil => cases hj
  | cons a as ih =>
    simp only [List.foldl_cons]
    by_cases hmem : j ∈ as
    · exact ih _ hmem
    · have hja : j = a := by
        rcases List.mem_cons.mp hj with h | h
        · exact h
        · exact absurd h hmem
      subst hja
      -- later writes do not touch column j
      have keep : ∀ (l : List (Fin c)) (M : Cells r c K), j ∉ l →
          (l.foldl (fun M j => writeCol M j (cols j)) M) i j = M i j := by
        intro l
        induction l with
        | nil => intro M _; rfl
        | cons b bs ihb =>
          intro M hnot
          simp only [List.foldl_cons]
          rw [ihb _ (fun h => hnot (List.mem_cons_of_mem _ h))]
          have : j ≠ b := fun h => hnot (h ▸ List.mem_cons_self)
          simp [writeCol, this]
      rw [keep as _ hmem]
      simp [writeCol]

/-- **c10_eval_init / c10_jacobian_init**: after the column write loop – in column order (model
evaluation, sequential Jacobian) or under any schedule that executes every column task (parallel
Jacobian) – every cell holds the computed value of its column; none is uninitialised.  Holds for
every shape, including zero rows or zero columns. -/
theorem c10_no_uninit {r c : Nat} {K : Type} (cols : Fin c → Fin r → K) (order : List (Fin c))
    (hall : ∀ j : Fin c, j ∈ order) (i : Fin r) (j : Fin c) :
    writeAll cols order i j = some (cols j i) :=
  writeAll_mem cols order uninit i j (hall j)

theorem c10_no_uninit_seq {r c : Nat} {K : Type} (cols : Fin c → Fin r → K) (i : Fin r) (j : Fin c) :
    writeAll cols (List.finRange c) i j = some (cols j i) :=
  c10_no_uninit cols _ (fun j => List.mem_finRange j) i j

end Varpro
