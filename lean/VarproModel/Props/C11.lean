import VarproModel.Core.Problem
/-!
# C11 — parallel problems compute exactly what sequential problems compute

`set_params`, `residuals`, `params` of the parallel flavour are literally the same code (one
definition in the model).  The Jacobian differs: its column tasks run under an arbitrary schedule.
The model's derivative results during one Jacobian evaluation are assumed not to depend on the
order of the calls (`Inv`-invariant: e.g. "the parameters are α", which a `Sync` model honouring
the trait contract guarantees, because nothing sets parameters during the evaluation).
-/
namespace Varpro
variable {K E : Type} {n m p s : Nat} {U : UserModel n m p K E}
set_option linter.unusedSectionVars false

/-- order-independence of the derivative calls from states satisfying `Inv` -/
structure DerivDet (U : UserModel n m p K E) (Inv : U.State → Prop)
    (val : Fin p → Except E (Mat n m K)) : Prop where
  step : ∀ st k, Inv st → Inv (U.deriv st k).1 ∧ (U.deriv st k).2 = val k

theorem derivsSeq_det (Inv : U.State → Prop) (val : Fin p → Except E (Mat n m K))
    (h : DerivDet U Inv val) (st : U.State) (hi : Inv st) (ks : List (Fin p)) :
    (∀ k ∈ ks, ∃ D, val k = .ok D) →
      ∃ ds, (derivsSeq U st ks).2 = some ds ∧ ∀ k D, (k, D) ∈ ds ↔ (k ∈ ks ∧ val k = .ok D) := by
  induction ks generalizing st with
  | nil => intro _; exact ⟨[], rfl, by simp⟩
  | cons k rest ih =>
    intro hall
    obtain ⟨D, hD⟩ := hall k (by simp)
    obtain ⟨hinv, hval⟩ := h.step st k hi
    simp only [derivsSeq]
    cases hd : U.deriv st k with
    | mk st1 r =>
      rw [hd] at hinv hval
      simp only at hinv hval
      rw [hval, hD]
      simp only
      obtain ⟨ds, hds, hmem⟩ := ih st1 hinv (fun k' hk' => hall k' (List.mem_cons_of_mem _ hk'))
      cases hr : derivsSeq U st1 rest with
      | mk st2 o =>
        rw [hr] at hds
        simp only at hds
        subst hds
        refine ⟨(k, D) :: ds, rfl, ?_⟩
        intro k' D'
        simp only [List.mem_cons, Prod.mk.injEq]
        constructor
        · rintro (⟨rfl, rfl⟩ | h')
          · exact ⟨Or.inl rfl, hD⟩
          · exact ⟨Or.inr ((hmem k' D').mp h').1, ((hmem k' D').mp h').2⟩
        · rintro ⟨rfl | hk', hv⟩
          · left; rw [hD] at hv; exact ⟨rfl, (Except.ok.inj hv).symm⟩
          · right; exact (hmem k' D').mpr ⟨hk', hv⟩

theorem derivsSched_det (Inv : U.State → Prop) (val : Fin p → Except E (Mat n m K))
    (h : DerivDet U Inv val) (st : U.State) (hi : Inv st) (ks : List (Fin p)) :
    ((derivsSched U st ks).2.1 = true ↔ ∃ k ∈ ks, ∃ e, val k = .error e) ∧
    (∀ k D, (k, D) ∈ (derivsSched U st ks).2.2 ↔ (k ∈ ks ∧ val k = .ok D)) := by
  induction ks generalizing st with
  | nil => simp [derivsSched]
  | cons k rest ih =>
    obtain ⟨hinv, hval⟩ := h.step st k hi
    simp only [derivsSched]
    cases hd : U.deriv st k with
    | mk st1 r =>
      rw [hd] at hinv hval
      simp only at hinv hval
      obtain ⟨ihf, ihm⟩ := ih st1 hinv
      cases r with
      | error e =>
        simp only
        constructor
        · simp only [true_iff]
          exact ⟨k, by simp, e, hval.symm⟩
        · intro k' D'
          rw [ihm]
          constructor
          · rintro ⟨hk, hv⟩; exact ⟨List.mem_cons_of_mem _ hk, hv⟩
          · rintro ⟨hk, hv⟩
            rcases List.mem_cons.mp hk with rfl | hk
            · rw [← hval] at hv; cases hv
            · exact ⟨hk, hv⟩
      | ok D =>
        simp only
        constructor
        · rw [ihf]
          constructor
          · rintro ⟨k', hk', e, he⟩; exact ⟨k', List.mem_cons_of_mem _ hk', e, he⟩
          · rintro ⟨k', hk', e, he⟩
            rcases List.mem_cons.mp hk' with rfl | hk'
            · rw [← hval] at he; cases he
            · exact ⟨k', hk', e, he⟩
        · intro k' D'
          simp only [List.mem_cons, Prod.mk.injEq]
          constructor
          · rintro (⟨rfl, rfl⟩ | h')
            · exact ⟨Or.inl rfl, hval.symm⟩
            · exact ⟨Or.inr ((ihm k' D').mp h').1, ((ihm k' D').mp h').2⟩
          · rintro ⟨rfl | hk', hv⟩
            · left; rw [← hval] at hv; exact ⟨rfl, (Except.ok.inj hv).symm⟩
            · right; exact (ihm k' D').mpr ⟨hk', hv⟩

variable [Add K] [Sub K] [Mul K] [Zero K]

/-- looking a block up in a list that contains, for `k`, exactly the pairs `(k, D)` with
`val k = ok D` yields the block of that `D` -/
theorem blockOf_of_mem (w : Option (Vector K n)) (c : Cache n m s K)
    (ds : List (Fin p × Mat n m K)) (val : Fin p → Except E (Mat n m K))
    (hmem : ∀ k D, (k, D) ∈ ds → val k = .ok D) (k : Fin p) (D : Mat n m K)
    (hk : (k, D) ∈ ds) : blockOf w c ds k = jacBlock w c D := by
  unfold blockOf
  cases hf : ds.find? (fun kd => kd.1 = k) with
  | none =>
    have := List.find?_eq_none.mp hf (k, D) hk
    simp at this
  | some kd =>
    have h1 := List.find?_some hf
    have h2 := List.mem_of_find?_eq_some hf
    simp only [decide_eq_true_eq] at h1
    have hv := hmem kd.1 kd.2 h2
    rw [h1] at hv
    have hv' := hmem k D hk
    rw [hv] at hv'
    have := Except.ok.inj hv'
    simp [this]

/-- **c11_par_eq_seq (success)**: if every partial derivative evaluates, then under every
schedule that executes all column tasks – in any order, any interleaving – the parallel Jacobian is
the sequential Jacobian. -/
theorem c11_par_eq_seq (P : Problem U s) (Inv : U.State → Prop) (val : Fin p → Except E (Mat n m K))
    (hdet : DerivDet U Inv val) (hi : Inv P.st) (hok : ∀ k, ∃ D, val k = .ok D)
    (sched : Schedule p) (hall : ∀ k : Fin p, k ∈ sched.order) :
    (P.jacobianPar sched).2 = (P.jacobianSeq).2 := by
  unfold Problem.jacobianPar Problem.jacobianSeq
  cases hc : P.cached with
  | none => rfl
  | some c =>
    simp only
    obtain ⟨ds, hds, hmem⟩ := derivsSeq_det Inv val hdet P.st hi (List.finRange p)
      (fun k _ => hok k)
    obtain ⟨hf, hm⟩ := derivsSched_det Inv val hdet P.st hi sched.order
    cases hseq : derivsSeq U P.st (List.finRange p) with
    | mk st1 o =>
      rw [hseq] at hds; simp only at hds; subst hds
      cases hpar : derivsSched U P.st sched.order with
      | mk st2 fd =>
        obtain ⟨failed, dsp⟩ := fd
        rw [hpar] at hf hm
        simp only at hf hm
        have hnf : failed = false := by
          cases failed with
          | false => rfl
          | true =>
            obtain ⟨k, _, e, he⟩ := hf.mp rfl
            obtain ⟨D, hD⟩ := hok k
            rw [hD] at he; cases he
        have hallp : ((List.finRange p).all fun k => dsp.any fun kd => kd.1 = k) = true := by
          rw [List.all_eq_true]
          intro k _
          obtain ⟨D, hD⟩ := hok k
          rw [List.any_eq_true]
          exact ⟨(k, D), (hm k D).mpr ⟨hall k, hD⟩, by simp⟩
        simp only [hnf, hallp, Bool.false_or, Bool.not_true, Bool.false_eq_true, if_false]
        congr 2
        funext k
        obtain ⟨D, hD⟩ := hok k
        rw [blockOf_of_mem P.w c dsp val (fun k D h => ((hm k D).mp h).2) k D ((hm k D).mpr ⟨hall k, hD⟩),
          blockOf_of_mem P.w c ds val (fun k D h => ((hmem k D).mp h).2) k D
            ((hmem k D).mpr ⟨List.mem_finRange k, hD⟩)]

/-- **c11_par_eq_seq (failure)**: if some partial derivative fails and its task is executed, the
parallel Jacobian is absent – like the sequential one – whatever else was or was not executed. -/
theorem c11_par_failure (P : Problem U s) (Inv : U.State → Prop) (val : Fin p → Except E (Mat n m K))
    (hdet : DerivDet U Inv val) (hi : Inv P.st) (k : Fin p) (e : E) (hk : val k = .error e)
    (sched : Schedule p) (hin : k ∈ sched.order) :
    (P.jacobianPar sched).2 = none := by
  unfold Problem.jacobianPar
  cases hc : P.cached with
  | none => rfl
  | some c =>
    simp only
    obtain ⟨hf, _⟩ := derivsSched_det Inv val hdet P.st hi sched.order
    cases hpar : derivsSched U P.st sched.order with
    | mk st2 fd =>
      obtain ⟨failed, dsp⟩ := fd
      rw [hpar] at hf
      simp only at hf
      have : failed = true := hf.mpr ⟨k, hin, e, hk⟩
      simp [this]

/-- **c11_into_sequential**: converting a problem to its sequential form is the identity on every
field (data, model state, threshold, weights, cache). -/
def Problem.intoSequential (P : Problem U s) : Problem U s :=
  { Yw := P.Yw, st := P.st, eps := P.eps, w := P.w, cached := P.cached }

theorem c11_into_sequential (P : Problem U s) : P.intoSequential = P := rfl

/-- `into_parallel()`: the same field-by-field hand-over in the other direction -/
def Problem.intoParallel (P : Problem U s) : Problem U s :=
  { Yw := P.Yw, st := P.st, eps := P.eps, w := P.w, cached := P.cached }

theorem c11_into_parallel (P : Problem U s) : P.intoParallel = P := rfl

/-- **c11_conversion_then_updates**: a conversion anywhere in a history is invisible: every later
update – which uses the threshold, the weights and the weighted data of the problem it is applied to –
gives the problem it would have given without the conversion (in particular a user-chosen threshold
survives `fit`, which always converts). -/
theorem c11_conversion_then_updates [Add K] [Sub K] [Mul K] [Div K] [Zero K] [LT K] [DecidableLT K]
    (x : Ext K) (o : XOps K) (P : Problem U s) (hist : List (Vector K p)) :
    hist.foldl (fun Q α => Q.setParams x o α) P.intoSequential = hist.foldl (fun Q α => Q.setParams x o α) P ∧
    hist.foldl (fun Q α => Q.setParams x o α) P.intoParallel = hist.foldl (fun Q α => Q.setParams x o α) P := by
  rw [c11_into_sequential, c11_into_parallel]
  exact ⟨rfl, rfl⟩

end Varpro
