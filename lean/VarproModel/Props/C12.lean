import VarproModel.Core.Stats
import VarproModel.Core.Shape
import VarproModel.Proofs.ToMatrix
import Mathlib.Algebra.Order.Field.Basic
import Mathlib.Algebra.Order.BigOperators.Ring.Finset
import Mathlib.Tactic.Linarith
/-!
# C12 — fit statistics satisfy their defining identities; under-determined fits give Err
-/
namespace Varpro
set_option linter.unusedSectionVars false

section core
variable {K E : Type} {n m p : Nat} {U : UserModel n m p K E}
variable [Add K] [Sub K] [Mul K] [Div K] [Zero K]

/-- everything a successful `try_calculate` consists of -/
theorem tryCalculate_ok (x : StatExt K) (o : XOps K) (st : U.State) (Yw : Mat n 1 K)
    (w : Option (Vector K n)) (c : Mat m 1 K) (s : Stats n m p K)
    (h : (tryCalculate x o U st Yw w c).2 = .ok s) :
    ∃ st1 st2 J Phi dofK HTHinv,
      modelFunctionJacobian U st c = (st1, some J) ∧ U.eval st1 = (st2, .ok Phi) ∧
      ¬ n ≤ p + m ∧ x.ofNat (n - (p + m)) = some dofK ∧
      x.inv (m + p) ((wmul w J).transpose.mul (wmul w J)) = some HTHinv ∧
      s.weightedResiduals = Yw.sub ((wmul w Phi).mul c) ∧
      s.degreesOfFreedom = n - (p + m) ∧
      s.reducedChi2 = normSq (Yw.sub ((wmul w Phi).mul c)) / dofK ∧
      s.covariance = HTHinv.map (fun v => v * o.sqrt s.reducedChi2 * o.sqrt s.reducedChi2) ∧
      s.unscaledConfidenceSigma = Vector.ofFn fun i => o.sqrt (quadForm s.covariance J i) := by
  unfold tryCalculate at h
  cases hj : modelFunctionJacobian U st c with
  | mk st1 oj =>
    cases oj with
    | none => simp [hj] at h
    | some J =>
      simp only [hj] at h
      cases he : U.eval st1 with
      | mk st2 r =>
        cases r with
        | error e => simp [he] at h
        | ok Phi =>
          simp only [he] at h
          by_cases hle : n ≤ p + m
          · simp [hle] at h
          · simp only [hle, if_false] at h
            cases hd0 : x.ofNat (n - (p + m)) with
            | none => simp [hd0] at h
            | some dofK =>
              simp only [hd0] at h
              have hd : x.ofNat (n - (p + m)) = some dofK := hd0
              cases hi : x.inv (m + p) ((wmul w J).transpose.mul (wmul w J)) with
              | none => simp [hi] at h
              | some HTHinv =>
                simp only [hi] at h
                have := Except.ok.inj h
                subst this
                exact ⟨st1, st2, J, Phi, dofK, HTHinv, rfl, he, hle, rfl, hi, rfl, rfl, rfl, rfl, rfl⟩

/-- **c12_ok_dof**: statistics exist only for `N > M + P`, and the degrees of freedom are
`N − M − P`. -/
theorem c12_ok_dof (x : StatExt K) (o : XOps K) (st : U.State) (Yw : Mat n 1 K)
    (w : Option (Vector K n)) (c : Mat m 1 K) (s : Stats n m p K)
    (h : (tryCalculate x o U st Yw w c).2 = .ok s) :
    n > m + p ∧ s.degreesOfFreedom = n - m - p := by
  obtain ⟨_, _, _, _, _, _, _, _, hle, _, _, _, hd, _⟩ := tryCalculate_ok x o st Yw w c s h
  constructor
  · omega
  · rw [hd]; omega

/-- **c12_underdetermined**: for `N ≤ M + P` the result is never `Ok`, whatever the model does. -/
theorem c12_underdetermined (x : StatExt K) (o : XOps K) (st : U.State) (Yw : Mat n 1 K)
    (w : Option (Vector K n)) (c : Mat m 1 K) (hle : n ≤ m + p) :
    ∃ e, (tryCalculate x o U st Yw w c).2 = .error e := by
  cases h : (tryCalculate x o U st Yw w c).2 with
  | error e => exact ⟨e, rfl⟩
  | ok s =>
    have := (c12_ok_dof x o st Yw w c s h).1
    omega

/-- **c12_residuals**: the reported weighted residuals are `Y_w − (W·Φ)·c` for the basis matrix the
model returns at the final parameters – the same expression as the cached residuals of the fit. -/
theorem c12_residuals (x : StatExt K) (o : XOps K) (st : U.State) (Yw : Mat n 1 K)
    (w : Option (Vector K n)) (c : Mat m 1 K) (s : Stats n m p K)
    (h : (tryCalculate x o U st Yw w c).2 = .ok s) :
    ∃ st1 st2 J Phi, modelFunctionJacobian U st c = (st1, some J) ∧ U.eval st1 = (st2, .ok Phi) ∧
      s.weightedResiduals = Yw.sub ((wmul w Phi).mul c) := by
  obtain ⟨st1, st2, J, Phi, _, _, hj, he, _, _, _, hr, _⟩ := tryCalculate_ok x o st Yw w c s h
  exact ⟨st1, st2, J, Phi, hj, he, hr⟩

/-- **c12_chi2**: the reduced χ² is the squared norm of the weighted residuals divided by
`N − M − P`. -/
theorem c12_chi2 (x : StatExt K) (o : XOps K) (st : U.State) (Yw : Mat n 1 K)
    (w : Option (Vector K n)) (c : Mat m 1 K) (s : Stats n m p K)
    (h : (tryCalculate x o U st Yw w c).2 = .ok s) :
    ∃ dofK, x.ofNat (n - m - p) = some dofK ∧ s.reducedChi2 = normSq s.weightedResiduals / dofK := by
  obtain ⟨_, _, _, _, dofK, _, _, _, _, hd, _, hr, _, hc, _⟩ := tryCalculate_ok x o st Yw w c s h
  refine ⟨dofK, ?_, by rw [hc, hr]⟩
  have : n - m - p = n - (p + m) := by omega
  rw [this]; exact hd
end core

section field
variable {K E : Type} [Field K] [LinearOrder K] [IsStrictOrderedRing K] {n m p : Nat}
variable {U : UserModel n m p K E}

theorem normSq_nonneg (v : Mat n 1 K) : 0 ≤ normSq v := by
  unfold normSq
  rw [sumFin_eq]
  exact Finset.sum_nonneg fun i _ => mul_self_nonneg _

/-- **c12_stderr**: the regression standard error is the square root of the reduced χ²: its square
is the reduced χ² (which is non-negative). -/
theorem c12_stderr (x : StatExt K) (o : XOps K) (st : U.State) (Yw : Mat n 1 K)
    (w : Option (Vector K n)) (c : Mat m 1 K) (s : Stats n m p K)
    (hsqrt : ∀ v : K, 0 ≤ v → o.sqrt v * o.sqrt v = v)
    (hnat : ∀ k v, x.ofNat k = some v → v = (k : K))
    (h : (tryCalculate x o U st Yw w c).2 = .ok s) :
    0 ≤ s.reducedChi2 ∧ s.regressionStandardError o * s.regressionStandardError o = s.reducedChi2 := by
  obtain ⟨dofK, hd, hc⟩ := c12_chi2 x o st Yw w c s h
  have hpos : 0 ≤ dofK := by rw [hnat _ _ hd]; exact Nat.cast_nonneg _
  have hnn : 0 ≤ s.reducedChi2 := by rw [hc]; exact div_nonneg (normSq_nonneg _) hpos
  exact ⟨hnn, hsqrt _ hnn⟩
end field

/-! ### model errors during the statistics -/
section modelErrors
variable {K E : Type} {n m p : Nat} {U : UserModel n m p K E}
variable [Add K] [Sub K] [Mul K] [Div K] [Zero K]

/-- the derivative columns are all-or-nothing: present only when EVERY requested derivative
evaluated, and then there is exactly one column per requested index, in order -/
theorem derivCols_some_length (c : Mat m 1 K) (ks : List (Fin p)) (st : U.State)
    (cols : List (Fin p × Mat n 1 K)) (h : (derivCols U c st ks).2 = some cols) :
    cols.map (·.1) = ks := by
  induction ks generalizing st cols with
  | nil => simp [derivCols] at h; subst h; rfl
  | cons k rest ih =>
    unfold derivCols at h
    cases hd : U.deriv st k with
    | mk st1 r =>
      cases r with
      | error e => simp [hd] at h
      | ok D =>
        simp only [hd] at h
        cases hr : derivCols U c st1 rest with
        | mk st2 o =>
          cases o with
          | none => simp [hr] at h
          | some cs =>
            simp only [hr] at h
            have := ih st1 cs (by rw [hr])
            cases h
            simp [this]

/-- **c12_failing_derivative**: if a derivative call made for the statistics fails – whichever of
the `P` calls it is – there are no derivative columns at all (none is silently dropped), the
Jacobian of the model function is absent and `try_calculate` returns the model-evaluation error:
`fit_with_statistics` cannot return statistics computed from fewer columns. -/
theorem c12_failing_derivative (x : StatExt K) (o : XOps K) (st : U.State) (Yw : Mat n 1 K)
    (w : Option (Vector K n)) (c : Mat m 1 K)
    (h : (derivCols U c st (List.finRange p)).2 = none) :
    (modelFunctionJacobian U st c).2 = none ∧
    (tryCalculate x o U st Yw w c).2 = .error .modelEvaluation := by
  have hj : (modelFunctionJacobian U st c).2 = none := by
    unfold modelFunctionJacobian
    cases hd : derivCols U c st (List.finRange p) with
    | mk st1 oc =>
      rw [hd] at h
      simp only at h
      subst h
      rfl
  refine ⟨hj, ?_⟩
  unfold tryCalculate
  cases hm : modelFunctionJacobian U st c with
  | mk st1 oj =>
    rw [hm] at hj
    simp only at hj
    subst hj
    rfl

/-- one failing call suffices: if the call for index `k` fails in the state the calls before it
left behind, the columns are absent (first-failure form of the hypothesis above) -/
theorem derivCols_first_failure (c : Mat m 1 K) (st : U.State) (k : Fin p) (rest : List (Fin p))
    (e : E) (st1 : U.State) (h : U.deriv st k = (st1, .error e)) :
    (derivCols U c st (k :: rest)).2 = none := by
  simp [derivCols, h]

end modelErrors

/-! ### the subtraction on `usize`: no panic in either build profile -/
namespace Shape

/-- **c12_no_panic**: in both build profiles (overflow checks on and off) the degrees-of-freedom
computation returns `Err(Underdetermined)` for `N ≤ M + P` and `N − (M+P)` otherwise – it never
panics. -/
theorem c12_no_panic (prof : Profile) (n total : Nat) :
    (n ≤ total → dof prof n total = .err .underdetermined) ∧
    (total < n → dof prof n total = .ok (n - total)) := by
  constructor
  · intro h; simp [dof, h]
  · intro h
    have : ¬ n ≤ total := by omega
    simp [dof, this, usizeSub, Nat.le_of_lt h]

/-- the defect repaired by commit 7f5ce42, kernel-checked on the pre-fix transcription:
`N = 4, M + P = 5` panics when overflow checks are on -/
theorem c12_prefix_panics : dofPrefix .debug 4 5 = .panic := by decide

example : dof .debug 4 5 = .err .underdetermined := by decide
example : dof .release 9 5 = .ok 4 := by decide
end Shape

end Varpro
