import VarproModel.Props.E2E
import VarproModel.Props.C12
/-!
# C12 end to end: `fit_with_statistics` on varpro's own problem

`fitWithStats` instantiates the generic `LM.fitWithStatistics` with the problem's
`linear_coefficients()` and `FitStatistics::try_calculate` on the final problem, exactly as
src/solvers/levmar/mod.rs does.  For a model honouring the trait contract the statistics – when they
exist – satisfy the identities of C12 *with respect to the state of the returned fit result*.
-/
namespace Varpro
open LM
set_option linter.unusedSectionVars false

section defs
variable {K E : Type} {n m p : Nat} {U : UserModel n m p K E} {LLS : Type}
variable [Add K] [Sub K] [Mul K] [Div K] [Neg K] [Zero K] [One K] [LT K] [LE K]
  [DecidableLT K] [DecidableLE K] [DecidableEq K]

/-- `LevMarSolver::fit_with_statistics` (single right-hand side) -/
def fitWithStats (x : Ext K) (o : XOps K) (sx : StatExt K) (ops : POps K n p 1 LLS) (nm : Num K)
    (cfg : Config K) (P : Problem U 1) :
    Except (FitResult (Problem U 1) K) (FitResult (Problem U 1) K × Stats n m p K) :=
  fitWithStatistics (problemLSP x o) ops nm cfg (fun Q => Q.coefficients)
    (fun Q c => (tryCalculate sx o U Q.st Q.Yw Q.w c).2) P

/-- the model calls of `model_function_jacobian` leave the parameters of a lawful model alone -/
theorem derivCols_params {evalF : Vector K p → Except E (Mat n m K)}
    {derivF : Vector K p → Fin p → Except E (Mat n m K)} (hL : Lawful U evalF derivF)
    (c : Mat m 1 K) (st : U.State) (ks : List (Fin p)) :
    U.params (derivCols U c st ks).1 = U.params st := by
  induction ks generalizing st with
  | nil => rfl
  | cons k rest ih =>
    have hp := hL.deriv_params st k
    simp only [derivCols]
    cases hd : U.deriv st k with
    | mk st1 r =>
      rw [hd] at hp
      simp only at hp
      cases r with
      | error e => exact hp
      | ok D =>
        simp only
        have := ih st1
        cases hr : derivCols U c st1 rest with
        | mk st2 oc =>
          rw [hr] at this
          simp only at this
          cases oc <;> simp only <;> rw [this, hp]

theorem mfj_params {evalF : Vector K p → Except E (Mat n m K)}
    {derivF : Vector K p → Fin p → Except E (Mat n m K)} (hL : Lawful U evalF derivF)
    (c : Mat m 1 K) (st : U.State) :
    U.params (modelFunctionJacobian U st c).1 = U.params st := by
  unfold modelFunctionJacobian
  have h1 := derivCols_params hL c st (List.finRange p)
  cases hd : derivCols U c st (List.finRange p) with
  | mk st1 oc =>
    rw [hd] at h1
    simp only at h1
    cases oc with
    | none => exact h1
    | some cols =>
      simp only
      have h2 := hL.eval_params st1
      cases he : U.eval st1 with
      | mk st2 r =>
        rw [he] at h2
        simp only at h2
        cases r <;> simp only <;> rw [h2, h1]
end defs

section field
variable {K E : Type} [Field K] [LinearOrder K] [IsStrictOrderedRing K] {n m p : Nat}
variable {U : UserModel n m p K E} {LLS : Type}
variable {evalF : Vector K p → Except E (Mat n m K)}
variable {derivF : Vector K p → Fin p → Except E (Mat n m K)}

/-- **c12_e2e**: whenever `fit_with_statistics` returns `Ok((result, statistics))` on a problem over a
model honouring the trait contract: `N > M + P`; the degrees of freedom are `N − M − P`; the fit was
successful and carries coefficients; the reported weighted residuals are **the residual matrix cached
in the returned problem** (the final residuals of the fit); the reduced χ² is their squared norm
divided by `N − M − P`. -/
theorem c12_e2e (x : Ext K) (o : XOps K) (sx : StatExt K) (hL : Lawful U evalF derivF)
    (ops : POps K n p 1 LLS) (nm : Num K) (cfg : Config K) (hl : NumLaws ops nm) (P : Problem U 1)
    (h0 : P.cached = cacheOf x o P.Yw P.eps P.w evalF P.params)
    (r : FitResult (Problem U 1) K) (st : Stats n m p K)
    (h : fitWithStats x o sx ops nm cfg P = .ok (r, st)) :
    n > m + p ∧ st.degreesOfFreedom = n - m - p ∧
    r.report.termination.wasSuccessful = true ∧
    (∃ c, r.problem.cached = some c ∧ st.weightedResiduals = c.residuals) ∧
    (∃ dofK, sx.ofNat (n - m - p) = some dofK ∧ st.reducedChi2 = normSq st.weightedResiduals / dofK) := by
  -- unfold the decision structure of fit_with_statistics
  unfold fitWithStats fitWithStatistics at h
  cases hf : fit (problemLSP x o) ops nm cfg P with
  | error r' => simp [hf] at h
  | ok r' =>
    simp only [hf] at h
    by_cases hs : r'.report.termination.wasSuccessful = true
    · simp only [hs, Bool.not_true, Bool.false_eq_true, if_false] at h
      cases hc : r'.problem.coefficients with
      | none => simp [hc] at h
      | some cf =>
        simp only [hc] at h
        cases ht : (tryCalculate sx o U r'.problem.st r'.problem.Yw r'.problem.w cf).2 with
        | error e => simp [ht] at h
        | ok s' =>
          simp only [ht] at h
          have heq := Except.ok.inj h
          have hr : r' = r := congrArg Prod.fst heq
          have hst : s' = st := congrArg Prod.snd heq
          subst hr hst
          obtain ⟨hgt, hdof⟩ := c12_ok_dof sx o r'.problem.st r'.problem.Yw r'.problem.w cf s' ht
          obtain ⟨st1, st2, J, Phi, hj, he, hres⟩ :=
            c12_residuals sx o r'.problem.st r'.problem.Yw r'.problem.w cf s' ht
          refine ⟨hgt, hdof, hs, ?_, c12_chi2 sx o _ _ _ cf s' ht⟩
          -- the cache of the returned problem
          obtain ⟨Phi', c, hPhi', hcache, _, _, hresid, _⟩ := c04_e2e x o hL ops nm cfg hl P h0 r' hf
          refine ⟨c, hcache, ?_⟩
          have hcf : cf = c.coeff := by
            simp only [Problem.coefficients, hcache, Option.map_some] at hc
            exact (Option.some.inj hc).symm
          -- the statistics evaluate the model at the same parameters: same Φ
          have hp1 : U.params st1 = r'.problem.params := by
            have := mfj_params hL cf r'.problem.st
            rw [hj] at this
            exact this
          have hval := hL.eval_val st1
          rw [he, hp1, hPhi'] at hval
          simp only at hval
          have hPhiEq : Phi = Phi' := Except.ok.inj hval
          have hfix := c02_fit_fixed x o ops nm cfg P
          have hprob : r'.problem = (minimize (problemLSP x o) ops nm cfg P).1 := by
            have := fit_problem (problemLSP (U := U) (s := 1) x o) ops nm cfg P id
            rw [hf] at this
            exact this
          rw [← hprob] at hfix
          rw [hres, hresid, hPhiEq, hcf, hfix.1, hfix.2.2]
    · simp [hs] at h

end field
end Varpro
