import VarproModel.Props.C12
import Mathlib.Data.Matrix.Mul
import Mathlib.LinearAlgebra.Matrix.DotProduct
import Mathlib.Algebra.Order.BigOperators.Ring.Finset
/-!
# C13 — covariance and correlation are those of the full parameter vector (c, α)

`InvSpec`: what is assumed of the external matrix inversion (`try_inverse`, LU).
-/
namespace Varpro
open Matrix
set_option linter.unusedSectionVars false

variable {K E : Type} [Field K] [LinearOrder K] [IsStrictOrderedRing K] {n m p : Nat}
variable {U : UserModel n m p K E}

/-- assumed of the external inverse: a returned matrix is a two-sided inverse -/
def InvSpec (x : StatExt K) : Prop :=
  ∀ (d : Nat) (A B : Mat d d K), x.inv d A = some B → A.toM * B.toM = 1 ∧ B.toM * A.toM = 1

/-- **c13_order**: columns `0 … M−1` of the model-function Jacobian `[Φ | D_k c]` are the basis
functions in basis order, column `M + k` belongs to nonlinear parameter `k` (concatenation index
lemma) – so index `j < M` of the covariance is coefficient `j` and `M + k` is parameter `k`. -/
theorem c13_order {K : Type} {n m p : Nat} (A : Mat n m K) (B : Mat n p K) (i : Fin n) :
    (∀ j : Fin m, (Mat.hcat A B).get i ⟨j.val, by omega⟩ = A.get i j) ∧
    (∀ k : Fin p, (Mat.hcat A B).get i ⟨m + k.val, by omega⟩ = B.get i k) := by
  constructor
  · intro j; simp [Mat.hcat, j.isLt]
  · intro k
    simp only [Mat.hcat, Mat.get_ofFn]
    have : ¬ (m + k.val < m) := by omega
    simp only [this, dite_false]
    congr 1
    apply Fin.ext; simp

/-- **c13_cov**: the covariance of a successful computation is `σ̂²·(HᵀH)⁻¹` with
`H = W·[Φ | D_k c]` and `σ̂² =` reduced χ². -/
theorem c13_cov (x : StatExt K) (o : XOps K) (st : U.State) (Yw : Mat n 1 K)
    (w : Option (Vector K n)) (c : Mat m 1 K) (s : Stats n m p K)
    (hinv : InvSpec x) (hsqrt : ∀ v : K, 0 ≤ v → o.sqrt v * o.sqrt v = v)
    (hnat : ∀ k v, x.ofNat k = some v → v = (k : K))
    (h : (tryCalculate x o U st Yw w c).2 = .ok s) :
    ∃ st1 J B, modelFunctionJacobian U st c = (st1, some J) ∧
      let H := (wmul w J).toM
      (Hᵀ * H) * B = 1 ∧ B * (Hᵀ * H) = 1 ∧ s.covariance.toM = s.reducedChi2 • B := by
  obtain ⟨st1, _, J, _, _, HTHinv, hj, _, _, _, hi, _, _, _, hcov, _⟩ := tryCalculate_ok x o st Yw w c s h
  obtain ⟨h1, h2⟩ := hinv _ _ _ hi
  refine ⟨st1, J, HTHinv.toM, hj, ?_, ?_, ?_⟩
  · simpa using h1
  · simpa using h2
  · have hnn := (c12_stderr x o st Yw w c s hsqrt hnat h).1
    rw [hcov]
    ext i j
    simp only [Mat.toM, Mat.map, Mat.get_ofFn, Matrix.smul_apply, smul_eq_mul]
    rw [mul_assoc, hsqrt _ hnn, mul_comm]

/-- symmetric matrix with a two-sided inverse: the inverse is symmetric -/
theorem inv_symm {d : Nat} (A B : Matrix (Fin d) (Fin d) K) (hA : Aᵀ = A) (h1 : A * B = 1)
    (h2 : B * A = 1) : Bᵀ = B := by
  have : Bᵀ * A = 1 := by
    have := congrArg Matrix.transpose h1
    rwa [Matrix.transpose_mul, hA, Matrix.transpose_one] at this
  calc Bᵀ = Bᵀ * (A * B) := by rw [h1, Matrix.mul_one]
    _ = (Bᵀ * A) * B := by rw [Matrix.mul_assoc]
    _ = B := by rw [this, Matrix.one_mul]

/-- **c13_symm**: the covariance matrix is symmetric. -/
theorem c13_symm {d : Nat} (H : Matrix (Fin n) (Fin d) K) (B : Matrix (Fin d) (Fin d) K) (chi2 : K)
    (h1 : (Hᵀ * H) * B = 1) (h2 : B * (Hᵀ * H) = 1) : (chi2 • B)ᵀ = chi2 • B := by
  have hA : (Hᵀ * H)ᵀ = Hᵀ * H := by simp [Matrix.transpose_mul]
  rw [Matrix.transpose_smul, inv_symm _ _ hA h1 h2]

/-- **c13_diag_nonneg**: every variance (diagonal entry of the covariance) is non-negative:
`(HᵀH)⁻¹ = (H B)ᵀ (H B)` is a Gram matrix. -/
theorem c13_diag_nonneg {d : Nat} (H : Matrix (Fin n) (Fin d) K) (B : Matrix (Fin d) (Fin d) K) (chi2 : K)
    (hchi : 0 ≤ chi2) (h1 : (Hᵀ * H) * B = 1) (h2 : B * (Hᵀ * H) = 1) (i : Fin d) :
    0 ≤ (chi2 • B) i i := by
  have hA : (Hᵀ * H)ᵀ = Hᵀ * H := by simp [Matrix.transpose_mul]
  have hBt := inv_symm _ _ hA h1 h2
  have hgram : B = (H * B)ᵀ * (H * B) := by
    rw [Matrix.transpose_mul, hBt, Matrix.mul_assoc, ← Matrix.mul_assoc Hᵀ, h1, Matrix.mul_one]
  have : 0 ≤ B i i := by
    rw [hgram, Matrix.mul_apply]
    exact Finset.sum_nonneg fun k _ => by
      rw [Matrix.transpose_apply]; exact mul_self_nonneg _
  simp only [Matrix.smul_apply, smul_eq_mul]
  exact mul_nonneg hchi this

/-- **c13_var_slices**: the linear and nonlinear variance accessors return exactly the diagonal
entries `0 … M−1` and `M … M+P−1` of the covariance; their lengths are `M` and `P`. -/
theorem c13_var_slices {K : Type} (s : Stats n m p K) :
    (∀ j : Fin m, s.linearVariance[j] = s.covariance.get ⟨j.val, by omega⟩ ⟨j.val, by omega⟩) ∧
    (∀ k : Fin p, s.nonlinearVariance[k] = s.covariance.get ⟨m + k.val, by omega⟩ ⟨m + k.val, by omega⟩) := by
  constructor
  · intro j; simp [Stats.linearVariance]
  · intro k; simp [Stats.nonlinearVariance]

/-- **c13_corr**: the correlation matrix is the covariance normalised by `√(C_ii·C_jj)`; a positive
variance gives a unit diagonal entry. -/
theorem c13_corr (o : XOps K) (s : Stats n m p K) (hsq : ∀ v : K, 0 < v → o.sqrt (v * v) = v)
    (i j : Fin (m + p)) :
    (s.correlation o).get i j = s.covariance.get i j / o.sqrt (s.covariance.get i i * s.covariance.get j j) ∧
    (0 < s.covariance.get i i → (s.correlation o).get i i = 1) := by
  constructor
  · simp [Stats.correlation]
  · intro hpos
    simp only [Stats.correlation, Mat.get_ofFn]
    rw [hsq _ hpos, div_self (ne_of_gt hpos)]

/-- Cauchy–Schwarz for the covariance: `C_ij² ≤ C_ii·C_jj` (the inverse of `HᵀH` is a Gram matrix). -/
theorem c13_cov_cauchy_schwarz {d : Nat} (H : Matrix (Fin n) (Fin d) K) (B : Matrix (Fin d) (Fin d) K) (chi2 : K)
    (h1 : (Hᵀ * H) * B = 1) (h2 : B * (Hᵀ * H) = 1) (i j : Fin d) :
    ((chi2 • B) i j) ^ 2 ≤ (chi2 • B) i i * (chi2 • B) j j := by
  have hA : (Hᵀ * H)ᵀ = Hᵀ * H := by simp [Matrix.transpose_mul]
  have hBt := inv_symm _ _ hA h1 h2
  have hgram : B = (H * B)ᵀ * (H * B) := by
    rw [Matrix.transpose_mul, hBt, Matrix.mul_assoc, ← Matrix.mul_assoc Hᵀ, h1, Matrix.mul_one]
  have hent : ∀ a b, B a b = ∑ k, (H * B) k a * (H * B) k b := by
    intro a b
    conv_lhs => rw [hgram]
    rw [Matrix.mul_apply]
    simp only [Matrix.transpose_apply]
  have hcs := Finset.sum_mul_sq_le_sq_mul_sq Finset.univ (fun k => (H * B) k i) (fun k => (H * B) k j)
  have hii : B i i = ∑ k, (H * B) k i ^ 2 := by rw [hent]; simp [sq]
  have hjj : B j j = ∑ k, (H * B) k j ^ 2 := by rw [hent]; simp [sq]
  have hB : B i j ^ 2 ≤ B i i * B j j := by rw [hii, hjj, hent]; exact hcs
  simp only [Matrix.smul_apply, smul_eq_mul]
  calc (chi2 * B i j) ^ 2 = chi2 ^ 2 * B i j ^ 2 := by ring
    _ ≤ chi2 ^ 2 * (B i i * B j j) := mul_le_mul_of_nonneg_left hB (sq_nonneg _)
    _ = chi2 * B i i * (chi2 * B j j) := by ring

/-- **c13_corr_bound**: every correlation coefficient lies in `[−1, 1]` whenever both variances are
positive (with a zero variance the Rust code divides by zero and reports NaN/∞ – floating-point
behaviour outside the model). -/
theorem c13_corr_bound {d : Nat} (sqrt : K → K) (C : Matrix (Fin d) (Fin d) K)
    (hsqrt : ∀ v : K, 0 ≤ v → sqrt v * sqrt v = v) (hsn : ∀ v : K, 0 ≤ sqrt v)
    (hcs : ∀ i j, (C i j) ^ 2 ≤ C i i * C j j) (i j : Fin d) (hi : 0 < C i i) (hj : 0 < C j j) :
    |C i j / sqrt (C i i * C j j)| ≤ 1 := by
  have hpos : 0 < C i i * C j j := mul_pos hi hj
  have hs := hsqrt _ hpos.le
  have hspos : 0 < sqrt (C i i * C j j) := by
    rcases (hsn (C i i * C j j)).lt_or_eq with h | h
    · exact h
    · rw [← h, mul_zero] at hs; exact absurd hs.symm (ne_of_gt hpos)
  have hsq : C i j ^ 2 ≤ sqrt (C i i * C j j) ^ 2 := by rw [sq (sqrt _), hs]; exact hcs i j
  rw [abs_div, abs_of_pos hspos, div_le_one hspos]
  exact abs_le_of_sq_le_sq hsq hspos.le

/-- **c13_corr_in_range** (end to end): for the statistics of any successful computation, every
correlation coefficient between two parameters of positive variance lies in `[−1, 1]`. -/
theorem c13_corr_in_range (x : StatExt K) (o : XOps K) (st : U.State) (Yw : Mat n 1 K)
    (w : Option (Vector K n)) (c : Mat m 1 K) (s : Stats n m p K)
    (hinv : InvSpec x) (hsqrt : ∀ v : K, 0 ≤ v → o.sqrt v * o.sqrt v = v) (hsn : ∀ v : K, 0 ≤ o.sqrt v)
    (hnat : ∀ k v, x.ofNat k = some v → v = (k : K))
    (h : (tryCalculate x o U st Yw w c).2 = .ok s) (i j : Fin (m + p))
    (hi : 0 < s.covariance.get i i) (hj : 0 < s.covariance.get j j) :
    |(s.correlation o).get i j| ≤ 1 := by
  obtain ⟨st1, J, B, _, h1, h2, hcov⟩ := c13_cov x o st Yw w c s hinv hsqrt hnat h
  have hcs : ∀ a b, (s.covariance.toM a b) ^ 2 ≤ s.covariance.toM a a * s.covariance.toM b b := by
    intro a b; rw [hcov]; exact c13_cov_cauchy_schwarz _ B s.reducedChi2 h1 h2 a b
  have := c13_corr_bound o.sqrt s.covariance.toM hsqrt hsn hcs i j hi hj
  simpa [Stats.correlation, Mat.toM] using this

end Varpro
