import VarproModel.Props.C12
import Mathlib.Data.Matrix.Mul
import Mathlib.LinearAlgebra.Matrix.DotProduct
/-!
# C13 — covariance and correlation are those of the full parameter vector (c, α)

`InvSpec`: what is assumed of the external matrix inversion (`try_inverse`, LU).
-/
namespace Varpro
open Matrix
set_option linter.unusedSectionVars false

variable {K E : Type} [Field K] [LinearOrder K] [IsStrictOrderedRing K] {n m p : Nat}
variable {U : UserModel n m p K E}

/-- assumed of the external inverse: a returned matrix is a two-sided inverse -/
def InvSpec (x : StatExt K) : Prop :=
  ∀ (d : Nat) (A B : Mat d d K), x.inv d A = some B → A.toM * B.toM = 1 ∧ B.toM * A.toM = 1

/-- **c13_order**: columns `0 … M−1` of the model-function Jacobian `[Φ | D_k c]` are the basis
functions in basis order, column `M + k` belongs to nonlinear parameter `k` (concatenation index
lemma) – so index `j < M` of the covariance is coefficient `j` and `M + k` is parameter `k`. -/
theorem c13_order {K : Type} {n m p : Nat} (A : Mat n m K) (B : Mat n p K) (i : Fin n) :
    (∀ j : Fin m, (Mat.hcat A B).get i ⟨j.val, by omega⟩ = A.get i j) ∧
    (∀ k : Fin p, (Mat.hcat A B).get i ⟨m + k.val, by omega⟩ = B.get i k) := by
  constructor
  · intro j; simp [Mat.hcat, j.isLt]
  · intro k
    simp only [Mat.hcat, Mat.get_ofFn]
    have : ¬ (m + k.val < m) := by omega
    simp only [this, dite_false]
    congr 1
    apply Fin.ext; simp

/-- **c13_cov**: the covariance of a successful computation is `σ̂²·(HᵀH)⁻¹` with
`H = W·[Φ | D_k c]` and `σ̂² =` reduced χ². -/
theorem c13_cov (x : StatExt K) (o : XOps K) (st : U.State) (Yw : Mat n 1 K)
    (w : Option (Vector K n)) (c : Mat m 1 K) (s : Stats n m p K)
    (hinv : InvSpec x) (hsqrt : ∀ v : K, 0 ≤ v → o.sqrt v * o.sqrt v = v)
    (hnat : ∀ k v, x.ofNat k = some v → v = (k : K))
    (h : (tryCalculate x o U st Yw w c).2 = .ok s) :
    ∃ st1 J B, modelFunctionJacobian U st c = (st1, some J) ∧
      let H := (wmul w J).toM
      (Hᵀ * H) * B = 1 ∧ B * (Hᵀ * H) = 1 ∧ s.covariance.toM = s.reducedChi2 • B := by
  obtain ⟨st1, _, J, _, _, HTHinv, hj, _, _, _, hi, _, _, _, hcov, _⟩ := tryCalculate_ok x o st Yw w c s h
  obtain ⟨h1, h2⟩ := hinv _ _ _ hi
  refine ⟨st1, J, HTHinv.toM, hj, ?_, ?_, ?_⟩
  · simpa using h1
  · simpa using h2
  · have hnn := (c12_stderr x o st Yw w c s hsqrt hnat h).1
    rw [hcov]
    ext i j
    simp only [Mat.toM, Mat.map, Mat.get_ofFn, Matrix.smul_apply, smul_eq_mul]
    rw [mul_assoc, hsqrt _ hnn, mul_comm]

/-- symmetric matrix with a two-sided inverse: the inverse is symmetric -/
theorem inv_symm {d : Nat} (A B : Matrix (Fin d) (Fin d) K) (hA : Aᵀ = A) (h1 : A * B = 1)
    (h2 : B * A = 1) : Bᵀ = B := by
  have : Bᵀ * A = 1 := by
    have := congrArg Matrix.transpose h1
    rwa [Matrix.transpose_mul, hA, Matrix.transpose_one] at this
  calc Bᵀ = Bᵀ * (A * B) := by rw [h1, Matrix.mul_one]
    _ = (Bᵀ * A) * B := by rw [Matrix.mul_assoc]
    _ = B := by rw [this, Matrix.one_mul]

/-- **c13_symm**: the covariance matrix is symmetric. -/
theorem c13_symm {d : Nat} (H : Matrix (Fin n) (Fin d) K) (B : Matrix (Fin d) (Fin d) K) (chi2 : K)
    (h1 : (Hᵀ * H) * B = 1) (h2 : B * (Hᵀ * H) = 1) : (chi2 • B)ᵀ = chi2 • B := by
  have hA : (Hᵀ * H)ᵀ = Hᵀ * H := by simp [Matrix.transpose_mul]
  rw [Matrix.transpose_smul, inv_symm _ _ hA h1 h2]

/-- **c13_diag_nonneg**: every variance (diagonal entry of the covariance) is non-negative:
`(HᵀH)⁻¹ = (H B)ᵀ (H B)` is a Gram matrix. -/
theorem c13_diag_nonneg {d : Nat} (H : Matrix (Fin n) (Fin d) K) (B : Matrix (Fin d) (Fin d) K) (chi2 : K)
    (hchi : 0 ≤ chi2) (h1 : (Hᵀ * H) * B = 1) (h2 : B * (Hᵀ * H) = 1) (i : Fin d) :
    0 ≤ (chi2 • B) i i := by
  have hA : (Hᵀ * H)ᵀ = Hᵀ * H := by simp [Matrix.transpose_mul]
  have hBt := inv_symm _ _ hA h1 h2
  have hgram : B = (H * B)ᵀ * (H * B) := by
    rw [Matrix.transpose_mul, hBt, Matrix.mul_assoc, ← Matrix.mul_assoc Hᵀ, h1, Matrix.mul_one]
  have : 0 ≤ B i i := by
    rw [hgram, Matrix.mul_apply]
    exact Finset.sum_nonneg fun k _ => by
      rw [Matrix.transpose_apply]; exact mul_self_nonneg _
  simp only [Matrix.smul_apply, smul_eq_mul]
  exact mul_nonneg hchi this

/-- **c13_var_slices**: the linear and nonlinear variance accessors return exactly the diagonal
entries `0 … M−1` and `M … M+P−1` of the covariance; their lengths are `M` and `P`. -/
theorem c13_var_slices {K : Type} (s : Stats n m p K) :
    (∀ j : Fin m, s.linearVariance[j] = s.covariance.get ⟨j.val, by omega⟩ ⟨j.val, by omega⟩) ∧
    (∀ k : Fin p, s.nonlinearVariance[k] = s.covariance.get ⟨m + k.val, by omega⟩ ⟨m + k.val, by omega⟩) := by
  constructor
  · intro j; simp [Stats.linearVariance]
  · intro k; simp [Stats.nonlinearVariance]

/-- **c13_corr**: the correlation matrix is the covariance normalised by `√(C_ii·C_jj)`; a positive
variance gives a unit diagonal entry. -/
theorem c13_corr (o : XOps K) (s : Stats n m p K) (hsq : ∀ v : K, 0 < v → o.sqrt (v * v) = v)
    (i j : Fin (m + p)) :
    (s.correlation o).get i j = s.covariance.get i j / o.sqrt (s.covariance.get i i * s.covariance.get j j) ∧
    (0 < s.covariance.get i i → (s.correlation o).get i i = 1) := by
  constructor
  · simp [Stats.correlation]
  · intro hpos
    simp only [Stats.correlation, Mat.get_ofFn]
    rw [hsq _ hpos, div_self (ne_of_gt hpos)]

end Varpro
