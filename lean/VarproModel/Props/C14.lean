import VarproModel.Props.C13
/-!
# C14 — the confidence band radius is the two-sided Student-t band of the fitted curve

`TSpec`: what is assumed of the external Student-t quantile.
-/
namespace Varpro
set_option linter.unusedSectionVars false

variable {K E : Type} [Field K] [LinearOrder K] [IsStrictOrderedRing K] {n m p : Nat}
variable {U : UserModel n m p K E}

/-- assumed of the external quantile function: non-decreasing in the probability on `[½, 1)` and
zero at the median -/
structure TSpec (x : StatExt K) : Prop where
  mono : ∀ (ν : Nat) (q q' : K), 1 / 2 ≤ q → q ≤ q' → q' < 1 → x.tppf q ν ≤ x.tppf q' ν
  median : ∀ ν : Nat, x.tppf (1 / 2) ν = 0

/-- **c14_formula**: for a probability strictly between 0 and 1 the radius at sample `i` is
`t((1+p)/2; N−M−P) · √(j_iᵀ·Cov·j_i)` with `j_i` row `i` of the **unweighted** model-function
Jacobian `[Φ | (∂Φ/∂α_k)ĉ]`; one entry per sample. -/
theorem c14_formula (x : StatExt K) (o : XOps K) (st : U.State) (Yw : Mat n 1 K)
    (w : Option (Vector K n)) (c : Mat m 1 K) (s : Stats n m p K)
    (hfin : ∀ v : K, o.isFinite v = true)
    (h : (tryCalculate x o U st Yw w c).2 = .ok s) (prob : K) (h0 : 0 < prob) (h1 : prob < 1) :
    ∃ st1 J r, modelFunctionJacobian U st c = (st1, some J) ∧
      s.confidenceBandRadius x o 2 prob = some r ∧
      ∀ i : Fin n, r[i] = x.tppf ((prob + 1) / 2) (n - m - p) * o.sqrt (quadForm s.covariance J i) := by
  obtain ⟨st1, _, J, _, _, _, hj, _, _, _, _, _, hd, _, _, hu⟩ := tryCalculate_ok x o st Yw w c s h
  refine ⟨st1, J, Vector.ofFn fun i => x.tppf ((prob + 1) / 2) s.degreesOfFreedom * s.unscaledConfidenceSigma[i],
    hj, ?_, ?_⟩
  · simp [Stats.confidenceBandRadius, hfin, h0, h1]
  · intro i
    have : n - (p + m) = n - m - p := by omega
    simp [hd, hu, this]

/-- **c14_domain**: a probability outside the open interval `(0, 1)` is rejected (the documented
panic); inside, a radius is returned. -/
theorem c14_domain (x : StatExt K) (o : XOps K) (s : Stats n m p K) (prob : K)
    (hfin : ∀ v : K, o.isFinite v = true) :
    (s.confidenceBandRadius x o 2 prob).isSome = true ↔ (0 < prob ∧ prob < 1) := by
  simp only [Stats.confidenceBandRadius, hfin, Bool.true_and]
  by_cases h0 : 0 < prob <;> by_cases h1 : prob < 1 <;> simp [h0, h1]

/-- **c14_nonneg / c14_mono**: the radius is non-negative and non-decreasing in the probability
(the quantile argument `(1+p)/2` lies in `[½, 1)`). -/
theorem c14_nonneg_mono (x : StatExt K) (o : XOps K) (s : Stats n m p K) (ht : TSpec x)
    (hfin : ∀ v : K, o.isFinite v = true) (hsig : ∀ i : Fin n, 0 ≤ s.unscaledConfidenceSigma[i])
    (prob prob' : K) (h0 : 0 < prob) (hle : prob ≤ prob') (h1 : prob' < 1) :
    ∃ r r', s.confidenceBandRadius x o 2 prob = some r ∧ s.confidenceBandRadius x o 2 prob' = some r' ∧
      ∀ i : Fin n, 0 ≤ r[i] ∧ r[i] ≤ r'[i] := by
  have h0' : 0 < prob' := lt_of_lt_of_le h0 hle
  have h1' : prob < 1 := lt_of_le_of_lt hle h1
  refine ⟨Vector.ofFn fun i => x.tppf ((prob + 1) / 2) s.degreesOfFreedom * s.unscaledConfidenceSigma[i],
    Vector.ofFn fun i => x.tppf ((prob' + 1) / 2) s.degreesOfFreedom * s.unscaledConfidenceSigma[i],
    by simp [Stats.confidenceBandRadius, hfin, h0, h1'],
    by simp [Stats.confidenceBandRadius, hfin, h0', h1], ?_⟩
  intro i
  have hq : (1 : K) / 2 ≤ (prob + 1) / 2 := by
    apply div_le_div_of_nonneg_right _ (by norm_num : (0 : K) ≤ 2)
    linarith
  have hqq : (prob + 1) / 2 ≤ (prob' + 1) / 2 := by
    apply div_le_div_of_nonneg_right _ (by norm_num : (0 : K) ≤ 2)
    linarith
  have hq1 : (prob' + 1) / 2 < 1 := by
    rw [div_lt_one (by norm_num : (0 : K) < 2)]; linarith
  have hq1' : (prob + 1) / 2 < 1 := lt_of_le_of_lt hqq hq1
  have ht0 : 0 ≤ x.tppf ((prob + 1) / 2) s.degreesOfFreedom := by
    have := ht.mono s.degreesOfFreedom (1 / 2) ((prob + 1) / 2) le_rfl hq hq1'
    rwa [ht.median] at this
  have htm := ht.mono s.degreesOfFreedom _ _ hq hqq hq1
  have e1 : (Vector.ofFn fun i => x.tppf ((prob + 1) / 2) s.degreesOfFreedom * s.unscaledConfidenceSigma[i])[i]
      = x.tppf ((prob + 1) / 2) s.degreesOfFreedom * s.unscaledConfidenceSigma[i] := by simp
  have e2 : (Vector.ofFn fun i => x.tppf ((prob' + 1) / 2) s.degreesOfFreedom * s.unscaledConfidenceSigma[i])[i]
      = x.tppf ((prob' + 1) / 2) s.degreesOfFreedom * s.unscaledConfidenceSigma[i] := by simp
  rw [e1, e2]
  exact ⟨mul_nonneg ht0 (hsig i), mul_le_mul_of_nonneg_right htm (hsig i)⟩

/-- the stored per-sample factor is a square root, hence non-negative (given `0 ≤ √·`) -/
theorem c14_sigma_nonneg (x : StatExt K) (o : XOps K) (st : U.State) (Yw : Mat n 1 K)
    (w : Option (Vector K n)) (c : Mat m 1 K) (s : Stats n m p K)
    (hsq : ∀ v : K, 0 ≤ o.sqrt v) (h : (tryCalculate x o U st Yw w c).2 = .ok s) (i : Fin n) :
    0 ≤ s.unscaledConfidenceSigma[i] := by
  obtain ⟨_, _, J, _, _, _, _, _, _, _, _, _, _, _, _, hu⟩ := tryCalculate_ok x o st Yw w c s h
  simp [hu, hsq]

end Varpro
