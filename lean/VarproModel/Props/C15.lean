import VarproModel.Core.ModelSpec
/-!
# C15 — the model builder accepts exactly valid specifications (part 1: recorded defects are final)

All statements are for every name type, every payload, every call list.
-/
namespace Varpro.MB
variable {N F G X K : Type} [DecidableEq N]

/-- a call in the `Error` state changes nothing -/
theorem step_error (hc : N → Bool) (ar : F → Nat) (e : BErr N) (c : Call N F G X K) :
    step hc ar (.error e) c = .error e := by
  cases c <;> rfl

theorem foldl_step_error (hc : N → Bool) (ar : F → Nat) (e : BErr N) (cs : List (Call N F G X K)) :
    cs.foldl (step hc ar) (.error e) = .error e := by
  induction cs with
  | nil => rfl
  | cons c cs ih => simp [List.foldl_cons, step_error, ih]

/-- **c15_sticky**: once a prefix of the calls has put the builder into the error state with
defect `e`, every extension of the call sequence builds to exactly `Err(e)`. -/
theorem c15_sticky (hc : N → Bool) (ar : F → Nat) (names : List N) (pre post : List (Call N F G X K))
    (e : BErr N) (h : pre.foldl (step hc ar) (B.new hc names) = .error e) :
    run hc ar names (pre ++ post) = .error e := by
  simp [run, List.foldl_append, h, foldl_step_error, build]

/-- invalid model parameter names are final, whatever is called afterwards -/
theorem c15_bad_names_final (hc : N → Bool) (ar : F → Nat) (names : List N) (e : BErr N)
    (h : checkNames hc names = .error e) (calls : List (Call N F G X K)) :
    run hc ar names calls = .error e := by
  have : (B.new hc names : B N F G X K) = .error e := by simp [B.new, h]
  simp [run, this, foldl_step_error, build]

/-! ### a defect recorded inside a pending function can only end in `Err` -/

theorem partialDeriv_keeps_error (hc : N → Bool) (ar : F → Nat) (b : FnB N F G) (p : N) (d : F)
    (h : ∃ e, b.res = .error e) : ∃ e, (b.partialDeriv hc ar p d).res = .error e := by
  obtain ⟨e, he⟩ := h
  unfold FnB.partialDeriv
  split
  · simp [he]
  · exact ⟨_, rfl⟩

theorem build_error_of_res_error (hc : N → Bool) (b : FnB N F G) (e : BErr N) (h : b.res = .error e) :
    b.build hc = .error e := by
  simp [FnB.build, FnB.checkCompletion, h]

/-- **c15_pending_defect_final**: if the function under construction carries a recorded defect,
no continuation of the call sequence can produce a model. -/
theorem c15_pending_defect_final (hc : N → Bool) (ar : F → Nat) (m : Unfinished N F G X K)
    (fb : FnB N F G) (h : ∃ e, fb.res = .error e) (rest : List (Call N F G X K)) :
    ∃ e, build hc (rest.foldl (step hc ar) (.building m fb)) = .error e := by
  induction rest generalizing fb with
  | nil =>
    obtain ⟨e, he⟩ := h
    exact ⟨e, by simp [build, extend, build_error_of_res_error hc fb e he]⟩
  | cons c cs ih =>
    simp only [List.foldl_cons]
    cases c with
    | partialDeriv p d =>
      simp only [step]
      exact ih _ (partialDeriv_keeps_error hc ar fb p d h)
    | function fps f =>
      obtain ⟨e, he⟩ := h
      simp [step, extend, build_error_of_res_error hc fb e he, foldl_step_error, build]
    | invariant g =>
      obtain ⟨e, he⟩ := h
      simp [step, extend, build_error_of_res_error hc fb e he, foldl_step_error, build]
    | indepVar x =>
      obtain ⟨e, he⟩ := h
      simp [step, extend, build_error_of_res_error hc fb e he, foldl_step_error, build]
    | initParams v =>
      obtain ⟨e, he⟩ := h
      simp [step, extend, build_error_of_res_error hc fb e he, foldl_step_error, build]

/-- **c15_stray_derivative**: a `partial_deriv` call that does not directly follow a `function`
call or another `partial_deriv` call is a final defect `IllegalCallToPartialDeriv`. -/
theorem c15_stray_derivative (hc : N → Bool) (ar : F → Nat) (m : Unfinished N F G X K) (p : N) (d : F)
    (rest : List (Call N F G X K)) :
    build hc ((Call.partialDeriv p d :: rest).foldl (step hc ar) (.normal m))
      = .error .illegalCallToPartialDeriv := by
  simp [List.foldl_cons, step, stepNormal, foldl_step_error, build]

/-- **c15_init_len**: an initial guess whose length differs from the number of model parameters is
a final defect carrying both lengths. -/
theorem c15_init_len (hc : N → Bool) (ar : F → Nat) (m : Unfinished N F G X K) (v : List K)
    (h : m.names.length ≠ v.length) (rest : List (Call N F G X K)) :
    build hc ((Call.initParams v :: rest).foldl (step hc ar) (.normal m))
      = .error (.incorrectParameterCount v.length m.names.length) := by
  simp [List.foldl_cons, step, stepNormal, h, foldl_step_error, build]

/-! ### non-vacuity (names are numbers here; `10` plays the name with a comma) -/
example : run (fun (n : Nat) => n == 10) (fun (n : Nat) => n) [1]
    ([.indepVar (), .partialDeriv 1 1, .function [1] 1] : List (Call Nat Nat Unit Unit Int))
    = .error .illegalCallToPartialDeriv := by rfl

example : run (fun (n : Nat) => n == 10) (fun (n : Nat) => n) [1]
    ([.function [1] 1, .indepVar ()] : List (Call Nat Nat Unit Unit Int))
    = .error (.missingDerivative 1 [1]) := by rfl

example : (run (fun (n : Nat) => n == 10) (fun (n : Nat) => n) [1]
    ([.function [1] 1, .partialDeriv 1 1, .indepVar (), .initParams [3]] :
      List (Call Nat Nat Unit Unit Int))).toBool = true := by rfl

end Varpro.MB
