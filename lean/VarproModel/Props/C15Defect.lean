import VarproModel.Props.C15Iff
import VarproModel.Props.C15NoPanic
/-!
# C15 (part 4) — an error names a defect that is actually present in the call sequence

`defectB` (Core/ModelSpec) says, for every error value and independently of the builder's state
machine, when the defect it names occurs in the session (on the grouped call sequence).
`c15_error_names_defect`: **whatever error `build()` returns, for every finite call sequence, that
defect is present.**  Together with `c15_accepts_iff` (Ok ⇔ valid) and `c15_sticky` this is the whole
statement of C15.  The driver evaluates `defectB` on the *implementation's* error of every explored
session, so an implementation that reports a defect which is not there is a property violation with
a concrete call sequence, not only a disagreement with the model.
-/
namespace Varpro.MB
set_option linter.unusedSectionVars false
variable {N F G X K : Type} [DecidableEq N]

theorem checkNames_error (hc : N → Bool) (l : List N) (e : BErr N) (h : checkNames hc l = .error e) :
    (e = .emptyParameters ∧ l.isEmpty = true) ∨
    (∃ p, e = .commaInParameterNameNotAllowed p ∧ p ∈ l ∧ hc p = true) ∨
    (e = .duplicateParameterNames l ∧ allUnique l = false) := by
  unfold checkNames at h
  by_cases he : l.isEmpty = true
  · simp only [he, if_true] at h
    cases h; exact Or.inl ⟨rfl, he⟩
  · simp only [he, Bool.false_eq_true, if_false] at h
    cases hf : l.find? hc with
    | some p =>
      simp only [hf] at h
      cases h
      exact Or.inr (Or.inl ⟨p, rfl, List.mem_of_find?_eq_some hf, List.find?_some hf⟩)
    | none =>
      simp only [hf] at h
      by_cases hu : allUnique l = true
      · simp [hu] at h
      · simp only [hu, Bool.false_eq_true, if_false] at h
        cases h
        exact Or.inr (Or.inr ⟨rfl, by simpa using hu⟩)

/-- what is known about a function builder after `function(fps, f)` and the derivative calls of the
item `g` -/
structure FInv (hc : N → Bool) (ar : F → Nat) (names : List N) (g : FnItem N F) (b : FnB N F G) : Prop where
  mps : b.mps = names
  fps : b.fps = g.fps
  err : ∀ e, b.res = .error e → fnDefectPre hc ar names g e = true
  okn : ∀ mf, b.res = .ok mf → checkNames hc g.fps = .ok () ∧ ∃ im, indexMapping names g.fps = .ok im
  ok1 : ∀ mf, b.res = .ok mf → ∀ k, mapContains mf.derivatives k = true →
          ∃ pd ∈ g.derivs, position names pd.1 = some k
  ok2 : ∀ mf, b.res = .ok mf → ∀ pd ∈ g.derivs, ∃ k, position names pd.1 = some k ∧
          mapContains mf.derivatives k = true

theorem fnDefectPre_mono (hc : N → Bool) (ar : F → Nat) (names : List N) (g : FnItem N F) (x : N × F)
    (e : BErr N) (h : fnDefectPre hc ar names g e = true) :
    fnDefectPre hc ar names { g with derivs := g.derivs ++ [x] } e = true := by
  cases e <;> simp only [fnDefectPre, Bool.and_eq_true, Bool.or_eq_true, decide_eq_true_eq,
    List.any_append, List.filter_append, List.length_append] at h ⊢ <;> try exact h
  · exact ⟨⟨h.1.1, Or.inl h.1.2⟩, h.2⟩
  · omega
  · refine ⟨h.1, ?_⟩
    rcases h.2 with h2 | h2
    · exact Or.inl h2
    · exact Or.inr (Or.inl h2)

theorem finv_error (hc : N → Bool) (ar : F → Nat) (names : List N) (g : FnItem N F) (b' : FnB N F G)
    (hm : b'.mps = names) (hf : b'.fps = g.fps) (e0 : BErr N) (hr : b'.res = .error e0)
    (hd : fnDefectPre hc ar names g e0 = true) : FInv hc ar names g b' :=
  ⟨hm, hf, (fun e he => by rw [hr] at he; cases he; exact hd), (fun mf h => by rw [hr] at h; cases h),
    (fun mf h => by rw [hr] at h; cases h), (fun mf h => by rw [hr] at h; cases h)⟩

theorem new_finv (hc : N → Bool) (ar : F → Nat) (names fps : List N) (f : F)
    (hn : checkNames hc names = .ok ()) :
    FInv hc ar names { fps := fps, f := f } (FnB.new hc ar names fps f : FnB N F G) := by
  unfold FnB.new
  cases hf : checkNames hc fps with
  | error e =>
    refine finv_error hc ar names _ _ rfl rfl e rfl ?_
    rcases checkNames_error hc fps e hf with ⟨rfl, h⟩ | ⟨p, rfl, hp, hcp⟩ | ⟨rfl, h⟩
    · simpa [fnDefectPre] using h
    · simp [fnDefectPre, hcp, hp]
    · simp [fnDefectPre, h]
  | ok u =>
    unfold wrap
    simp only [hn, hf]
    by_cases hl : fps.length ≠ ar f
    · rw [if_pos hl]
      refine finv_error hc ar names _ _ rfl rfl _ rfl ?_
      simp [fnDefectPre, hl]
    · rw [if_neg hl]
      cases him : indexMapping names fps with
      | error e =>
        refine finv_error hc ar names _ _ rfl rfl e rfl ?_
        obtain ⟨v, hv, hvn, rfl⟩ := indexMapping_error him
        simp [fnDefectPre, hv, hvn]
      | ok im =>
        refine ⟨rfl, rfl, (fun e h => by cases h), (fun mf _ => ⟨hf, im, him⟩), ?_, ?_⟩
        · intro mf h k hk; cases h; simp [mapContains] at hk
        · intro mf h pd hpd; simp at hpd

theorem mapContains_append {V : Type} (m : List (Nat × V)) (k : Nat) (v : V) (k' : Nat) :
    mapContains (m ++ [(k, v)]) k' = (mapContains m k' || k == k') := by
  simp [mapContains, List.any_append]

theorem partialDeriv_finv (hc : N → Bool) (ar : F → Nat) (names : List N) (g : FnItem N F) (b : FnB N F G)
    (hn : checkNames hc names = .ok ()) (h : FInv hc ar names g b) (p : N) (d : F) :
    FInv hc ar names { g with derivs := g.derivs ++ [(p, d)] } (b.partialDeriv hc ar p d) := by
  unfold FnB.partialDeriv
  have hdi : derivIndex b.mps b.fps p = if p ∈ g.fps then position names p else none := by
    rw [h.mps, h.fps, derivIndex_eq]
  rw [hdi]
  by_cases hpf : p ∈ g.fps
  · simp only [hpf, if_true]
    cases hpos : position names p with
    | none =>
      simp only
      refine finv_error hc ar names _ _ h.mps h.fps _ rfl ?_
      have hpn : p ∉ names := position_none hpos
      simp [fnDefectPre, h.fps, hpn]
    | some idx =>
      simp only
      cases hres : b.res with
      | error e0 =>
        simp only
        exact finv_error hc ar names _ _ h.mps h.fps e0 hres
          (fnDefectPre_mono hc ar names g (p, d) e0 (h.err e0 hres))
      | ok mf =>
        simp only
        obtain ⟨hfn, im, him⟩ := h.okn mf hres
        have hw : wrap hc ar b.mps b.fps d =
            if g.fps.length ≠ ar d then .error (.incorrectParameterCount g.fps.length (ar d)) else .ok ⟨d, im⟩ := by
          rw [h.mps, h.fps]; exact wrap_eq hc ar names g.fps d im hn hfn him
        rw [hw]
        by_cases hl : g.fps.length ≠ ar d
        · rw [if_pos hl]
          refine finv_error hc ar names _ _ h.mps h.fps _ rfl ?_
          simp [fnDefectPre, hl]
        · rw [if_neg hl]
          unfold mapInsert
          by_cases hpres : (mf.derivatives.any fun kv => kv.1 == idx) = true
          · simp only [hpres, if_true]
            refine finv_error hc ar names _ _ h.mps h.fps _ rfl ?_
            obtain ⟨pd, hpd, hk⟩ := h.ok1 mf hres idx hpres
            obtain ⟨_, e1, _⟩ := position_some hk
            obtain ⟨_, e2, _⟩ := position_some hpos
            have hpp : pd.1 = p := by rw [← e1, ← e2]
            simp only [fnDefectPre, decide_eq_true_eq, List.filter_append, List.length_append]
            have : 1 ≤ (g.derivs.filter fun pd => decide (pd.1 = p)).length := by
              apply List.length_pos_of_mem (a := pd)
              simp [List.mem_filter, hpd, hpp]
            simp
            omega
          · simp only [hpres, Bool.false_eq_true, if_false]
            refine ⟨h.mps, h.fps, (fun e he => by cases he), (fun mf' _ => ⟨hfn, im, him⟩), ?_, ?_⟩
            · intro mf' hm k hk
              cases hm
              simp only at hk
              rw [mapContains_append] at hk
              simp only [Bool.or_eq_true, beq_iff_eq] at hk
              rcases hk with hk | hk
              · obtain ⟨pd, hpd, hp'⟩ := h.ok1 mf hres k hk
                exact ⟨pd, by simp [hpd], hp'⟩
              · exact ⟨(p, d), by simp, by rw [← hk]; exact hpos⟩
            · intro mf' hm pd hpd
              cases hm
              simp only [List.mem_append, List.mem_singleton] at hpd
              rcases hpd with hpd | rfl
              · obtain ⟨k, hk1, hk2⟩ := h.ok2 mf hres pd hpd
                exact ⟨k, hk1, by simp only; rw [mapContains_append, hk2]; rfl⟩
              · exact ⟨idx, hpos, by simp only; rw [mapContains_append]; simp⟩
  · simp only [hpf, if_false]
    refine finv_error hc ar names _ _ h.mps h.fps _ rfl ?_
    simp [fnDefectPre, h.fps, hpf]

theorem fbOf_finv (hc : N → Bool) (ar : F → Nat) (names : List N) (g : FnItem N F)
    (hn : checkNames hc names = .ok ()) : FInv hc ar names g (fbOf hc ar names g : FnB N F G) := by
  obtain ⟨fps, f, ds⟩ := g
  unfold fbOf
  have key : ∀ (rest ds0 : List (N × F)) (b : FnB N F G), FInv hc ar names ⟨fps, f, ds0⟩ b →
      FInv hc ar names ⟨fps, f, ds0 ++ rest⟩ (rest.foldl (fun b pd => b.partialDeriv hc ar pd.1 pd.2) b) := by
    intro rest
    induction rest with
    | nil => intro ds0 b h; simpa using h
    | cons pd rest ih =>
      intro ds0 b h
      have := ih (ds0 ++ [pd]) _ (partialDeriv_finv hc ar names ⟨fps, f, ds0⟩ b hn h pd.1 pd.2)
      simpa [List.foldl_cons, List.append_assoc] using this
  have := key ds [] _ (new_finv hc ar names fps f hn)
  simpa using this

theorem mem_zip_indexMapping {names fps : List N} {im : List Nat} (h : indexMapping names fps = .ok im)
    {i : Nat} {n : N} (hm : (i, n) ∈ im.zip fps) : position names n = some i := by
  induction fps generalizing im with
  | nil => simp [indexMapping] at h; subst h; simp at hm
  | cons v vs ih =>
    simp only [indexMapping] at h
    cases hp : position names v with
    | none => simp [hp] at h
    | some j =>
      simp only [hp] at h
      cases hr : indexMapping names vs with
      | error e => simp [hr] at h
      | ok is =>
        simp only [hr] at h
        cases h
        simp only [List.zip_cons_cons, List.mem_cons, Prod.mk.injEq] at hm
        rcases hm with ⟨rfl, rfl⟩ | hm
        · exact hp
        · exact ih hr hm

theorem build_defect (hc : N → Bool) (ar : F → Nat) (names : List N) (g : FnItem N F) (b : FnB N F G)
    (hn : checkNames hc names = .ok ()) (h : FInv hc ar names g b) (e : BErr N)
    (he : b.build hc = .error e) : e = .logicPanic ∨ fnDefectB hc ar names g e = true := by
  unfold FnB.build FnB.checkCompletion at he
  cases hres : b.res with
  | error e0 =>
    simp only [hres] at he
    cases he
    right
    simp [fnDefectB, h.err e hres]
  | ok mf =>
    obtain ⟨hfn, im, him⟩ := h.okn mf hres
    simp only [hres, h.mps, h.fps, hn, hfn, him] at he
    cases hfind : (im.zip g.fps).find? (fun ip => !mapContains mf.derivatives ip.1) with
    | some ip =>
      simp only [hfind] at he
      cases he
      right
      have hmem := List.mem_of_find?_eq_some hfind
      have hnot : mapContains mf.derivatives ip.1 = false := by simpa using List.find?_some hfind
      have hpos := mem_zip_indexMapping him (i := ip.1) (n := ip.2) hmem
      have hin : ip.2 ∈ g.fps := (List.of_mem_zip hmem).2
      have hnone : ∀ pd ∈ g.derivs, pd.1 ≠ ip.2 := by
        intro pd hpd heq
        obtain ⟨k, hk1, hk2⟩ := h.ok2 mf hres pd hpd
        rw [heq, hpos] at hk1
        cases hk1
        rw [hnot] at hk2; cases hk2
      simp only [fnDefectB, Bool.or_eq_true, Bool.and_eq_true, decide_eq_true_eq, List.contains_iff_mem,
        Bool.not_eq_true', List.any_eq_false]
      right
      exact ⟨⟨trivial, hin⟩, fun pd hpd => by simpa using hnone pd hpd⟩
    | none =>
      simp only [hfind] at he
      by_cases hl : im.length ≠ mf.derivatives.length
      · rw [if_pos hl] at he
        cases he; exact Or.inl rfl
      · rw [if_neg hl] at he
        cases he

theorem stepItem_names (hc : N → Bool) (ar : F → Nat) (m m' : Unfinished N F G X K) (it : Item N F G X K)
    (h : stepItem hc ar (.ok m) it = .ok m') : m'.names = m.names := by
  cases it with
  | fn g =>
    simp only [stepItem, extend] at h
    cases hb : (fbOf hc ar m.names g : FnB N F G).build hc with
    | error e => simp [hb] at h
    | ok f => simp only [hb] at h; cases h; rfl
  | inv g => simp only [stepItem] at h; cases h; rfl
  | x x => simp only [stepItem] at h; cases h; rfl
  | init v =>
    simp only [stepItem] at h
    split at h
    · cases h
    · cases h; rfl
  | stray p => simp [stepItem] at h

theorem stepItem_defect (hc : N → Bool) (ar : F → Nat) (m : Unfinished N F G X K) (it : Item N F G X K)
    (hn : checkNames hc m.names = .ok ()) (e : BErr N) (h : stepItem hc ar (.ok m) it = .error e) :
    e = .logicPanic ∨ itemDefectB hc ar m.names e it = true := by
  cases it with
  | fn g =>
    simp only [stepItem, extend] at h
    cases hb : (fbOf hc ar m.names g : FnB N F G).build hc with
    | error e0 =>
      simp only [hb] at h
      cases h
      exact build_defect hc ar m.names g _ hn (fbOf_finv hc ar m.names g hn) e hb
    | ok f => simp [hb] at h
  | inv g => simp [stepItem] at h
  | x x => simp [stepItem] at h
  | init v =>
    simp only [stepItem] at h
    split at h
    · cases h
      right
      rename_i hne
      simp only [itemDefectB, Bool.and_eq_true, decide_eq_true_eq]
      exact ⟨trivial, fun h' => hne h'.symm⟩
    · cases h
  | stray p =>
    simp only [stepItem] at h
    cases h
    right; simp [itemDefectB]

theorem foldl_defect (hc : N → Bool) (ar : F → Nat) (items : List (Item N F G X K)) (e : BErr N) :
    ∀ m : Unfinished N F G X K, checkNames hc m.names = .ok () →
      items.foldl (stepItem hc ar) (.ok m) = .error e →
      e = .logicPanic ∨ ∃ it ∈ items, itemDefectB hc ar m.names e it = true := by
  induction items with
  | nil => intro m _ h; simp at h
  | cons it rest ih =>
    intro m hn h
    simp only [List.foldl_cons] at h
    cases hs : stepItem hc ar (.ok m) it with
    | error e0 =>
      rw [hs, foldl_stepItem_error] at h
      cases h
      rcases stepItem_defect hc ar m it hn e hs with h1 | h1
      · exact Or.inl h1
      · exact Or.inr ⟨it, by simp, h1⟩
    | ok m' =>
      rw [hs] at h
      have hnm := stepItem_names hc ar m m' it hs
      rcases ih m' (by rw [hnm]; exact hn) h with h1 | ⟨it', hit', hd⟩
      · exact Or.inl h1
      · exact Or.inr ⟨it', List.mem_cons_of_mem _ hit', by rw [← hnm]; exact hd⟩

theorem firstUnused_some (fns : List (MBF F G)) (l : List N) (i : Nat) (n : N)
    (h : firstUnused fns l i = some n) :
    ∃ j, ∃ hj : j < l.length, l[j] = n ∧ usedIndex fns (i + j) = false := by
  induction l generalizing i with
  | nil => simp [firstUnused] at h
  | cons a as ih =>
    simp only [firstUnused] at h
    by_cases hu : usedIndex fns i = true
    · simp only [hu, if_true] at h
      obtain ⟨j, hj, e1, e2⟩ := ih (i + 1) h
      exact ⟨j + 1, by simpa using hj, by simpa using e1, by rw [show i + (j + 1) = i + 1 + j by omega]; exact e2⟩
    · simp only [hu, Bool.false_eq_true, if_false] at h
      cases h
      exact ⟨0, by simp, rfl, by simpa using hu⟩

/-- **c15_error_names_defect**: for every finite sequence of builder calls, if `build()` returns
the error `e`, the defect named by `e` is present in the call sequence. -/
theorem c15_error_names_defect (hc : N → Bool) (ar : F → Nat) (names : List N)
    (calls : List (Call N F G X K)) (e : BErr N) (h : run hc ar names calls = .error e) :
    defectB hc ar names calls e = true := by
  have hnp : e ≠ .logicPanic := fun he => c15_no_panic hc ar names calls (he ▸ h)
  rw [run_eq_items] at h
  unfold defectB
  simp only [Bool.or_eq_true]
  cases hn : checkNames hc names with
  | error e0 =>
    simp only [hn] at h
    cases h
    right
    rcases checkNames_error hc names e hn with ⟨rfl, h1⟩ | ⟨p, rfl, hp, hcp⟩ | ⟨rfl, h1⟩
    · exact h1
    · simp [hcp, hp]
    · simp [h1]
  | ok u =>
    simp only [hn] at h
    generalize group (none : Option (FnItem N F)) calls = items at h ⊢
    have hnd : names.Nodup := by
      have := (checkNames_ok_iff hc names).mp hn
      simp only [namesOk, Bool.and_eq_true] at this
      exact (allUnique_iff_nodup names).mp this.2
    cases hf : items.foldl (stepItem hc ar) (.ok { names := names }) with
    | error e0 =>
      rw [hf] at h
      simp only [finishE] at h
      cases h
      rcases foldl_defect hc ar items e { names := names } hn hf with h1 | ⟨it, hit, hd⟩
      · exact absurd h1 hnp
      · left; exact List.any_eq_true.mpr ⟨it, hit, hd⟩
    | ok m =>
      have hv : ∀ it ∈ items, ItemValid hc ar names it := by
        by_cases hv : ∀ it ∈ items, ItemValid hc ar names it
        · exact hv
        · obtain ⟨e1, he1⟩ := (foldl_items hc ar items { names := names } hn).2 hv
          rw [he1] at hf; cases hf
      have hclosed := (foldl_items hc ar items { names := names } hn).1 hv
      rw [hclosed] at hf
      cases hf
      rw [hclosed] at h
      simp only [finishE, finish, List.nil_append] at h
      right
      by_cases hfe : (items.filterMap (itemFn names)).isEmpty = true
      · simp only [hfe, if_true] at h
        cases h
        simp only [Bool.not_eq_true', List.any_eq_false]
        intro it hit hfl
        have hs := itemFn_isSome_of_valid hc ar names it (hv it hit)
        rw [hfl] at hs
        obtain ⟨mbf, hm⟩ := Option.isSome_iff_exists.mp hs
        have : mbf ∈ items.filterMap (itemFn names) := List.mem_filterMap.mpr ⟨it, hit, hm⟩
        rw [List.isEmpty_iff.mp hfe] at this; cases this
      · simp only [hfe, Bool.false_eq_true, if_false] at h
        by_cases hne : names.isEmpty = true
        · simp only [hne, if_true] at h
          cases h; exact hne
        · simp only [hne, Bool.false_eq_true, if_false] at h
          cases hfu : firstUnused (items.filterMap (itemFn names)) names 0 with
          | some n =>
            simp only [hfu] at h
            cases h
            obtain ⟨j, hj, e1, e2⟩ := firstUnused_some _ _ _ _ hfu
            simp only [Nat.zero_add] at e2
            have hiff := usedIndex_iff hc ar names items hv hnd j hj
            simp only [Bool.and_eq_true, List.contains_iff_mem, Bool.not_eq_true', List.any_eq_false]
            refine ⟨by rw [← e1]; exact List.getElem_mem hj, ?_⟩
            intro it hit hu
            rw [← e1] at hu
            have := hiff.mpr ⟨it, hit, hu⟩
            rw [e2] at this; cases this
          | none =>
            simp only [hfu] at h
            cases hx : lastX items with
            | none =>
              have : (lastX items <|> (none : Option X)) = none := by simp [hx]
              simp only [this] at h
              cases h
              simp only [Bool.not_eq_true']
              cases ha : items.any Item.isX with
              | false => rfl
              | true =>
                obtain ⟨x, hx'⟩ := (lastX_isSome_iff items).mpr ha
                rw [hx] at hx'; cases hx'
            | some x =>
              have : (lastX items <|> (none : Option X)) = some x := by simp [hx]
              simp only [this] at h
              cases hi : lastInit items with
              | none =>
                have : (lastInit items <|> (none : Option (List K))) = none := by simp [hi]
                simp only [this] at h
                cases h
                simp only [Bool.not_eq_true']
                cases ha : items.any Item.isInit with
                | false => rfl
                | true =>
                  obtain ⟨v, hv'⟩ := (lastInit_isSome_iff items).mpr ha
                  rw [hi] at hv'; cases hv'
              | some v =>
                have : (lastInit items <|> (none : Option (List K))) = some v := by simp [hi]
                simp only [this] at h
                cases h

/-! ### non-vacuity and sharpness (names are numbers; `10` is the name with a comma) -/

-- a surplus derivative after a complete function is a *duplicate*, not a stray call
example : run (fun (n : Nat) => n == 10) (fun (n : Nat) => n) [1]
    ([.function [1] 1, .partialDeriv 1 1, .partialDeriv 1 1, .indepVar (), .initParams [3]] :
      List (Call Nat Nat Unit Unit Int)) = .error (.duplicateDerivative 1) := by rfl

-- … and `IllegalCallToPartialDeriv` would *not* be a defect of that session
example : defectB (fun (n : Nat) => n == 10) (fun (n : Nat) => n) [1]
    ([.function [1] 1, .partialDeriv 1 1, .partialDeriv 1 1, .indepVar (), .initParams [3]] :
      List (Call Nat Nat Unit Unit Int)) .illegalCallToPartialDeriv = false := by rfl

example : defectB (fun (n : Nat) => n == 10) (fun (n : Nat) => n) [1]
    ([.function [1] 1, .partialDeriv 1 1, .partialDeriv 1 1, .indepVar (), .initParams [3]] :
      List (Call Nat Nat Unit Unit Int)) (.duplicateDerivative 1) = true := by rfl

end Varpro.MB
