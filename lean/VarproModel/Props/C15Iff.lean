import VarproModel.Proofs.BuilderItems
/-!
# C15 (part 2) — the model builder accepts **exactly** the valid specifications

`Valid` is the specification, written on the grouped call sequence (`group`: a `function` call with
the maximal run of directly following `partial_deriv` calls is one item) as a conjunction of
first-order conditions – independent of the builder's state machine.  `c15_accepts_iff` is the
language equality for all finite call sequences; `c15_validB_iff` shows that the executable monitor
`validB` evaluated by the driver on every session is this very specification.
-/
namespace Varpro.MB
set_option linter.unusedSectionVars false
variable {N F G X K : Type} [DecidableEq N]

/-- the specification of a valid builder session -/
def Valid (hc : N → Bool) (ar : F → Nat) (names : List N) (calls : List (Call N F G X K)) : Prop :=
  checkNames hc names = .ok () ∧
  (∀ it ∈ group (none : Option (FnItem N F)) calls, ItemValid hc ar names it) ∧
  (∃ it ∈ group (none : Option (FnItem N F)) calls, Item.isFnLike it = true) ∧
  (∀ n ∈ names, ∃ it ∈ group (none : Option (FnItem N F)) calls, Item.uses n it = true) ∧
  (∃ x, lastX (group (none : Option (FnItem N F)) calls) = some x) ∧
  (∃ v, lastInit (group (none : Option (FnItem N F)) calls) = some v)

theorem itemFn_isSome_of_valid (hc : N → Bool) (ar : F → Nat) (names : List N) (it : Item N F G X K)
    (hv : ItemValid hc ar names it) : (itemFn names it).isSome = Item.isFnLike it := by
  cases it with
  | fn g => obtain ⟨im, hok, _⟩ := hv; simp [itemFn, hok.him, Item.isFnLike]
  | inv g => rfl
  | x x => rfl
  | init v => rfl
  | stray p => exact absurd hv (by simp [ItemValid])

theorem firstUnused_none_iff (fns : List (MBF F G)) (l : List N) (i : Nat) :
    firstUnused fns l i = none ↔ ∀ j, j < l.length → usedIndex fns (i + j) = true := by
  induction l generalizing i with
  | nil => simp [firstUnused]
  | cons a as ih =>
    simp only [firstUnused]
    by_cases hu : usedIndex fns i = true
    · simp only [hu, if_true]
      rw [ih]
      constructor
      · intro h j hj
        cases j with
        | zero => simpa using hu
        | succ k =>
          have := h k (by simpa using hj)
          rwa [show i + 1 + k = i + (k + 1) by omega] at this
      · intro h j hj
        have := h (j + 1) (by simp; omega)
        rwa [show i + (j + 1) = i + 1 + j by omega] at this
    · simp only [hu, Bool.false_eq_true, if_false]
      constructor
      · intro h; cases h
      · intro h
        exact absurd (by simpa using h 0 (by simp)) hu

/-- for valid items: some function carries a derivative for slot `i` iff some function item
declares the parameter `names[i]` -/
theorem usedIndex_iff (hc : N → Bool) (ar : F → Nat) (names : List N) (items : List (Item N F G X K))
    (hv : ∀ it ∈ items, ItemValid hc ar names it) (hnd : names.Nodup) (i : Nat) (hi : i < names.length) :
    usedIndex (items.filterMap (itemFn names)) i = true ↔ ∃ it ∈ items, Item.uses names[i] it = true := by
  unfold usedIndex
  rw [List.any_eq_true]
  constructor
  · rintro ⟨mbf, hmem, hc'⟩
    obtain ⟨it, hit, hfn⟩ := List.mem_filterMap.mp hmem
    refine ⟨it, hit, ?_⟩
    cases it with
    | fn g =>
      obtain ⟨im, hok, hd, _⟩ := hv _ hit
      simp only [itemFn, hok.him] at hfn
      cases hfn
      obtain ⟨pd, hpd, hk⟩ := (mapContains_derivMap i).mp hc'
      have hpf : pd.1 ∈ g.fps := (hd.1 pd hpd).1
      have hpn : pd.1 ∈ names := mem_of_indexMapping hok.him hpf
      have hpos := position_some (keyOf_spec hpn)
      obtain ⟨_, he, _⟩ := hpos
      have : names[i] = pd.1 := by rw [← he]; simp [hk]
      simp [Item.uses, this, hpf]
    | inv g => simp only [itemFn] at hfn; cases hfn; simp [mapContains] at hc'
    | x x => simp [itemFn] at hfn
    | init v => simp [itemFn] at hfn
    | stray p => simp [itemFn] at hfn
  · rintro ⟨it, hit, hu⟩
    cases it with
    | fn g =>
      obtain ⟨im, hok, hd, hcov⟩ := hv _ hit
      have hmem : names[i] ∈ g.fps := by simpa [Item.uses] using hu
      obtain ⟨pd, hpd, he⟩ := hcov _ hmem
      refine ⟨itemMBF names g im, List.mem_filterMap.mpr ⟨_, hit, by simp [itemFn, hok.him]⟩, ?_⟩
      apply (mapContains_derivMap i).mpr
      refine ⟨pd, hpd, ?_⟩
      rw [he]
      have := position_getElem hnd i hi
      simp [keyOf, this]
    | inv g => simp [Item.uses] at hu
    | x x => simp [Item.uses] at hu
    | init v => simp [Item.uses] at hu
    | stray p => simp [Item.uses] at hu

/-- **c15_accepts_iff**: for every finite sequence of builder calls, `build()` returns a model if
and only if the specification is valid. -/
theorem c15_accepts_iff (hc : N → Bool) (ar : F → Nat) (names : List N) (calls : List (Call N F G X K)) :
    (∃ m, run hc ar names calls = .ok m) ↔ Valid hc ar names calls := by
  rw [run_eq_items]
  unfold Valid
  cases hn : checkNames hc names with
  | error e => simp
  | ok u =>
    simp only [true_and]
    have hnd : names.Nodup := by
      have := (checkNames_ok_iff hc names).mp hn
      simp only [namesOk, Bool.and_eq_true] at this
      exact (allUnique_iff_nodup names).mp this.2
    have hne : names.isEmpty = false := by
      have := (checkNames_ok_iff hc names).mp hn
      simp only [namesOk, Bool.and_eq_true, Bool.not_eq_true'] at this
      exact this.1.1
    generalize group (none : Option (FnItem N F)) calls = items
    obtain ⟨hok, hbad⟩ := foldl_items hc ar items { names := names } hn
    by_cases hv : ∀ it ∈ items, ItemValid hc ar names it
    · rw [hok hv]
      simp only [finishE, finish, List.nil_append, hne, Bool.false_eq_true, if_false]
      have hfl : (items.filterMap (itemFn names)).isEmpty = false ↔ ∃ it ∈ items, Item.isFnLike it = true := by
        rw [Bool.eq_false_iff, ne_eq, List.isEmpty_iff]
        constructor
        · intro hne'
          cases hfm : items.filterMap (itemFn names) with
          | nil => exact absurd hfm hne'
          | cons mbf rest =>
            have : mbf ∈ items.filterMap (itemFn names) := by rw [hfm]; simp
            obtain ⟨it, hit, hfn⟩ := List.mem_filterMap.mp this
            refine ⟨it, hit, ?_⟩
            rw [← itemFn_isSome_of_valid hc ar names it (hv it hit), hfn]; rfl
        · rintro ⟨it, hit, hf⟩ hnil
          have hs := itemFn_isSome_of_valid hc ar names it (hv it hit)
          rw [hf] at hs
          obtain ⟨mbf, hm⟩ := Option.isSome_iff_exists.mp hs
          have : mbf ∈ items.filterMap (itemFn names) := List.mem_filterMap.mpr ⟨it, hit, hm⟩
          rw [hnil] at this; cases this
      have hused : firstUnused (items.filterMap (itemFn names)) names 0 = none ↔
          ∀ n ∈ names, ∃ it ∈ items, Item.uses n it = true := by
        rw [firstUnused_none_iff]
        constructor
        · intro h n hn'
          obtain ⟨i, hi, rfl⟩ := List.getElem_of_mem hn'
          have := h i hi
          simp only [Nat.zero_add] at this
          exact (usedIndex_iff hc ar names items hv hnd i hi).mp this
        · intro h j hj
          simp only [Nat.zero_add]
          exact (usedIndex_iff hc ar names items hv hnd j hj).mpr (h names[j] (List.getElem_mem hj))
      by_cases hf : (items.filterMap (itemFn names)).isEmpty = true
      · have hnf : ¬ ∃ it ∈ items, Item.isFnLike it = true := by
          intro h; rw [hfl.mpr h] at hf; cases hf
        simp [hf, hnf]
      · have hf' : (items.filterMap (itemFn names)).isEmpty = false := by simpa using hf
        simp only [hf', Bool.false_eq_true, if_false]
        cases hfu : firstUnused (items.filterMap (itemFn names)) names 0 with
        | some n =>
          have : ¬ ∀ n ∈ names, ∃ it ∈ items, Item.uses n it = true := fun h => by
            rw [hused.mpr h] at hfu; cases hfu
          simp [this]
        | none =>
          have hu := hused.mp hfu
          cases hx : lastX items with
          | none => simp
          | some x =>
            cases hi : lastInit items with
            | none => simp
            | some v =>
              constructor
              · intro _; exact ⟨hv, hfl.mp hf', hu, ⟨x, rfl⟩, ⟨v, rfl⟩⟩
              · intro _; exact ⟨{ names := names, fns := List.filterMap (itemFn names) items, x := x, params := v }, by simp⟩
    · obtain ⟨e, he⟩ := hbad hv
      rw [he]
      simp [finishE, hv]

/-! ## the executable specification `validB` is `Valid` -/

theorem filter_length_eq_count (ds : List (N × F)) (n : N) :
    (ds.filter (fun pd => pd.1 = n)).length = (ds.map (·.1)).count n := by
  induction ds with
  | nil => rfl
  | cons a as ih =>
    by_cases h : a.1 = n
    · simp [List.filter_cons, h, ih]
    · have h' : ¬ (a.1 == n) = true := by simpa using h
      simp [List.filter_cons, h, ih, List.count_cons, h']

theorem derivs_cover_iff (fps : List N) (ds : List (N × F)) (hsub : ∀ pd ∈ ds, pd.1 ∈ fps) :
    (∀ n ∈ fps, (ds.filter (fun pd => pd.1 = n)).length = 1) ↔
      (ds.map (·.1)).Nodup ∧ ∀ n ∈ fps, ∃ pd ∈ ds, pd.1 = n := by
  simp only [filter_length_eq_count]
  constructor
  · intro h
    refine ⟨List.nodup_iff_count.mpr fun a => ?_, fun n hn => ?_⟩
    · by_cases ha : a ∈ fps
      · exact Nat.le_of_eq (h a ha)
      · have : a ∉ ds.map (·.1) := by
          intro hm
          obtain ⟨pd, hpd, he⟩ := List.mem_map.mp hm
          exact ha (he ▸ hsub pd hpd)
        rw [List.count_eq_zero_of_not_mem this]; omega
    · have : 0 < (ds.map (·.1)).count n := by rw [h n hn]; omega
      obtain ⟨pd, hpd, he⟩ := List.mem_map.mp (List.count_pos_iff.mp this)
      exact ⟨pd, hpd, he⟩
  · rintro ⟨hnd, hcov⟩ n hn
    obtain ⟨pd, hpd, he⟩ := hcov n hn
    have hm : n ∈ ds.map (·.1) := List.mem_map.mpr ⟨pd, hpd, he⟩
    have h1 := List.nodup_iff_count.mp hnd n
    have h2 := List.count_pos_iff.mpr hm
    omega

theorem fnItemOk_iff (hc : N → Bool) (ar : F → Nat) (names : List N) (g : FnItem N F)
    (hn : checkNames hc names = .ok ()) :
    fnItemOk hc ar names g = true ↔ ∃ im, FnItemValid hc ar names g im := by
  unfold fnItemOk FnItemValid DerivsOK
  simp only [Bool.and_eq_true, List.all_eq_true, beq_iff_eq, List.contains_iff_mem, decide_eq_true_eq]
  rw [← checkNames_ok_iff]
  constructor
  · rintro ⟨⟨⟨⟨hf, har⟩, hmem⟩, hd⟩, hcnt⟩
    obtain ⟨im, him⟩ := indexMapping_total hmem
    have hsub : ∀ pd ∈ g.derivs, pd.1 ∈ g.fps := fun pd hpd => (hd pd hpd).1
    obtain ⟨hnd, hcov⟩ := (derivs_cover_iff g.fps g.derivs hsub).mp hcnt
    exact ⟨im, ⟨hn, hf, him, har⟩, ⟨fun pd hpd => ⟨(hd pd hpd).1, (hd pd hpd).2⟩, hnd⟩, hcov⟩
  · rintro ⟨im, hok, ⟨hd, hnd⟩, hcov⟩
    have hsub : ∀ pd ∈ g.derivs, pd.1 ∈ g.fps := fun pd hpd => (hd pd hpd).1
    exact ⟨⟨⟨⟨hok.hfps, hok.harity⟩, fun n hn' => mem_of_indexMapping hok.him hn'⟩,
      fun pd hpd => ⟨(hd pd hpd).1, (hd pd hpd).2⟩⟩,
      (derivs_cover_iff g.fps g.derivs hsub).mpr ⟨hnd, hcov⟩⟩

theorem lastX_isSome_iff (items : List (Item N F G X K)) :
    (∃ x, lastX items = some x) ↔
      items.any Item.isX = true := by
  induction items with
  | nil => simp [lastX]
  | cons it rest ih =>
    simp only [lastX, List.any_cons, Bool.or_eq_true]
    cases hr : lastX rest with
    | some x =>
      have := ih.mp ⟨x, hr⟩
      simp [this]
    | none =>
      have hn : ¬ (rest.any Item.isX = true) := by
        intro h; obtain ⟨x, hx⟩ := ih.mpr h; rw [hr] at hx; cases hx
      cases it <;> simp [hn, Item.isX, Item.isInit]

theorem lastInit_isSome_iff (items : List (Item N F G X K)) :
    (∃ v, lastInit items = some v) ↔
      items.any Item.isInit = true := by
  induction items with
  | nil => simp [lastInit]
  | cons it rest ih =>
    simp only [lastInit, List.any_cons, Bool.or_eq_true]
    cases hr : lastInit rest with
    | some x =>
      have := ih.mp ⟨x, hr⟩
      simp [this]
    | none =>
      have hn : ¬ (rest.any Item.isInit = true) := by
        intro h; obtain ⟨x, hx⟩ := ih.mpr h; rw [hr] at hx; cases hx
      cases it <;> simp [hn, Item.isX, Item.isInit]

/-- **c15_validB_iff**: the Boolean the driver evaluates on every recorded builder session is the
specification `Valid` of `c15_accepts_iff`. -/
theorem c15_validB_iff (hc : N → Bool) (ar : F → Nat) (names : List N) (calls : List (Call N F G X K)) :
    validB hc ar names calls = true ↔ Valid hc ar names calls := by
  unfold validB Valid
  simp only [Bool.and_eq_true]
  rw [← lastX_isSome_iff, ← lastInit_isSome_iff, ← checkNames_ok_iff]
  generalize group (none : Option (FnItem N F)) calls = items
  by_cases hn : checkNames hc names = .ok ()
  · have hitems : (items.all (itemOkB hc ar names) = true) ↔ ∀ it ∈ items, ItemValid hc ar names it := by
      rw [List.all_eq_true]
      refine forall_congr' fun it => imp_congr_right fun _ => ?_
      cases it with
      | fn g => simpa [ItemValid, itemOkB] using fnItemOk_iff hc ar names g hn
      | inv g => simp [ItemValid, itemOkB]
      | x x => simp [ItemValid, itemOkB]
      | init v => simp [ItemValid, itemOkB]
      | stray p => simp [ItemValid, itemOkB]
    rw [hitems]
    simp only [List.any_eq_true, List.all_eq_true]
    constructor
    · rintro ⟨⟨⟨⟨⟨a, b⟩, c⟩, d⟩, e⟩, f⟩; exact ⟨a, b, c, d, e, f⟩
    · rintro ⟨a, b, c, d, e, f⟩; exact ⟨⟨⟨⟨⟨a, b⟩, c⟩, d⟩, e⟩, f⟩
  · simp [hn]

/-- **c15_accepts_iff_validB**: `build()` returns a model exactly when the executable specification
says the session is valid. -/
theorem c15_accepts_iff_validB (hc : N → Bool) (ar : F → Nat) (names : List N) (calls : List (Call N F G X K)) :
    (∃ m, run hc ar names calls = .ok m) ↔ validB hc ar names calls = true :=
  (c15_accepts_iff hc ar names calls).trans (c15_validB_iff hc ar names calls).symm

/-! ### non-vacuity: a valid and an invalid session (names are numbers; `10` is the name with a comma) -/
example : Valid (fun (n : Nat) => n == 10) (fun (n : Nat) => n) [1, 2]
    ([.function [2, 1] 2, .partialDeriv 1 2, .partialDeriv 2 2, .invariant (), .indepVar (), .initParams [3, 4]] :
      List (Call Nat Nat Unit Unit Int)) :=
  (c15_validB_iff _ _ _ _).mp (by decide)

example : ¬ Valid (fun (n : Nat) => n == 10) (fun (n : Nat) => n) [1, 2]
    ([.function [2, 1] 2, .partialDeriv 1 2, .invariant (), .indepVar (), .initParams [3, 4]] :
      List (Call Nat Nat Unit Unit Int)) :=
  fun h => absurd ((c15_validB_iff _ _ _ _).mpr h) (by decide)

end Varpro.MB
