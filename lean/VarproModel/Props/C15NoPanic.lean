import VarproModel.Props.C15Iff
/-!
# C15 (part 3) — the `panic!("Logic error …")` branch of `check_completion` is unreachable

The model carries the panic as the outcome `BErr.logicPanic`.  For every finite call sequence the
session never ends in it: all other failures are ordinary `ModelBuildError`s.
-/
namespace Varpro.MB
set_option linter.unusedSectionVars false
variable {N F G X K : Type} [DecidableEq N]

theorem checkNames_noPanic (hc : N → Bool) (l : List N) : checkNames hc l ≠ .error .logicPanic := by
  unfold checkNames
  split
  · intro h; cases h
  · split
    · intro h; cases h
    · split <;> intro h <;> cases h

theorem indexMapping_noPanic (full sub : List N) : indexMapping full sub ≠ .error .logicPanic := by
  intro h
  obtain ⟨v, _, _, he⟩ := indexMapping_error h
  cases he

theorem wrap_noPanic (hc : N → Bool) (ar : F → Nat) (mps fps : List N) (f : F) :
    wrap hc ar mps fps f ≠ .error .logicPanic := by
  unfold wrap
  cases h1 : checkNames hc mps with
  | error e => intro h; cases h; exact checkNames_noPanic hc mps h1
  | ok u =>
    cases h2 : checkNames hc fps with
    | error e => intro h; cases h; exact checkNames_noPanic hc fps h2
    | ok u =>
      simp only
      split
      · intro h; cases h
      · cases h3 : indexMapping mps fps with
        | error e => intro h; cases h; exact indexMapping_noPanic mps fps h3
        | ok im => intro h; cases h

theorem new_noPanic (hc : N → Bool) (ar : F → Nat) (mps fps : List N) (f : F) :
    (FnB.new (G := G) hc ar mps fps f).res ≠ .error .logicPanic := by
  unfold FnB.new
  cases h1 : checkNames hc fps with
  | error e => intro h; cases h; exact checkNames_noPanic hc fps h1
  | ok u =>
    cases h2 : wrap hc ar mps fps f with
    | error e => intro h; cases h; exact wrap_noPanic hc ar mps fps f h2
    | ok w => intro h; cases h

theorem partialDeriv_noPanic (hc : N → Bool) (ar : F → Nat) (b : FnB N F G) (p : N) (d : F)
    (hb : b.res ≠ .error .logicPanic) : (b.partialDeriv hc ar p d).res ≠ .error .logicPanic := by
  unfold FnB.partialDeriv
  cases h1 : derivIndex b.mps b.fps p with
  | none => intro h; cases h
  | some idx =>
    cases h2 : b.res with
    | error e => simpa [h2] using hb
    | ok mf =>
      cases h3 : wrap hc ar b.mps b.fps d with
      | error e => intro h; cases h; exact wrap_noPanic hc ar b.mps b.fps d h3
      | ok w =>
        simp only
        split <;> intro h <;> cases h

theorem fbOf_noPanic (hc : N → Bool) (ar : F → Nat) (names : List N) (g : FnItem N F) :
    (fbOf (G := G) hc ar names g).res ≠ .error .logicPanic := by
  unfold fbOf
  generalize hb0 : FnB.new (G := G) hc ar names g.fps g.f = b0
  have h0 : b0.res ≠ .error .logicPanic := hb0 ▸ new_noPanic hc ar names g.fps g.f
  clear hb0
  induction g.derivs generalizing b0 with
  | nil => exact h0
  | cons pd rest ih => exact ih _ (partialDeriv_noPanic hc ar b0 pd.1 pd.2 h0)

/-- a function item never makes `extend` panic -/
theorem extend_noPanic (hc : N → Bool) (ar : F → Nat) (m : Unfinished N F G X K) (g : FnItem N F)
    (hn : checkNames hc m.names = .ok ()) :
    extend hc m (fbOf hc ar m.names g) ≠ .error .logicPanic := by
  by_cases hv : ∃ im, FnItemValid hc ar m.names g im
  · obtain ⟨im, hv⟩ := hv
    rw [(extend_fn hc ar m g hn).1 im hv]; intro h; cases h
  · unfold extend
    by_cases hfn : ∃ im, FnOK hc ar m.names g.fps g.f im
    · obtain ⟨im, hok⟩ := hfn
      have hg0 := new_good (G := G) hc ar m.names g.fps g.f im hok
      have hspec := foldl_spec hc ar m.names g.fps g.f im hok g.derivs [] _ hg0 ⟨by simp, by simp⟩
      simp only [List.nil_append] at hspec
      by_cases hd : DerivsOK ar g.fps g.derivs
      · have hfold := hspec.1 hd
        have hncov : ¬ ∀ n ∈ g.fps, ∃ pd ∈ g.derivs, pd.1 = n := fun hc' => hv ⟨im, hok, hd, hc'⟩
        obtain ⟨n, _, hb⟩ := (build_good hc ar m.names g.fps g.f im hok g.derivs _ hfold hd).2 hncov
        simp only [fbOf, hb]; intro h; cases h
      · obtain ⟨e, he⟩ := hspec.2 hd
        have hne : e ≠ .logicPanic := fun h => fbOf_noPanic (G := G) hc ar m.names g (by rw [← h]; exact he)
        have : (fbOf hc ar m.names g : FnB N F G).build hc = .error e := by
          simp [FnB.build, FnB.checkCompletion, fbOf, he]
        simp only [this]; intro h; cases h; exact hne rfl
    · obtain ⟨e, he⟩ := new_bad (G := G) hc ar m.names g.fps g.f hn hfn
      obtain ⟨e', he'⟩ := foldl_error_stays hc ar g.derivs _ ⟨e, he⟩
      have hne : e' ≠ .logicPanic := fun h => fbOf_noPanic (G := G) hc ar m.names g (by rw [← h]; exact he')
      have : (fbOf hc ar m.names g : FnB N F G).build hc = .error e' := by
        simp [FnB.build, FnB.checkCompletion, fbOf, he']
      simp only [this]; intro h; cases h; exact hne rfl

/-- the invariant carried through the item fold -/
def Healthy (hc : N → Bool) (names : List N) : Except (BErr N) (Unfinished N F G X K) → Prop
  | .error e => e ≠ .logicPanic
  | .ok m => m.names = names

theorem stepItem_healthy (hc : N → Bool) (ar : F → Nat) (names : List N) (hn : checkNames hc names = .ok ())
    (r : Except (BErr N) (Unfinished N F G X K)) (it : Item N F G X K) (h : Healthy hc names r) :
    Healthy hc names (stepItem hc ar r it) := by
  cases r with
  | error e => simpa [stepItem] using h
  | ok m =>
    simp only [Healthy] at h
    cases it with
    | fn g =>
      simp only [stepItem]
      have hnp := extend_noPanic hc ar m g (h ▸ hn)
      cases hx : extend hc m (fbOf hc ar m.names g) with
      | error e => intro he; exact hnp (by rw [hx, he])
      | ok m' =>
        unfold extend at hx
        cases hb : (fbOf hc ar m.names g : FnB N F G).build hc with
        | error e => simp [hb] at hx
        | ok f => simp only [hb] at hx; cases hx; exact h
    | inv g => exact h
    | x x => exact h
    | init v =>
      simp only [stepItem]
      split
      · intro he; cases he
      · exact h
    | stray p => intro he; cases he

theorem finish_noPanic (m : Unfinished N F G X K) : finish m ≠ .error .logicPanic := by
  unfold finish
  split
  · intro h; cases h
  · split
    · intro h; cases h
    · split
      · intro h; cases h
      · split
        · intro h; cases h
        · split <;> intro h <;> cases h

/-- **c15_no_panic**: for every finite call sequence the session ends in `Ok(model)` or in an
ordinary `ModelBuildError`; the `panic!` in `check_completion` cannot be reached. -/
theorem c15_no_panic (hc : N → Bool) (ar : F → Nat) (names : List N) (calls : List (Call N F G X K)) :
    run hc ar names calls ≠ .error .logicPanic := by
  rw [run_eq_items]
  cases hn : checkNames hc names with
  | error e => intro h; cases h; exact checkNames_noPanic hc names hn
  | ok u =>
    simp only
    generalize group (none : Option (FnItem N F)) calls = items
    have key : ∀ (its : List (Item N F G X K)) (r : Except (BErr N) (Unfinished N F G X K)),
        Healthy hc names r → Healthy hc names (its.foldl (stepItem hc ar) r) := by
      intro its
      induction its with
      | nil => intro r h; exact h
      | cons it rest ih => intro r h; exact ih _ (stepItem_healthy hc ar names hn r it h)
    have hfin := key items (.ok { names := names }) rfl
    cases hr : items.foldl (stepItem hc ar) (.ok { names := names }) with
    | error e => rw [hr] at hfin; intro h; simp only [finishE] at h; cases h; exact hfin rfl
    | ok m => simpa [finishE] using finish_noPanic m

end Varpro.MB
