import VarproModel.Generated.MBuilderOrder
import VarproModel.Core.ModelBuilder
/-!
# C15 (source-derived obligation) — the order of the final checks

`Generated/MBuilderOrder.lean` is regenerated on every run from `src/model/builder/mod.rs`
(`TryInto<SeparableModel> for UnfinishedModel`) and `src/model/detail.rs` (`check_parameter_names`):
the error exits of both functions in source order, each with the flag "the guard in front of this exit
is the reviewed one".  The theorems are re-checked against what the source says now:

* `c15_source_finish`: for **every** unfinished model, `MB.finish` (the transcription all C15/C16
  theorems are about) returns exactly the *first failing check in the extracted order* — empty model,
  empty parameter list, unused parameter, missing x, missing initial parameters — and succeeds iff none fails;
* `c15_source_checkNames`: likewise `MB.checkNames` = first failing of (empty, comma, duplicates) in the
  extracted order; the uniqueness test is the set-insertion test.

A reordered, dropped, added or re-guarded exit in the source changes the table and breaks a theorem.
-/
namespace Varpro.Generated.MB
open Varpro.MB

variable {N F G X K : Type} [DecidableEq N]

def kindOfErr : BErr N → ErrKind
  | .emptyModel => .emptyModel
  | .emptyParameters => .emptyParameters
  | .unusedParameter _ => .unusedParameter
  | .missingX => .missingX
  | .missingInitialParameters => .missingInitialParameters
  | .commaInParameterNameNotAllowed _ => .commaInParameterName
  | .duplicateParameterNames _ => .duplicateParameterNames
  | _ => .other "-"

def kindOfResult {α : Type} : Except (BErr N) α → Option ErrKind
  | .error e => some (kindOfErr e)
  | .ok _ => none

/-- the first check of the list that fails -/
def firstFailing (fails : ErrKind → Bool) : List (ErrKind × Bool) → Option ErrKind
  | [] => none
  | (k, _) :: rest => if fails k then some k else firstFailing fails rest

/-- meaning of the checks of `try_into` on an unfinished model -/
def failsFinish (m : Unfinished N F G X K) : ErrKind → Bool
  | .emptyModel => m.fns.isEmpty
  | .emptyParameters => m.names.isEmpty
  | .unusedParameter => (firstUnused m.fns m.names 0).isSome
  | .missingX => m.x.isNone
  | .missingInitialParameters => m.init.isNone
  | _ => false

/-- meaning of the checks of `check_parameter_names` on a name list -/
def failsNames (hc : N → Bool) (l : List N) : ErrKind → Bool
  | .emptyParameters => l.isEmpty
  | .commaInParameterName => (l.find? hc).isSome
  | .duplicateParameterNames => !allUnique l
  | _ => false

/-- **c15_source_finish** -/
theorem c15_source_finish :
    ∃ o, tryIntoExits = some o ∧ o.all (·.2) = true ∧
      ∀ (N F G X K : Type) [DecidableEq N] (m : Unfinished N F G X K),
        kindOfResult (finish m) = firstFailing (failsFinish m) o := by
  refine ⟨_, rfl, by decide, ?_⟩
  intro N F G X K _ m
  simp only [finish, firstFailing, failsFinish]
  by_cases h1 : m.fns.isEmpty = true
  · simp [h1, kindOfResult, kindOfErr]
  · simp only [h1, Bool.false_eq_true, if_false]
    by_cases h2 : m.names.isEmpty = true
    · simp [h2, kindOfResult, kindOfErr]
    · simp only [h2, Bool.false_eq_true, if_false]
      split
      · rename_i n h3
        simp [h3, kindOfResult, kindOfErr]
      · rename_i h3
        simp only [h3, Option.isSome_none, Bool.false_eq_true, if_false]
        split
        · rename_i h4
          simp [h4, kindOfResult, kindOfErr]
        · rename_i x h4
          simp only [h4, Option.isNone_some, Bool.false_eq_true, if_false]
          split
          · rename_i h5
            simp [h5, kindOfResult, kindOfErr]
          · rename_i v h5
            simp [h5, kindOfResult]

/-- **c15_source_checkNames** -/
theorem c15_source_checkNames :
    ∃ o, checkNamesExits = some o ∧ o.all (·.2) = true ∧ uniqueIsSetInsertion = true ∧
      ∀ (N : Type) [DecidableEq N] (hc : N → Bool) (l : List N),
        kindOfResult (checkNames hc l) = firstFailing (failsNames hc l) o := by
  refine ⟨_, rfl, by decide, by decide, ?_⟩
  intro N _ hc l
  simp only [checkNames, firstFailing, failsNames]
  by_cases h1 : l.isEmpty = true
  · simp [h1, kindOfResult, kindOfErr]
  · simp only [h1, Bool.false_eq_true, if_false]
    split
    · rename_i p h2
      simp [h2, kindOfResult, kindOfErr]
    · rename_i h2
      simp only [h2, Option.isSome_none, Bool.false_eq_true, if_false]
      by_cases h3 : allUnique l = true
      · simp [h3, kindOfResult]
      · simp [h3, kindOfResult, kindOfErr]

end Varpro.Generated.MB
