import VarproModel.Proofs.Names
/-!
# C16 — built models route parameters by name and place derivatives by parameter index (part 1)
-/
namespace Varpro.MB
variable {N F G X K V : Type} [DecidableEq N]
set_option linter.unusedSectionVars false

/-- **c16_args_by_name**: the closure stored by the builder for a function with parameter list
`fps` (index mapping computed against the model's name list) calls the user function with exactly
the values of the parameters *named* in `fps`, in the function's own declaration order — whatever
the order of the model's parameter list. No panic outcome is possible. -/
theorem c16_args_by_name (sem : Sem F G X K V) (names fps : List N) (im : List Nat) (f : F) (x : X)
    (params : List K) (him : indexMapping names fps = .ok im) (hlen : params.length = names.length)
    (har : fps.length = sem.arity f) :
    ∃ args, fps.mapM (paramByName names params) = some args ∧ args.length = fps.length ∧
      callWrapped sem ⟨f, im⟩ x params = .ok (sem.applyF f x args) := by
  have hm := mapM_index_eq_byName params him
  have hlt := indexMapping_lt him
  -- every index is in range, so the selection succeeds
  have hsome : ∃ args, im.mapM (fun i => params[i]?) = some args ∧ args.length = im.length := by
    clear hm him
    induction im with
    | nil => exact ⟨[], rfl, rfl⟩
    | cons i is ih =>
      obtain ⟨as, has, hl⟩ := ih (fun j hj => hlt j (List.mem_cons_of_mem _ hj))
      have hi : i < params.length := by rw [hlen]; exact hlt i (by simp)
      refine ⟨params[i] :: as, ?_, by simp [hl]⟩
      simp [List.mapM_cons, has, List.getElem?_eq_getElem hi]
  obtain ⟨args, ha, hl⟩ := hsome
  refine ⟨args, by rw [← hm]; exact ha, by rw [hl, indexMapping_length him], ?_⟩
  simp [callWrapped, ha, hl, indexMapping_length him, har]

/-! ### the value of a named parameter does not depend on the order of the model's parameter list -/

theorem paramByName_eq_some_iff {names : List N} {params : List K} (hn : names.Nodup)
    (hl : params.length = names.length) (n : N) (v : K) :
    paramByName names params n = some v ↔ (n, v) ∈ names.zip params := by
  constructor
  · intro h
    simp only [paramByName, Option.bind_eq_some_iff] at h
    obtain ⟨i, hp, hv⟩ := h
    obtain ⟨hi, hni, _⟩ := position_some hp
    have hi' : i < params.length := by omega
    rw [List.getElem?_eq_getElem hi'] at hv
    cases hv
    rw [List.mem_iff_getElem]
    exact ⟨i, by simp only [List.length_zip, Nat.lt_min]; exact ⟨hi, hi'⟩, by simp [hni]⟩
  · intro h
    rw [List.mem_iff_getElem] at h
    obtain ⟨i, hi, he⟩ := h
    simp only [List.length_zip, Nat.lt_min] at hi
    simp only [List.getElem_zip, Prod.mk.injEq] at he
    obtain ⟨h1, h2⟩ := he
    have := position_getElem hn i hi.1
    rw [h1] at this
    simp [paramByName, this, List.getElem?_eq_getElem hi.2, h2]

theorem paramByName_eq_none_iff {names : List N} {params : List K}
    (hl : params.length = names.length) (n : N) :
    paramByName names params n = none ↔ n ∉ names := by
  constructor
  · intro h hmem
    obtain ⟨i, hp⟩ := position_of_mem hmem
    obtain ⟨hi, _, _⟩ := position_some hp
    have hi' : i < params.length := by omega
    simp [paramByName, hp, List.getElem?_eq_getElem hi'] at h
  · intro h
    cases hp : position names n with
    | none => simp [paramByName, hp]
    | some i => exact absurd ((position_some hp).2.1 ▸ List.getElem_mem (position_some hp).1) h

/-- **c16_perm_invariant (names)**: permuting the model's parameter list together with the
parameter vector does not change the value of any named parameter. -/
theorem c16_perm_param (names names' : List N) (params params' : List K)
    (hn : names.Nodup) (hn' : names'.Nodup)
    (hl : params.length = names.length) (hl' : params'.length = names'.length)
    (hperm : (names.zip params).Perm (names'.zip params')) (n : N) :
    paramByName names params n = paramByName names' params' n := by
  cases h : paramByName names params n with
  | some v =>
    have := (paramByName_eq_some_iff hn hl n v).mp h
    exact ((paramByName_eq_some_iff hn' hl' n v).mpr (hperm.mem_iff.mp this)).symm
  | none =>
    cases h' : paramByName names' params' n with
    | none => rfl
    | some v =>
      have := (paramByName_eq_some_iff hn' hl' n v).mp h'
      have := (paramByName_eq_some_iff hn hl n v).mpr (hperm.mem_iff.mpr this)
      rw [h] at this; cases this

/-- **c16_perm_invariant**: consequently no column of the evaluation and of any derivative (taken
with respect to the parameter *named* `nk`) changes under such a permutation. -/
theorem c16_perm_invariant (sem : Sem F G X K V) (names names' : List N) (params params' : List K)
    (hn : names.Nodup) (hn' : names'.Nodup)
    (hl : params.length = names.length) (hl' : params'.length = names'.length)
    (hperm : (names.zip params).Perm (names'.zip params'))
    (items : List (Item N F G X K)) (x : X) :
    specEval sem names items x params = specEval sem names' items x params' ∧
    ∀ nk, items.filterMap (specDCol sem names x params nk)
        = items.filterMap (specDCol sem names' x params' nk) := by
  have hfun : paramByName names params = paramByName names' params' :=
    funext (c16_perm_param names names' params params' hn hn' hl hl' hperm)
  constructor
  · have : specCol sem names x params = specCol sem names' x params' := by
      funext it; cases it <;> simp [specCol, hfun]
    unfold specEval; rw [this]
  · intro nk
    have : specDCol sem names x params nk = specDCol sem names' x params' nk := by
      funext it; cases it <;> simp [specDCol, hfun]
    rw [this]

/-- **c16_params**: parameters set on the model are returned unchanged and in model order. -/
theorem c16_params (m : Model N F G X K) (v : List K) (h : v.length = m.names.length) :
    (m.setParamsMut v).1.params = v ∧ (m.setParamsMut v).2 = .ok () := by
  simp [Model.setParamsMut, h]

/-- **c16_zero_column**: a function that carries no derivative for parameter index `k` contributes
the zero column (in particular every invariant function, whose derivative map is empty). -/
theorem c16_zero_column (sem : Sem F G X K V) (m : Model N F G X K) (k : Nat) (cols : List V)
    (h : m.evalPartialDeriv sem k = .ok cols) (j : Nat) (hj : j < m.fns.length) (hj' : j < cols.length)
    (hnone : mapGet m.fns[j].derivatives k = none) : cols[j] = sem.zeroV (sem.xlen m.x) := by
  unfold Model.evalPartialDeriv at h
  split at h
  · cases h
  · split at h
    · cases h
    · obtain ⟨_, hi⟩ := mapCols_ok' _ _ _ h
      have := hi j hj hj'
      simp only [hnone] at this
      exact (Except.ok.inj this).symm
where
  mapCols_ok' {A : Type} (f : A → Except MErr V) (l : List A) (vs : List V)
      (h : mapCols f l = .ok vs) : vs.length = l.length ∧
        ∀ i (hi : i < l.length) (hv : i < vs.length), f l[i] = .ok vs[i] := by
    induction l generalizing vs with
    | nil => simp [mapCols] at h; subst h; simp
    | cons a as ih =>
      simp only [mapCols] at h
      cases hfa : f a with
      | error e => simp [hfa] at h
      | ok v =>
        simp only [hfa] at h
        cases hr : mapCols f as with
        | error e => simp [hr] at h
        | ok ws =>
          simp only [hr] at h
          cases h
          obtain ⟨hl, hi⟩ := ih ws hr
          refine ⟨by simp [hl], ?_⟩
          intro i hi' hv
          cases i with
          | zero => simpa using hfa
          | succ j => simpa using hi j (by simpa using hi') (by simpa using hv)

/-! ### non-vacuity -/
example : paramByName [3, 1, 2] [30, 10, 20] 2 = some 20 := by rfl
example : ((([3, 1, 2] : List Nat).zip [30, 10, 20]).Perm (([1, 2, 3] : List Nat).zip [10, 20, 30])) := by
  decide

end Varpro.MB
