import VarproModel.Generated.Dispatch
/-!
# C16 (source-derived obligation) — the arity dispatch of `src/basis_function/detail.rs`

`Generated/Dispatch.lean` is regenerated from the Rust source on every run.  The theorem below is
re-checked against what the source says now: closure argument `t` of every blanket implementation
receives `params[t]`, and implementations exist for exactly the arities 1..10.
-/
namespace Varpro.Generated

/-- **c16_dispatch**: every row of the source-extracted table is `[0, …, n-1]`, and the arities
present are exactly `1, …, 10` in this order. -/
theorem c16_dispatch :
    ∃ t, dispatchTable = some t ∧ (∀ row ∈ t, row = List.range row.length) ∧
      t.map List.length = [1, 2, 3, 4, 5, 6, 7, 8, 9, 10] := by
  refine ⟨_, rfl, ?_, ?_⟩ <;> decide

end Varpro.Generated
