import VarproModel.Props.C15Iff
import VarproModel.Props.C16
/-!
# C16 (part 3) — every builder-made model *is* its by-name specification

`specEval` / `specDeriv` (Core/ModelSpec) say what a separable model means, with no reference to
index mappings, hash maps or the builder: column `j` is the `j`-th function item applied to the
values of the parameters it *names*; the derivative with respect to the parameter named `names[k]`
is the user derivative supplied *for that name* (or the zero column).  The theorem below shows that
whatever `build()` returns, for every finite call sequence, evaluates to exactly that – including
the error outcomes, and never with a panic outcome of the wrapper closure (index out of bounds,
argument count).
-/
namespace Varpro.MB
set_option linter.unusedSectionVars false
variable {N F G X K V : Type} [DecidableEq N]

/-- the shape of the model `build()` returns -/
theorem run_ok_shape (hc : N → Bool) (ar : F → Nat) (names : List N) (calls : List (Call N F G X K))
    (m : Model N F G X K) (hrun : run hc ar names calls = .ok m) :
    m.names = names ∧ m.fns = (group (none : Option (FnItem N F)) calls).filterMap (itemFn names) ∧
    lastX (group (none : Option (FnItem N F)) calls) = some m.x ∧
    lastInit (group (none : Option (FnItem N F)) calls) = some m.params := by
  obtain ⟨hn, hv, _, _, _, _⟩ := (c15_accepts_iff hc ar names calls).mp ⟨m, hrun⟩
  rw [run_eq_items, hn] at hrun
  simp only at hrun
  generalize group (none : Option (FnItem N F)) calls = items at *
  rw [(foldl_items hc ar items { names := names } hn).1 hv] at hrun
  simp only [finishE, finish] at hrun
  split at hrun
  · cases hrun
  · split at hrun
    · cases hrun
    · split at hrun
      · cases hrun
      · split at hrun
        · cases hrun
        · rename_i x hx
          split at hrun
          · cases hrun
          · rename_i v hv'
            cases hrun
            simp only [List.nil_append] at hx hv' ⊢
            refine ⟨trivial, trivial, ?_, ?_⟩
            · cases h : lastX items with
              | none => simp [h] at hx
              | some x' => simpa [h] using hx
            · cases h : lastInit items with
              | none => simp [h] at hv'
              | some v' => simpa [h] using hv'

/-- `mapCols` and `assemble` agree when the per-item results agree -/
theorem mapCols_eq_assemble (sem : Sem F G X K V) (x : X) (names : List N)
    (call : MBF F G → Except MErr V) (col : Item N F G X K → Option (Option V))
    (items : List (Item N F G X K))
    (hnone : ∀ it ∈ items, itemFn names it = none → col it = none)
    (hsome : ∀ it ∈ items, ∀ bf, itemFn names it = some bf →
      ∃ v, col it = some (some v) ∧ call bf = checkLen sem x v) :
    mapCols call (items.filterMap (itemFn names)) = assemble sem x (items.filterMap col) := by
  induction items with
  | nil => rfl
  | cons it rest ih =>
    have ih' := ih (fun i hi => hnone i (List.mem_cons_of_mem _ hi))
      (fun i hi => hsome i (List.mem_cons_of_mem _ hi))
    cases hf : itemFn names it with
    | none =>
      have := hnone it (by simp) hf
      simp only [List.filterMap_cons, hf, this]
      exact ih'
    | some bf =>
      obtain ⟨v, hc, hcall⟩ := hsome it (by simp) bf hf
      simp only [List.filterMap_cons, hf, hc, mapCols, assemble, hcall, checkLen, ih']
      by_cases hl : sem.vlen v = sem.xlen x
      · simp only [hl, if_true]
        cases assemble sem x (rest.filterMap col) <;> rfl
      · simp only [hl, if_false]

theorem find?_congr' {α : Type} (l : List α) (p q : α → Bool) (h : ∀ a ∈ l, p a = q a) :
    l.find? p = l.find? q := by
  induction l with
  | nil => rfl
  | cons a as ih =>
    simp only [List.find?_cons, h a (by simp)]
    rw [ih (fun b hb => h b (List.mem_cons_of_mem _ hb))]

theorem mapGet_derivMap (names : List N) (im : List Nat) (ds : List (N × F)) (hnd : names.Nodup)
    (hmem : ∀ pd ∈ ds, pd.1 ∈ names) (k : Nat) (hk : k < names.length) :
    mapGet (derivMap names im ds) k =
      (ds.find? (fun pd => pd.1 = names[k])).map (fun pd => (⟨pd.2, im⟩ : Wrapped F)) := by
  unfold mapGet derivMap
  rw [List.find?_map, Option.map_map]
  have : ds.find? ((fun kv : Nat × Wrapped F => kv.1 == k) ∘ fun pd => (keyOf names pd.1, ⟨pd.2, im⟩))
      = ds.find? (fun pd => decide (pd.1 = names[k])) := by
    apply find?_congr'
    intro pd hpd
    simp only [Function.comp]
    have hp := keyOf_spec (hmem pd hpd)
    by_cases he : pd.1 = names[k]
    · have hk' : keyOf names names[k] = k := by
        have := position_getElem hnd k hk
        simp [keyOf, this]
      simp [he, hk']
    · have : ¬ keyOf names pd.1 = k := by
        intro hk'
        obtain ⟨_, hge, _⟩ := position_some hp
        exact he (by rw [← hge]; simp [hk'])
      simp [he, this]
  rw [this]
  cases ds.find? (fun pd => decide (pd.1 = names[k])) <;> rfl

/-- **c16_refines_spec**: for every finite sequence of builder calls that `build()` accepts, with
`m` the returned model, and for every parameter vector of the model's length:
the model holds the names, the last `independent_variable` and the last `initial_parameters` given;
`eval` is the by-name specification `specEval`; `eval_partial_deriv(k)` is `specDeriv … k` (the
derivative with respect to the parameter *named* `names[k]`). -/
theorem c16_refines_spec (sem : Sem F G X K V) (hc : N → Bool) (names : List N)
    (calls : List (Call N F G X K)) (m : Model N F G X K)
    (hrun : run hc sem.arity names calls = .ok m) (ps : List K) (hl : ps.length = names.length)
    (hz : ∀ n, sem.vlen (sem.zeroV n) = n) :
    m.names = names ∧
    lastX (group (none : Option (FnItem N F)) calls) = some m.x ∧
    lastInit (group (none : Option (FnItem N F)) calls) = some m.params ∧
    Model.eval sem { m with params := ps }
      = specEval sem names (group (none : Option (FnItem N F)) calls) m.x ps ∧
    ∀ k, Model.evalPartialDeriv sem { m with params := ps } k
      = specDeriv sem names (group (none : Option (FnItem N F)) calls) m.x ps k := by
  obtain ⟨hnames, hfns, hx, hinit⟩ := run_ok_shape hc sem.arity names calls m hrun
  obtain ⟨hn, hv, _, _, _, _⟩ := (c15_accepts_iff hc sem.arity names calls).mp ⟨m, hrun⟩
  have hnd : names.Nodup := by
    have := (checkNames_ok_iff hc names).mp hn
    simp only [namesOk, Bool.and_eq_true] at this
    exact (allUnique_iff_nodup names).mp this.2
  generalize group (none : Option (FnItem N F)) calls = items at *
  refine ⟨hnames, hx, hinit, ?_, ?_⟩
  · unfold Model.eval specEval
    simp only [hnames, hl, ne_eq, not_true_eq_false, if_false, hfns]
    apply mapCols_eq_assemble
    · intro it hit hnone
      cases it with
      | fn g =>
        obtain ⟨im, hok, _⟩ := hv _ hit
        simp [itemFn, hok.him] at hnone
      | inv g => simp [itemFn] at hnone
      | x x => rfl
      | init v => rfl
      | stray p => rfl
    · intro it hit bf hbf
      cases it with
      | fn g =>
        obtain ⟨im, hok, _⟩ := hv _ hit
        simp only [itemFn, hok.him, Option.some.injEq] at hbf
        subst hbf
        obtain ⟨args, ha, _, hcall⟩ := c16_args_by_name sem names g.fps im g.f m.x ps hok.him hl hok.harity
        refine ⟨sem.applyF g.f m.x args, by simp [specCol, ha], ?_⟩
        simp only [itemMBF, callFun, hcall]
      | inv g =>
        simp only [itemFn, Option.some.injEq] at hbf
        subst hbf
        exact ⟨_, rfl, rfl⟩
      | x x => simp [itemFn] at hbf
      | init v => simp [itemFn] at hbf
      | stray p => simp [itemFn] at hbf
  · intro k
    unfold Model.evalPartialDeriv specDeriv
    simp only [hnames, hl, ne_eq, not_true_eq_false, if_false, hfns]
    by_cases hk : k < names.length
    · have hk' : ¬ k ≥ names.length := by omega
      simp only [hk', if_false, List.getElem?_eq_getElem hk]
      apply mapCols_eq_assemble
      · intro it hit hnone
        cases it with
        | fn g =>
          obtain ⟨im, hok, _⟩ := hv _ hit
          simp [itemFn, hok.him] at hnone
        | inv g => simp [itemFn] at hnone
        | x x => rfl
        | init v => rfl
        | stray p => rfl
      · intro it hit bf hbf
        cases it with
        | fn g =>
          obtain ⟨im, hok, hd, _⟩ := hv _ hit
          simp only [itemFn, hok.him, Option.some.injEq] at hbf
          subst hbf
          have hmem : ∀ pd ∈ g.derivs, pd.1 ∈ names :=
            fun pd hpd => mem_of_indexMapping hok.him (hd.1 pd hpd).1
          simp only [itemMBF, mapGet_derivMap names im g.derivs hnd hmem k hk, specDCol]
          cases hfind : g.derivs.find? (fun pd => decide (pd.1 = names[k])) with
          | none =>
            refine ⟨_, rfl, ?_⟩
            simp [checkLen, hz]
          | some pd =>
            have hpd : pd ∈ g.derivs := List.mem_of_find?_eq_some hfind
            obtain ⟨args, ha, _, hcall⟩ := c16_args_by_name sem names g.fps im pd.2 m.x ps hok.him hl
              (hd.1 pd hpd).2.symm
            refine ⟨sem.applyF pd.2 m.x args, by simp [ha], ?_⟩
            simp only [Option.map_some, hcall]
        | inv g =>
          simp only [itemFn, Option.some.injEq] at hbf
          subst hbf
          refine ⟨_, rfl, ?_⟩
          simp [checkLen, hz, mapGet]
        | x x => simp [itemFn] at hbf
        | init v => simp [itemFn] at hbf
        | stray p => simp [itemFn] at hbf
    · have hk' : k ≥ names.length := by omega
      simp [hk']

theorem assemble_noPanic (sem : Sem F G X K V) (x : X) (cols : List (Option V))
    (h : ∀ c ∈ cols, c.isSome = true) (e : MErr) (he : e.isPanic = true) :
    assemble sem x cols ≠ .error e := by
  induction cols with
  | nil => intro h'; cases h'
  | cons c rest ih =>
    cases c with
    | none => exact absurd (h none (by simp)) (by simp)
    | some v =>
      simp only [assemble]
      split
      · cases hr : assemble sem x rest with
        | ok vs => intro h'; cases h'
        | error e' =>
          intro h'; cases h'
          exact ih (fun c hc => h c (List.mem_cons_of_mem _ hc)) hr
      · intro h'; cases h'; cases he

/-- **c16_no_wrapper_panic**: the two `panic` sites of the wrapper closure (`params[*idx]` out of
bounds; `BasisFunction::eval` argument count) are unreachable for every builder-made model and
every parameter vector of the model's length: `eval` and `eval_partial_deriv` return `Ok` or an
ordinary `ModelError`. -/
theorem c16_no_wrapper_panic (sem : Sem F G X K V) (hc : N → Bool) (names : List N)
    (calls : List (Call N F G X K)) (m : Model N F G X K)
    (hrun : run hc sem.arity names calls = .ok m) (ps : List K) (hl : ps.length = names.length)
    (hz : ∀ n, sem.vlen (sem.zeroV n) = n) (e : MErr) (he : e.isPanic = true) :
    Model.eval sem { m with params := ps } ≠ .error e ∧
    ∀ k, Model.evalPartialDeriv sem { m with params := ps } k ≠ .error e := by
  obtain ⟨_, _, _, hev, hdv⟩ := c16_refines_spec sem hc names calls m hrun ps hl hz
  obtain ⟨hn, hv, _, _, _, _⟩ := (c15_accepts_iff hc sem.arity names calls).mp ⟨m, hrun⟩
  generalize group (none : Option (FnItem N F)) calls = items at *
  have hargs : ∀ it ∈ items, ∀ g, it = Item.fn g →
      ∃ args, g.fps.mapM (paramByName names ps) = some args := by
    intro it hit g hg
    subst hg
    obtain ⟨im, hok, _⟩ := hv _ hit
    obtain ⟨args, ha, _⟩ := c16_args_by_name sem names g.fps im g.f m.x ps hok.him hl hok.harity
    exact ⟨args, ha⟩
  constructor
  · rw [hev]
    apply assemble_noPanic _ _ _ _ _ he
    intro c hc'
    obtain ⟨it, hit, hcol⟩ := List.mem_filterMap.mp hc'
    cases it with
    | fn g =>
      obtain ⟨args, ha⟩ := hargs _ hit g rfl
      simp only [specCol, ha, Option.map_some, Option.some.injEq] at hcol
      subst hcol; rfl
    | inv g => simp only [specCol, Option.some.injEq] at hcol; subst hcol; rfl
    | x x => simp [specCol] at hcol
    | init v => simp [specCol] at hcol
    | stray p => simp [specCol] at hcol
  · intro k
    rw [hdv]
    unfold specDeriv
    cases hk : names[k]? with
    | none => intro h'; cases h'; cases he
    | some nk =>
      simp only
      apply assemble_noPanic _ _ _ _ _ he
      intro c hc'
      obtain ⟨it, hit, hcol⟩ := List.mem_filterMap.mp hc'
      cases it with
      | fn g =>
        obtain ⟨args, ha⟩ := hargs _ hit g rfl
        simp only [specDCol, ha, Option.map_some] at hcol
        split at hcol <;> (simp only [Option.some.injEq] at hcol; subst hcol; rfl)
      | inv g => simp only [specDCol, Option.some.injEq] at hcol; subst hcol; rfl
      | x x => simp [specDCol] at hcol
      | init v => simp [specDCol] at hcol
      | stray p => simp [specDCol] at hcol

/-! ### non-vacuity: the hypotheses are met by a concrete session with reordered parameters -/
example : ∃ m, run (fun (n : Nat) => n == 10) (fun (n : Nat) => n) [1, 2]
    ([.function [2, 1] 2, .partialDeriv 1 2, .partialDeriv 2 2, .invariant (), .indepVar (), .initParams [3, 4]] :
      List (Call Nat Nat Unit Unit Int)) = .ok m :=
  (c15_accepts_iff_validB _ _ _ _).mpr (by decide)

end Varpro.MB
