import VarproModel.Core.SepModel
/-!
# C17 — builder-made models report misuse as errors and keep their state intact

Statements about `Model.setParamsMut / eval / evalPartialDeriv` for **every** model value (not only
builder-made ones), every semantics of the user functions and every argument.
-/
namespace Varpro.MB
variable {N F G X K V : Type}

/-- **c17_count**: a parameter vector of the wrong length is rejected with both lengths in the
error, and the model is left exactly as it was. -/
theorem c17_count (m : Model N F G X K) (v : List K) (h : v.length ≠ m.names.length) :
    m.setParamsMut v = (m, .error (.incorrectParameterCount m.names.length v.length)) := by
  simp [Model.setParamsMut, h]

/-- **c17_count_state**: whatever `set_params` answers, an error leaves every later evaluation
unchanged (the state is the old state). -/
theorem c17_rejected_state (m : Model N F G X K) (v : List K) (e : MErr)
    (h : (m.setParamsMut v).2 = .error e) : (m.setParamsMut v).1 = m := by
  unfold Model.setParamsMut at *
  split <;> simp_all

/-- **c16_params / c17**: an accepted vector is stored unchanged, nothing else changes. -/
theorem c17_accepted_state (m : Model N F G X K) (v : List K) (h : v.length = m.names.length) :
    m.setParamsMut v = ({ m with params := v }, .ok ()) := by
  simp [Model.setParamsMut, h]

/-- **c17_index**: a derivative index `k ≥ P` gives `DerivativeIndexOutOfBounds k` (when the stored
parameter vector has the right length, which `set_params` guarantees). -/
theorem c17_index (sem : Sem F G X K V) (m : Model N F G X K) (k : Nat)
    (hp : m.params.length = m.names.length) (hk : k ≥ m.names.length) :
    m.evalPartialDeriv sem k = .error (.derivativeIndexOutOfBounds k) := by
  simp [Model.evalPartialDeriv, hp, hk]

/-! ### shape of successful evaluations, first failing column -/

theorem mapCols_ok {A : Type} (f : A → Except MErr V) (l : List A) (vs : List V)
    (h : mapCols f l = .ok vs) : vs.length = l.length ∧ ∀ i (hi : i < l.length) (hv : i < vs.length),
      f l[i] = .ok vs[i] := by
  induction l generalizing vs with
  | nil => simp [mapCols] at h; subst h; simp
  | cons a as ih =>
    simp only [mapCols] at h
    cases hfa : f a with
    | error e => simp [hfa] at h
    | ok v =>
      simp only [hfa] at h
      cases hr : mapCols f as with
      | error e => simp [hr] at h
      | ok ws =>
        simp only [hr] at h
        cases h
        obtain ⟨hl, hi⟩ := ih ws hr
        refine ⟨by simp [hl], ?_⟩
        intro i hi' hv
        cases i with
        | zero => simpa using hfa
        | succ j => simpa using hi j (by simpa using hi') (by simpa using hv)

/-- the error of `mapCols` is the error of the **first** failing element -/
theorem mapCols_error {A : Type} (f : A → Except MErr V) (l : List A) (e : MErr)
    (h : mapCols f l = .error e) :
    ∃ pre a post, l = pre ++ a :: post ∧ (∀ b ∈ pre, ∃ v, f b = .ok v) ∧ f a = .error e := by
  induction l with
  | nil => simp [mapCols] at h
  | cons a as ih =>
    simp only [mapCols] at h
    cases hfa : f a with
    | error e' =>
      simp only [hfa] at h
      cases h
      exact ⟨[], a, as, rfl, by simp, hfa⟩
    | ok v =>
      simp only [hfa] at h
      cases hr : mapCols f as with
      | ok ws => simp [hr] at h
      | error e' =>
        simp only [hr] at h
        cases h
        obtain ⟨pre, b, post, hl, hp, hb⟩ := ih hr
        refine ⟨a :: pre, b, post, by simp [hl], ?_, hb⟩
        intro c hc
        rcases List.mem_cons.mp hc with rfl | hc
        · exact ⟨v, hfa⟩
        · exact hp c hc

theorem checkLen_ok (sem : Sem F G X K V) (x : X) (v w : V) (h : checkLen sem x v = .ok w) :
    w = v ∧ sem.vlen v = sem.xlen x := by
  unfold checkLen at h
  split at h
  · cases h; exact ⟨rfl, by assumption⟩
  · cases h

theorem callFun_ok_len (sem : Sem F G X K V) (f : Fun F G) (x : X) (ps : List K) (v : V)
    (h : callFun sem f x ps = .ok v) : sem.vlen v = sem.xlen x := by
  unfold callFun at h
  cases f with
  | invariant g =>
    obtain ⟨rfl, hl⟩ := checkLen_ok sem x _ _ h; exact hl
  | wrapped w =>
    simp only at h
    cases hc : callWrapped sem w x ps with
    | error e => simp [hc] at h
    | ok u =>
      simp only [hc] at h
      obtain ⟨rfl, hl⟩ := checkLen_ok sem x _ _ h; exact hl

/-- **c17_shape (eval)**: a successful evaluation has one column per basis function and every
column has one entry per sample. -/
theorem c17_shape_eval (sem : Sem F G X K V) (m : Model N F G X K) (cols : List V)
    (h : m.eval sem = .ok cols) :
    cols.length = m.fns.length ∧ ∀ c ∈ cols, sem.vlen c = sem.xlen m.x := by
  unfold Model.eval at h
  split at h
  · cases h
  · obtain ⟨hl, hi⟩ := mapCols_ok _ _ _ h
    refine ⟨hl, ?_⟩
    intro c hc
    obtain ⟨i, hi', rfl⟩ := List.getElem_of_mem hc
    exact callFun_ok_len sem _ _ _ _ (hi i (by omega) hi')

/-- **c17_shape (derivative)**: same for every partial derivative, provided the zero column of
length `n` has length `n`. -/
theorem c17_shape_deriv (sem : Sem F G X K V) (hz : ∀ n, sem.vlen (sem.zeroV n) = n)
    (m : Model N F G X K) (k : Nat) (cols : List V)
    (h : m.evalPartialDeriv sem k = .ok cols) :
    cols.length = m.fns.length ∧ ∀ c ∈ cols, sem.vlen c = sem.xlen m.x := by
  unfold Model.evalPartialDeriv at h
  split at h
  · cases h
  · split at h
    · cases h
    · obtain ⟨hl, hi⟩ := mapCols_ok _ _ _ h
      refine ⟨hl, ?_⟩
      intro c hc
      obtain ⟨i, hi', rfl⟩ := List.getElem_of_mem hc
      have := hi i (by omega) hi'
      split at this
      · rename_i w _
        cases hc : callWrapped sem w m.x m.params with
        | error e => simp [hc] at this
        | ok u =>
          simp only [hc] at this
          obtain ⟨rfl, hl⟩ := checkLen_ok sem _ _ _ this; exact hl
      · have e := Except.ok.inj this
        rw [← e]; exact hz _

/-- **c17_wrong_len (eval)**: if an evaluation fails without a panic outcome, the error is the one
of the first column (in basis order) that fails, and a length failure carries the expected and the
actual length of exactly that column. -/
theorem c17_wrong_len_eval (sem : Sem F G X K V) (m : Model N F G X K) (e : MErr)
    (hp : m.params.length = m.names.length) (h : m.eval sem = .error e) :
    ∃ pre bf post, m.fns = pre ++ bf :: post ∧
      (∀ b ∈ pre, ∃ v, callFun sem b.function m.x m.params = .ok v) ∧
      callFun sem bf.function m.x m.params = .error e := by
  unfold Model.eval at h
  simp only [hp, ne_eq, not_true_eq_false, if_false] at h
  exact mapCols_error _ _ _ h

/-- a column of the wrong length is reported with the expected and the actual length -/
theorem c17_len_error (sem : Sem F G X K V) (x : X) (v : V) (h : sem.vlen v ≠ sem.xlen x) :
    checkLen sem x v = .error (.unexpectedFunctionOutput (sem.xlen x) (sem.vlen v)) := by
  simp [checkLen, h]

/-! ### non-vacuity: a concrete model with a function of the wrong length -/

private def demoSem : Sem Nat Nat (List Int) Int (List Int) where
  applyF f x args := if f = 0 then x.map (· + args.sum) else [1]
  applyG _ x := x
  arity _ := 1
  xlen x := x.length
  vlen v := v.length
  zeroV n := List.replicate n 0

private def demoModel : Model String Nat Nat (List Int) Int :=
  { names := ["a"], x := [1, 2, 3], params := [5],
    fns := [{ function := .wrapped ⟨0, [0]⟩ }, { function := .wrapped ⟨1, [0]⟩ }] }

example : demoModel.eval demoSem = .error (.unexpectedFunctionOutput 3 1) := by rfl
example : (demoModel.setParamsMut [1, 2]).1.params = [5] := by rfl
example : demoModel.evalPartialDeriv demoSem 1 = .error (.derivativeIndexOutOfBounds 1) := by rfl

end Varpro.MB
