import VarproModel.Core.ProblemBuilder
/-!
# C18 — the problem builder accepts exactly consistent inputs

Property theorems only.  All statements quantify over every call list, every payload type and
every scalar type; nothing is assumed about `abs` or `machEps`.
-/
namespace Varpro.PB
variable {Y W K : Type}

/-! ### the setters: only the last value of each counts -/

theorem run_append (abs : K → K) (cs : List (Call Y W K)) (c : Call Y W K) :
    run abs (cs ++ [c]) = step abs (run abs cs) c := by
  simp [run, List.foldl_append]

private theorem foldl_fields (abs : K → K) (cs : List (Call Y W K)) (s : State Y W K) :
    (cs.foldl (step abs) s).y = (lastObs cs <|> s.y) ∧
    (cs.foldl (step abs) s).eps = ((lastEps cs).map abs <|> s.eps) ∧
    (cs.foldl (step abs) s).w = (lastWts cs <|> s.w) := by
  induction cs generalizing s with
  | nil => simp [lastObs, lastEps, lastWts]
  | cons c cs ih =>
    have := ih (step abs s c)
    simp only [List.foldl_cons]
    obtain ⟨h1, h2, h3⟩ := this
    refine ⟨?_, ?_, ?_⟩
    · rw [h1]; simp only [lastObs]
      cases lastObs cs <;> cases c <;> simp [step]
    · rw [h2]; simp only [lastEps]
      cases lastEps cs <;> cases c <;> simp [step]
    · rw [h3]; simp only [lastWts]
      cases lastWts cs <;> cases c <;> simp [step]

/-- **c18_order (state)**: after any sequence of setter calls the builder holds exactly the last
value given to each setter (epsilon through `abs`). -/
theorem c18_run_last (abs : K → K) (cs : List (Call Y W K)) :
    (run abs cs).y = lastObs cs ∧ (run abs cs).eps = (lastEps cs).map abs ∧
    (run abs cs).w = lastWts cs := by
  have := foldl_fields abs cs ({} : State Y W K)
  simpa [run] using this

/-- **c18_order**: two call sequences with the same last values (any order, any repetition)
build the same result. -/
theorem c18_order (abs : K → K) (machEps : K) (xLen : Nat) (cs cs' : List (Call Y W K))
    (hy : lastObs cs = lastObs cs') (he : lastEps cs = lastEps cs') (hw : lastWts cs = lastWts cs') :
    build machEps xLen (run abs cs) = build machEps xLen (run abs cs') := by
  obtain ⟨a1, a2, a3⟩ := c18_run_last abs cs
  obtain ⟨b1, b2, b3⟩ := c18_run_last abs cs'
  have : run abs cs = run abs cs' := by
    cases h : run abs cs; cases h' : run abs cs'
    simp only [h, h'] at a1 a2 a3 b1 b2 b3
    simp [a1, a2, a3, b1, b2, b3, hy, he, hw]
  rw [this]

/-! ### build succeeds iff all requirements hold; otherwise the first violated one is named -/

/-- **c18_build_spec**: `build` answers exactly as the documented requirement list. -/
theorem c18_build_spec (machEps : K) (xLen : Nat) (s : State Y W K) :
    (match firstViolation xLen s.y s.w with
      | some e => build machEps xLen s = .error e
      | none => ∃ o, s.y = some o ∧
          build machEps xLen s = .ok { rows := o.rows, cols := o.cols, y := o.val, w := s.w,
                                        eps := s.eps.getD machEps }) := by
  unfold firstViolation build
  cases hy : s.y with
  | none => simp
  | some o =>
    simp only
    by_cases h0 : xLen = 0 ∨ o.rows = 0 ∨ o.cols = 0
    · have : (xLen == 0 || o.rows * o.cols == 0) = true := by
        rcases h0 with h | h | h <;> simp [h]
      simp [h0, this]
    · have hn : ¬ ((xLen == 0 || o.rows * o.cols == 0) = true) := by
        simp only [Bool.or_eq_true, beq_iff_eq, Nat.mul_eq_zero]
        intro h; exact h0 (by rcases h with h | h | h <;> simp [h])
      simp only [h0, hn, if_false, Bool.false_eq_true]
      by_cases hx : xLen = o.rows
      · simp only [hx, ne_eq, not_true_eq_false, if_false, bne_self_eq_false, Bool.false_eq_true]
        cases hw : s.w with
        | none => simp [sizeCorrect]
        | some d =>
          by_cases hd : d.len = o.rows
          · simp [sizeCorrect, hd]
          · simp [sizeCorrect, hd]
      · simp [hx]

theorem firstViolation_none_iff (xLen : Nat) (y : Option (Obs Y)) (w : Option (Wts W)) :
    firstViolation xLen y w = none ↔
      ∃ o, y = some o ∧ xLen ≠ 0 ∧ o.rows ≠ 0 ∧ o.cols ≠ 0 ∧ o.rows = xLen ∧
        (∀ d, w = some d → d.len = o.rows) := by
  unfold firstViolation
  cases y with
  | none => simp
  | some o =>
    by_cases h0 : xLen = 0 ∨ o.rows = 0 ∨ o.cols = 0
    · simp only [h0, if_true]
      constructor
      · intro h; cases h
      · rintro ⟨o', ho', h1, h2, h3, _⟩
        cases ho'; rcases h0 with h | h | h <;> contradiction
    · simp only [h0, if_false]
      have h0' : xLen ≠ 0 ∧ o.rows ≠ 0 ∧ o.cols ≠ 0 :=
        ⟨fun h => h0 (Or.inl h), fun h => h0 (Or.inr (Or.inl h)), fun h => h0 (Or.inr (Or.inr h))⟩
      by_cases hx : xLen = o.rows
      · simp only [hx, ne_eq, not_true_eq_false, if_false]
        cases w with
        | none =>
          simp only [true_iff]
          exact ⟨o, rfl, hx ▸ h0'.1, h0'.2.1, h0'.2.2, rfl, by simp⟩
        | some d =>
          by_cases hd : d.len = o.rows
          · simp only [hd, if_true, true_iff]
            exact ⟨o, rfl, hx ▸ h0'.1, h0'.2.1, h0'.2.2, rfl, by simp [hd]⟩
          · simp only [hd, if_false]
            constructor
            · intro h; cases h
            · rintro ⟨o', ho', _, _, _, _, h5⟩
              cases ho'; exact absurd (h5 d rfl) hd
      · simp only [ne_eq, hx, not_false_eq_true, if_true]
        constructor
        · intro h; cases h
        · rintro ⟨o', ho', _, _, _, h4, _⟩
          cases ho'; exact absurd h4.symm hx

/-- **c18_ok_iff**: `build` succeeds iff observations were given, nothing is empty, rows match the
model's sample count and weights (if any) have one entry per row. -/
theorem c18_ok_iff (machEps : K) (xLen : Nat) (s : State Y W K) :
    (∃ b, build machEps xLen s = .ok b) ↔
      ∃ o, s.y = some o ∧ xLen ≠ 0 ∧ o.rows ≠ 0 ∧ o.cols ≠ 0 ∧ o.rows = xLen ∧
        (∀ d, s.w = some d → d.len = o.rows) := by
  rw [← firstViolation_none_iff]
  have h := c18_build_spec machEps xLen s
  cases hv : firstViolation xLen s.y s.w with
  | some e =>
    simp only [hv] at h
    constructor
    · rintro ⟨b, hb⟩; rw [h] at hb; cases hb
    · intro h'; cases h'
  | none =>
    simp only [hv] at h
    obtain ⟨o, _, hb⟩ := h
    exact ⟨fun _ => rfl, fun _ => ⟨_, hb⟩⟩

/-- **c18_error**: if `build` fails, the error is the first violated requirement in the documented
order (missing data, empty input, row mismatch with both lengths, weights). -/
theorem c18_error (machEps : K) (xLen : Nat) (s : State Y W K) (e : Err)
    (h : build machEps xLen s = .error e) : firstViolation xLen s.y s.w = some e := by
  have hs := c18_build_spec machEps xLen s
  cases hv : firstViolation xLen s.y s.w with
  | some e' => simp only [hv] at hs; rw [hs] at h; cases h; rfl
  | none =>
    simp only [hv] at hs
    obtain ⟨o, _, hb⟩ := hs
    rw [hb] at h; cases h

/-- **c18_eps**: the threshold of a built problem is `|e|` for the last `epsilon(e)` call, machine
epsilon if there was none. -/
theorem c18_eps (abs : K → K) (machEps : K) (xLen : Nat) (cs : List (Call Y W K)) (b : Built Y W K)
    (h : build machEps xLen (run abs cs) = .ok b) :
    b.eps = match lastEps cs with | some e => abs e | none => machEps := by
  have hs := c18_build_spec machEps xLen (run abs cs)
  cases hv : firstViolation xLen (run abs cs).y (run abs cs).w with
  | some e => simp only [hv] at hs; rw [hs] at h; cases h
  | none =>
    simp only [hv] at hs
    obtain ⟨o, _, hb⟩ := hs
    rw [hb] at h
    cases h
    simp only [(c18_run_last abs cs).2.1]
    cases lastEps cs <;> simp

/-- **c18_passes_inputs**: a built problem carries the last observations and the last weights,
untouched. -/
theorem c18_passes_inputs (abs : K → K) (machEps : K) (xLen : Nat) (cs : List (Call Y W K))
    (b : Built Y W K) (h : build machEps xLen (run abs cs) = .ok b) :
    (∃ o, lastObs cs = some o ∧ b.rows = o.rows ∧ b.cols = o.cols ∧ b.y = o.val ∧ b.rows = xLen)
      ∧ b.w = lastWts cs := by
  have hs := c18_build_spec machEps xLen (run abs cs)
  have hok := (c18_ok_iff machEps xLen (run abs cs)).mp ⟨b, h⟩
  cases hv : firstViolation xLen (run abs cs).y (run abs cs).w with
  | some e => simp only [hv] at hs; rw [hs] at h; cases h
  | none =>
    simp only [hv] at hs
    obtain ⟨o, ho, hb⟩ := hs
    obtain ⟨o', ho', _, _, _, h4, _⟩ := hok
    rw [ho] at ho'; cases ho'
    rw [hb] at h; cases h
    refine ⟨⟨o, ?_, rfl, rfl, rfl, h4⟩, ?_⟩
    · rw [← (c18_run_last abs cs).1]; exact ho
    · exact (c18_run_last abs cs).2.2

/-! ### non-vacuity -/

example : build (0 : Int) 3 (run (fun x => x.natAbs) [Call.epsilon (-2), Call.observations ⟨3, 2, ()⟩,
    Call.weights ⟨3, ()⟩] : State Unit Unit Int)
    = .ok { rows := 3, cols := 2, y := (), w := some ⟨3, ()⟩, eps := 2 } := by rfl

example : build (0 : Int) 3 (run (fun x => x.natAbs) [Call.weights ⟨2, ()⟩, Call.observations ⟨3, 2, ()⟩]
    : State Unit Unit Int) = .error .invalidLengthOfWeights := by rfl

example : build (0 : Int) 3 (run (fun x => x.natAbs) [Call.observations ⟨4, 0, ()⟩]
    : State Unit Unit Int) = .error .zeroLengthVector := by rfl

end Varpro.PB
