import VarproModel.Generated.PBuilderChecks
import VarproModel.Core.ProblemBuilder
/-!
# C18 (source-derived obligation) — the guard program of `LevMarProblemBuilder::build`

`Generated/PBuilderChecks.lean` is regenerated from `src/solvers/levmar/builder.rs` on every run:
the guards of `build()` in source order and a list of facts about the rest of its body and the
setters.  The theorems below are re-checked against what the source says now:

* `c18_source_guards`: *interpreting* the extracted guard list (first guard one of whose atoms holds
  decides; atoms have the meaning given by `Atom.holds`) yields, for **every** builder state and every
  model output length, exactly the error / success decision of `PB.build` — the transcription that
  `c18_ok_iff`, `c18_error`, `c18_order` … are about.  Reordering two checks, dropping one, adding a
  new early exit or changing a condition in the source changes the table and breaks this theorem.
* `c18_source_flags`: every assumed fact about the remaining body holds (threshold defaults to the
  machine epsilon, the setter stores `abs`, data weighted exactly once, the problem starts with an
  empty cache and receives exactly one `set_params` at the model's own parameters, no other error exit).
-/
namespace Varpro.Generated.PB
open Varpro.PB

variable {Y W K : Type}

/-- meaning of an atom of the guard program on a builder state -/
def Atom.holds (xLen : Nat) (s : State Y W K) : Atom → Bool
  | .yMissing => s.y.isNone
  | .xLenZero => xLen == 0
  | .yEmpty => match s.y with | some o => o.rows * o.cols == 0 | none => false
  | .xLenNeRows => match s.y with | some o => xLen != o.rows | none => false
  | .weightsSizeWrong => match s.y with | some o => !sizeCorrect s.w o.rows | none => false
  | .unknown _ => false

/-- the error value a tag stands for (payload from the state) -/
def ErrTag.toErr (xLen : Nat) (s : State Y W K) : ErrTag → Option Err
  | .yDataMissing => some .yDataMissing
  | .zeroLengthVector => some .zeroLengthVector
  | .invalidLengthOfData => match s.y with | some o => some (.invalidLengthOfData xLen o.rows) | none => none
  | .invalidLengthOfWeights => some .invalidLengthOfWeights
  | .unknownErr _ => none

/-- run the guard program: the first guard one of whose atoms holds returns its error -/
def interp (xLen : Nat) (s : State Y W K) : List (List Atom × ErrTag) → Option ErrTag
  | [] => none
  | (atoms, e) :: rest => if atoms.any (Atom.holds xLen s) then some e else interp xLen s rest

def errOf {α : Type} : Except Err α → Option Err
  | .error e => some e
  | .ok _ => none

/-- **c18_source_guards** -/
theorem c18_source_guards :
    ∃ g, guards = some g ∧
      ∀ (Y W K : Type) (machEps : K) (xLen : Nat) (s : State Y W K),
        errOf (PB.build machEps xLen s) = (interp xLen s g).bind (ErrTag.toErr xLen s) := by
  refine ⟨_, rfl, ?_⟩
  intro Y W K machEps xLen s
  obtain ⟨y, eps, w⟩ := s
  cases y with
  | none => simp [PB.build, interp, Atom.holds, ErrTag.toErr, errOf]
  | some o =>
    simp only [PB.build, interp, Atom.holds, List.any_cons, List.any_nil, Bool.or_false,
      Option.isNone_some, Bool.false_eq_true, if_false]
    by_cases h1 : (xLen == 0 || o.rows * o.cols == 0) = true
    · simp [h1, errOf, ErrTag.toErr]
    · simp only [h1, Bool.false_eq_true, if_false]
      by_cases h2 : (xLen != o.rows) = true
      · simp [h2, errOf, ErrTag.toErr]
      · simp only [h2, Bool.false_eq_true, if_false]
        by_cases h3 : (!sizeCorrect w o.rows) = true
        · simp [h3, errOf, ErrTag.toErr]
        · simp [h3, errOf]

/-- **c18_source_flags**: every fact the model assumes about the rest of `build()` and about the
setters was found in the source, and the list is the reviewed one. -/
theorem c18_source_flags :
    flags.all (·.2) = true ∧
    flags.map (·.1) = ["noOtherErrorExit", "xLenIsOutputLen", "epsDefaultsToMachineEpsilon", "dataWeightedOnce",
      "startsWithEmptyCache", "oneUpdateAtTheModelsParameters", "epsSetterStoresAbs", "weightsSetterStoresDiagonal"] := by
  constructor <;> decide

end Varpro.Generated.PB
