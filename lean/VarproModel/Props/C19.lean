import VarproModel.Proofs.ToMatrix
import Mathlib.LinearAlgebra.Matrix.Trace
import Mathlib.LinearAlgebra.Matrix.DotProduct
import Mathlib.Algebra.Order.Field.Basic
import Mathlib.Tactic.Ring
import Mathlib.Tactic.FieldSimp
import Mathlib.Tactic.Abel
/-!
# C19 — reported uncertainties are statistically calibrated  (**partial**)

The full statement is about relative frequencies over Gaussian noise realisations.  The
distributional step (Gaussian errors ⇒ Student-t pivots ⇒ coverage `p`) is classical but **not
machine-checked**: Mathlib has no multivariate normal / t distribution theory to build on.
What is proved is the deterministic backbone in the regime where the model function is linear in
the full parameter vector θ = (c, α) over the scatter of the estimates, `y = H θ* + ε`:
the error maps of estimate and residual, the degrees of freedom, and the exact effect of rescaling
all weights.  Coverage itself is explored by the Monte-Carlo stream `mc` on the real code.
-/
namespace Varpro
open Matrix
set_option linter.unusedSectionVars false

variable {K : Type} [Field K] {n d : Nat}

/-- **c19_error_map_partial**: with `H_w = W·H`, `B = (H_wᵀH_w)⁻¹` and the estimate
`θ̂ = B·H_wᵀ·W·y` for observations `y = H·θ* + ε`: the estimation error is the linear image
`θ̂ − θ* = B·H_wᵀ·(W·ε)` of the weighted noise. -/
theorem c19_error_map_partial (W : Matrix (Fin n) (Fin n) K) (H : Matrix (Fin n) (Fin d) K)
    (B : Matrix (Fin d) (Fin d) K) (hB : B * ((W * H)ᵀ * (W * H)) = 1)
    (θstar : Fin d → K) (ε : Fin n → K) :
    B *ᵥ ((W * H)ᵀ *ᵥ (W *ᵥ (H *ᵥ θstar + ε))) - θstar = B *ᵥ ((W * H)ᵀ *ᵥ (W *ᵥ ε)) := by
  have e1 : W *ᵥ (H *ᵥ θstar + ε) = (W * H) *ᵥ θstar + W *ᵥ ε := by
    rw [mulVec_add, mulVec_mulVec]
  have e2 : (W * H)ᵀ *ᵥ ((W * H) *ᵥ θstar) = ((W * H)ᵀ * (W * H)) *ᵥ θstar := mulVec_mulVec _ _ _
  have e3 : B *ᵥ (((W * H)ᵀ * (W * H)) *ᵥ θstar) = θstar := by
    rw [mulVec_mulVec, hB, one_mulVec]
  rw [e1, mulVec_add, mulVec_add, e2, e3]
  abel

/-- the "hat" matrix of the weighted linearised problem -/
def hatM (Hw : Matrix (Fin n) (Fin d) K) (B : Matrix (Fin d) (Fin d) K) : Matrix (Fin n) (Fin n) K :=
  Hw * B * Hwᵀ

/-- **c19_residual_map_partial**: the weighted residual is `r_w = (1 − P_H)·(W·ε)` with
`P_H = H_w B H_wᵀ`, which is idempotent, and `trace(1 − P_H) = N − (M+P)` – the degrees of freedom
the implementation divides by (so `E‖r_w‖² = N − M − P` whenever `Cov(W·ε) = 1`, i.e. weights
exactly `1/σ_i`). -/
theorem c19_residual_map_partial (Hw : Matrix (Fin n) (Fin d) K) (B : Matrix (Fin d) (Fin d) K)
    (hB : B * (Hwᵀ * Hw) = 1) (hB' : (Hwᵀ * Hw) * B = 1) (θstar : Fin d → K) (e : Fin n → K) :
    ((Hw *ᵥ θstar + e) - Hw *ᵥ (B *ᵥ (Hwᵀ *ᵥ (Hw *ᵥ θstar + e))) = (1 - hatM Hw B) *ᵥ e) ∧
    hatM Hw B * hatM Hw B = hatM Hw B ∧
    Matrix.trace (1 - hatM Hw B) = (n : K) - (d : K) := by
  refine ⟨?_, ?_, ?_⟩
  · have e2 : Hwᵀ *ᵥ (Hw *ᵥ θstar) = (Hwᵀ * Hw) *ᵥ θstar := mulVec_mulVec _ _ _
    have e3 : B *ᵥ ((Hwᵀ * Hw) *ᵥ θstar) = θstar := by rw [mulVec_mulVec, hB, one_mulVec]
    have e4 : Hw *ᵥ (B *ᵥ (Hwᵀ *ᵥ e)) = hatM Hw B *ᵥ e := by
      simp only [hatM, mulVec_mulVec, Matrix.mul_assoc]
    rw [mulVec_add, mulVec_add, mulVec_add, e2, e3, e4, Matrix.sub_mulVec, one_mulVec]
    abel
  · simp only [hatM]
    calc Hw * B * Hwᵀ * (Hw * B * Hwᵀ) = Hw * (B * (Hwᵀ * Hw)) * B * Hwᵀ := by
          simp only [Matrix.mul_assoc]
      _ = Hw * B * Hwᵀ := by rw [hB, Matrix.mul_one]
  · rw [Matrix.trace_sub, Matrix.trace_one, Fintype.card_fin]
    congr 1
    simp only [hatM]
    rw [Matrix.trace_mul_comm, ← Matrix.mul_assoc, hB', Matrix.trace_one, Fintype.card_fin]

/-- **c19_scale_invariance_partial**: multiplying all weights by `λ ≠ 0` (weights only
*proportional* to `1/σ_i`) leaves the estimate and `χ²·(HᵀH)⁻¹` – the covariance, hence the
correlation and every interval and band – unchanged, and multiplies the reduced χ² by `λ²`:
proportionality suffices for the intervals, equality is needed for `χ² ≈ 1`. -/
theorem c19_scale_invariance_partial (Hw : Matrix (Fin n) (Fin d) K) (B : Matrix (Fin d) (Fin d) K)
    (hB : B * (Hwᵀ * Hw) = 1) (yw : Fin n → K) (lam : K) (hl : lam ≠ 0) (dof : K) :
    let Hw' := lam • Hw
    let yw' := lam • yw
    let B' := (lam * lam)⁻¹ • B
    B' * (Hw'ᵀ * Hw') = 1 ∧
    B' *ᵥ (Hw'ᵀ *ᵥ yw') = B *ᵥ (Hwᵀ *ᵥ yw) ∧
    (∀ θ : Fin d → K, (yw' - Hw' *ᵥ θ) ⬝ᵥ (yw' - Hw' *ᵥ θ) / dof
        = (lam * lam) * ((yw - Hw *ᵥ θ) ⬝ᵥ (yw - Hw *ᵥ θ) / dof)) ∧
    (∀ chi2 : K, ((lam * lam) * chi2) • B' = chi2 • B) := by
  intro Hw' yw' B'
  have hll : lam * lam ≠ 0 := mul_ne_zero hl hl
  have hinv : (lam * lam)⁻¹ * (lam * lam) = 1 := inv_mul_cancel₀ hll
  have hinv' : lam * lam * (lam * lam)⁻¹ = 1 := mul_inv_cancel₀ hll
  refine ⟨?_, ?_, ?_, ?_⟩
  · have : Hw'ᵀ * Hw' = (lam * lam) • (Hwᵀ * Hw) := by
      simp only [Hw', Matrix.transpose_smul, Matrix.smul_mul, Matrix.mul_smul, smul_smul]
    rw [this]
    simp only [B', Matrix.smul_mul, Matrix.mul_smul, smul_smul, hinv, hinv', one_smul, hB]
  · have : Hw'ᵀ *ᵥ yw' = (lam * lam) • (Hwᵀ *ᵥ yw) := by
      simp only [Hw', yw', Matrix.transpose_smul, Matrix.smul_mulVec, Matrix.mulVec_smul, smul_smul]
    rw [this]
    simp only [B', Matrix.smul_mulVec, Matrix.mulVec_smul, smul_smul, hinv, hinv', one_smul]
  · intro θ
    have : yw' - Hw' *ᵥ θ = lam • (yw - Hw *ᵥ θ) := by
      simp only [Hw', yw', Matrix.smul_mulVec, smul_sub]
    rw [this, smul_dotProduct, dotProduct_smul, smul_eq_mul, smul_eq_mul]
    ring
  · intro chi2
    simp only [B', smul_smul]
    congr 1
    field_simp

end Varpro
