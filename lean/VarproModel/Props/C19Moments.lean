import VarproModel.Props.C19
import Mathlib.Algebra.Module.LinearMap.Defs
import Mathlib.Algebra.Module.Pi
/-!
# C19 (part 2) — first and second moments of estimate and residual, for *every* noise distribution

`Props/C19` gives the deterministic error maps `θ̂ − θ* = G·e` and `r_w = (1 − P_H)·e` with
`e = W·ε` the weighted noise.  Here the expectation enters, as an **arbitrary linear functional**
`E` on random variables `Ω → K` (the integral against any probability measure with finite second
moments is one; so is a finite average over Monte-Carlo realisations).  No Gaussian assumption
is needed for the moment clauses of C19:

* `c19_unbiased`: `E e_i = 0` ⇒ `E (θ̂ − θ*)_a = 0`;
* `c19_covariance`: `E e_i e_j = s·δ_ij` ⇒ `E (θ̂ − θ*)_a (θ̂ − θ*)_b = s·B_ab` with
  `B = (H_wᵀH_w)⁻¹` – the matrix the implementation scales by the reduced χ²;
* `c19_chi2_mean`: `E e_i e_j = s·δ_ij` ⇒ `E ‖r_w‖² = s·(N − M − P)`, i.e. the reduced χ² has mean
  `s`; with weights exactly `1/σ_i` (`s = 1`) the reduced χ² **averages 1** — that clause of C19 is
  thereby proved in the linear regime, not only sampled;
* `c19_band_variance`: the variance of the fitted curve at sample `i` is `s·j_iᵀ B j_i`, the
  quantity under the square root of the confidence band (C14).

The coverage clause (Student-t pivots ⇒ relative frequency `p`) remains unproved (`…_partial`
in the file name of the property claim; see DESIGN §9).
-/
namespace Varpro
open Matrix
set_option linter.unusedSectionVars false

variable {K : Type} [Field K] {n d : Nat} {Ω : Type}

/-- second moments push through linear maps: `E[(M e)_i (M' e)_j] = (M S M'ᵀ)_ij` when
`S_kl = E[e_k e_l]` -/
theorem expect_bilinear (E : (Ω → K) →ₗ[K] K) (e : Fin n → Ω → K) (S : Matrix (Fin n) (Fin n) K)
    (hS : ∀ k l, E (fun ω => e k ω * e l ω) = S k l) {a b : Nat}
    (M : Matrix (Fin a) (Fin n) K) (M' : Matrix (Fin b) (Fin n) K) (i : Fin a) (j : Fin b) :
    E (fun ω => (M *ᵥ (fun k => e k ω)) i * (M' *ᵥ (fun k => e k ω)) j) = (M * S * M'ᵀ) i j := by
  have hfun : (fun ω => (M *ᵥ (fun k => e k ω)) i * (M' *ᵥ (fun k => e k ω)) j)
      = ∑ k, ∑ l, (M i k * M' j l) • (fun ω => e k ω * e l ω) := by
    funext ω
    simp only [Matrix.mulVec, dotProduct, Finset.sum_apply, Pi.smul_apply, smul_eq_mul]
    rw [Finset.sum_mul_sum]
    exact Finset.sum_congr rfl fun k _ => Finset.sum_congr rfl fun l _ => by ring
  rw [hfun]
  simp only [map_sum, map_smul, hS, smul_eq_mul, Matrix.mul_apply, Matrix.transpose_apply,
    Finset.sum_mul]
  rw [Finset.sum_comm]
  exact Finset.sum_congr rfl fun l _ => Finset.sum_congr rfl fun k _ => by ring

/-- first moments push through linear maps -/
theorem expect_linear (E : (Ω → K) →ₗ[K] K) (e : Fin n → Ω → K) (μ : Fin n → K)
    (hμ : ∀ k, E (e k) = μ k) {a : Nat} (M : Matrix (Fin a) (Fin n) K) (i : Fin a) :
    E (fun ω => (M *ᵥ (fun k => e k ω)) i) = (M *ᵥ μ) i := by
  have hfun : (fun ω => (M *ᵥ (fun k => e k ω)) i) = ∑ k, (M i k) • e k := by
    funext ω
    simp only [Matrix.mulVec, dotProduct, Finset.sum_apply, Pi.smul_apply, smul_eq_mul]
  rw [hfun]
  simp only [map_sum, map_smul, hμ, smul_eq_mul, Matrix.mulVec, dotProduct]

/-- the inverse of the (symmetric) normal matrix is symmetric -/
theorem normalInv_symm (Hw : Matrix (Fin n) (Fin d) K) (B : Matrix (Fin d) (Fin d) K)
    (hB : B * (Hwᵀ * Hw) = 1) (hB' : (Hwᵀ * Hw) * B = 1) : Bᵀ = B := by
  have hT : Bᵀ * (Hwᵀ * Hw) = 1 := by
    have := congrArg Matrix.transpose hB'
    simpa [Matrix.transpose_mul] using this
  calc Bᵀ = Bᵀ * ((Hwᵀ * Hw) * B) := by rw [hB', Matrix.mul_one]
    _ = (Bᵀ * (Hwᵀ * Hw)) * B := (Matrix.mul_assoc _ _ _).symm
    _ = B := by rw [hT, Matrix.one_mul]

/-- **c19_unbiased**: with centred noise the estimate is unbiased, for every distribution. -/
theorem c19_unbiased (E : (Ω → K) →ₗ[K] K) (e : Fin n → Ω → K) (h0 : ∀ k, E (e k) = 0)
    (Hw : Matrix (Fin n) (Fin d) K) (B : Matrix (Fin d) (Fin d) K) (a : Fin d) :
    E (fun ω => ((B * Hwᵀ) *ᵥ (fun k => e k ω)) a) = 0 := by
  rw [expect_linear E e 0 (fun k => by simpa using h0 k)]
  simp

/-- **c19_covariance**: if the weighted noise has second moments `s·δ` (weights proportional to
`1/σ_i`), the covariance of the estimation error `θ̂ − θ* = B·H_wᵀ·e` is exactly `s·B`. -/
theorem c19_covariance (E : (Ω → K) →ₗ[K] K) (e : Fin n → Ω → K) (s : K)
    (hS : ∀ k l, E (fun ω => e k ω * e l ω) = if k = l then s else 0)
    (Hw : Matrix (Fin n) (Fin d) K) (B : Matrix (Fin d) (Fin d) K)
    (hB : B * (Hwᵀ * Hw) = 1) (hB' : (Hwᵀ * Hw) * B = 1) (a b : Fin d) :
    E (fun ω => ((B * Hwᵀ) *ᵥ (fun k => e k ω)) a * ((B * Hwᵀ) *ᵥ (fun k => e k ω)) b)
      = s * B a b := by
  have hS' : ∀ k l, E (fun ω => e k ω * e l ω) = (s • (1 : Matrix (Fin n) (Fin n) K)) k l := by
    intro k l; rw [hS]; simp [Matrix.one_apply]
  rw [expect_bilinear E e _ hS']
  have hsym := normalInv_symm Hw B hB hB'
  have : B * Hwᵀ * s • (1 : Matrix (Fin n) (Fin n) K) * (B * Hwᵀ)ᵀ = s • B := by
    rw [Matrix.transpose_mul, Matrix.transpose_transpose, hsym, Matrix.mul_smul, Matrix.mul_one,
      Matrix.smul_mul]
    congr 1
    calc B * Hwᵀ * (Hw * B) = B * (Hwᵀ * Hw) * B := by simp only [Matrix.mul_assoc]
      _ = B := by rw [hB, Matrix.one_mul]
  rw [this]; simp

/-- **c19_chi2_mean**: under the same second-moment assumption the expected squared norm of the
weighted residual `r_w = (1 − P_H)·e` is `s·(N − (M+P))`: the reduced χ² the implementation reports
(`‖r_w‖²/(N − M − P)`) has mean `s`, hence mean 1 for weights exactly `1/σ_i`. -/
theorem c19_chi2_mean (E : (Ω → K) →ₗ[K] K) (e : Fin n → Ω → K) (s : K)
    (hS : ∀ k l, E (fun ω => e k ω * e l ω) = if k = l then s else 0)
    (Hw : Matrix (Fin n) (Fin d) K) (B : Matrix (Fin d) (Fin d) K)
    (hB : B * (Hwᵀ * Hw) = 1) (hB' : (Hwᵀ * Hw) * B = 1) :
    E (fun ω => ((1 - hatM Hw B) *ᵥ (fun k => e k ω)) ⬝ᵥ ((1 - hatM Hw B) *ᵥ (fun k => e k ω)))
      = s * ((n : K) - (d : K)) := by
  have hS' : ∀ k l, E (fun ω => e k ω * e l ω) = (s • (1 : Matrix (Fin n) (Fin n) K)) k l := by
    intro k l; rw [hS]; simp [Matrix.one_apply]
  have hfun : (fun ω => ((1 - hatM Hw B) *ᵥ (fun k => e k ω)) ⬝ᵥ ((1 - hatM Hw B) *ᵥ (fun k => e k ω)))
      = ∑ i, (fun ω => ((1 - hatM Hw B) *ᵥ (fun k => e k ω)) i * ((1 - hatM Hw B) *ᵥ (fun k => e k ω)) i) := by
    funext ω; simp only [dotProduct, Finset.sum_apply]
  rw [hfun, map_sum]
  simp only [expect_bilinear E e _ hS']
  obtain ⟨_, hidem, htr⟩ := c19_residual_map_partial Hw B hB hB' 0 0
  have hsym := normalInv_symm Hw B hB hB'
  have hPsym : (hatM Hw B)ᵀ = hatM Hw B := by
    simp only [hatM, Matrix.transpose_mul, Matrix.transpose_transpose, hsym, Matrix.mul_assoc]
  have hM : (1 - hatM Hw B) * s • (1 : Matrix (Fin n) (Fin n) K) * (1 - hatM Hw B)ᵀ
      = s • (1 - hatM Hw B) := by
    rw [Matrix.transpose_sub, Matrix.transpose_one, hPsym, Matrix.mul_smul, Matrix.mul_one,
      Matrix.smul_mul]
    congr 1
    rw [Matrix.sub_mul, Matrix.mul_sub, Matrix.mul_sub, hidem]
    simp
  rw [hM]
  have : ∑ i, (s • (1 - hatM Hw B)) i i = s * Matrix.trace (1 - hatM Hw B) := by
    simp only [Matrix.trace, Matrix.diag, Matrix.smul_apply, smul_eq_mul, Finset.mul_sum]
  rw [this, htr]

/-- **c19_band_variance**: the fitted curve at sample `i` is `j_iᵀ θ̂`; its variance is
`s·j_iᵀ B j_i`, the square of the `unscaled_confidence_sigma` of C14 with `s` estimated by the
reduced χ². -/
theorem c19_band_variance (E : (Ω → K) →ₗ[K] K) (e : Fin n → Ω → K) (s : K)
    (hS : ∀ k l, E (fun ω => e k ω * e l ω) = if k = l then s else 0)
    (Hw : Matrix (Fin n) (Fin d) K) (B : Matrix (Fin d) (Fin d) K)
    (hB : B * (Hwᵀ * Hw) = 1) (hB' : (Hwᵀ * Hw) * B = 1) (Jm : Matrix (Fin n) (Fin d) K) (i : Fin n) :
    E (fun ω => ((Jm * (B * Hwᵀ)) *ᵥ (fun k => e k ω)) i * ((Jm * (B * Hwᵀ)) *ᵥ (fun k => e k ω)) i)
      = s * ((fun k => Jm i k) ⬝ᵥ (B *ᵥ (fun k => Jm i k))) := by
  have hS' : ∀ k l, E (fun ω => e k ω * e l ω) = (s • (1 : Matrix (Fin n) (Fin n) K)) k l := by
    intro k l; rw [hS]; simp [Matrix.one_apply]
  rw [expect_bilinear E e _ hS']
  have hsym := normalInv_symm Hw B hB hB'
  have : Jm * (B * Hwᵀ) * s • (1 : Matrix (Fin n) (Fin n) K) * (Jm * (B * Hwᵀ))ᵀ = s • (Jm * B * Jmᵀ) := by
    rw [Matrix.mul_smul, Matrix.mul_one, Matrix.smul_mul]
    congr 1
    rw [Matrix.transpose_mul, Matrix.transpose_mul, Matrix.transpose_transpose, hsym]
    calc Jm * (B * Hwᵀ) * (Hw * B * Jmᵀ) = Jm * (B * (Hwᵀ * Hw)) * B * Jmᵀ := by
          simp only [Matrix.mul_assoc]
      _ = Jm * B * Jmᵀ := by rw [hB, Matrix.mul_one]
  rw [this]
  simp only [Matrix.smul_apply, smul_eq_mul, Matrix.mul_apply, Matrix.transpose_apply, dotProduct,
    Matrix.mulVec, Finset.mul_sum, Finset.sum_mul]
  rw [Finset.sum_comm]
  exact Finset.sum_congr rfl fun k _ => Finset.sum_congr rfl fun l _ => by ring

/-- non-vacuity: the hypotheses are met by the empirical average over the 2ⁿ sign patterns
(Rademacher noise) for `n = 1`: `Ω = Bool`, `e ω = ±1`, `E f = (f true + f false)/2` over ℚ. -/
example : ∃ (E : (Bool → ℚ) →ₗ[ℚ] ℚ) (e : Fin 1 → Bool → ℚ),
    (∀ k, E (e k) = 0) ∧ (∀ k l, E (fun ω => e k ω * e l ω) = if k = l then 1 else 0) := by
  refine ⟨{ toFun := fun f => (f true + f false) / 2, map_add' := ?_, map_smul' := ?_ },
    fun _ ω => if ω then 1 else -1, ?_, ?_⟩
  · intro f g; simp only [Pi.add_apply]; ring
  · intro c f; simp only [Pi.smul_apply, smul_eq_mul, RingHom.id_apply]; ring
  · intro k; simp
  · intro k l
    have : k = l := Subsingleton.elim _ _
    simp [this]

end Varpro
