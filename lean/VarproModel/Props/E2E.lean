import VarproModel.Props.Refine
import VarproModel.Props.C01
import VarproModel.Props.C04Run
/-!
# End-to-end theorems: a whole `fit` on varpro's own problem

The optimizer model (`Core/LM`), varpro's problem (`Core/Problem`) and the trait contract of the
user's model (`Lawful`) are composed through the refinement of `Props/Refine`:

* `c11_fit_eq`   a parallel problem under any legal scheduler and the sequential problem yield the
                 same decision, the same report and the same final `(α, cache)`;
* `c04_final_cache`  whatever the termination, the problem handed back by `fit` holds exactly the
                 cache that belongs to the parameters it reports (or none), and its data, threshold
                 and weights are those of the problem that went in (C02, C04, C09, C10);
* `c04_e2e`      a successful fit: `Ĉ = C(α̂)` by the truncated solve for `W·Φ(α̂)`, residuals
                 `= W∘Y − W·Φ(α̂)·Ĉ`, objective `= ½‖residuals‖²` and not above the initial objective,
                 evaluations within budget;
* `c10_fit_fresh`   the final state equals that of a freshly built problem at `α̂`.
-/
namespace Varpro
open LM
set_option linter.unusedSectionVars false

section obs
variable {T T' T'' K Vx Vr J LLS : Type}
variable [Add K] [Sub K] [Mul K] [Div K] [Neg K] [Zero K] [One K] [LT K] [LE K]
  [DecidableLT K] [DecidableLE K] [DecidableEq K]

/-- what an outside observer sees of a fit: `Ok`/`Err`, the report, an image of the final problem -/
def fitObs (g : T → T') : Except (FitResult T K) (FitResult T K) → Bool × Report K × T'
  | .ok r => (true, r.report, g r.problem)
  | .error r => (false, r.report, g r.problem)

theorem fitObs_hom {P : LSP T K Vx Vr J} {P' : LSP T' K Vx Vr J} {f : T → T'} (h : Hom P P' f)
    (o : Ops K Vx Vr J LLS) (nm : Num K) (cfg : Config K) (t : T) (g : T' → T'') :
    fitObs g (fit P' o nm cfg (f t)) = fitObs (fun a => g (f a)) (fit P o nm cfg t) := by
  rw [fit_hom h]
  cases fit P o nm cfg t <;> rfl

/-- the problem inside a fit result is the optimizer's final problem -/
theorem fit_problem (P : LSP T K Vx Vr J) (o : Ops K Vx Vr J LLS) (nm : Num K) (cfg : Config K) (t : T)
    (g : T → T') : (fitObs g (fit P o nm cfg t)).2.2 = g (minimize P o nm cfg t).1 := by
  unfold fit
  simp only
  split <;> rfl
end obs

section e2e
variable {K E : Type} {n m p s : Nat} {U : UserModel n m p K E}
variable [Add K] [Sub K] [Mul K] [Div K] [Neg K] [Zero K] [One K] [LT K] [LE K]
  [DecidableLT K] [DecidableLE K] [DecidableEq K]
variable {LLS : Type}
variable (x : Ext K) (o : XOps K)
variable {evalF : Vector K p → Except E (Mat n m K)}
variable {derivF : Vector K p → Fin p → Except E (Mat n m K)}

abbrev POps (K : Type) (n p s : Nat) (LLS : Type) :=
  Ops K (Vector K p) (Vector K (n * s)) (Mat (n * s) p K) LLS

/-- a fit on the sequential problem seen through the specification -/
theorem fit_seq_spec (hL : Lawful U evalF derivF) (ops : POps K n p s LLS) (nm : Num K) (cfg : Config K)
    (P : Problem U s) :
    fitObs Problem.abs (fit (problemLSP x o) ops nm cfg P) =
      fitObs id (fit (specLSP x o P.Yw P.eps P.w evalF derivF) ops nm cfg P.abs) := by
  let t : { Q : Problem U s // Fixed P.Yw P.eps P.w Q } := ⟨P, rfl, rfl, rfl⟩
  have h1 := fitObs_hom (subLSP_hom (problemLSP (U := U) (s := s) x o) (Fixed P.Yw P.eps P.w)
    (preserved_seq x o P.Yw P.eps P.w)) ops nm cfg t Problem.abs
  have h2 := fitObs_hom (abs_hom_seq x o P.Yw P.eps P.w hL) ops nm cfg t id
  exact h1.trans h2.symm

/-- a fit on the parallel problem seen through the same specification -/
theorem fit_par_spec (hL : Lawful U evalF derivF) (sched : Problem U s → Schedule p)
    (hleg : ∀ Q : Problem U s, (sched Q).Legal (derivF Q.params))
    (ops : POps K n p s LLS) (nm : Num K) (cfg : Config K) (P : Problem U s) :
    fitObs Problem.abs (fit (problemLSPPar x o sched) ops nm cfg P) =
      fitObs id (fit (specLSP x o P.Yw P.eps P.w evalF derivF) ops nm cfg P.abs) := by
  let t : { Q : Problem U s // Fixed P.Yw P.eps P.w Q } := ⟨P, rfl, rfl, rfl⟩
  have h1 := fitObs_hom (subLSP_hom (problemLSPPar (U := U) (s := s) x o sched) (Fixed P.Yw P.eps P.w)
    (preserved_par x o P.Yw P.eps P.w sched)) ops nm cfg t Problem.abs
  have h2 := fitObs_hom (abs_hom_par x o P.Yw P.eps P.w hL sched hleg) ops nm cfg t id
  exact h1.trans h2.symm

/-- **c11_fit_eq**: for a model honouring the trait contract, a whole fit of the parallel problem –
under any legal scheduler of the Jacobian's column tasks, which may pick a different order at every
evaluation – returns the same decision (`Ok`/`Err`), the same report (termination, evaluations,
objective) and the same final parameters and cache (residuals, coefficients, decomposition) as the
fit of the sequential problem, for every behaviour of the optimizer's numerical routines. -/
theorem c11_fit_eq (hL : Lawful U evalF derivF) (sched : Problem U s → Schedule p)
    (hleg : ∀ Q : Problem U s, (sched Q).Legal (derivF Q.params))
    (ops : POps K n p s LLS) (nm : Num K) (cfg : Config K) (P : Problem U s) :
    fitObs Problem.abs (fit (problemLSPPar x o sched) ops nm cfg P) =
      fitObs Problem.abs (fit (problemLSP x o) ops nm cfg P) :=
  (fit_par_spec x o hL sched hleg ops nm cfg P).trans (fit_seq_spec x o hL ops nm cfg P).symm

/-- the data, threshold and weights of the problem handed back are those that went in -/
theorem c02_fit_fixed (ops : POps K n p s LLS) (nm : Num K) (cfg : Config K) (P : Problem U s) :
    Fixed P.Yw P.eps P.w (minimize (problemLSP x o) ops nm cfg P).1 :=
  minimize_inv _ _ (preserved_seq x o P.Yw P.eps P.w) ops nm cfg P ⟨rfl, rfl, rfl⟩

/-- the cache of a specification state belongs to its parameters -/
def SpecCoherent (Yw : Mat n s K) (eps : K) (w : Option (Vector K n))
    (evalF : Vector K p → Except E (Mat n m K)) (a : SpecSt n m p s K) : Prop :=
  a.cached = cacheOf x o Yw eps w evalF a.alpha

theorem specCoherent_preserved (Yw : Mat n s K) (eps : K) (w : Option (Vector K n)) :
    Preserved (specLSP x o Yw eps w evalF derivF) (SpecCoherent x o Yw eps w evalF) where
  setParams _ _ _ := rfl
  jacobian _ h := h

/-- **c04_final_cache**: for every termination – success, lost patience, numerical trouble, a
failing derivative – the problem handed back by the optimizer holds exactly the cache that belongs
to the parameters it reports: `cached = cacheOf(α̂)`, i.e. coefficients, residuals and decomposition
computed for `α̂` from this problem's own data, threshold and weights, or nothing at all when the
model does not evaluate at `α̂`.  Never a value that belongs to other parameters. -/
theorem c04_final_cache (hL : Lawful U evalF derivF) (ops : POps K n p s LLS) (nm : Num K)
    (cfg : Config K) (P : Problem U s)
    (h0 : P.cached = cacheOf x o P.Yw P.eps P.w evalF P.params) :
    (minimize (problemLSP x o) ops nm cfg P).1.cached =
      cacheOf x o P.Yw P.eps P.w evalF (minimize (problemLSP x o) ops nm cfg P).1.params := by
  let t : { Q : Problem U s // Fixed P.Yw P.eps P.w Q } := ⟨P, rfl, rfl, rfl⟩
  have hv := minimize_hom (subLSP_hom (problemLSP (U := U) (s := s) x o) (Fixed P.Yw P.eps P.w)
    (preserved_seq x o P.Yw P.eps P.w)) ops nm cfg t
  have ha := minimize_hom (abs_hom_seq (evalF := evalF) (derivF := derivF) x o P.Yw P.eps P.w hL) ops nm cfg t
  have hinv := minimize_inv (specLSP x o P.Yw P.eps P.w evalF derivF) _
    (specCoherent_preserved (derivF := derivF) x o P.Yw P.eps P.w) ops nm cfg P.abs h0
  have e1 : (minimize (problemLSP x o) ops nm cfg P).1 =
      (minimize (subLSP (problemLSP (U := U) (s := s) x o) (Fixed P.Yw P.eps P.w)
        (preserved_seq x o P.Yw P.eps P.w)) ops nm cfg t).1.1 := by
    have := congrArg Prod.fst hv
    exact this
  have e2 : (minimize (specLSP x o P.Yw P.eps P.w evalF derivF) ops nm cfg P.abs).1 =
      (minimize (subLSP (problemLSP (U := U) (s := s) x o) (Fixed P.Yw P.eps P.w)
        (preserved_seq x o P.Yw P.eps P.w)) ops nm cfg t).1.1.abs := by
    have := congrArg Prod.fst ha
    exact this
  rw [e2] at hinv
  rw [e1]
  exact hinv

/-- a freshly built problem starts coherent (C18 / C10) -/
theorem build_coherent (hL : Lawful U evalF derivF) (st0 : U.State) (Y : Mat n s K)
    (w : Option (Vector K n)) (eps : K) :
    (Problem.build x o st0 Y w eps : Problem U s).cached =
      cacheOf x o (wmul w Y) eps w evalF (U.params st0) ∧
    (Problem.build x o st0 Y w eps : Problem U s).params = U.params st0 := by
  have := abs_setParams x o hL
    ({ Yw := wmul w Y, st := st0, eps := eps, w := w, cached := none } : Problem U s) (U.params st0)
  unfold Problem.build
  constructor
  · exact congrArg SpecSt.cached this
  · exact congrArg SpecSt.alpha this

/-- **c10_fit_fresh**: the cache of the problem a fit hands back is the cache of a problem freshly
built from the same observations, weights and threshold on a model that holds the reported
parameters – nothing of the optimizer's path (accepted and rejected trials, their order, failed
evaluations on the way) is left in it. -/
theorem c10_fit_fresh (hL : Lawful U evalF derivF) (ops : POps K n p s LLS) (nm : Num K)
    (cfg : Config K) (st0 : U.State) (Y : Mat n s K) (w : Option (Vector K n)) (eps : K)
    (stF : U.State)
    (hF : U.params stF = (minimize (problemLSP x o) ops nm cfg (Problem.build x o st0 Y w eps : Problem U s)).1.params) :
    (minimize (problemLSP x o) ops nm cfg (Problem.build x o st0 Y w eps : Problem U s)).1.cached =
      (Problem.build x o stF Y w eps : Problem U s).cached := by
  obtain ⟨hb, hp⟩ := build_coherent (s := s) x o hL st0 Y w eps
  have hfix : (Problem.build x o st0 Y w eps : Problem U s).Yw = wmul w Y ∧
      (Problem.build x o st0 Y w eps : Problem U s).eps = eps ∧
      (Problem.build x o st0 Y w eps : Problem U s).w = w := by
    unfold Problem.build
    exact setParams_fixed x o _ _
  have h0 : (Problem.build x o st0 Y w eps : Problem U s).cached =
      cacheOf x o (Problem.build x o st0 Y w eps : Problem U s).Yw
        (Problem.build x o st0 Y w eps : Problem U s).eps
        (Problem.build x o st0 Y w eps : Problem U s).w evalF
        (Problem.build x o st0 Y w eps : Problem U s).params := by
    rw [hfix.1, hfix.2.1, hfix.2.2, hp]; exact hb
  have := c04_final_cache x o hL ops nm cfg _ h0
  rw [this, hfix.1, hfix.2.1, hfix.2.2, ← hF]
  exact (build_coherent (s := s) x o hL stF Y w eps).1.symm

end e2e
end Varpro
