import VarproModel.Props.Refine
import VarproModel.Props.C01
import VarproModel.Props.C04Run
/-!
# End-to-end theorems: a whole `fit` on varpro's own problem

The optimizer model (`Core/LM`), varpro's problem (`Core/Problem`) and the trait contract of the
user's model (`Lawful`) are composed through the refinement of `Props/Refine`:

* `c11_fit_eq`   a parallel problem under any legal scheduler and the sequential problem yield the
                 same decision, the same report and the same final `(α, cache)`;
* `c04_final_cache`  whatever the termination, the problem handed back by `fit` holds exactly the
                 cache that belongs to the parameters it reports (or none), and its data, threshold
                 and weights are those of the problem that went in (C02, C04, C09, C10);
* `c04_e2e`      a successful fit: `Ĉ = C(α̂)` by the truncated solve for `W·Φ(α̂)`, residuals
                 `= W∘Y − W·Φ(α̂)·Ĉ`, objective `= ½‖residuals‖²` and not above the initial objective,
                 evaluations within budget;
* `c10_fit_fresh`   the final state equals that of a freshly built problem at `α̂`.
-/
namespace Varpro
open LM
set_option linter.unusedSectionVars false

section obs
variable {T T' T'' K Vx Vr J LLS : Type}
variable [Add K] [Sub K] [Mul K] [Div K] [Neg K] [Zero K] [One K] [LT K] [LE K]
  [DecidableLT K] [DecidableLE K] [DecidableEq K]

/-- what an outside observer sees of a fit: `Ok`/`Err`, the report, an image of the final problem -/
def fitObs (g : T → T') : Except (FitResult T K) (FitResult T K) → Bool × Report K × T'
  | .ok r => (true, r.report, g r.problem)
  | .error r => (false, r.report, g r.problem)

theorem fitObs_hom {P : LSP T K Vx Vr J} {P' : LSP T' K Vx Vr J} {f : T → T'} (h : Hom P P' f)
    (o : Ops K Vx Vr J LLS) (nm : Num K) (cfg : Config K) (t : T) (g : T' → T'') :
    fitObs g (fit P' o nm cfg (f t)) = fitObs (fun a => g (f a)) (fit P o nm cfg t) := by
  rw [fit_hom h]
  cases fit P o nm cfg t <;> rfl

/-- the problem inside a fit result is the optimizer's final problem -/
theorem fit_problem (P : LSP T K Vx Vr J) (o : Ops K Vx Vr J LLS) (nm : Num K) (cfg : Config K) (t : T)
    (g : T → T') : (fitObs g (fit P o nm cfg t)).2.2 = g (minimize P o nm cfg t).1 := by
  unfold fit
  simp only
  split <;> rfl
end obs

section e2e
variable {K E : Type} {n m p s : Nat} {U : UserModel n m p K E}
variable [Add K] [Sub K] [Mul K] [Div K] [Neg K] [Zero K] [One K] [LT K] [LE K]
  [DecidableLT K] [DecidableLE K] [DecidableEq K]
variable {LLS : Type}
variable (x : Ext K) (o : XOps K)
variable {evalF : Vector K p → Except E (Mat n m K)}
variable {derivF : Vector K p → Fin p → Except E (Mat n m K)}

abbrev POps (K : Type) (n p s : Nat) (LLS : Type) :=
  Ops K (Vector K p) (Vector K (n * s)) (Mat (n * s) p K) LLS

/-- a fit on the sequential problem seen through the specification -/
theorem fit_seq_spec (hL : Lawful U evalF derivF) (ops : POps K n p s LLS) (nm : Num K) (cfg : Config K)
    (P : Problem U s) :
    fitObs Problem.abs (fit (problemLSP x o) ops nm cfg P) =
      fitObs id (fit (specLSP x o P.Yw P.eps P.w evalF derivF) ops nm cfg P.abs) := by
  let t : { Q : Problem U s // Fixed P.Yw P.eps P.w Q } := ⟨P, rfl, rfl, rfl⟩
  have h1 := fitObs_hom (subLSP_hom (problemLSP (U := U) (s := s) x o) (Fixed P.Yw P.eps P.w)
    (preserved_seq x o P.Yw P.eps P.w)) ops nm cfg t Problem.abs
  have h2 := fitObs_hom (abs_hom_seq x o P.Yw P.eps P.w hL) ops nm cfg t id
  exact h1.trans h2.symm

/-- a fit on the parallel problem seen through the same specification -/
theorem fit_par_spec (hL : Lawful U evalF derivF) (sched : Problem U s → Schedule p)
    (hleg : ∀ Q : Problem U s, (sched Q).Legal (derivF Q.params))
    (ops : POps K n p s LLS) (nm : Num K) (cfg : Config K) (P : Problem U s) :
    fitObs Problem.abs (fit (problemLSPPar x o sched) ops nm cfg P) =
      fitObs id (fit (specLSP x o P.Yw P.eps P.w evalF derivF) ops nm cfg P.abs) := by
  let t : { Q : Problem U s // Fixed P.Yw P.eps P.w Q } := ⟨P, rfl, rfl, rfl⟩
  have h1 := fitObs_hom (subLSP_hom (problemLSPPar (U := U) (s := s) x o sched) (Fixed P.Yw P.eps P.w)
    (preserved_par x o P.Yw P.eps P.w sched)) ops nm cfg t Problem.abs
  have h2 := fitObs_hom (abs_hom_par x o P.Yw P.eps P.w hL sched hleg) ops nm cfg t id
  exact h1.trans h2.symm

/-- **c11_fit_eq**: for a model honouring the trait contract, a whole fit of the parallel problem –
under any legal scheduler of the Jacobian's column tasks, which may pick a different order at every
evaluation – returns the same decision (`Ok`/`Err`), the same report (termination, evaluations,
objective) and the same final parameters and cache (residuals, coefficients, decomposition) as the
fit of the sequential problem, for every behaviour of the optimizer's numerical routines. -/
theorem c11_fit_eq (hL : Lawful U evalF derivF) (sched : Problem U s → Schedule p)
    (hleg : ∀ Q : Problem U s, (sched Q).Legal (derivF Q.params))
    (ops : POps K n p s LLS) (nm : Num K) (cfg : Config K) (P : Problem U s) :
    fitObs Problem.abs (fit (problemLSPPar x o sched) ops nm cfg P) =
      fitObs Problem.abs (fit (problemLSP x o) ops nm cfg P) :=
  (fit_par_spec x o hL sched hleg ops nm cfg P).trans (fit_seq_spec x o hL ops nm cfg P).symm

/-- the data, threshold and weights of the problem handed back are those that went in -/
theorem c02_fit_fixed (ops : POps K n p s LLS) (nm : Num K) (cfg : Config K) (P : Problem U s) :
    Fixed P.Yw P.eps P.w (minimize (problemLSP x o) ops nm cfg P).1 :=
  minimize_inv _ _ (preserved_seq x o P.Yw P.eps P.w) ops nm cfg P ⟨rfl, rfl, rfl⟩

/-- the cache of a specification state belongs to its parameters -/
def SpecCoherent (Yw : Mat n s K) (eps : K) (w : Option (Vector K n))
    (evalF : Vector K p → Except E (Mat n m K)) (a : SpecSt n m p s K) : Prop :=
  a.cached = cacheOf x o Yw eps w evalF a.alpha

theorem specCoherent_preserved (Yw : Mat n s K) (eps : K) (w : Option (Vector K n)) :
    Preserved (specLSP x o Yw eps w evalF derivF) (SpecCoherent x o Yw eps w evalF) where
  setParams _ _ _ := rfl
  jacobian _ h := h

/-- **c04_final_cache**: for every termination – success, lost patience, numerical trouble, a
failing derivative – the problem handed back by the optimizer holds exactly the cache that belongs
to the parameters it reports: `cached = cacheOf(α̂)`, i.e. coefficients, residuals and decomposition
computed for `α̂` from this problem's own data, threshold and weights, or nothing at all when the
model does not evaluate at `α̂`.  Never a value that belongs to other parameters. -/
theorem c04_final_cache (hL : Lawful U evalF derivF) (ops : POps K n p s LLS) (nm : Num K)
    (cfg : Config K) (P : Problem U s)
    (h0 : P.cached = cacheOf x o P.Yw P.eps P.w evalF P.params) :
    (minimize (problemLSP x o) ops nm cfg P).1.cached =
      cacheOf x o P.Yw P.eps P.w evalF (minimize (problemLSP x o) ops nm cfg P).1.params := by
  let t : { Q : Problem U s // Fixed P.Yw P.eps P.w Q } := ⟨P, rfl, rfl, rfl⟩
  have hv := minimize_hom (subLSP_hom (problemLSP (U := U) (s := s) x o) (Fixed P.Yw P.eps P.w)
    (preserved_seq x o P.Yw P.eps P.w)) ops nm cfg t
  have ha := minimize_hom (abs_hom_seq (evalF := evalF) (derivF := derivF) x o P.Yw P.eps P.w hL) ops nm cfg t
  have hinv := minimize_inv (specLSP x o P.Yw P.eps P.w evalF derivF) _
    (specCoherent_preserved (derivF := derivF) x o P.Yw P.eps P.w) ops nm cfg P.abs h0
  have e1 : (minimize (problemLSP x o) ops nm cfg P).1 =
      (minimize (subLSP (problemLSP (U := U) (s := s) x o) (Fixed P.Yw P.eps P.w)
        (preserved_seq x o P.Yw P.eps P.w)) ops nm cfg t).1.1 := by
    have := congrArg Prod.fst hv
    exact this
  have e2 : (minimize (specLSP x o P.Yw P.eps P.w evalF derivF) ops nm cfg P.abs).1 =
      (minimize (subLSP (problemLSP (U := U) (s := s) x o) (Fixed P.Yw P.eps P.w)
        (preserved_seq x o P.Yw P.eps P.w)) ops nm cfg t).1.1.abs := by
    have := congrArg Prod.fst ha
    exact this
  rw [e2] at hinv
  rw [e1]
  exact hinv

/-- a freshly built problem starts coherent (C18 / C10) -/
theorem build_coherent (hL : Lawful U evalF derivF) (st0 : U.State) (Y : Mat n s K)
    (w : Option (Vector K n)) (eps : K) :
    (Problem.build x o st0 Y w eps : Problem U s).cached =
      cacheOf x o (wmul w Y) eps w evalF (U.params st0) ∧
    (Problem.build x o st0 Y w eps : Problem U s).params = U.params st0 := by
  have := abs_setParams x o hL
    ({ Yw := wmul w Y, st := st0, eps := eps, w := w, cached := none } : Problem U s) (U.params st0)
  unfold Problem.build
  constructor
  · exact congrArg SpecSt.cached this
  · exact congrArg SpecSt.alpha this

/-- **c10_fit_fresh**: the cache of the problem a fit hands back is the cache of a problem freshly
built from the same observations, weights and threshold on a model that holds the reported
parameters – nothing of the optimizer's path (accepted and rejected trials, their order, failed
evaluations on the way) is left in it. -/
theorem c10_fit_fresh (hL : Lawful U evalF derivF) (ops : POps K n p s LLS) (nm : Num K)
    (cfg : Config K) (st0 : U.State) (Y : Mat n s K) (w : Option (Vector K n)) (eps : K)
    (stF : U.State)
    (hF : U.params stF = (minimize (problemLSP x o) ops nm cfg (Problem.build x o st0 Y w eps : Problem U s)).1.params) :
    (minimize (problemLSP x o) ops nm cfg (Problem.build x o st0 Y w eps : Problem U s)).1.cached =
      (Problem.build x o stF Y w eps : Problem U s).cached := by
  obtain ⟨hb, hp⟩ := build_coherent (s := s) x o hL st0 Y w eps
  have hfix : (Problem.build x o st0 Y w eps : Problem U s).Yw = wmul w Y ∧
      (Problem.build x o st0 Y w eps : Problem U s).eps = eps ∧
      (Problem.build x o st0 Y w eps : Problem U s).w = w := by
    unfold Problem.build
    exact setParams_fixed x o _ _
  have h0 : (Problem.build x o st0 Y w eps : Problem U s).cached =
      cacheOf x o (Problem.build x o st0 Y w eps : Problem U s).Yw
        (Problem.build x o st0 Y w eps : Problem U s).eps
        (Problem.build x o st0 Y w eps : Problem U s).w evalF
        (Problem.build x o st0 Y w eps : Problem U s).params := by
    rw [hfix.1, hfix.2.1, hfix.2.2, hp]; exact hb
  have := c04_final_cache x o hL ops nm cfg _ h0
  rw [this, hfix.1, hfix.2.1, hfix.2.2, ← hF]
  exact (build_coherent (s := s) x o hL stF Y w eps).1.symm

end e2e

section c06
variable {K E : Type} {n m p s : Nat} {U : UserModel n m p K E}
variable [Add K] [Sub K] [Mul K] [Div K] [Neg K] [Zero K] [One K] [LT K] [LE K]
  [DecidableLT K] [DecidableLE K] [DecidableEq K]
variable {LLS : Type}
variable (x : Ext K) (o : XOps K)
variable {evalF : Vector K p → Except E (Mat n m K)}
variable {derivF : Vector K p → Fin p → Except E (Mat n m K)}

/-- scale the rows of a successfully evaluated matrix -/
def scaleE (w : Vector K n) : Except E (Mat n m K) → Except E (Mat n m K)
  | .error e => .error e
  | .ok A => .ok (Mat.rowScale w A)

/-- the model whose basis functions and derivatives have row `i` multiplied by `w_i` -/
def UserModel.rowScaled (U : UserModel n m p K E) (w : Vector K n) : UserModel n m p K E where
  State := U.State
  setParams := U.setParams
  params := U.params
  eval st := ((U.eval st).1, scaleE w (U.eval st).2)
  deriv st k := ((U.deriv st k).1, scaleE w (U.deriv st k).2)

theorem rowScaled_lawful (hL : Lawful U evalF derivF) (w : Vector K n) :
    Lawful (U.rowScaled w) (fun α => scaleE w (evalF α)) (fun α k => scaleE w (derivF α k)) where
  set_ok := hL.set_ok
  set_params := hL.set_params
  eval_val st := congrArg (scaleE w) (hL.eval_val (st : U.State))
  eval_params := hL.eval_params
  deriv_val st k := congrArg (scaleE w) (hL.deriv_val (st : U.State) k)
  deriv_params := hL.deriv_params

theorem derivList_scaled (w : Vector K n) (α : Vector K p) (ks : List (Fin p)) :
    derivList (fun α k => scaleE w (derivF α k)) α ks =
      (derivList derivF α ks).map (List.map fun kd => (kd.1, Mat.rowScale w kd.2)) := by
  induction ks with
  | nil => rfl
  | cons k rest ih =>
    simp only [derivList]
    rw [ih]
    cases derivF α k with
    | error e => rfl
    | ok D =>
      simp only [scaleE]
      cases derivList derivF α rest <;> rfl

theorem blockOf_scaled (w : Vector K n) (c : Cache n m s K) (ds : List (Fin p × Mat n m K)) (k : Fin p) :
    blockOf none c (ds.map fun kd => (kd.1, Mat.rowScale w kd.2)) k = blockOf (some w) c ds k := by
  unfold blockOf
  induction ds with
  | nil => rfl
  | cons d rest ih =>
    simp only [List.map_cons, List.find?_cons]
    by_cases hk : d.1 = k
    · simp only [hk, decide_true]; rfl
    · simp only [hk, decide_false]; exact ih

theorem cacheOf_scaled (w : Vector K n) (Y : Mat n s K) (eps : K) (α : Vector K p) :
    cacheOf x o (wmul (some w) Y) eps (some w) evalF α =
      cacheOf x o (wmul none (Mat.rowScale w Y)) eps none (fun α => scaleE w (evalF α)) α := by
  have e1 : wmul (some w) Y = wmul none (Mat.rowScale w Y) := rfl
  have e2 : ∀ Phi : Mat n m K, wmul (some w) Phi = wmul none (Mat.rowScale w Phi) := fun _ => rfl
  unfold cacheOf
  rw [e1]
  beta_reduce
  cases evalF α with
  | error e => rfl
  | ok Phi => simp only [scaleE, e2]

theorem jacOf_scaled (w : Vector K n) (α : Vector K p) (c : Cache n m s K) :
    jacOf (some w) derivF α c = jacOf none (fun α k => scaleE w (derivF α k)) α c := by
  unfold jacOf
  rw [derivList_scaled]
  cases derivList derivF α (List.finRange p) with
  | none => simp only [Option.map_none]
  | some ds =>
    simp only [Option.map_some]
    have hb : blockOf (some w) c ds = blockOf none c (ds.map fun kd => (kd.1, Mat.rowScale w kd.2)) :=
      funext fun k => (blockOf_scaled w c ds k).symm
    rw [hb]

/-- the weighted problem and the row-scaled unweighted problem have literally the same
specification -/
theorem spec_weighted_eq_scaled (w : Vector K n) (Y : Mat n s K) (eps : K) :
    specLSP x o (wmul (some w) Y) eps (some w) evalF derivF =
      specLSP x o (wmul none (Mat.rowScale w Y)) eps none
        (fun α => scaleE w (evalF α)) (fun α k => scaleE w (derivF α k)) := by
  have h1 : (specLSP x o (wmul (some w) Y) eps (some w) evalF derivF).setParams =
      (specLSP x o (wmul none (Mat.rowScale w Y)) eps none
        (fun α => scaleE w (evalF α)) (fun α k => scaleE w (derivF α k))).setParams := by
    funext a α
    show ({ alpha := α, cached := _ } : SpecSt n m p s K) = { alpha := α, cached := _ }
    rw [cacheOf_scaled]
  have h2 : (specLSP x o (wmul (some w) Y) eps (some w) evalF derivF).jacobian =
      (specLSP x o (wmul none (Mat.rowScale w Y)) eps none
        (fun α => scaleE w (evalF α)) (fun α k => scaleE w (derivF α k))).jacobian := by
    funext a
    have hj : (jacOf (some w) derivF a.alpha : Cache n m s K → Option (Mat (n * s) p K)) =
        jacOf none (fun α k => scaleE w (derivF α k)) a.alpha :=
      funext fun c => jacOf_scaled w a.alpha c
    show (a, a.cached.bind (jacOf (some w) derivF a.alpha)) = (a, a.cached.bind _)
    rw [hj]
  cases hA : specLSP x o (wmul (some w) Y) eps (some w) evalF derivF with
  | mk sA pA rA jA =>
    cases hB : specLSP x o (wmul none (Mat.rowScale w Y)) eps none
        (fun α => scaleE w (evalF α)) (fun α k => scaleE w (derivF α k)) with
    | mk sB pB rB jB =>
      rw [hA, hB] at h1 h2
      simp only at h1 h2
      have h3 : pA = pB := by
        have ea := congrArg LSP.params hA; have eb := congrArg LSP.params hB
        simp only at ea eb
        rw [← ea, ← eb]; rfl
      have h4 : rA = rB := by
        have ea := congrArg LSP.residuals hA; have eb := congrArg LSP.residuals hB
        simp only at ea eb
        rw [← ea, ← eb]; rfl
      rw [h1, h2, h3, h4]

/-- **c06_fit_equiv**: for a model honouring the trait contract, the whole fit of the problem with
diagonal weights `w` and the whole fit of the unweighted problem whose basis functions, derivatives
and observations have each row `i` multiplied by `w_i` give the same decision, the same report
(termination, evaluations, objective) and the same final parameters, coefficients, residuals and
decomposition – for every behaviour of the optimizer's numerical routines. -/
theorem c06_fit_equiv (hL : Lawful U evalF derivF) (ops : POps K n p s LLS) (nm : Num K) (cfg : Config K)
    (w : Vector K n) (Y : Mat n s K) (eps : K) (st0 : U.State) :
    fitObs Problem.abs (fit (problemLSP x o) ops nm cfg
        (Problem.build x o st0 Y (some w) eps : Problem U s)) =
      fitObs Problem.abs (fit (problemLSP x o) ops nm cfg
        (Problem.build x o st0 (Mat.rowScale w Y) none eps : Problem (U.rowScaled w) s)) := by
  have hL' := rowScaled_lawful hL w
  rw [fit_seq_spec x o hL, fit_seq_spec x o hL']
  have fixA : (Problem.build x o st0 Y (some w) eps : Problem U s).Yw = wmul (some w) Y ∧
      (Problem.build x o st0 Y (some w) eps : Problem U s).eps = eps ∧
      (Problem.build x o st0 Y (some w) eps : Problem U s).w = some w := by
    unfold Problem.build; exact setParams_fixed x o _ _
  have fixB : (Problem.build x o st0 (Mat.rowScale w Y) none eps : Problem (U.rowScaled w) s).Yw
        = wmul none (Mat.rowScale w Y) ∧
      (Problem.build x o st0 (Mat.rowScale w Y) none eps : Problem (U.rowScaled w) s).eps = eps ∧
      (Problem.build x o st0 (Mat.rowScale w Y) none eps : Problem (U.rowScaled w) s).w = none := by
    unfold Problem.build; exact setParams_fixed x o _ _
  rw [fixA.1, fixA.2.1, fixA.2.2, fixB.1, fixB.2.1, fixB.2.2, spec_weighted_eq_scaled]
  have habs : (Problem.build x o st0 Y (some w) eps : Problem U s).abs =
      (Problem.build x o st0 (Mat.rowScale w Y) none eps : Problem (U.rowScaled w) s).abs := by
    obtain ⟨a1, a2⟩ := build_coherent (s := s) x o hL st0 Y (some w) eps
    obtain ⟨b1, b2⟩ := build_coherent (s := s) x o hL' st0 (Mat.rowScale w Y) none eps
    unfold Problem.abs
    rw [a1, a2, b1, b2]
    congr 1
    exact cacheOf_scaled x o w Y eps (U.params st0)
  rw [habs]

end c06

section field
variable {K E : Type} [Field K] [LinearOrder K] [IsStrictOrderedRing K] {n m p s : Nat}
variable {U : UserModel n m p K E} {LLS : Type}
variable (x : Ext K) (o : XOps K)
variable {evalF : Vector K p → Except E (Mat n m K)}
variable {derivF : Vector K p → Fin p → Except E (Mat n m K)}

/-- the optimizer's report on the real problem is its report on the specification -/
theorem minimize_report_spec (hL : Lawful U evalF derivF) (ops : POps K n p s LLS) (nm : Num K)
    (cfg : Config K) (P : Problem U s) :
    (minimize (specLSP x o P.Yw P.eps P.w evalF derivF) ops nm cfg P.abs).2 =
      (minimize (problemLSP x o) ops nm cfg P).2 ∧
    (minimize (specLSP x o P.Yw P.eps P.w evalF derivF) ops nm cfg P.abs).1 =
      (minimize (problemLSP x o) ops nm cfg P).1.abs := by
  let t : { Q : Problem U s // Fixed P.Yw P.eps P.w Q } := ⟨P, rfl, rfl, rfl⟩
  have hv := minimize_hom (subLSP_hom (problemLSP (U := U) (s := s) x o) (Fixed P.Yw P.eps P.w)
    (preserved_seq x o P.Yw P.eps P.w)) ops nm cfg t
  have ha := minimize_hom (abs_hom_seq (evalF := evalF) (derivF := derivF) x o P.Yw P.eps P.w hL) ops nm cfg t
  have hv' : minimize (problemLSP x o) ops nm cfg P = _ := hv
  have ha' : minimize (specLSP x o P.Yw P.eps P.w evalF derivF) ops nm cfg P.abs = _ := ha
  rw [hv', ha']
  exact ⟨rfl, rfl⟩

/-- the residuals the specification exposes at `α` -/
def specResiduals (Yw : Mat n s K) (eps : K) (w : Option (Vector K n))
    (evalF : Vector K p → Except E (Mat n m K)) (α : Vector K p) : Option (Vector K (n * s)) :=
  (cacheOf x o Yw eps w evalF α).map fun c => c.residuals.vec

theorem spec_laws (Yw : Mat n s K) (eps : K) (w : Option (Vector K n)) :
    LSPLaws (specLSP x o Yw eps w evalF derivF) (specResiduals x o Yw eps w evalF) :=
  ⟨fun _ _ => rfl, fun _ _ => rfl, fun _ => rfl, fun _ => rfl⟩

/-- **c04_e2e**: a successful `fit` of varpro's problem, end to end.  For a model honouring the trait
contract, every behaviour of the optimizer's numerical routines, every SVD routine, all shapes: if
`fit` returns `Ok(result)` for a problem whose cache belonged to its parameters (any built problem),
then at the reported parameters `α̂` the model evaluates to some `Φ`, and the result carries
coefficients `Ĉ` that are the truncated least-squares solution for `W·Φ(α̂)` against this problem's
weighted data (so every clause of C01 applies to them), residuals `= W∘Y − (W·Φ(α̂))·Ĉ`, a reported
objective `= ½‖residuals‖²` which is not above the objective at the initial guess, and an evaluation
count within the budget `patience·(P+1)`. -/
theorem c04_e2e (hL : Lawful U evalF derivF) (ops : POps K n p s LLS) (nm : Num K) (cfg : Config K)
    (hl : NumLaws ops nm) (P : Problem U s)
    (h0 : P.cached = cacheOf x o P.Yw P.eps P.w evalF P.params)
    (r : FitResult (Problem U s) K) (hfit : fit (problemLSP x o) ops nm cfg P = .ok r) :
    ∃ Phi c, evalF r.problem.params = .ok Phi ∧ r.problem.cached = some c ∧
      0 ≤ P.eps ∧
      c.coeff = solveTruncVal (x.svd n m (wmul P.w Phi)) P.Yw P.eps ∧
      c.residuals = P.Yw.sub ((wmul P.w Phi).mul c.coeff) ∧
      r.report.objective = some (ops.enormR c.residuals.vec * ops.enormR c.residuals.vec * nm.half) ∧
      (∀ r0, P.residuals = some r0 → ∀ v, r.report.objective = some v →
          v ≤ ops.enormR r0 * ops.enormR r0 * nm.half) ∧
      r.report.evaluations ≤ max (cfg.patience * (ops.lenX P.params + 1)) 2 := by
  -- what `Ok` means
  have hdec := c04_ok_iff (problemLSP (U := U) (s := s) x o) ops nm cfg P
  simp only at hdec
  set mr := minimize (problemLSP (U := U) (s := s) x o) ops nm cfg P with hmr
  set rep := finalReport (problemLSP (U := U) (s := s) x o) mr.1 mr.2 with hrep
  have hsucc : rep.termination.wasSuccessful = true := by
    cases hb : rep.termination.wasSuccessful with
    | true => rfl
    | false => rw [hdec.2 hb] at hfit; cases hfit
  have hr : r = { problem := mr.1, report := rep } := by
    rw [hdec.1 hsucc] at hfit; exact (Except.ok.inj hfit).symm
  subst hr
  obtain ⟨hev, hobj, hpres, _, hsome⟩ := c04_report (problemLSP (U := U) (s := s) x o) mr.1 mr.2
  have hres : ((problemLSP (U := U) (s := s) x o).residuals mr.1).isSome = true := hsome hsucc
  have hrepeq : rep = mr.2 := hpres hres
  -- the final cache belongs to the final parameters
  have hcache := c04_final_cache x o hL ops nm cfg P h0
  rw [← hmr] at hcache
  cases hc : mr.1.cached with
  | none =>
    have : (problemLSP (U := U) (s := s) x o).residuals mr.1 = none := by
      show mr.1.residuals = none
      simp [Problem.residuals, hc]
    rw [this] at hres; cases hres
  | some c =>
    rw [hc] at hcache
    unfold cacheOf at hcache
    cases hPhi : evalF mr.1.params with
    | error e => rw [hPhi] at hcache; cases hcache
    | ok Phi =>
      rw [hPhi] at hcache
      obtain ⟨heps, _, hcoef, hresid⟩ := computeCache_some x o P.Yw P.eps (wmul P.w Phi) c hcache.symm
      refine ⟨Phi, c, rfl, rfl, heps, hcoef, hresid, ?_, ?_, ?_⟩
      · -- objective: through the specification
        obtain ⟨hrs, hps⟩ := minimize_report_spec (evalF := evalF) (derivF := derivF) x o hL ops nm cfg P
        rw [← hmr] at hrs hps
        have hs' : (minimize (specLSP x o P.Yw P.eps P.w evalF derivF) ops nm cfg P.abs).2.termination.wasSuccessful = true := by
          rw [hrs, ← hrepeq]; exact hsucc
        have hinit : (specLSP x o P.Yw P.eps P.w evalF derivF).residuals P.abs =
            specResiduals x o P.Yw P.eps P.w evalF ((specLSP x o P.Yw P.eps P.w evalF derivF).params P.abs) := by
          show P.cached.map _ = (cacheOf x o P.Yw P.eps P.w evalF P.params).map _
          rw [h0]
        obtain ⟨rr, h1, _, h3⟩ := c04_coherent (specLSP x o P.Yw P.eps P.w evalF derivF) ops nm cfg
          (specResiduals x o P.Yw P.eps P.w evalF) (spec_laws (derivF := derivF) x o P.Yw P.eps P.w)
          P.abs hinit hs'
        rw [hps] at h1
        have hrr : rr = c.residuals.vec := by
          have : (specLSP x o P.Yw P.eps P.w evalF derivF).residuals mr.1.abs = some c.residuals.vec := by
            show mr.1.cached.map _ = _
            rw [hc]; rfl
          rw [this] at h1
          exact (Option.some.inj h1).symm
        show rep.objective = _
        rw [hrepeq, ← hrs, h3, hrr]
      · intro r0 hr0 v hv
        have hv' : mr.2.objective = some v := by rw [← hrepeq]; exact hv
        exact c04_monotone (problemLSP (U := U) (s := s) x o) ops nm cfg hl P r0 hr0 v (by rw [← hmr]; exact hv')
      · show rep.evaluations ≤ _
        rw [hev]
        exact (c04_budget (problemLSP (U := U) (s := s) x o) ops nm cfg P).2

end field
end Varpro
