import VarproModel.Props.E2E
import VarproModel.Props.SepLawful
/-!
# End to end for builder-made models

`c04_e2e`, `c04_final_cache`, `c11_fit_eq`, … assume `Lawful`; for whatever an accepted
`SeparableModelBuilder` session returns this is a theorem (`sep_lawful`), so the statements hold for
the library's own model type without any assumption on the model – only on the user's functions
being functions (which `Sem` expresses).
-/
namespace Varpro
open MB LM
variable {N F G X K : Type} [DecidableEq N] [Field K] [LinearOrder K] [IsStrictOrderedRing K]
variable {LLS : Type} {n m s : Nat}

/-- **c04_e2e_builder**: the end-to-end statement of a successful fit for a problem over a
builder-made model, for every accepted builder session. -/
theorem c04_e2e_builder (sem : Sem F G X K (List K)) (hc : N → Bool) (names : List N)
    (calls : List (Call N F G X K)) (m0 : Model N F G X K)
    (hrun : run hc sem.arity names calls = .ok m0)
    (hz : ∀ k, sem.vlen (sem.zeroV k) = k)
    (x : Ext K) (o : XOps K) (ops : POps K n names.length s LLS) (nm : Num K) (cfg : Config K)
    (hl : NumLaws ops nm) (P : Problem (sepUserModel sem m0 n m names.length) s)
    (h0 : P.cached = cacheOf x o P.Yw P.eps P.w (sepEvalF sem m0 n m names.length) P.params)
    (r : FitResult (Problem (sepUserModel sem m0 n m names.length) s) K)
    (hfit : fit (problemLSP x o) ops nm cfg P = .ok r) :
    ∃ Phi c, sepEvalF sem m0 n m names.length r.problem.params = .ok Phi ∧
      r.problem.cached = some c ∧ 0 ≤ P.eps ∧
      c.coeff = solveTruncVal (x.svd n m (wmul P.w Phi)) P.Yw P.eps ∧
      c.residuals = P.Yw.sub ((wmul P.w Phi).mul c.coeff) ∧
      r.report.objective = some (ops.enormR c.residuals.vec * ops.enormR c.residuals.vec * nm.half) ∧
      (∀ r0, P.residuals = some r0 → ∀ v, r.report.objective = some v →
          v ≤ ops.enormR r0 * ops.enormR r0 * nm.half) ∧
      r.report.evaluations ≤ max (cfg.patience * (ops.lenX P.params + 1)) 2 := by
  have hnames : m0.names.length = names.length := by
    obtain ⟨h, _⟩ := c16_refines_spec sem hc names calls m0 hrun
      (List.replicate names.length (0 : K)) (by simp) hz
    rw [h]
  exact c04_e2e x o (sep_lawful sem m0 n m names.length hnames) ops nm cfg hl P h0 r hfit

end Varpro
