import VarproModel.Core.FitProblem
import VarproModel.Proofs.LMHom
import VarproModel.Props.C11
/-!
# Refinement: varpro's problem, sequential or parallel, refines `specLSP`

For a model honouring the trait contract (`Lawful`), the map `P ↦ (params, cache)` is a
homomorphism from the real problem (with the model's hidden state, under any legal schedule of the
parallel column tasks) to the specification `specLSP`, whose state is just `(α, cache of α)`.
With `minimize_hom` / `fit_hom` every statement about an optimizer run on the specification is a
statement about the run on the real problem: same report, same decision, abstraction of the final
problem.  C04, C06, C10, C11 are corollaries (Props/C04E2E, C11Fit, C06Fit).
-/
namespace Varpro
set_option linter.unusedSectionVars false
variable {K E : Type} {n m p s : Nat} {U : UserModel n m p K E}
variable [Add K] [Sub K] [Mul K] [Div K] [Zero K] [LT K] [DecidableLT K]

/-- the part of a problem no operation ever writes (C02) -/
def Fixed (Yw : Mat n s K) (eps : K) (w : Option (Vector K n)) (P : Problem U s) : Prop :=
  P.Yw = Yw ∧ P.eps = eps ∧ P.w = w

theorem setParams_fixed (x : Ext K) (o : XOps K) (P : Problem U s) (α : Vector K p) :
    (P.setParams x o α).Yw = P.Yw ∧ (P.setParams x o α).eps = P.eps ∧ (P.setParams x o α).w = P.w := by
  unfold Problem.setParams
  cases h1 : U.setParams P.st α with
  | mk st1 r =>
    cases r with
    | error e => exact ⟨rfl, rfl, rfl⟩
    | ok u =>
      simp only
      cases h2 : U.eval st1 with
      | mk st2 r2 => cases r2 <;> exact ⟨rfl, rfl, rfl⟩

theorem jacobianSeq_fixed (P : Problem U s) :
    (P.jacobianSeq).1.Yw = P.Yw ∧ (P.jacobianSeq).1.eps = P.eps ∧ (P.jacobianSeq).1.w = P.w ∧
    (P.jacobianSeq).1.cached = P.cached := by
  unfold Problem.jacobianSeq
  cases hc : P.cached with
  | none => simp [hc]
  | some c =>
    simp only
    cases hd : derivsSeq U P.st (List.finRange p) with
    | mk st1 r => cases r <;> simp [hc]

theorem jacobianPar_fixed (sched : Schedule p) (P : Problem U s) :
    (P.jacobianPar sched).1.Yw = P.Yw ∧ (P.jacobianPar sched).1.eps = P.eps ∧
    (P.jacobianPar sched).1.w = P.w ∧ (P.jacobianPar sched).1.cached = P.cached := by
  unfold Problem.jacobianPar
  cases hc : P.cached with
  | none => simp [hc]
  | some c =>
    simp only
    cases hd : derivsSched U P.st sched.order with
    | mk st1 r =>
      obtain ⟨failed, ds⟩ := r
      simp only
      split <;> simp [hc]

/-! ### derivative calls of a lawful model -/

theorem derivsSeq_lawful {evalF : Vector K p → Except E (Mat n m K)}
    {derivF : Vector K p → Fin p → Except E (Mat n m K)} (hL : Lawful U evalF derivF)
    (st : U.State) (ks : List (Fin p)) :
    (derivsSeq U st ks).2 = derivList derivF (U.params st) ks ∧
    U.params (derivsSeq U st ks).1 = U.params st := by
  induction ks generalizing st with
  | nil => exact ⟨rfl, rfl⟩
  | cons k rest ih =>
    have hv := hL.deriv_val st k
    have hp := hL.deriv_params st k
    simp only [derivsSeq, derivList]
    cases hd : U.deriv st k with
    | mk st1 r =>
      rw [hd] at hv hp
      simp only at hv hp
      rw [← hv]
      cases r with
      | error e => exact ⟨rfl, hp⟩
      | ok D =>
        simp only
        obtain ⟨ih1, ih2⟩ := ih st1
        rw [hp] at ih1 ih2
        cases hr : derivsSeq U st1 rest with
        | mk st2 o =>
          rw [hr] at ih1 ih2
          simp only at ih1 ih2
          rw [← ih1]
          cases o <;> exact ⟨rfl, ih2⟩

theorem derivsSched_params {evalF : Vector K p → Except E (Mat n m K)}
    {derivF : Vector K p → Fin p → Except E (Mat n m K)} (hL : Lawful U evalF derivF)
    (st : U.State) (ks : List (Fin p)) :
    U.params (derivsSched U st ks).1 = U.params st := by
  induction ks generalizing st with
  | nil => rfl
  | cons k rest ih =>
    have hp := hL.deriv_params st k
    simp only [derivsSched]
    cases hd : U.deriv st k with
    | mk st1 r =>
      rw [hd] at hp
      simp only at hp
      have := ih st1
      cases r with
      | error e =>
        simp only
        cases hr : derivsSched U st1 rest with
        | mk st2 fd => obtain ⟨f, ds⟩ := fd; rw [hr] at this; simp only at this ⊢; rw [this, hp]
      | ok D =>
        simp only
        cases hr : derivsSched U st1 rest with
        | mk st2 fd => obtain ⟨f, ds⟩ := fd; rw [hr] at this; simp only at this ⊢; rw [this, hp]

theorem derivList_some_iff (derivF : Vector K p → Fin p → Except E (Mat n m K)) (α : Vector K p)
    (ks : List (Fin p)) :
    (∃ ds, derivList derivF α ks = some ds) ↔ ∀ k ∈ ks, ∃ D, derivF α k = .ok D := by
  induction ks with
  | nil => simp [derivList]
  | cons k rest ih =>
    simp only [derivList, List.mem_cons, forall_eq_or_imp]
    cases hk : derivF α k with
    | error e => simp
    | ok D =>
      simp only [Except.ok.injEq, exists_eq', true_and]
      rw [← ih]
      cases derivList derivF α rest <;> simp

/-! ### the abstraction map is a homomorphism -/

variable (x : Ext K) (o : XOps K) (Yw : Mat n s K) (eps : K) (w : Option (Vector K n))
variable {evalF : Vector K p → Except E (Mat n m K)}
variable {derivF : Vector K p → Fin p → Except E (Mat n m K)}

theorem preserved_seq : LM.Preserved (problemLSP (U := U) (s := s) x o) (Fixed Yw eps w) where
  setParams t v h := by
    obtain ⟨a, b, c⟩ := setParams_fixed x o t v
    exact ⟨a.trans h.1, b.trans h.2.1, c.trans h.2.2⟩
  jacobian t h := by
    obtain ⟨a, b, c, _⟩ := jacobianSeq_fixed t
    exact ⟨a.trans h.1, b.trans h.2.1, c.trans h.2.2⟩

theorem preserved_par (sched : Problem U s → Schedule p) :
    LM.Preserved (problemLSPPar (U := U) (s := s) x o sched) (Fixed Yw eps w) where
  setParams t v h := by
    obtain ⟨a, b, c⟩ := setParams_fixed x o t v
    exact ⟨a.trans h.1, b.trans h.2.1, c.trans h.2.2⟩
  jacobian t h := by
    obtain ⟨a, b, c, _⟩ := jacobianPar_fixed (sched t) t
    exact ⟨a.trans h.1, b.trans h.2.1, c.trans h.2.2⟩

/-- `set_params` on a lawful model, abstractly -/
theorem abs_setParams (hL : Lawful U evalF derivF) (P : Problem U s) (α : Vector K p) :
    (P.setParams x o α).abs =
      { alpha := α, cached := cacheOf x o P.Yw P.eps P.w evalF α } := by
  unfold Problem.setParams Problem.abs Problem.params cacheOf
  have h1 := hL.set_ok P.st α
  have h2 := hL.set_params P.st α
  cases hs : U.setParams P.st α with
  | mk st1 r =>
    rw [hs] at h1 h2
    simp only at h1 h2
    subst h1
    simp only
    have h3 := hL.eval_val st1
    have h4 := hL.eval_params st1
    cases he : U.eval st1 with
    | mk st2 r2 =>
      rw [he] at h3 h4
      simp only at h3 h4
      rw [h2] at h3 h4
      rw [← h3]
      cases r2 <;> simp [h4]

/-- **the sequential problem refines the specification** -/
theorem abs_hom_seq (hL : Lawful U evalF derivF) :
    LM.Hom (LM.subLSP (problemLSP (U := U) (s := s) x o) (Fixed Yw eps w) (preserved_seq x o Yw eps w))
      (specLSP x o Yw eps w evalF derivF) (fun t => t.1.abs) where
  params _ := rfl
  residuals _ := rfl
  setParams t v := by
    obtain ⟨P, hY, he, hw⟩ := t
    show (specLSP x o Yw eps w evalF derivF).setParams P.abs v = (Problem.setParams x o P v).abs
    rw [abs_setParams x o hL P v, hY, he, hw]
    rfl
  jacobian t := by
    obtain ⟨P, hY, he, hw⟩ := t
    show ((P.abs, P.abs.cached.bind (jacOf w derivF P.abs.alpha)) : _ × _) =
      ((P.jacobianSeq).1.abs, (P.jacobianSeq).2)
    unfold Problem.jacobianSeq Problem.abs Problem.params jacOf
    cases hc : P.cached with
    | none => simp [hc]
    | some c =>
      obtain ⟨h1, h2⟩ := derivsSeq_lawful hL P.st (List.finRange p)
      simp only [Option.bind_some]
      cases hd : derivsSeq U P.st (List.finRange p) with
      | mk st1 r =>
        rw [hd] at h1 h2
        simp only at h1 h2
        rw [← h1]
        cases r <;> simp [h2, hc, hw]

/-- a schedule of the parallel column tasks is legal if it executes every task, or stops early only
after an executed task has failed (rayon's `collect::<Result<_, _>>()`) -/
def Schedule.Legal (val : Fin p → Except E (Mat n m K)) (sch : Schedule p) : Prop :=
  (∀ k : Fin p, k ∈ sch.order) ∨ ∃ k ∈ sch.order, ∃ e, val k = .error e

/-- the parallel Jacobian of a lawful model under a legal schedule is the Jacobian of the spec -/
theorem jacobianPar_lawful (hL : Lawful U evalF derivF) (P : Problem U s) (sch : Schedule p)
    (hleg : sch.Legal (derivF P.params)) :
    (P.jacobianPar sch).2 = P.cached.bind (jacOf P.w derivF P.params) ∧
    (P.jacobianPar sch).1.abs = P.abs := by
  have hdet : DerivDet U (fun st => U.params st = P.params) (derivF P.params) :=
    ⟨fun st k hi => ⟨(hL.deriv_params st k).trans hi, by rw [hL.deriv_val st k, hi]⟩⟩
  constructor
  · by_cases hok : ∀ k, ∃ D, derivF P.params k = .ok D
    · -- every derivative evaluates: the schedule is complete, parallel = sequential = spec
      have hall : ∀ k : Fin p, k ∈ sch.order := by
        rcases hleg with h | ⟨k, _, e, he⟩
        · exact h
        · obtain ⟨D, hD⟩ := hok k; rw [hD] at he; cases he
      rw [c11_par_eq_seq P _ _ hdet rfl hok sch hall]
      unfold Problem.jacobianSeq jacOf
      cases hc : P.cached with
      | none => rfl
      | some c =>
        obtain ⟨h1, _⟩ := derivsSeq_lawful hL P.st (List.finRange p)
        simp only [Option.bind_some]
        cases hd : derivsSeq U P.st (List.finRange p) with
        | mk st1 r =>
          rw [hd] at h1
          simp only at h1
          show _ = Option.map _ (derivList derivF (U.params P.st) (List.finRange p))
          rw [← h1]
          cases r <;> rfl
    · -- some derivative fails: both are absent
      have hnone : derivList derivF P.params (List.finRange p) = none := by
        cases hd : derivList derivF P.params (List.finRange p) with
        | none => rfl
        | some ds =>
          exact absurd (fun k => (derivList_some_iff derivF P.params _).mp ⟨ds, hd⟩ k (List.mem_finRange k)) hok
      have hfail : ∃ k ∈ sch.order, ∃ e, derivF P.params k = .error e := by
        rcases hleg with h | h
        · obtain ⟨k, hk⟩ := Classical.not_forall.mp hok
          have hk : ∀ D, ¬ derivF P.params k = .ok D := fun D h => hk ⟨D, h⟩
          cases hv : derivF P.params k with
          | ok D => exact absurd hv (hk D)
          | error e => exact ⟨k, h k, e, hv⟩
        · exact h
      obtain ⟨k, hin, e, he⟩ := hfail
      rw [c11_par_failure P _ _ hdet rfl k e he sch hin]
      cases hc : P.cached with
      | none => rfl
      | some c => simp [jacOf, hnone]
  · obtain ⟨_, _, _, hcache⟩ := jacobianPar_fixed sch P
    unfold Problem.abs Problem.params
    rw [hcache]
    congr 1
    unfold Problem.jacobianPar
    cases hc : P.cached with
    | none => rfl
    | some c =>
      simp only
      have := derivsSched_params hL P.st sch.order
      cases hd : derivsSched U P.st sch.order with
      | mk st1 r =>
        obtain ⟨failed, ds⟩ := r
        rw [hd] at this
        simp only at this ⊢
        split <;> exact this

/-- **the parallel problem, under any legal scheduler, refines the same specification** -/
theorem abs_hom_par (hL : Lawful U evalF derivF) (sched : Problem U s → Schedule p)
    (hleg : ∀ P : Problem U s, (sched P).Legal (derivF P.params)) :
    LM.Hom (LM.subLSP (problemLSPPar (U := U) (s := s) x o sched) (Fixed Yw eps w)
        (preserved_par x o Yw eps w sched))
      (specLSP x o Yw eps w evalF derivF) (fun t => t.1.abs) where
  params _ := rfl
  residuals _ := rfl
  setParams t v := by
    obtain ⟨P, hY, he, hw⟩ := t
    show (specLSP x o Yw eps w evalF derivF).setParams P.abs v = (Problem.setParams x o P v).abs
    rw [abs_setParams x o hL P v, hY, he, hw]
    rfl
  jacobian t := by
    obtain ⟨P, hY, he, hw⟩ := t
    obtain ⟨h1, h2⟩ := jacobianPar_lawful hL P (sched P) (hleg P)
    show ((P.abs, P.abs.cached.bind (jacOf w derivF P.abs.alpha)) : _ × _) =
      ((P.jacobianPar (sched P)).1.abs, (P.jacobianPar (sched P)).2)
    rw [h1, h2, hw]
    rfl

/-! ### non-vacuity: lawful models and legal schedules exist -/

/-- the model that stores its parameters and evaluates given functions of them -/
def pureModel (evalF : Vector K p → Except E (Mat n m K))
    (derivF : Vector K p → Fin p → Except E (Mat n m K)) : UserModel n m p K E where
  State := Vector K p
  setParams _ α := (α, .ok ())
  params st := st
  eval st := (st, evalF st)
  deriv st k := (st, derivF st k)

theorem pureModel_lawful (evalF : Vector K p → Except E (Mat n m K))
    (derivF : Vector K p → Fin p → Except E (Mat n m K)) :
    Lawful (pureModel evalF derivF) evalF derivF :=
  ⟨fun _ _ => rfl, fun _ _ => rfl, fun _ => rfl, fun _ => rfl, fun _ _ => rfl, fun _ _ => rfl⟩

/-- the schedule that runs every column task (in index order, or any permutation of it) is legal -/
theorem complete_legal (val : Fin p → Except E (Mat n m K)) (order : List (Fin p))
    (h : ∀ k : Fin p, k ∈ order) : Schedule.Legal val ⟨order⟩ := Or.inl h

example (val : Fin p → Except E (Mat n m K)) : Schedule.Legal val ⟨List.finRange p⟩ :=
  complete_legal val _ List.mem_finRange

end Varpro
