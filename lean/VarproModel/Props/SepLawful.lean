import VarproModel.Core.FitProblem
import VarproModel.Props.C16Refine
import VarproModel.Props.C17
/-!
# Builder-made models honour the trait contract

The end-to-end theorems of `Props/E2E` assume a model that is `Lawful`.  Here the library's own
model type – whatever `SeparableModelBuilder::build()` returns (`MB.Model`, Core/SepModel.lean) – is
turned into a `UserModel` exactly as the Rust `impl SeparableNonlinearModel for SeparableModel`
does (`set_params` with its length check, `eval`, `eval_partial_deriv`, columns assembled into a
matrix) and **proved** lawful: `sep_lawful`.  Its `evalF` / `derivF` are, by `c16_refines_spec`, the
by-name specification of the builder session (`sep_evalF_spec`), and the matrix assembly never
meets a wrongly shaped column list (`sep_no_shape_error`, from C17).
-/
namespace Varpro
open MB
set_option linter.unusedSectionVars false
variable {N F G X K : Type}

/-- a list of columns as an `n × m` matrix, if there are `m` columns of length `n` -/
def colsToMat (n m : Nat) (cols : List (List K)) : Option (Mat n m K) :=
  if h : cols.length = m ∧ ∀ c ∈ cols, c.length = n then
    some (Mat.ofFn fun i j =>
      have hj : j.val < cols.length := by have := j.isLt; omega
      have hi : i.val < (cols[j.val]'hj).length := by
        have := h.2 _ (List.getElem_mem hj); have := i.isLt; omega
      (cols[j.val]'hj)[i.val]'hi)
  else none

theorem colsToMat_isSome (n m : Nat) (cols : List (List K)) (h1 : cols.length = m)
    (h2 : ∀ c ∈ cols, c.length = n) : (colsToMat n m cols).isSome = true := by
  unfold colsToMat
  rw [dif_pos ⟨h1, h2⟩]
  rfl

/-- error type of the adapter: a `ModelError` of the library, or `none` for "columns of the wrong
shape reached the matrix assembly" (unreachable, `sep_no_shape_error`) -/
abbrev SepErr := Option MErr

def liftCols (n m : Nat) (r : Except MErr (List (List K))) : Except SepErr (Mat n m K) :=
  match r with
  | .error e => .error (some e)
  | .ok cols =>
    match colsToMat n m cols with
    | some A => .ok A
    | none => .error none

/-- the states a model can be in after `build()` returned `m0`: only the parameters change -/
structure SepState (m0 : Model N F G X K) (p : Nat) where
  st : Model N F G X K
  hn : st.names = m0.names
  hf : st.fns = m0.fns
  hx : st.x = m0.x
  hp : st.params.length = p

theorem setParamsMut_fields (m : Model N F G X K) (v : List K) :
    (m.setParamsMut v).1.names = m.names ∧ (m.setParamsMut v).1.fns = m.fns ∧
    (m.setParamsMut v).1.x = m.x ∧
    ((m.setParamsMut v).1.params = m.params ∨ (m.setParamsMut v).1.params = v) := by
  unfold Model.setParamsMut
  split
  · exact ⟨rfl, rfl, rfl, Or.inl rfl⟩
  · exact ⟨rfl, rfl, rfl, Or.inr rfl⟩

/-- `impl SeparableNonlinearModel for SeparableModel`, with dimensions `n × m`, `p` parameters -/
def sepUserModel (sem : Sem F G X K (List K)) (m0 : Model N F G X K) (n m p : Nat) :
    UserModel n m p K SepErr where
  State := SepState m0 p
  setParams s α :=
    (⟨(s.st.setParamsMut α.toList).1,
        (setParamsMut_fields s.st α.toList).1.trans s.hn,
        (setParamsMut_fields s.st α.toList).2.1.trans s.hf,
        (setParamsMut_fields s.st α.toList).2.2.1.trans s.hx,
        by
          rcases (setParamsMut_fields s.st α.toList).2.2.2 with h | h
          · rw [h]; exact s.hp
          · rw [h]; simp⟩,
      match (s.st.setParamsMut α.toList).2 with
      | .ok () => .ok ()
      | .error e => .error (some e))
  params s := ⟨s.st.params.toArray, by simp [s.hp]⟩
  eval s := (s, liftCols n m (s.st.eval sem))
  deriv s k := (s, liftCols n m (s.st.evalPartialDeriv sem k.val))

/-- evaluation as a function of the parameters -/
def sepEvalF (sem : Sem F G X K (List K)) (m0 : Model N F G X K) (n m p : Nat)
    (α : Vector K p) : Except SepErr (Mat n m K) :=
  liftCols n m (Model.eval sem { m0 with params := α.toList })

def sepDerivF (sem : Sem F G X K (List K)) (m0 : Model N F G X K) (n m p : Nat)
    (α : Vector K p) (k : Fin p) : Except SepErr (Mat n m K) :=
  liftCols n m (Model.evalPartialDeriv sem { m0 with params := α.toList } k.val)

theorem SepState.eq_m0 {m0 : Model N F G X K} {p : Nat} (s : SepState m0 p) :
    s.st = { m0 with params := s.st.params } := by
  obtain ⟨st, hn, hf, hx, hp⟩ := s
  cases st
  simp only at hn hf hx ⊢
  subst hn hf hx
  rfl

/-- **sep_lawful**: a builder-made model honours the trait contract – applying a parameter vector of
the model's length succeeds and stores it, evaluation and derivatives are functions of the stored
parameters only and do not touch them. -/
theorem sep_lawful (sem : Sem F G X K (List K)) (m0 : Model N F G X K) (n m p : Nat)
    (hp0 : m0.names.length = p) :
    Lawful (sepUserModel sem m0 n m p) (sepEvalF sem m0 n m p) (sepDerivF sem m0 n m p) where
  set_ok s α := by
    show (match (s.st.setParamsMut α.toList).2 with | .ok () => Except.ok () | .error e => .error (some e)) = _
    unfold Model.setParamsMut
    have : α.toList.length = s.st.names.length := by rw [s.hn, hp0]; simp
    simp [this]
  set_params s α := by
    show (⟨(s.st.setParamsMut α.toList).1.params.toArray, _⟩ : Vector K p) = α
    have hlen : α.toList.length = s.st.names.length := by rw [s.hn, hp0]; simp
    have : (s.st.setParamsMut α.toList).1.params = α.toList := by
      unfold Model.setParamsMut
      simp [hlen]
    apply Vector.ext
    intro i hi
    simp [this]
  eval_val s := by
    show liftCols n m (s.st.eval sem) = liftCols n m (Model.eval sem { m0 with params := _ })
    have h := s.eq_m0
    have hp : ((sepUserModel sem m0 n m p).params s).toList = s.st.params := by
      show (Vector.mk s.st.params.toArray _).toList = _
      simp
    rw [hp, ← h]
  eval_params _ := rfl
  deriv_val s k := by
    show liftCols n m (s.st.evalPartialDeriv sem k.val) =
      liftCols n m (Model.evalPartialDeriv sem { m0 with params := _ } k.val)
    have h := s.eq_m0
    have hp : ((sepUserModel sem m0 n m p).params s).toList = s.st.params := by
      show (Vector.mk s.st.params.toArray _).toList = _
      simp
    rw [hp, ← h]
  deriv_params _ _ := rfl

/-- the state a freshly built model is in -/
def sepInit (m0 : Model N F G X K) (p : Nat) (h : m0.params.length = p) : SepState m0 p :=
  ⟨m0, rfl, rfl, rfl, h⟩

/-- **sep_no_shape_error**: the matrix assembly of the adapter never fails: whenever the library's
`eval` / `eval_partial_deriv` succeed, their columns have the shape `xlen(x) × #functions` (C17), so
with `n`, `m` chosen as these numbers the only errors are the library's own `ModelError`s. -/
theorem sep_no_shape_error (sem : Sem F G X (K) (List K)) (hv : ∀ v : List K, sem.vlen v = v.length)
    (hz : ∀ k, sem.vlen (sem.zeroV k) = k)
    (m0 : Model N F G X K) (p : Nat) (α : Vector K p) :
    sepEvalF sem m0 (sem.xlen m0.x) m0.fns.length p α ≠ .error none ∧
    ∀ k, sepDerivF sem m0 (sem.xlen m0.x) m0.fns.length p α k ≠ .error none := by
  constructor
  · unfold sepEvalF liftCols
    cases he : Model.eval sem { m0 with params := α.toList } with
    | error e => simp
    | ok cols =>
      obtain ⟨h1, h2⟩ := c17_shape_eval sem _ cols he
      have := colsToMat_isSome (sem.xlen m0.x) m0.fns.length cols h1
        (fun c hc => by rw [← hv c]; exact h2 c hc)
      simp only
      cases hc : colsToMat (sem.xlen m0.x) m0.fns.length cols with
      | none => rw [hc] at this; cases this
      | some A => simp
  · intro k
    unfold sepDerivF liftCols
    cases he : Model.evalPartialDeriv sem { m0 with params := α.toList } k.val with
    | error e => simp
    | ok cols =>
      obtain ⟨h1, h2⟩ := c17_shape_deriv sem hz _ k.val cols he
      have := colsToMat_isSome (sem.xlen m0.x) m0.fns.length cols h1
        (fun c hc => by rw [← hv c]; exact h2 c hc)
      simp only
      cases hc : colsToMat (sem.xlen m0.x) m0.fns.length cols with
      | none => rw [hc] at this; cases this
      | some A => simp

/-- **sep_evalF_spec**: for the model returned by an accepted builder session, the adapter's
evaluation and derivative functions are the by-name specification of that session (C16). -/
theorem sep_evalF_spec [DecidableEq N] (sem : Sem F G X K (List K)) (hc : N → Bool) (names : List N)
    (calls : List (Call N F G X K)) (m0 : Model N F G X K)
    (hrun : run hc sem.arity names calls = .ok m0) (n m : Nat)
    (hz : ∀ k, sem.vlen (sem.zeroV k) = k) (α : Vector K names.length) :
    sepEvalF sem m0 n m names.length α =
      liftCols n m (specEval sem names (group (none : Option (FnItem N F)) calls) m0.x α.toList) ∧
    ∀ k, sepDerivF sem m0 n m names.length α k =
      liftCols n m (specDeriv sem names (group (none : Option (FnItem N F)) calls) m0.x α.toList k.val) := by
  obtain ⟨_, _, _, he, hd⟩ := c16_refines_spec sem hc names calls m0 hrun α.toList (by simp) hz
  exact ⟨by unfold sepEvalF; rw [he], fun k => by unfold sepDerivF; rw [hd k.val]⟩

end Varpro
