import VarproModel.Generated.SetParamsPipeline
import VarproModel.Core.Problem
/-!
# C01/C02/C09/C10 (source-derived obligation) — the dataflow of `set_params`

`Generated/SetParamsPipeline.lean` is regenerated on every run from the body of the sequential
`LeastSquaresProblem::set_params` (the census of C11 checks that the parallel body is the same token
sequence): its statements in source order, each recognised as one stage of an `Option` pipeline.

`setParams_source`: **running the extracted stage list** — each stage with the meaning below, chaining
`Option`s exactly as the source does (`ok().map(..).filter(..)`, `and_then`, `zip`, the final
all-or-nothing `if let`) — computes `Problem.setParams`, the nested-`match` transcription that every
theorem of C01, C02, C08, C09 and C10 is about, for every problem, model, decomposition routine and
parameter vector.  A statement that is added, removed, reordered or reworded in the source changes
the list and breaks this theorem (reported as a broken tie).
-/
namespace Varpro.Generated.SP
open Varpro

variable {K E : Type} {n m p s : Nat} {U : UserModel n m p K E}
variable [Add K] [Sub K] [Mul K] [Div K] [Zero K] [LT K] [DecidableLT K]

/-- the local variables of the body -/
structure PS (U : UserModel n m p K E) (s : Nat) where
  st : U.State
  returned : Bool := false
  phiw : Option (Mat n m K) := none
  eps : Option K := none
  svd : Option (SVD n m K) := none
  coeff : Option (Mat m s K) := none
  res : Option (Mat n s K) := none
  cached : Option (Option (Cache n m s K)) := none     -- `none`: `self.cached` not assigned yet

/-- meaning of one stage -/
def Stage.run (x : Ext K) (o : XOps K) (P : Problem U s) (α : Vector K p) (q : PS U s) : Stage → PS U s
  | .rejectEarly =>
    match U.setParams q.st α with
    | (st1, .error _) => { q with st := st1, returned := true, cached := some none }
    | (st1, .ok ()) => { q with st := st1 }
  | .evalWeighFinite =>
    if q.returned then q else
    match U.eval q.st with
    | (st2, r) =>
      { q with st := st2,
               phiw := ((match r with | .ok Phi => some (wmul P.w Phi) | .error _ => none) : Option (Mat n m K)).filter
                 (fun A => A.all o.isFinite) }
  | .readEps => if q.returned then q else { q with eps := some P.eps }
  | .svdFiniteSorted =>
    if q.returned then q else
    { q with svd := q.phiw.bind fun A => let d := x.svd n m A; if d.sigma.all o.isFinite then some d else none }
  | .solveTruncated =>
    if q.returned then q else
    { q with coeff := q.svd.bind fun d => match solveTrunc d P.Yw (q.eps.getD P.eps) with | .ok C => some C | .error _ => none }
  | .residuals =>
    if q.returned then q else
    { q with res := match q.phiw, q.coeff with | some A, some C => some (P.Yw.sub (A.mul C)) | _, _ => none }
  | .cacheAllOrNone =>
    if q.returned then q else
    { q with cached := some (match q.res, q.svd, q.coeff with
        | some r, some d, some c => some { residuals := r, svd := d, coeff := c }
        | _, _, _ => none) }
  | .other _ => q

/-- run the statements in order and write the result back into the problem -/
def runStages (x : Ext K) (o : XOps K) (P : Problem U s) (α : Vector K p) (l : List Stage) : Problem U s :=
  let q0 : PS U s := { st := P.st }
  let q : PS U s := l.foldl (fun acc stg => Stage.run x o P α acc stg) q0
  ({ Yw := P.Yw, st := q.st, eps := P.eps, w := P.w, cached := q.cached.getD P.cached } : Problem U s)

/-- **setParams_source** -/
theorem setParams_source :
    ∃ l, stages = some l ∧
      ∀ (K E : Type) (n m p s : Nat) (U : UserModel n m p K E) [Add K] [Sub K] [Mul K] [Div K] [Zero K] [LT K]
        [DecidableLT K] (x : Ext K) (o : XOps K) (P : Problem U s) (α : Vector K p),
        runStages x o P α l = P.setParams x o α := by
  refine ⟨_, rfl, ?_⟩
  intro K E n m p s U _ _ _ _ _ _ _ x o P α
  cases h1 : U.setParams P.st α with
  | mk st1 r1 =>
    cases r1 with
    | error e => simp [runStages, Stage.run, Problem.setParams, h1]
    | ok u =>
      cases h2 : U.eval st1 with
      | mk st2 r2 =>
        cases r2 with
        | error e => simp [runStages, Stage.run, Problem.setParams, h1, h2, Option.filter]
        | ok Phi =>
          by_cases hf : (wmul P.w Phi).all o.isFinite = true
          · by_cases hs : (x.svd n m (wmul P.w Phi)).sigma.all o.isFinite = true
            · cases hc : solveTrunc (x.svd n m (wmul P.w Phi)) P.Yw P.eps with
              | error e =>
simp only [runStages, Stage.run, Problem.setParams, computeCache, h1, h2, hf, hs, hc, Option.filter, List.foldl_cons, List.foldl_nil, if_true, if_false, Bool.false_eq_true, Option.bind_some, Option.bind_none, Option.getD_some, Option.getD_none, ite_true, ite_false]
              | ok C =>
simp only [runStages, Stage.run, Problem.setParams, computeCache, h1, h2, hf, hs, hc, Option.filter, List.foldl_cons, List.foldl_nil, if_true, if_false, Bool.false_eq_true, Option.bind_some, Option.bind_none, Option.getD_some, Option.getD_none, ite_true, ite_false]
            · simp only [runStages, Stage.run, Problem.setParams, computeCache, h1, h2, hf, hs, Option.filter, List.foldl_cons, List.foldl_nil, if_true, if_false, Bool.false_eq_true, Option.bind_some, Option.bind_none, Option.getD_some, Option.getD_none, ite_true, ite_false]
          · simp only [runStages, Stage.run, Problem.setParams, computeCache, h1, h2, hf, Option.filter, List.foldl_cons, List.foldl_nil, if_true, if_false, Bool.false_eq_true, Option.bind_some, Option.bind_none, Option.getD_some, Option.getD_none, ite_true, ite_false]

end Varpro.Generated.SP
