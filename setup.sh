#!/bin/sh
# MANIFEST.setup_cmd: build the framework from files on disk only (offline)
set -e
cd "$(dirname "$0")"
export CARGO_NET_OFFLINE=true
REPO=${VARPRO_REPO:-/repo}
# source-derived Lean tables (C16 dispatch, C18 guard program): regenerated from the repository
python3 tools/extract_dispatch.py $REPO lean/VarproModel/Generated/Dispatch.lean >/dev/null || true
python3 tools/extract_pbuilder.py $REPO lean/VarproModel/Generated/PBuilderChecks.lean >/dev/null || true
python3 tools/extract_mbuilder.py $REPO lean/VarproModel/Generated/MBuilderOrder.lean >/dev/null || true
python3 tools/extract_setparams.py $REPO lean/VarproModel/Generated/SetParamsPipeline.lean >/dev/null || true
(cd lean && lake build VarproModel driver)
sed -i "s#varpro = { path = \"[^\"]*\" }#varpro = { path = \"$REPO\" }#" harness/Cargo.toml
cp $REPO/Cargo.lock harness/Cargo.lock 2>/dev/null || cp harness/Cargo.lock.base harness/Cargo.lock
(cd harness && cargo build --offline --profile release --features parallel && cargo build --offline --profile checked --features parallel)
echo setup-ok
