#!/usr/bin/env python3
"""
C18, source-derived tie: regenerate lean/VarproModel/Generated/PBuilderChecks.lean from
src/solvers/levmar/builder.rs.

`LevMarProblemBuilder::build` is a straight-line guard program: `ok_or(E)?` on the observations, then
`if <cond> { return Err(E…) }` blocks, then the construction.  This tool translates the body of
`build` (comments stripped, test modules excluded) into

  * `guards`  : the guards IN SOURCE ORDER, each a disjunction of atoms over the builder state with the
                error it returns (the payload of `InvalidLengthOfData` is checked to be
                `x_length: x_len, y_length: Y.nrows()`),
  * `flags`   : facts about the rest of the body and the setters that the model assumes: the threshold
                defaults to `Float::epsilon`, the setter stores `abs(eps)`, `x_len` is `model.output_len()`,
                the data are weighted once (`&weights * Y`), the problem is created with `cached: None` and
                exactly one `set_params(&model.params())` follows, and nothing else can return an error.

`Props/C18Source.lean` proves that the *interpretation* of the extracted guard list decides exactly as
`PB.build` (the transcription all C18 theorems are about) for every builder state, and that every flag
holds.  A condition this tool does not know is emitted as `unknown "<text>"`: the theorem then fails
and ./check reports the broken tie.
"""
import os, re, sys

sys.path.insert(0, os.path.dirname(os.path.abspath(__file__)))
from source_census import strip_comments, match_brace, functions  # noqa: E402

ATOMS = {
    "x_len==0": "xLenZero",
    "Y.is_empty()": "yEmpty",
    "x_len!=Y.nrows()": "xLenNeRows",
    "!weights.is_size_correct_for_data_length(Y.nrows())": "weightsSizeWrong",
}
ERRS = {
    "YDataMissing": "yDataMissing",
    "ZeroLengthVector": "zeroLengthVector",
    "InvalidLengthOfData": "invalidLengthOfData",
    "InvalidLengthOfWeights": "invalidLengthOfWeights",
}


def lean_str(t):
    return '"' + t.replace("\\", "\\\\").replace('"', '\\"') + '"'


def extract(src):
    s = strip_comments(src)
    fns = functions(s)
    body = None
    for name, a, b in fns:
        if name == "build":
            body = s[a + 1:b]
            break
    if body is None:
        return None
    flat = re.sub(r"\s+", "", body)
    guards = []
    # 1) `let Y = self.Y.ok_or(LevMarBuilderError::E)?;`
    pos = 0
    events = []
    for m in re.finditer(r"letY=self\.Y\.ok_or\(LevMarBuilderError::([A-Za-z]+)\)\?;", flat):
        events.append((m.start(), "okor", m.group(1), None))
    # 2) `if COND { return Err(LevMarBuilderError::E ...); }`
    for m in re.finditer(r"if(.*?)\{returnErr\(LevMarBuilderError::([A-Za-z]+)(\{.*?\})?\);\}", flat):
        events.append((m.start(), "if", m.group(2), (m.group(1), m.group(3) or "")))
    events.sort()
    for _, kind, err, extra in events:
        e = ERRS.get(err)
        if kind == "okor":
            guards.append((["yMissing"], e or ("unknownErr " + lean_str(err)), ""))
        else:
            cond, payload = extra
            atoms = [ATOMS.get(c, "unknown " + lean_str(c)) for c in cond.split("||")]
            if err == "InvalidLengthOfData" and payload != "{x_length:x_len,y_length:Y.nrows(),}":
                atoms.append("unknown " + lean_str("payload " + payload))
            guards.append((atoms, e or ("unknownErr " + lean_str(err)), payload))
    # any other way to leave `build` with an error?  (`?`, `return Err`, `Err(` outside the guards above)
    rest = flat
    for m in re.finditer(r"letY=self\.Y\.ok_or\(LevMarBuilderError::[A-Za-z]+\)\?;", flat):
        rest = rest.replace(m.group(0), "")
    for m in re.finditer(r"if(.*?)\{returnErr\(LevMarBuilderError::[A-Za-z]+(\{.*?\})?\);\}", flat):
        rest = rest.replace(m.group(0), "")
    flags = {
        "noOtherErrorExit": ("Err(" not in rest) and ("?;" not in rest) and ("return" not in rest) and ("panic!" not in rest)
                            and ("unwrap()" not in rest) and ("expect(" not in rest),
        "xLenIsOutputLen": "letx_len:usize=model.output_len();" in flat and "letmodel=self.separable_model;" in flat,
        "epsDefaultsToMachineEpsilon": "letepsilon=self.epsilon.unwrap_or_else(Float::epsilon);" in flat,
        "dataWeightedOnce": flat.count("&weights*Y") == 1 and "letY_w=&weights*Y;" in flat and "letweights=self.weights;" in flat,
        "startsWithEmptyCache": "cached:None," in flat and "svd_epsilon:epsilon," in flat and "Y_w," in flat and "weights," in flat,
        "oneUpdateAtTheModelsParameters": "letparams=model.params();" in flat and flat.count("set_params(") == 1
                                          and "problem.set_params(&params);Ok(problem)" in flat,
    }
    # the epsilon setter stores abs(eps); the weights setter stores Weights::diagonal(weights)
    setter = None
    for name, a, b in fns:
        if name == "epsilon":
            setter = re.sub(r"\s+", "", s[a + 1:b])
    flags["epsSetterStoresAbs"] = setter is not None and "epsilon:Some(<_asFloat>::abs(eps))," in setter and "..self" in setter
    wsetter = None
    for name, a, b in fns:
        if name == "weights" and "Weights::diagonal" in s[a:b]:
            wsetter = re.sub(r"\s+", "", s[a + 1:b])
    flags["weightsSetterStoresDiagonal"] = wsetter is not None and "weights:Weights::diagonal(weights)," in wsetter
    return guards, flags


def main():
    repo = sys.argv[1] if len(sys.argv) > 1 else "/repo"
    out = sys.argv[2]
    try:
        src = open(os.path.join(repo, "src/solvers/levmar/builder.rs")).read()
        res = extract(src)
    except OSError:
        res = None
    with open(out + ".tmp", "w") as f:
        f.write("/-! GENERATED by tools/extract_pbuilder.py from src/solvers/levmar/builder.rs — do not edit -/\n")
        f.write("namespace Varpro.Generated.PB\n\n")
        f.write("inductive Atom where\n  | yMissing | xLenZero | yEmpty | xLenNeRows | weightsSizeWrong\n  | unknown (text : String)\nderiving DecidableEq, Repr\n\n")
        f.write("inductive ErrTag where\n  | yDataMissing | zeroLengthVector | invalidLengthOfData | invalidLengthOfWeights\n  | unknownErr (text : String)\nderiving DecidableEq, Repr\n\n")
        if res is None:
            f.write("def guards : Option (List (List Atom × ErrTag)) := none\n")
            f.write("def flags : List (String × Bool) := []\n")
        else:
            guards, flags = res
            f.write("/-- the guards of `build()` in source order: (disjunction of atoms, error returned) -/\n")
            f.write("def guards : Option (List (List Atom × ErrTag)) := some [\n")
            f.write(",\n".join("  ([" + ", ".join("." + a if not a.startswith("unknown") else ".unknown " + a[len("unknown "):] for a in atoms) + "], " +
                                ("." + e if not e.startswith("unknownErr") else ".unknownErr " + e[len("unknownErr "):]) + ")" for atoms, e, _ in guards))
            f.write("]\n\n")
            f.write("/-- facts about the rest of `build()` and the setters -/\n")
            f.write("def flags : List (String × Bool) := [\n")
            f.write(",\n".join("  (%s, %s)" % (lean_str(k), "true" if v else "false") for k, v in flags.items()))
            f.write("]\n")
        f.write("\nend Varpro.Generated.PB\n")
    new = open(out + ".tmp").read()
    old = open(out).read() if os.path.exists(out) else None
    if new != old:
        os.replace(out + ".tmp", out)
    else:
        os.remove(out + ".tmp")
    print("pbuilder guards:", "unparsed" if res is None else len(res[0]), "flags:", "unparsed" if res is None else sum(1 for v in res[1].values() if v), "/", 0 if res is None else len(res[1]))
    return 0


if __name__ == "__main__":
    sys.exit(main())
