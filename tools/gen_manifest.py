#!/usr/bin/env python3
"""regenerate MANIFEST.json from tools/manifest_data.py (kept by hand) and validate it"""
import json, os, sys
ROOT = os.path.dirname(os.path.dirname(os.path.abspath(__file__)))
sys.path.insert(0, os.path.join(ROOT, "tools"))
from manifest_data import CLAIMS, PENDING, HOOKS, NOTES
from props import PROPS

ids = [json.loads(l)["id"] for l in open(os.path.join(ROOT, "properties.jsonl"))]
checks = []
for pid in ids:
    if pid in CLAIMS:
        c = CLAIMS[pid]
        assert pid in PROPS, pid
        checks.append({
            "property_id": pid,
            "quick_cmd": "./check %s --tier quick" % pid,
            "thorough_cmd": "./check %s --tier thorough" % pid,
            "evidence_file": "evidence/%s.json" % pid,
            "replay_cmd_template": "./check %s --replay {path}" % pid,
            "engine": "lean-proof+correspondence",
            "level_claimed": {"category": c.get("category", "proof"), "text": c["text"], "design_ref": c.get("design_ref", "DESIGN.md §7 " + pid)},
            "level_note": c["note"],
            "technique": c.get("technique", "Lean 4 theorems about a hand-written executable model, tied to /repo by a differential correspondence check on every run"),
        })
na = [{"property_id": pid, "reason": PENDING.get(pid, "not yet claimed: model/theorems/correspondence stream for this property are still being built (see DESIGN.md §7, §10)")} for pid in ids if pid not in CLAIMS]
man = {
    "version": 1,
    "setup_cmd": "./setup.sh",
    "hooks": HOOKS,
    "engines": [{
        "name": "lean-proof+correspondence",
        "path": "check",
        "serves_properties": [c["property_id"] for c in checks],
        "kind_free_text": "Lean 4 (kernel-checked theorems over a hand-written scalar-generic executable model, lean/VarproModel) + Rust harness driving the real crate + Lean driver running the model on the same inputs; python3 orchestrator",
    }],
    "checks": checks,
    "notes": NOTES,
    "not_applicable": na,
}
json.dump(man, open(os.path.join(ROOT, "MANIFEST.json"), "w"), indent=1)
print("claimed:", [c["property_id"] for c in checks])
