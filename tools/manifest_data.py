HOOKS = {
    "guard": "none (no source hooks: the harness uses only the public API of the crate; the crate's own cargo feature `parallel` is enabled for the parallel constructors)",
    "enable": "cargo build --offline --features parallel (harness/Cargo.toml, path dependency on /repo)",
    "baseline_off_cmd": "cd /repo && cargo test --workspace --no-fail-fast --offline",
    "source_commits": [],
    "add_only": True,
}
NOTES = ("Five genuine defects were repaired in /repo by unguarded fix: commits 55ca609 (C09), 1b6dc44 (C08), 7f5ce42 (C12), 34e4241 (C09/C04), 88a7c8e (C08); "
         "see known_findings.json and DESIGN.md §8. Checks honour VERIF_SEED and VERIF_TIER. Exit 2 + INTERNAL lines mean the machinery itself is broken.")
PENDING = {}
CLAIMS = {
    "C18": {
        "text": "Kernel-checked theorems over ALL call sequences, payloads and scalar types: build succeeds iff the documented requirements hold "
                "(c18_ok_iff), otherwise names the first violated one (c18_error, c18_build_spec), only the last value of each setter counts "
                "(c18_run_last, c18_order), threshold = |e| or machine epsilon (c18_eps), data and weights are passed through (c18_passes_inputs). "
                "The model is tied to the code by an exhaustive decision table (4224 builder call sequences over all four constructors, both widths) "
                "executed on the real builder and on the Lean model with bit-exact comparison of outcome, error payload, epsilon, weighted data and weights.",
        "note": "Trusted: Lean kernel; the hand-written transcription of builder.rs (lean/VarproModel/Core/ProblemBuilder.lean) as validated by the decision table; "
                "Rust harness + Lean driver; the initial cache of a built problem (residuals/coefficients at the model's parameters) is covered by the state stream of C01/C02.",
    },
    "C15": {
        "text": "Kernel-checked theorems over ALL call sequences: a recorded defect is final (c15_sticky, c15_bad_names_final), a defect inside a pending function "
                "can only end in Err (c15_pending_defect_final), stray derivatives and wrong-length initial guesses are final defects with the documented payload. "
                "LANGUAGE EQUALITY for all finite call sequences: build() returns a model iff the session is Valid (c15_accepts_iff), where Valid is a first-order specification on the grouped calls "
                "(Core/ModelSpec.lean) independent of the state machine; the Boolean the driver evaluates on every explored session is proved to be that specification (c15_validB_iff, c15_accepts_iff_validB); "
                "the panic!(\"Logic error\") of check_completion is unreachable (c15_no_panic). "
                "ERRORS NAME A DEFECT THAT IS PRESENT (Props/C15Defect.lean): defectB states, per error value and on the grouped calls only, when the named defect occurs in the session; for every finite call sequence the error build() returns satisfies it (c15_error_names_defect); the driver evaluates defectB on the implementation's own error value of every explored session. "
                "the transcription of the builder state machine is tied to the code by exhaustive enumeration of short call sequences and random long ones with exact comparison of Ok/variant/payload.",
        "note": "Trusted: Lean kernel; transcription of src/model/builder/*.rs and detail.rs (Core/ModelBuilder.lean) as validated by the enumeration; harness + driver. "
                "The theorems are about the transcription; the monitor (validB evaluated on the implementation's Ok/Err) ties the same specification to the real builder on every explored session.",
    },
    "C16": {
        "text": "Kernel-checked: the stored closure calls the user function with the parameters looked up BY NAME in the function's own order and cannot panic (c16_args_by_name), "
                "the value of a named parameter and hence every column is invariant under a simultaneous permutation of the model's parameter list and the parameter vector (c16_perm_param, c16_perm_invariant), "
                "parameters are returned unchanged (c16_params), functions without a derivative for index k contribute the zero column (c16_zero_column); every builder-made model equals its by-name specification (c16_refines_spec); "
                "source-derived obligation re-checked on every run: the arity dispatch table extracted from src/basis_function/detail.rs passes params[t] to argument t for arities exactly 1..10 (c16_dispatch). "
                "Tie: exact comparison of every entry of eval / eval_partial_deriv on position-sensitive integer probes, all arities 1..10, every ordered subset for small models, against the model AND against the by-name specification. TRAIT CONTRACT (Props/SepLawful.lean): whatever an accepted builder session returns, wrapped exactly like `impl SeparableNonlinearModel for SeparableModel`, is a Lawful model (sep_lawful) whose evaluation / derivative functions are the by-name specification (sep_evalF_spec); hence every end-to-end theorem about fits (C04, C06, C10, C11) holds for builder-made models without assumption (c04_e2e_builder).",
        "note": "Trusted: Lean kernel; Core/SepModel.lean + Core/ModelBuilder.lean transcriptions as validated by the exact probe stream; tools/extract_dispatch.py (regex extraction; if the source cannot be parsed the obligation is reported as skipped). "
                "End-to-end refinement (c16_refines_spec): for every accepted call sequence and every parameter vector of the model's length, eval = specEval and eval_partial_deriv(k) = specDeriv k "
                "(the by-name specification, including error outcomes), the model holds the last x / initial parameters given; the wrapper closure's two panic sites are unreachable (c16_no_wrapper_panic). "
                "Assumption stated in the theorem: the zero column has the requested length (DVector::zeros).",
        "technique": "Lean 4 theorems about a hand-written executable model plus a dispatch table REGENERATED from src/basis_function/detail.rs on every run (translator tools/extract_dispatch.py), tied to /repo by an exact integer-probe correspondence check",
    },
    "C17": {
        "text": "Kernel-checked for EVERY model value, user-function semantics and argument: wrong parameter count is rejected with both lengths and leaves the model unchanged (c17_count, c17_rejected_state), "
                "index >= P gives DerivativeIndexOutOfBounds (c17_index), successful evaluations have one column per basis function and one row per sample (c17_shape_eval, c17_shape_deriv), "
                "a failing evaluation reports the error of the first failing column, a wrong length with expected and actual length (c17_wrong_len_eval, c17_len_error, mapCols_error). "
                "Tie: misuse stream with exact comparison of values, error variants and payloads. The matrix assembly over the columns never meets a wrongly shaped column list (sep_no_shape_error, Props/SepLawful.lean).",
        "note": "Trusted: Lean kernel; transcription of src/model/mod.rs (Core/SepModel.lean) as validated by the stream; panics of the Rust code are explicit outcomes of the model, their unreachability for builder-made models is c16_args_by_name.",
    },
    "C01": {
        "text": "Kernel-checked over every ordered field, all shapes N,M,S, all user models, weights and every SVD routine satisfying SVDSpec: whenever coefficients are present after set_params they satisfy the "
                "truncated normal equations for all right-hand sides (c01_normal_eq), hence minimise ||y_s - A_eps c|| per column (c01_minimises), are the minimum-norm minimiser (c01_min_norm), "
                "minimise the ORIGINAL weighted problem whenever only exactly-zero singular values are truncated (c01_original_problem), are the UNIQUE minimiser when W*Phi has trivial kernel (c01_unique), depend linearly on the data (c01_linear); a negative threshold never yields coefficients "
                "(c01_negative_eps_absent). SVD::solve is transcribed from nalgebra, not assumed. Tie: coefficients of the real problem vs the model on Float after build and every update, plus the normal-equation / minimum-norm / finiteness monitors on the implementation's own output. BASIS ORDER (Props/C01Order.lean): listing the basis functions in another order reorders the coefficients with them, for any two SVD routines used on the two orderings (c01_basis_order, via uniqueness at full column rank); (W Phi) c is the sum coefficient_j x column_j (c01_product_by_function); the truncated solve divides only by singular values strictly above the threshold, hence strictly positive (c01_divisors).",
        "note": "Trusted: Lean kernel; SVDSpec of nalgebra's SVD (assumed, numerically monitored through the comparison); floating point is modelled not verified (tolerances c*u*kappa^e computed per case); transcription Core/Problem.lean validated by the stream.",
    },
    "C02": {
        "text": "Kernel-checked for every history: weighted data, threshold and weights are never modified by updates (c02_fields_constant, c02_weighted_data); a present cache was computed in the very last set_params call "
                "from the basis matrix the model returned for the accepted alpha, and its residual matrix is Yw - (W Phi) C for the coefficients in the same cache (c02_cache_is_computed_now); the residual vector is the "
                "column-after-column stacking, element i + j*N = entry (i,j) (c02_residual_layout). Tie: params(), weighted_data() bit-exact, residuals() within tolerance at every step of every history; monitor: residuals recomputed from the implementation's own C. The data, threshold and weights of the problem a whole fit hands back are those that went in (c02_fit_fixed, Props/E2E.lean).",
        "note": "Trusted: as C01. best_fit()/nonlinear_parameters() of a FitResult are compared in the fit stream (C04).",
    },
    "C03": {
        "text": "Kernel-checked: P = U U^T is symmetric, idempotent, fixes A (c03_projector_basic) and at full column rank its range is exactly range(A) (c03_projector_range); every Jacobian block equals -(1-P) W D_k C (c03_column) "
                "and is orthogonal to range(A) for all right-hand sides (c03_orthogonal); J_k^T r = -(D_k c)^T r for r orthogonal to range(A) (c03_JTr); over the reals 2 J^T r is the exact derivative of the projected objective along any "
                "differentiable curve satisfying the normal equations (c03_gradient, envelope argument); the flattened layout equals the residuals' (c03_layout); any failing derivative makes the Jacobian absent (c03_all_or_nothing). "
                "Tie: jacobian() vs model at full rank, orthogonality and formula monitors on the implementation's J.",
        "note": "Trusted: as C01; c03_gradient is stated for one right-hand side (the objective is a sum over right-hand sides).",
    },
    "C10": {
        "text": "Kernel-checked: after set_params alpha the cache is computeCache(Yw, eps, W Phi) for the Phi the model returned - nothing of earlier states enters (c10_function_of_alpha), so a problem with any history and a fresh one agree (c10_history_free, c10_build_is_set); "
                "a failed update clears the cache (c10_failed_update_clears); queries do not change the state (c10_query_pure); in the Option-cell transcription of both uninit write loops no uninitialised cell survives, for every shape and every schedule executing all column tasks "
                "(c10_no_uninit, c10_no_uninit_seq). Tie: history-vs-fresh, repeated-query and clone twins on the real code, bit for bit, plus model comparison of all outputs, plus the STATE-FIELD CENSUS: the members of the twelve state-carrying Rust types are re-extracted from /repo on every run and the fields of the Lean structures standing for them are read by reflection (lean/FieldCensus.lean); both are compared with the reviewed pairing census/reference.json - hidden state added to the implementation is a broken tie. The cache of the problem a whole fit hands back equals the cache of a problem freshly built at the reported parameters (c10_fit_fresh, Props/E2E.lean).",
        "note": "Trusted: as C01; the quantifier over heap contents is carried by the theorem on the model; on the code it is sampled (two poisoning-allocator runs per check, DESIGN.md §11.2).",
    },
    "C06": {
        "text": "Kernel-checked: the weighted problem and the problem with pre-scaled rows feed identical inputs to SVD, solve, residual and every Jacobian block (c06_equiv_cache, c06_equiv_jac: definitional), "
                "unit weights = no weights (c06_unit), a zero weight removes every influence of that row of data, basis functions and derivatives (c06_zero_weight), the residual is W(Y - Phi C): each weight exactly once (c06_weights_once, c06_weights_once_entry). "
                "Tie: three kinds of twins executed on the real code at every step of random histories. FIT LEVEL (Props/E2E.lean): the weighted problem and the row-scaled unweighted problem have literally the same specification (spec_weighted_eq_scaled), hence a whole fit gives the same decision, report and final parameters / coefficients / residuals / decomposition for every behaviour of the optimizer's numerics (c06_fit_equiv).",
        "note": "Trusted: as C01. The optimizer and the statistics are functions of residuals/Jacobian/coefficients (C04, C12), so equality there is inherited; fits of twins are compared in the fit stream.",
    },
    "C07": {
        "text": "Kernel-checked for arbitrary column selections f (single column, permutation, duplicates): solving for selected observation columns gives the selected coefficient columns (c07_solve_cols), "
                "the whole cache and every Jacobian block commute with column selection (c07_cache_cols, c07_jac_cols, c07_single, wmul_selectCols), sum of squares and every block sum (J^T J, J^T r) are invariant under column permutations (c07_sumsq_perm, c07_blocksum_perm). "
                "Tie: S-column problem vs S single problems vs reversed columns on the real code.",
        "note": "Trusted: as C01. One model definition serves both constructors (they differ in type-level flags only, C18).",
    },
    "C11": {
        "text": "Kernel-checked: for every schedule that executes all column tasks - any order - the parallel Jacobian equals the sequential one whenever all derivatives evaluate (c11_par_eq_seq); if a failing derivative's task runs the parallel Jacobian is absent like the sequential one (c11_par_failure); "
                "set_params/residuals/params are the same definitions in the model - and in the source: the two LeastSquaresProblem impls (PARALLEL_NO / PARALLEL_YES) are parsed from src/solvers/levmar/mod.rs on every run and the bodies of set_params, residuals and params must be the same token sequence (tools/source_census.py, a difference breaks the tie); into_sequential preserves every field (c11_into_sequential). Assumption: derivative results during one Jacobian evaluation do not depend on call order (DerivDet). Tie: parallel vs sequential twins under pools of 1..16 threads. WHOLE FIT (Props/E2E.lean, Props/Refine.lean): for a model honouring the trait contract, the parallel problem under ANY legal scheduler (a possibly different order of the column tasks at every Jacobian evaluation, early stop only after a failed task) refines the same specification as the sequential problem (abs_hom_par, abs_hom_seq); therefore a whole fit returns the same Ok/Err, the same report and the same final parameters and cache (c11_fit_eq).",
        "note": "Trusted: as C01; rayon schedules are abstracted (any order), sampled on the code by pool size. Fits of parallel problems are compared in the fit stream.",
        "technique": "Lean 4 theorems about a hand-written executable model with abstract schedulers, tied to /repo on every run by a differential correspondence check under rayon pools of 1..16 threads and by a source census (the mirrored sequential / parallel impls are re-parsed from the source and must be identical)",
    },
    "C04": {
        "text": "Kernel-checked for EVERY behaviour of the numerical oracles (QR, LMPAR, norms are unconstrained parameters of the transcribed optimizer): fit = Ok exactly when the termination reason it reports is ResidualsZero/Orthogonal/Converged and both branches carry the optimizer's final problem and report (c04_ok_iff, c04_report, c04_successful_iff); "
                "a trial is accepted only if it strictly decreases the residual norm (c04_accept_decreases, c04_objective_decreases, c04_predicted_nonneg); over a WHOLE run, by invariants over LM.run: the reported objective never exceeds the objective at the initial guess (c04_monotone), "
                "after a successful termination the returned problem reports residuals that are those of the parameters it reports and the reported objective is half their squared norm - also when the last trial was rejected and the accepted parameters were re-applied (c04_coherent, for problems whose outputs are a function of the applied parameters = C10), "
                "the evaluation count never exceeds max(patience*(P+1),2) and the optimizer model always terminates (c04_budget, c04_tests_budget); the termination reason is truthful (Props/C04Reasons.lean: Orthogonal only after the gradient test <= gtol on the Jacobian and residuals of the returned state, ResidualsZero only with residuals of norm <= MIN_POSITIVE exposed by the returned problem, LostPatience only when the budget is used up, Converged never with two false flags); fit_with_statistics = Err(fit result) iff fit failed / coefficients absent / statistics erred (c04_fws). "
                "Tie: fit stream; every model call of every fit is logged and checked by a trace acceptor to be an execution of LM.run. END TO END on varpro's own problem (Props/E2E.lean, through the refinement Props/Refine.lean of the real problem to the specification `(alpha, cache of alpha)` and the homomorphism lemma Proofs/LMHom.lean: the optimizer commutes with problem homomorphisms): for every model honouring the trait contract, every SVD routine and every behaviour of the optimizer's numerics, the problem handed back holds exactly the cache of the parameters it reports for EVERY termination (c04_final_cache), and a successful fit carries coefficients = truncated solve for W Phi(alpha_hat), residuals = Yw - W Phi(alpha_hat) C, objective = 1/2|residuals|^2 <= initial objective, evaluations within budget (c04_e2e).",
        "note": "Trusted: Lean kernel; the transcription of lm.rs control flow (Core/LM.lean) as validated by the trace acceptor on every fit; QR/LMPAR numerics are oracles (nothing assumed); NumLaws (0 < 1/2, 0 < 1e-4, 0 <= min_positive, norms >= 0); floating point modelled not verified.",
    },
    "C09": {
        "text": "Kernel-checked for an ARBITRARY user model (a state machine that may fail at any call depending on any hidden state - this subsumes every fault schedule): a failure in set_params or eval leaves no residuals, coefficients or Jacobian (c09_absent, c09_no_recompute_on_rejection), "
                "a failing derivative removes only the Jacobian (c09_deriv), a present cache was computed from the basis matrix returned in that very update (c09_coherent); the optimizer stops with User(residuals)/User(jacobian) on such failures (c09_trial_failure, c09_jacobian_failure) "
                "and fit returns Err carrying that problem whenever the final problem has no residuals or the termination is User (c09_fit_err). Tie: exhaustive injection at every call index, transient and persistent.",
        "category": "proof",
        "note": "Trusted: as C01/C04. Genuine defects found and repaired by fix: commits 55ca609 and 34e4241 (see known_findings.json); their failing histories are kept in corpus/. No-panic under faults is observed on the code (catch_unwind per case), proved for the model only where the model has explicit panic outcomes (C17).",
    },
    "C12": {
        "text": "Kernel-checked for every user model: statistics exist only for N > M+P with dof = N-M-P (c12_ok_dof), N <= M+P always yields an error (c12_underdetermined), weighted residuals = Yw - (W Phi) c, the cached residual expression (c12_residuals), "
                "chi2 = |r|^2/dof (c12_chi2), standard error^2 = chi2 >= 0 (c12_stderr); on the usize shape model the degrees-of-freedom computation never panics in either build profile (Shape.c12_no_panic) while the pre-fix order provably panicked (Shape.c12_prefix_panics, decide); "
                "fit_with_statistics = Err(fit result) iff fit failed / no coefficients / statistics erred (C04.c04_fws). Tie: statistics stream in both build profiles. END TO END (Props/C12E2E.lean): fit_with_statistics instantiated on varpro's own problem (fitWithStats); whenever it returns Ok((result, statistics)) over a model honouring the trait contract, N > M+P, dof = N-M-P, the fit was successful, the reported weighted residuals ARE the residual matrix cached in the returned problem, and chi2 = their squared norm / (N-M-P) (c12_e2e). A model error during the statistics cannot be lost: if ANY of the P derivative calls fails there are no derivative columns at all, the model-function Jacobian is absent and try_calculate returns the model-evaluation error (c12_failing_derivative, derivCols_some_length: the columns are all-or-nothing and in order); tied to the code by failures injected at every model call the statistics make (stats stream).",
        "note": "Trusted: as C01; from_usize is a parameter (ofNat). Defect repaired by fix: commit 7f5ce42.",
    },
    "C13": {
        "text": "Kernel-checked under InvSpec: covariance = chi2 * (H^T H)^-1 with H = W [Phi | D_k c] (c13_cov), index j<M is coefficient j and M+k is parameter k (c13_order), covariance symmetric (c13_symm, inv_symm), every variance >= 0 because the inverse is a Gram matrix (c13_diag_nonneg), "
                "variance accessors are exactly the diagonal segments (c13_var_slices), correlation = cov_ij/sqrt(c_ii c_jj) with unit diagonal for positive variances (c13_corr), C_ij^2 <= C_ii*C_jj and hence |corr_ij| <= 1 for positive variances, end to end for every successful computation (c13_cov_cauchy_schwarz, c13_corr_bound, c13_corr_in_range). Tie: every FitStatistics accessor compared / monitored on the statistics stream.",
        "note": "Trusted: as C01 plus InvSpec of nalgebra's LU inverse (assumed; monitored by cov*H^T H/sigma^2 = 1). A zero variance makes the Rust code divide by zero (NaN/inf): floating-point behaviour, excluded by hypothesis.",
    },
    "C14": {
        "text": "Kernel-checked under TSpec: radius_i = t((1+p)/2; N-M-P) * sqrt(j_i^T Cov j_i) with j_i from the UNWEIGHTED model-function Jacobian, one entry per sample (c14_formula), a probability outside (0,1) is rejected, inside accepted (c14_domain), "
                "radius non-negative and non-decreasing in p (c14_nonneg_mono, c14_sigma_nonneg). Tie: band radii for eight valid and six invalid probabilities per fit against the driver's exact Student-t quantile.",
        "note": "Trusted: as C01 plus TSpec of distrs::StudentsT::ppf (Hill's approximation; assumed monotone, monitored on a probability grid).",
    },
    "C08": {
        "text": "Kernel-checked (the part that is logic): a weighted basis matrix with a non-finite entry never reaches the SVD and leaves a rejected state (c08_nonfinite_absent); set_params and build do not depend on what the SVD routine does on non-finite matrices, so a routine that loops there is never entered (c08_svd_guard, c08_build_guard); "
                "a decomposition whose singular values are not all finite (nalgebra produces NaN singular values for finite matrices of extreme dynamic range) is discarded before anything sorts or uses it, and a present cache always holds finite singular values of a finite matrix (c08_nonfinite_sigma_absent, c08_cache_finite); "
                "the optimizer model is total, never exhausts its fuel and stops after at most max(patience*(P+1),2) evaluations for EVERY behaviour of problem and numerical sub-routines (c08_lm_total, proved by an invariant over LM.run); a problem without residuals makes fit fail with User(residuals) without further model calls (c08_nonfinite_fails); "
                "the usize subtraction of the statistics cannot panic in either profile (C12 Shape.c12_no_panic); builder-made models cannot hit their two panic sites (C16 c16_args_by_name). Tie: robustness stream in two build profiles under a watchdog; SOURCE CENSUS (tools/source_census.py, census/reference.json): every panic!/assert*!/debug_assert*!/unreachable!/unwrap/expect site of the non-test source is extracted from the repository on every run and compared (by file, function, kind and normalised text, never by line) with the reviewed list the shape model transcribes - a panic site the model does not have breaks the tie. SHAPE / EFFECTS MODEL (Core/ShapeModel.lean, Props/C08Shape.lean): every run-time dimension check of nalgebra (gemm, subtraction, copy_from, ad_mul in solve), varpro's own assert!s (diagonal weights, concat_colwise, extract_range, probability), debug_assert!s and the usize subtraction are transcribed as explicit panic outcomes over matrix SHAPES; for a model whose eval / eval_partial_deriv give output_len x base_function_count and a builder-made problem, set_params, jacobian (any column order), best_fit, try_calculate (both arithmetic profiles, debug assertions on or off, all sizes incl. under-determined, singular or not), the variance accessors and confidence_band_radius with a valid probability never panic (c08_set_params_no_panic, c08_jacobian_no_panic, c08_best_fit_no_panic, c08_try_calculate_no_panic, c08_accessors_no_panic); the only panic is the documented one (c08_band_panic_iff). That the checks are really transcribed is itself checked against the code: the SHAPE stream enumerates contract-violating models (wrong rows / columns / transposed / failing, per call) and compares the panic / absent / present outcome of build(), residuals() and jacobian() of the real code with the shape model's prediction, case by case (all agree on the unchanged tree).",
        "note": "Trusted: as C01/C04. NOT proved (runtime, sampled only): termination of nalgebra's SVD iteration on finite matrices, absence of panics inside nalgebra / levenberg-marquardt / distrs on extreme finite values. Defects repaired by fix: commits 1b6dc44 (SVD on non-finite input never returned) and 88a7c8e (NaN singular values of a finite matrix of extreme dynamic range made set_params / fit panic in the sort; found by the thorough tier).",
        "technique": "Lean 4 theorems about a hand-written executable model (values, optimizer control flow, shapes/effects), tied to /repo on every run by a differential correspondence check (robustness stream in two build profiles, exhaustive shape stream) and by a source census of all panic sites regenerated from the source",
    },
    "C05": {
        "category": "other",
        "text": "PARTIAL: kernel-checked theorems c05_zero_at_truth_partial, c05_truth_bound_partial, c05_stationary_partial, c05_descent_partial (global minimum at the truth, projected objective never above any coefficient choice, the optimizer tests the true first-order condition, a descent direction always exists) "
                "plus C04's monotone-objective/budget theorems; the convergence clause itself (success from every nearby start, in floating point) is NOT proved and only explored on the certified families with frozen, calibrated thresholds.",
        "note": "This is deliberately not claimed as proof: nobody should read a theorem into the convergence clause. Trusted for the proved part: as C01/C03.",
        "technique": "partial Lean 4 proof (named ..._partial) + calibrated failing-input search on certified model families",
    },
    "C19": {
        "category": "other",
        "text": "PARTIAL: kernel-checked deterministic backbone c19_error_map_partial, c19_residual_map_partial (incl. trace = N-M-P), c19_scale_invariance_partial, and the moment clauses for EVERY noise distribution (expectation = arbitrary linear functional): c19_unbiased, c19_covariance (error covariance = s (H_w^T H_w)^-1), c19_band_variance, c19_chi2_mean (mean reduced chi2 = s, hence 1 for weights exactly 1/sigma_i) in the linear regime; the coverage statement (Student-t pivots => relative frequency p) needs distribution theory not available in Mathlib and is only explored by Monte-Carlo coverage counts on the real code with 6-sigma acceptance bounds.",
        "note": "Not claimed as proof. The statistics code itself is covered by C12-C14 (proof level).",
        "technique": "partial Lean 4 proof (named ..._partial) + Monte-Carlo coverage test on the real code",
    },
}
