HOOKS = {
    "guard": "none (no source hooks: the harness uses only the public API of the crate; the crate's own cargo feature `parallel` is enabled for the parallel constructors)",
    "enable": "cargo build --offline --features parallel (harness/Cargo.toml, path dependency on /repo)",
    "baseline_off_cmd": "cd /repo && cargo test --workspace --no-fail-fast --offline",
    "source_commits": [],
    "add_only": True,
}
NOTES = ("Three genuine defects were repaired in /repo by unguarded fix: commits 55ca609 (C09), 1b6dc44 (C08), 7f5ce42 (C12); "
         "see known_findings.json and DESIGN.md §8. Checks honour VERIF_SEED and VERIF_TIER. Exit 2 + INTERNAL lines mean the machinery itself is broken.")
PENDING = {}
CLAIMS = {
    "C18": {
        "text": "Kernel-checked theorems over ALL call sequences, payloads and scalar types: build succeeds iff the documented requirements hold "
                "(c18_ok_iff), otherwise names the first violated one (c18_error, c18_build_spec), only the last value of each setter counts "
                "(c18_run_last, c18_order), threshold = |e| or machine epsilon (c18_eps), data and weights are passed through (c18_passes_inputs). "
                "The model is tied to the code by an exhaustive decision table (4224 builder call sequences over all four constructors, both widths) "
                "executed on the real builder and on the Lean model with bit-exact comparison of outcome, error payload, epsilon, weighted data and weights.",
        "note": "Trusted: Lean kernel; the hand-written transcription of builder.rs (lean/VarproModel/Core/ProblemBuilder.lean) as validated by the decision table; "
                "Rust harness + Lean driver; the initial cache of a built problem (residuals/coefficients at the model's parameters) is covered by the state stream of C01/C02.",
    },
}
