HOOKS = {
    "guard": "none (no source hooks: the harness uses only the public API of the crate; the crate's own cargo feature `parallel` is enabled for the parallel constructors)",
    "enable": "cargo build --offline --features parallel (harness/Cargo.toml, path dependency on /repo)",
    "baseline_off_cmd": "cd /repo && cargo test --workspace --no-fail-fast --offline",
    "source_commits": [],
    "add_only": True,
}
NOTES = ("Three genuine defects were repaired in /repo by unguarded fix: commits 55ca609 (C09), 1b6dc44 (C08), 7f5ce42 (C12); "
         "see known_findings.json and DESIGN.md §8. Checks honour VERIF_SEED and VERIF_TIER. Exit 2 + INTERNAL lines mean the machinery itself is broken.")
PENDING = {}
CLAIMS = {
    "C18": {
        "text": "Kernel-checked theorems over ALL call sequences, payloads and scalar types: build succeeds iff the documented requirements hold "
                "(c18_ok_iff), otherwise names the first violated one (c18_error, c18_build_spec), only the last value of each setter counts "
                "(c18_run_last, c18_order), threshold = |e| or machine epsilon (c18_eps), data and weights are passed through (c18_passes_inputs). "
                "The model is tied to the code by an exhaustive decision table (4224 builder call sequences over all four constructors, both widths) "
                "executed on the real builder and on the Lean model with bit-exact comparison of outcome, error payload, epsilon, weighted data and weights.",
        "note": "Trusted: Lean kernel; the hand-written transcription of builder.rs (lean/VarproModel/Core/ProblemBuilder.lean) as validated by the decision table; "
                "Rust harness + Lean driver; the initial cache of a built problem (residuals/coefficients at the model's parameters) is covered by the state stream of C01/C02.",
    },
    "C15": {
        "text": "Kernel-checked theorems over ALL call sequences: a recorded defect is final (c15_sticky, c15_bad_names_final), a defect inside a pending function "
                "can only end in Err (c15_pending_defect_final), stray derivatives and wrong-length initial guesses are final defects with the documented payload. "
                "The full acceptance language is specified independently (Core/ModelSpec.lean: grouping into items + first-order validity) and evaluated as a monitor on every case; "
                "the transcription of the builder state machine is tied to the code by exhaustive enumeration of short call sequences and random long ones with exact comparison of Ok/variant/payload.",
        "note": "Trusted: Lean kernel; transcription of src/model/builder/*.rs and detail.rs (Core/ModelBuilder.lean) as validated by the enumeration; harness + driver. "
                "The theorem `accepts iff Valid` (language equality with the independent specification) is work in progress; until it is proved that equality is checked by the monitor on every explored session, not by the kernel.",
    },
    "C16": {
        "text": "Kernel-checked: the stored closure calls the user function with the parameters looked up BY NAME in the function's own order and cannot panic (c16_args_by_name), "
                "the value of a named parameter and hence every column is invariant under a simultaneous permutation of the model's parameter list and the parameter vector (c16_perm_param, c16_perm_invariant), "
                "parameters are returned unchanged (c16_params), functions without a derivative for index k contribute the zero column (c16_zero_column); "
                "source-derived obligation re-checked on every run: the arity dispatch table extracted from src/basis_function/detail.rs passes params[t] to argument t for arities exactly 1..10 (c16_dispatch). "
                "Tie: exact comparison of every entry of eval / eval_partial_deriv on position-sensitive integer probes, all arities 1..10, every ordered subset for small models, against the model AND against the by-name specification.",
        "note": "Trusted: Lean kernel; Core/SepModel.lean + Core/ModelBuilder.lean transcriptions as validated by the exact probe stream; tools/extract_dispatch.py (regex extraction; if the source cannot be parsed the obligation is reported as skipped). "
                "The end-to-end refinement theorem builder-output = by-name specification is work in progress; it is checked per case by the monitor.",
    },
    "C17": {
        "text": "Kernel-checked for EVERY model value, user-function semantics and argument: wrong parameter count is rejected with both lengths and leaves the model unchanged (c17_count, c17_rejected_state), "
                "index >= P gives DerivativeIndexOutOfBounds (c17_index), successful evaluations have one column per basis function and one row per sample (c17_shape_eval, c17_shape_deriv), "
                "a failing evaluation reports the error of the first failing column, a wrong length with expected and actual length (c17_wrong_len_eval, c17_len_error, mapCols_error). "
                "Tie: misuse stream with exact comparison of values, error variants and payloads.",
        "note": "Trusted: Lean kernel; transcription of src/model/mod.rs (Core/SepModel.lean) as validated by the stream; panics of the Rust code are explicit outcomes of the model, their unreachability for builder-made models is c16_args_by_name.",
    },
}
