#!/usr/bin/env python3
"""
mutation_sweep — self-validation of the checks (NOT a registered check).

Generates small syntactic mutants of /repo's non-test sources in a scratch copy, keeps those that
compile (also with --features parallel) and pass the crate's own test suite unchanged, and runs the
quick checks of all properties against each survivor (VARPRO_REPO=<scratch copy>).  A survivor that
no check reports is either an equivalent mutant or a gap of the machinery; those are triaged by
hand (DESIGN.md §11.8).

  tools/mutation_sweep.py --scratch /tmp/mut --n 120 --seed 7 --out mutation_results.jsonl

Intended to be started through `vp run` from a snapshot of /verif (it runs ./setup.sh first when the
build outputs are missing).  /repo itself is only read.
"""
import argparse
import json
import os
import random
import re
import shutil
import subprocess
import sys
import time

ROOT = os.path.dirname(os.path.dirname(os.path.abspath(__file__)))

SKIP_FILES = re.compile(r"(^|/)(test\.rs|test_helpers/|readme\.rs|prelude\.rs|lib\.rs)")

# (name, regex, replacement)
OPS = [
    ("add->sub", r"(?<=[\w\)\]]) \+ (?=[\w\(&\-])", " - "),
    ("sub->add", r"(?<=[\w\)\]]) - (?=[\w\(&])", " + "),
    ("mul->div", r"(?<=[\w\)\]]) \* (?=[\w\(&])", " / "),
    ("div->mul", r"(?<=[\w\)\]]) / (?=[\w\(&])", " * "),
    ("lt->le", r" < (?=[\w\(\-])", " <= "),
    ("le->lt", r" <= ", " < "),
    ("gt->ge", r" > (?=[\w\(\-])", " >= "),
    ("ge->gt", r" >= ", " > "),
    ("eq->ne", r" == ", " != "),
    ("ne->eq", r" != ", " == "),
    ("and->or", r" && ", " || "),
    ("or->and", r" \|\| ", " && "),
    ("true->false", r"\btrue\b", "false"),
    ("false->true", r"\bfalse\b", "true"),
    ("is_err->is_ok", r"\.is_err\(\)", ".is_ok()"),
    ("is_ok->is_err", r"\.is_ok\(\)", ".is_err()"),
    ("is_some->is_none", r"\.is_some\(\)", ".is_none()"),
    ("is_none->is_some", r"\.is_none\(\)", ".is_some()"),
    ("drop-transpose", r"\.transpose\(\)", ""),
    ("drop-abs", r"\.abs\(\)", ""),
    ("drop-sqrt", r"\.sqrt\(\)", ""),
    ("drop-clone-neg", r"(?<=[=\(] )-(?=[\w\(])", ""),
    ("lit0->1", r"(?<![\w\.])0(?![\w\.])", "1"),
    ("lit1->0", r"(?<![\w\.])1(?![\w\.])", "0"),
    ("lit1->2", r"(?<![\w\.])1(?![\w\.])", "2"),
    ("lit2->3", r"(?<![\w\.])2(?![\w\.])", "3"),
    ("idx+1", r"\[(k|i|j|idx|index)\]", r"[\1 + 1]"),
    ("zip-swap-min-max", r"\bmin\b", "max"),
    ("any->all", r"\.any\(", ".all("),
    ("all->any", r"\.all\(", ".any("),
    ("skip-first", r"\.iter\(\)", ".iter().skip(1)"),
    # second generation (sweep 2)
    ("negate-if", r"\bif (?!let\b)([^{]+?) \{", r"if !(\1) {"),
    ("nrows->ncols", r"\.nrows\(\)", ".ncols()"),
    ("ncols->nrows", r"\.ncols\(\)", ".nrows()"),
    ("iter-rev", r"\.iter\(\)(?!\.rev)", ".iter().rev()"),
    ("some->none", r"\bSome\(([^()]*)\)(?=[,;\s\)]|$)", "None"),
    ("swap-args", r"\((\w+), (\w+)\)", r"(\2, \1)"),
    ("plus1", r"(?<=[\w\)]) \+ 1\b", ""),
    ("outputlen->paramcount", r"\.output_len\(\)", ".parameter_count()"),
    ("paramcount->basecount", r"\.parameter_count\(\)", ".base_function_count()"),
    ("basecount->paramcount", r"\.base_function_count\(\)", ".parameter_count()"),
    ("zip-drop", r"\.zip\(([^()]*(\([^()]*\))?[^()]*)\)\s*$", ""),
    ("as_ref-take", r"\.as_ref\(\)\?", ".as_ref()?"),
]
GEN2 = {"negate-if", "nrows->ncols", "ncols->nrows", "iter-rev", "some->none", "swap-args", "plus1", "outputlen->paramcount",
        "paramcount->basecount", "basecount->paramcount", "zip-drop"}
STMT_DELETE = re.compile(r"^\s*(self\.[\w\.]+ = .*;|return;|return Err\(.*\);|[\w\.]+\.(push|insert|extend|copy_from|set_column|fill)\(.*\);|\w+ [\+\-\*/]= .*;)\s*$")


def code_lines(path):
    """yield (lineno, text) of lines that are code (no comments, attributes, asserts, doc)"""
    in_block = False
    in_test_mod = False
    for i, line in enumerate(open(path).read().split("\n")):
        s = line.strip()
        if in_block:
            if "*/" in s:
                in_block = False
            continue
        if s.startswith("/*"):
            in_block = "*/" not in s
            continue
        if s.startswith("//") or s.startswith("#[") or s.startswith("#!["):
            if "cfg(test)" in s:
                in_test_mod = True
            continue
        if in_test_mod:
            continue
        if "assert" in s or s.startswith("use ") or s.startswith("pub use ") or "panic!" in s or "unreachable!" in s:
            continue
        if not s:
            continue
        yield i, line


def strip_trailing_comment(line):
    j = line.find("//")
    return line if j < 0 else line[:j]


def sites(repo):
    out = []
    for d, _, fs in os.walk(os.path.join(repo, "src")):
        for fn in sorted(fs):
            p = os.path.join(d, fn)
            rel = os.path.relpath(p, repo)
            if not fn.endswith(".rs") or SKIP_FILES.search(rel):
                continue
            for i, line in code_lines(p):
                code = strip_trailing_comment(line)
                # do not mutate inside string literals or generic bounds / where clauses
                if re.search(r"\bwhere\b|^\s*(pub )?(fn|impl|struct|enum|trait|type)\b|Allocator|: .*\+ ", code) and "let " not in code:
                    continue
                for name, rx, rep in OPS:
                    for m in re.finditer(rx, code):
                        # skip matches inside string literals
                        if code[: m.start()].count('"') % 2 == 1:
                            continue
                        new = code[: m.start()] + m.expand(rep) + code[m.end():] + line[len(code):]
                        out.append({"file": rel, "line": i + 1, "op": name, "before": line, "after": new})
                if STMT_DELETE.match(code):
                    out.append({"file": rel, "line": i + 1, "op": "delete-stmt", "before": line, "after": ""})
    return out


def sh(cmd, cwd=None, env=None, timeout=None):
    try:
        p = subprocess.run(cmd, cwd=cwd, env=env, stdout=subprocess.PIPE, stderr=subprocess.STDOUT, timeout=timeout)
        return p.returncode, p.stdout.decode("utf-8", "replace")
    except subprocess.TimeoutExpired:
        return 124, "timeout"


def main():
    ap = argparse.ArgumentParser()
    ap.add_argument("--scratch", default="/tmp/mut")
    ap.add_argument("--n", type=int, default=100)
    ap.add_argument("--seed", type=int, default=7)
    ap.add_argument("--out", default="mutation_results.jsonl")
    ap.add_argument("--repo", default="/repo")
    ap.add_argument("--props", default="all")
    ap.add_argument("--list", action="store_true")
    ap.add_argument("--gen2", action="store_true", help="only the second-generation operators")
    a = ap.parse_args()

    all_sites = sites(a.repo)
    if a.gen2:
        all_sites = [x for x in all_sites if x["op"] in GEN2 or (x["op"] == "delete-stmt" and "return Err" in x["before"])]
    rnd = random.Random(a.seed)
    # stratify: at most 3 mutants per (file,line), sample without replacement
    rnd.shuffle(all_sites)
    per_line = {}
    chosen = []
    for s in all_sites:
        k = (s["file"], s["line"])
        if per_line.get(k, 0) >= 2:
            continue
        per_line[k] = per_line.get(k, 0) + 1
        chosen.append(s)
        if len(chosen) >= a.n:
            break
    if a.list:
        print(len(all_sites), "sites;", len(chosen), "chosen")
        byop = {}
        for s in chosen:
            byop[s["op"]] = byop.get(s["op"], 0) + 1
        print(byop)
        for s in chosen[:40]:
            print(s["file"], s["line"], s["op"], "|", s["before"].strip()[:90], "=>", s["after"].strip()[:90])
        return 0

    env = dict(os.environ)
    env["CARGO_NET_OFFLINE"] = "true"
    scratch_repo = os.path.join(a.scratch, "repo")
    if os.path.exists(a.scratch):
        shutil.rmtree(a.scratch)
    os.makedirs(a.scratch)
    rc, out = sh(["rsync", "-a", "--exclude", "target", "--exclude", ".git", a.repo + "/", scratch_repo + "/"])
    if rc != 0:
        print(out)
        return 2
    env["VARPRO_REPO"] = scratch_repo
    # build outputs of the framework (snapshot has none)
    if not os.path.exists(os.path.join(ROOT, "lean", ".lake", "build", "bin", "driver")) or not os.path.exists(
        os.path.join(ROOT, "harness", "target", "release", "vp_harness")
    ):
        rc, out = sh(["./setup.sh"], cwd=ROOT, env=env, timeout=3600)
        print(out[-500:])
        if rc != 0:
            return 2
    # warm the scratch repo's own target
    sh(["cargo", "test", "--workspace", "--offline", "--no-run"], cwd=scratch_repo, env=env, timeout=3600)
    props = ["C%02d" % i for i in range(1, 20)] if a.props == "all" else a.props.split(",")

    # baseline: checks must be green on the unmodified scratch copy
    outf = open(a.out, "a")

    def run_checks():
        procs = {}
        for p in props:
            procs[p] = subprocess.Popen(["./check", p, "--tier", "quick"], cwd=ROOT, env=env, stdout=subprocess.PIPE, stderr=subprocess.STDOUT)
        res = {}
        for p, pr in procs.items():
            try:
                o, _ = pr.communicate(timeout=1500)
                o = o.decode("utf-8", "replace")
                res[p] = {"rc": pr.returncode, "line": next((l for l in o.splitlines() if l.startswith(("VIOLATION", "INTERNAL"))), "")[:300]}
            except subprocess.TimeoutExpired:
                pr.kill()
                res[p] = {"rc": 124, "line": "timeout"}
        return res

    base = run_checks()
    outf.write(json.dumps({"baseline": base}) + "\n")
    outf.flush()
    if any(v["rc"] != 0 for v in base.values()):
        print("baseline not green", base)
        return 2

    for idx, s in enumerate(chosen):
        path = os.path.join(scratch_repo, s["file"])
        orig = open(path).read()
        lines = orig.split("\n")
        if lines[s["line"] - 1] != s["before"]:
            continue
        lines[s["line"] - 1] = s["after"]
        open(path, "w").write("\n".join(lines))
        t0 = time.time()
        rec = dict(s)
        rec["idx"] = idx
        try:
            rc, out = sh(["cargo", "build", "--offline", "--features", "parallel"], cwd=scratch_repo, env=env, timeout=900)
            if rc != 0:
                rec["status"] = "nocompile"
                continue
            rc, out = sh(["cargo", "test", "--workspace", "--offline"], cwd=scratch_repo, env=env, timeout=1500)
            if rc != 0:
                rec["status"] = "killed-by-suite"
                continue
            rec["status"] = "survived-suite"
            res = run_checks()
            rec["checks"] = res
            rec["detected_by"] = sorted(p for p, v in res.items() if v["rc"] == 1)
            rec["internal"] = sorted(p for p, v in res.items() if v["rc"] not in (0, 1))
        finally:
            rec["wall"] = round(time.time() - t0, 1)
            outf.write(json.dumps(rec) + "\n")
            outf.flush()
            open(path, "w").write(orig)
    shutil.rmtree(a.scratch, ignore_errors=True)
    return 0


if __name__ == "__main__":
    sys.exit(main())
