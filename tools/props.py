"""per-property configuration of ./check: theorem modules, harness streams, evidence texts"""

FLOAT_NOTE = "floating-point rounding is modelled, not verified: theorems are over exact ordered fields"

PROPS = {
    "C18": {
        "modules": ["VarproModel.Props.C18"],
        "streams": [{"stream": "pbuilder"}],
        "exhaustive": True,
        "rule": "exhaustive decision table of LevMarProblemBuilder: constructor (new, mrhs, new_parallel, mrhs_parallel) x "
                "model output length 0..3 x last observations (absent | rows 0..3 x cols 0..3) x last weights (absent | len 0..4) x "
                "last epsilon (absent, +, -, 0), each with a random order of the setter calls and 0-2 earlier overwritten calls; "
                "f32 and f64; non-trivial = at least two setter calls; distinct = by hash of constructor, model length and call lines",
        "assumptions": [
            "payload arithmetic of the weighted data is one IEEE multiplication per entry (bit-exact comparison)",
            "the epsilon of a built problem is observed through the public Debug output of LevMarProblem",
        ],
    },
    "C15": {
        "modules": ["VarproModel.Props.C15"],
        "streams": [{"stream": "mbuilder"}],
        "exhaustive": True,
        "exhaustive_tiers": ["quick", "thorough"],
        "rule": "SeparableModelBuilder sessions: (a) EXHAUSTIVE enumeration of all call sequences of length <= 3 (thorough: <= 4) over a 20-call alphabet "
                "(function with parameter lists [a],[b],[a,b],[b,a],[a,a],[],[z],['a,b'], wrong arity; partial_deriv a/b/z with arity 1/2; invariant_function; "
                "independent_variable; initial_parameters of length P, P+1, P-1) for the name lists [a] and [a,b], length <= 2 for six degenerate name lists "
                "(reordered, empty, duplicate, comma, empty-string, unused name); (b) 3000 (thorough 20000) random nearly-valid sessions with up to 12 names, "
                "arities 1..10, shared parameters and 0-2 injected defects; i64/f64/f32; compared: Ok / error variant / payload, and the built model's outputs; "
                "non-trivial = at least two calls or at least one model operation; distinct by hash of names and call lines",
        "assumptions": ["names are compared as strings; the comma test is String::contains(',')"],
    },
    "C16": {
        "modules": ["VarproModel.Props.C16", "VarproModel.Props.C16Dispatch"],
        "dispatch": True,
        "streams": [{"stream": "model"}],
        "rule": "builder-made models with position-sensitive integer probes f(x,a_1..a_n)_i = x_i + sum_t a_t*8^t + code*8^(n+1) (a swapped or misrouted argument changes the value): "
                "(a) every ordered subset of size 1..3 of every parameter list of size 1..4, all rotations/reversals of the model's parameter list, both derivative orders, invariant functions before/after; "
                "(b) every arity 1..10 over random ordered subsets of up to 12 names, random derivative order; (c) misuse stream (C17). i64, f64 and f32, exact comparison of every matrix entry; "
                "non-trivial = at least one evaluation compared; distinct by hash of the session",
        "assumptions": ["probe values are exactly representable in the scalar type used (f32 only up to arity 5)"],
    },
    "C17": {
        "modules": ["VarproModel.Props.C17"],
        "streams": [{"stream": "model"}],
        "rule": "as C16, plus the misuse stream: 800 (thorough 6000) random valid models where 0-2 functions/derivatives/invariant functions return a vector of length 0, N-1, N+1 or 2N, "
                "operation sequences of 4-10 calls mixing eval, eval_partial_deriv(k) for k<P, k=P, P+1, usize::MAX, set_params with P, 0, P-1, P+1 values, params(); every result compared exactly "
                "(value, error variant, payload); a rejected set_params is followed by evaluations that must equal the earlier ones",
        "assumptions": [],
    },
}
