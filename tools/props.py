"""per-property configuration of ./check: theorem modules, harness streams, evidence texts"""

FLOAT_NOTE = "floating-point rounding is modelled, not verified: theorems are over exact ordered fields"

PROPS = {
    "C18": {
        "modules": ["VarproModel.Props.C18"],
        "streams": [{"stream": "pbuilder"}],
        "exhaustive": True,
        "rule": "exhaustive decision table of LevMarProblemBuilder: constructor (new, mrhs, new_parallel, mrhs_parallel) x "
                "model output length 0..3 x last observations (absent | rows 0..3 x cols 0..3) x last weights (absent | len 0..4) x "
                "last epsilon (absent, +, -, 0), each with a random order of the setter calls and 0-2 earlier overwritten calls; "
                "f32 and f64; non-trivial = at least two setter calls; distinct = by hash of constructor, model length and call lines",
        "assumptions": [
            "payload arithmetic of the weighted data is one IEEE multiplication per entry (bit-exact comparison)",
            "the epsilon of a built problem is observed through the public Debug output of LevMarProblem",
        ],
    },
}
