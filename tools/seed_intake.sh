#!/bin/bash
# intake of one independently written seeded change of a round:
#   tools/seed_intake.sh <round> <Cxx> <seed-id> [demo feature flags as ONE arg]
# verifies it (tools/seeded_verify2.sh), runs the check of its own property against a scratch copy
# (tools/seeded_run.sh) and prints both results; meta.json is written by hand afterwards.
rnd=$1; p=$2; id=$3; feat=${4:-}
cd /verif
tools/seeded_verify2.sh $id /tmp/s$rnd/$p . "$feat" > /tmp/seedrun/$id.verify 2>&1
cat /tmp/seedrun/$id.verify
tools/seeded_run.sh $id $p
