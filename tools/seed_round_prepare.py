#!/usr/bin/env python3
"""prepare a round of independently written seeded changes: one scratch git worktree of /repo per
property under /tmp/s<round>/Cxx and one prompt file /tmp/s<round>/Cxx.prompt.txt that contains ONLY
the property text and the one-line descriptions of earlier changes (so that the new one differs).
usage: tools/seed_round_prepare.py <round-number>"""
import json, glob, sys, subprocess, os
rnd = sys.argv[1]
root = '/tmp/s%s' % rnd
os.makedirs(root, exist_ok=True)
prev = {}
for d in sorted(glob.glob('/verif/seeded/*/meta.json')):
    m = json.load(open(d)); prev.setdefault(m['breaks'], []).append(m['what'])
T = '''You are helping to evaluate a verification effort for the Rust crate geo-ant/varpro (separable nonlinear least squares by variable projection). Your job is to act as a realistic source of regressions.

Work ONLY inside the scratch git worktree {wt} (a checkout of the crate; `cargo build --offline`, `cargo test --offline` work there; there is no network; always pass --offline and set CARGO_NET_OFFLINE=true). Never touch /repo itself and never read or use anything under /verif — what you write must be independent of it.

Here is one semantic property of the crate:

-----
{prop}
-----

Task: write a change to the crate's source (under {wt}/src only; do not edit existing tests, benches or Cargo.toml) that BREAKS this property while
  (1) the crate still compiles, also with `--features parallel`;
  (2) the crate's existing test suite still passes unchanged: `cargo test --workspace --offline` (all tests green, including doc tests);
  (3) the breakage needs something SPECIFIC to manifest — a particular multi-step sequence of operations, an unusual (but legal) input, a failure/fault at a particular point, a particular shape / size / thread count / build profile / scalar width, a particular way of using the API (call order, reuse of objects, accessor calls, conversions), or two cooperating sites that each look fine alone. Ordinary use (the examples in the docs, the existing tests, a typical fit) must not expose it at once. It should look like a plausible refactoring, optimisation or "robustness" edit a maintainer could make in good faith — not sabotage with magic constants keyed on specific data values;
  (4) it really violates the property as stated (not merely some other property of the crate).

Previous contributors already produced the following changes for this property. Yours must differ from ALL of them in mechanism, in the code site it touches if at all possible, and in what it needs to manifest; make it SUBTLE — prefer a defect whose numerical or behavioural effect is small, localised or conditional (e.g. only one entry / one block / one code path / one scalar width / one combination of options is wrong, or it is wrong by a modest factor) over a gross one:
{prev}

Also write a demonstration: one integration test file `demo.rs` (to be dropped into {wt}/tests/seeded_demo.rs; it may only use the crate's public API and the dev-dependencies already in Cargo.toml) that FAILS with your change and PASSES without it, and that checks the property's statement on a concrete input (compute the expected value independently in the test, do not compare against hard-coded numbers from the unmodified crate unless they are exact by construction).

Deliverables, all inside {wt}/seeded/ (create the directory):
  - patch.diff : `git diff -- src` of your change (must apply with `git apply` on a clean checkout)
  - demo.rs    : the demonstration test file
  - README.md  : 10-20 lines: what the change is, why it breaks the property, exactly what it needs in order to manifest, why the existing tests do not see it, and the commands you ran with their results
Before you finish: leave the worktree CLEAN (git checkout -- src; remove tests/seeded_demo.rs) so that only the untracked seeded/ directory remains, and verify from that clean state that: patch applies; full suite passes with patch; demo fails with patch; demo passes without patch. If your demo needs `--features parallel`, say so in README.md.

Be economical: builds take ~1 minute; keep the whole job under ~40 minutes. Reply with a 5-line summary (what, needs, demo result with/without, suite result).
'''
for l in open('/verif/properties.jsonl'):
    p = json.loads(l); pid = p['id']
    wt = '%s/%s' % (root, pid)
    prop = "Property %s — %s\n\nStatement: %s\n\nQuantifier: %s\n\nCode anchors: %s\n" % (
        p['id'], p['title'], p['statement'], p['quantifier']['text'], json.dumps(p['anchors'].get('mechanism'), ensure_ascii=False))
    pr = '\n'.join('  - ' + w for w in prev.get(pid, [])) or '  (none)'
    open('%s/%s.prompt.txt' % (root, pid), 'w').write(T.format(wt=wt, prop=prop, prev=pr))
    if not os.path.isdir(wt):
        subprocess.check_call(['git', '-C', '/repo', 'worktree', 'add', '--detach', wt, 'HEAD', '-q'])
print(sorted(os.listdir(root)))
