#!/bin/bash
# regression over ALL kept seeded changes: each is applied to a scratch copy of /repo and the check of
# the property it was written against must report a violation.  Prints one line per seed and a summary.
# usage: tools/seeded_all.sh [jobs]      (run it with `vp run --` so that /verif/evidence is not touched)
cd "$(dirname "$0")/.."
jobs=${1:-3}
ls seeded | grep -E '^C[0-9]{2}-' > /tmp/seeded_all.list
run_one() {
  id=$1
  prop=$(python3 -c "import json;print(json.load(open('seeded/$id/meta.json'))['breaks'])")
  out=$(tools/seeded_run.sh $id $prop 2>&1 | grep "rc=" | head -1)
  echo "$out"
}
export -f run_one
cat /tmp/seeded_all.list | xargs -P $jobs -I{} bash -c 'run_one {}' | tee /tmp/seeded_all.out
echo "== missed:"; grep -v "rc=1" /tmp/seeded_all.out || echo none
echo "== total $(wc -l < /tmp/seeded_all.out)"
