#!/bin/bash
# re-verify a kept seeded change against the CURRENT /repo (after a fix: commit moved the base):
# scratch copy of /repo, apply <patch> (default seeded/<id>/patch.diff), existing suite must pass,
# the demonstration must fail with the change and pass without it.  The copy is removed afterwards.
# usage: tools/seeded_reverify.sh <seed-id> [patch-file] [cargo feature flags for the demo, ONE quoted arg]
id=$1; patch=${2:-/verif/seeded/$id/patch.diff}; feat=${3:-}
export CARGO_NET_OFFLINE=true
s=/tmp/reverify-$id; rm -rf $s; mkdir -p $s
rsync -a --exclude target --exclude .git /repo/ $s/repo/
cd $s/repo && git init -q . && git add -A >/dev/null 2>&1 && git -c user.email=b@b -c user.name=b commit -qm base
git apply $patch || { echo "[$id] patch does not apply"; rm -rf $s; exit 2; }
suite=$(cargo test --workspace --offline 2>&1 | grep -E "^test result" | awk '{print $4"/"$6}' | tr '\n' ' ')
cp /verif/seeded/$id/demo.rs tests/seeded_demo.rs
with=$(cargo test --offline $feat --test seeded_demo 2>&1 | grep -E "^test result" | head -1)
git checkout -q -- src
without=$(cargo test --offline $feat --test seeded_demo 2>&1 | grep -E "^test result" | head -1)
echo "[$id] suite(pass/fail): $suite | demo with: $with | without: $without"
cd /; rm -rf $s
