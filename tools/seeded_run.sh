#!/bin/bash
# run checks against a seeded change: apply to /repo, run the named checks in parallel, undo straight afterwards
# usage: tools/seeded_run.sh <seed-id> <property> [<property>...]
id=$1; shift
cd /verif
git -C /repo apply /verif/seeded/$id/patch.diff || { echo "patch does not apply"; exit 2; }
trap 'git -C /repo checkout -- .; git -C /repo status --short | head -3' EXIT
mkdir -p /tmp/seedrun
for p in "$@"; do
  ( ./check $p > /tmp/seedrun/$id.$p.out 2>&1; echo $? > /tmp/seedrun/$id.$p.rc ) &
done
wait
for p in "$@"; do
  echo "[$id] $p rc=$(cat /tmp/seedrun/$id.$p.rc) $(grep -c VIOLATION /tmp/seedrun/$id.$p.out) violation lines"; grep -E "VIOLATION|INTERNAL|OK property" /tmp/seedrun/$id.$p.out | head -2 | cut -c1-220
done
