#!/bin/bash
# run checks against a seeded change: apply to /repo, run, undo straight afterwards
# usage: tools/seeded_run.sh <seed-id> <property> [<property>...]
id=$1; shift
cd /verif
git -C /repo apply /verif/seeded/$id/patch.diff || { echo "patch does not apply"; exit 2; }
for p in "$@"; do
  out=$(./check $p 2>&1); rc=$?
  echo "[$id] $p rc=$rc $(echo "$out" | grep -c VIOLATION) violation lines"; echo "$out" | grep -E "VIOLATION|INTERNAL|OK property" | head -3
done
git -C /repo checkout -- .
git -C /repo status --short | head -3
