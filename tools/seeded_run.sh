#!/bin/bash
# run checks against a seeded change.  The change is applied to a scratch COPY of /repo (so that
# /repo itself – which background soaks read – is never modified) and the checks run with
# VARPRO_REPO pointing at the copy; the copy is removed afterwards.
# usage: tools/seeded_run.sh <seed-id> <property> [<property>...]
id=$1; shift
cd /verif
scratch=/tmp/seedrepo-$id
rm -rf $scratch; mkdir -p $scratch
rsync -a --exclude target --exclude .git /repo/ $scratch/repo/
( cd $scratch/repo && git init -q . && git apply /verif/seeded/$id/patch.diff ) || { echo "patch does not apply"; rm -rf $scratch; exit 2; }
trap 'rm -rf $scratch' EXIT
mkdir -p /tmp/seedrun
for p in "$@"; do
  ( VARPRO_REPO=$scratch/repo ./check $p > /tmp/seedrun/$id.$p.out 2>&1; echo $? > /tmp/seedrun/$id.$p.rc ) &
done
wait
for p in "$@"; do
  echo "[$id] $p rc=$(cat /tmp/seedrun/$id.$p.rc) $(grep -c VIOLATION /tmp/seedrun/$id.$p.out) violation lines"; grep -E "VIOLATION|INTERNAL|OK property" /tmp/seedrun/$id.$p.out | head -2 | cut -c1-220
done
