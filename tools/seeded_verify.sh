#!/bin/bash
# confirm a seeded change in its scratch worktree: compiles (also --features parallel), the existing
# suite passes with it, the demonstration fails with it and passes without it.
# usage: tools/seeded_verify.sh <seed-id> <worktree>
id=$1; wt=$2; feat=${3:-}
set -u
cd "$wt" || exit 2
export CARGO_NET_OFFLINE=true
mkdir -p /verif/seeded/$id
cp seeded/patch.diff /verif/seeded/$id/patch.diff
cp seeded/demo.rs /verif/seeded/$id/demo.rs
[ -f seeded/README.md ] && cp seeded/README.md /verif/seeded/$id/AGENT_README.md
# state: change applied + demo in tests/
mv tests/seeded_demo.rs /tmp/seeded_demo_$id.rs
echo "== build --features parallel (with change)"; cargo build --offline --features parallel 2>&1 | grep -E "^error|Finished" | head -3
echo "== existing suite with change"; cargo test --workspace --offline 2>&1 | grep -E "^test result|FAILED|failed" | head -12
mv /tmp/seeded_demo_$id.rs tests/seeded_demo.rs
echo "== demo with change (must fail)"; cargo test --offline $feat --test seeded_demo 2>&1 | grep -E "^test result|panicked" | head -4
# (no `git stash`: the stash is shared between the worktrees of one repository)
git diff -- src > /tmp/seeded_src_$id.diff
git checkout -q -- src
echo "== demo without change (must pass)"; cargo test --offline $feat --test seeded_demo 2>&1 | grep -E "^test result" | head -3
git apply /tmp/seeded_src_$id.diff && rm -f /tmp/seeded_src_$id.diff
git diff --stat -- src | tail -1
