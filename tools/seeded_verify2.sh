#!/bin/bash
# round-2 layout: the worktree is clean, the change lives in <worktree>/seeded/<A|B>/{patch.diff,demo.rs,README.md}
# confirm: compiles (also --features parallel), the existing suite passes with it, the demonstration
# fails with it and passes without it.  The worktree is left clean.
# usage: tools/seeded_verify2.sh <seed-id> <worktree> <A|B> [cargo feature flags for the demo]
id=$1; wt=$2; ab=$3; feat=${4:-}
set -u
cd "$wt" || exit 2
export CARGO_NET_OFFLINE=true
git checkout -q -- src; rm -f tests/seeded_demo.rs
mkdir -p /verif/seeded/$id
cp seeded/$ab/patch.diff /verif/seeded/$id/patch.diff
cp seeded/$ab/demo.rs /verif/seeded/$id/demo.rs
[ -f seeded/$ab/README.md ] && cp seeded/$ab/README.md /verif/seeded/$id/AGENT_README.md
git apply seeded/$ab/patch.diff || { echo "patch does not apply"; exit 2; }
echo "== build --features parallel (with change)"; cargo build --offline --features parallel 2>&1 | grep -E "^error|Finished" | head -3
echo "== existing suite with change"; cargo test --workspace --offline 2>&1 | grep -E "^test result|FAILED|failed" | head -12
cp seeded/$ab/demo.rs tests/seeded_demo.rs
echo "== demo with change (must fail)"; cargo test --offline $feat --test seeded_demo 2>&1 | grep -E "^test result|panicked" | head -4
git checkout -q -- src
echo "== demo without change (must pass)"; cargo test --offline $feat --test seeded_demo 2>&1 | grep -E "^test result" | head -3
rm -f tests/seeded_demo.rs
git status --short | head -3
