#!/bin/bash
# soak: every quick check under many seeds on the current tree; prints only non-OK results
# usage: tools/soak.sh <first-seed> <last-seed> [tier]
cd "$(dirname "$0")/.."
tier=${3:-quick}
[ -x lean/.lake/build/bin/driver ] || ./setup.sh >/dev/null 2>&1
fail=0
for s in $(seq $1 $2); do
  for p in C01 C02 C03 C04 C05 C06 C07 C08 C09 C10 C11 C12 C13 C14 C15 C16 C17 C18 C19; do
    out=$(VERIF_SEED=$s ./check $p --tier $tier 2>&1)
    rc=$?
    if [ $rc -ne 0 ]; then fail=1; echo "seed=$s $p rc=$rc"; echo "$out" | head -5; fi
  done
  echo "seed $s done"
done
echo "soak finished fail=$fail"
