#!/usr/bin/env python3
"""source census: facts the Lean model ASSUMES about the shape of the source, extracted from the
repository on every run and compared with the reviewed reference in census/reference.json.

  * panic sites: every `panic!`, `assert*!`, `debug_assert*!`, `unreachable!`, `unimplemented!`,
    `todo!`, `.unwrap()`, `.expect(` in non-test code under src/, keyed by (file, enclosing fn,
    kind, normalised text) - never by line number.  Core/ShapeModel.lean transcribes exactly these
    (plus nalgebra's dimension checks); a site that is not in the reference is a panic outcome the
    model does not have.
  * mirrored functions: `set_params`, `residuals`, `params` of the sequential and of the parallel
    `LeastSquaresProblem` impl of `LevMarProblem` must be the same token sequence - the model has ONE
    `Problem.setParams` for both flavours.

usage: source_census.py <repo> [--write-reference]      prints JSON; exit 0 always
"""
import json, os, re, sys

KINDS = ["debug_assert_eq!", "debug_assert_ne!", "debug_assert!", "assert_eq!", "assert_ne!", "assert!", "panic!",
         "unreachable!", "unimplemented!", "todo!", ".unwrap()", ".expect("]


def strip_comments(src):
    out = []
    i = 0
    n = len(src)
    while i < n:
        c = src[i]
        if src.startswith("//", i):
            j = src.find("\n", i)
            j = n if j < 0 else j
            out.append(" " * (j - i))
            i = j
        elif src.startswith("/*", i):
            j = src.find("*/", i + 2)
            j = n if j < 0 else j + 2
            out.append("".join(ch if ch == "\n" else " " for ch in src[i:j]))
            i = j
        elif c == '"':
            j = i + 1
            while j < n and src[j] != '"':
                j += 2 if src[j] == "\\" else 1
            out.append('""')  # the wording of a message is not part of the census
            i = j + 1
        else:
            out.append(c)
            i += 1
    return "".join(out)


def match_brace(s, i):
    """s[i] == '{' -> index of the matching '}'"""
    d = 0
    for j in range(i, len(s)):
        if s[j] == "{":
            d += 1
        elif s[j] == "}":
            d -= 1
            if d == 0:
                return j
    return len(s) - 1


def test_regions(s):
    """byte ranges of items gated by #[cfg(test)] / #[cfg(any(test, ...))] / #[test]"""
    regs = []
    for m in re.finditer(r"#\[\s*(cfg\s*\(\s*(any\s*\(\s*)?test\b[^\]]*|test)\s*\]", s):
        k = m.end()
        # the gated item: up to the matching brace of its first '{' or the next ';' if that comes first
        b = s.find("{", k)
        sc = s.find(";", k)
        if sc >= 0 and (b < 0 or sc < b):
            regs.append((m.start(), sc + 1))
        elif b >= 0:
            regs.append((m.start(), match_brace(s, b) + 1))
    return regs


def functions(s):
    """(name, body_start, body_end) of every fn with a body"""
    fns = []
    for m in re.finditer(r"\bfn\s+([A-Za-z_][A-Za-z0-9_]*)", s):
        # find the body '{' (skip generics / where clauses: first '{' at paren depth 0 before a ';')
        i = m.end()
        depth = 0
        while i < len(s):
            ch = s[i]
            if ch in "([":
                depth += 1
            elif ch in ")]":
                depth -= 1
            elif ch == ";" and depth == 0:
                break
            elif ch == "{" and depth == 0:
                fns.append((m.group(1), i, match_brace(s, i)))
                break
            i += 1
    return fns


def norm(t):
    return re.sub(r"\s+", " ", t).strip()


def macro_text(s, i):
    """text of the first argument list of the macro / call starting at s[i] (up to the matching paren), shortened"""
    p = s.find("(", i)
    if p < 0:
        return ""
    d = 0
    for j in range(p, min(len(s), p + 600)):
        if s[j] == "(":
            d += 1
        elif s[j] == ")":
            d -= 1
            if d == 0:
                return norm(s[p + 1:j])[:160]
    return norm(s[p + 1:p + 160])


def receiver_text(s, i):
    """for .unwrap() / .expect(: the expression before it on the same statement (shortened)"""
    j = i
    while j > 0 and s[j - 1] not in ";{}":
        j -= 1
    return norm(s[j:i])[-120:]


STATE_TYPES = {
    # file -> type names whose fields / variants ARE the state the Lean model represents
    os.path.join("src", "solvers", "levmar", "mod.rs"): ["LevMarProblem", "CachedCalculations", "FitResult", "LevMarSolver"],
    os.path.join("src", "solvers", "levmar", "builder.rs"): ["LevMarProblemBuilder"],
    os.path.join("src", "model", "mod.rs"): ["SeparableModel"],
    os.path.join("src", "model", "builder", "mod.rs"): ["UnfinishedModel", "SeparableModelBuilder"],
    os.path.join("src", "model", "builder", "modelfunction_builder", "mod.rs"): ["ModelBasisFunctionBuilder"],
    os.path.join("src", "model", "model_basis_function.rs"): ["ModelBasisFunction"],
    os.path.join("src", "statistics", "mod.rs"): ["FitStatistics"],
    os.path.join("src", "util", "weights.rs"): ["Weights"],
}


def split_top(body):
    """split a struct / enum body at top-level commas (depth of (), <>, {}, [] all zero)"""
    parts, cur, d = [], [], 0
    i = 0
    while i < len(body):
        ch = body[i]
        if ch in "(<{[":
            d += 1
        elif ch in ")}]":
            d -= 1
        elif ch == ">" and (i == 0 or body[i - 1] != "-"):
            d -= 1
        if ch == "," and d == 0:
            parts.append("".join(cur))
            cur = []
        else:
            cur.append(ch)
        i += 1
    if "".join(cur).strip():
        parts.append("".join(cur))
    return parts


def type_fields(s, name):
    """fields `name: Type` of struct `name`, or variants of enum `name` (attributes and visibility dropped)"""
    m = re.search(r"\b(struct|enum)\s+%s\b" % re.escape(name), s)
    if not m:
        return None
    # the body: first '{' at angle/paren depth 0 after the name (where clauses contain no braces here)
    b = s.find("{", m.end())
    sc = s.find(";", m.end())
    if b < 0 or (0 <= sc < b):
        return []
    body = s[b + 1:match_brace(s, b)]
    out = []
    for part in split_top(body):
        t = re.sub(r"#\[[^\]]*\]", " ", part)
        t = norm(t)
        t = re.sub(r"^pub(\([^)]*\))?\s+", "", t)
        if t:
            out.append(re.sub(r"\s+", "", t) if m.group(1) == "struct" else t)
    # derive attributes directly in front of the item, and every `impl … for Name` header in the file
    # (a hand-written Clone / Drop / PartialEq of a state type is behaviour the model does not have)
    pre = s[max(0, m.start() - 400):m.start()]
    pre = pre[pre.rfind("}") + 1:] if "}" in pre else pre
    derives = sorted(set(d.strip() for g in re.findall(r"#\[\s*derive\s*\(([^)]*)\)\s*\]", pre) for d in g.split(",") if d.strip()))
    impls = sorted(set(norm(h) for h in re.findall(r"\bimpl\b(?:\s*<[^{;]*?>)?\s*([A-Za-z_][A-Za-z0-9_:]*(?:<[^{;]*?>)?)\s+for\s+%s\b" % re.escape(name), s)))
    return {"kind": m.group(1), "members": out, "derives": derives, "impls": impls}


def census(repo):
    sites = []
    mirrored = {}
    state = {}
    for root, _, files in os.walk(os.path.join(repo, "src")):
        for f in sorted(files):
            if not f.endswith(".rs"):
                continue
            path = os.path.join(root, f)
            rel = os.path.relpath(path, repo)
            if f in ("test.rs", "tests.rs") or "/test_helpers" in rel or rel.endswith("test_helpers.rs"):
                continue
            s = strip_comments(open(path, encoding="utf-8").read())
            regs = test_regions(s)
            fns = functions(s)

            def in_test(i):
                return any(a <= i < b for a, b in regs)

            def fn_of(i):
                best = None
                for name, a, b in fns:
                    if a <= i <= b and (best is None or a > best[1]):
                        best = (name, a)
                return best[0] if best else "-"

            for kind in KINDS:
                start = 0
                while True:
                    i = s.find(kind, start)
                    if i < 0:
                        break
                    start = i + len(kind)
                    # `assert!` is a suffix of `debug_assert!`: count each site once, under the longer name
                    if kind.startswith("assert") and i >= 6 and s[i - 6:i] == "debug_":
                        continue
                    if kind[0] != "." and i > 0 and (s[i - 1].isalnum() or s[i - 1] == "_"):
                        continue
                    if in_test(i):
                        continue
                    text = receiver_text(s, i) if kind[0] == "." else macro_text(s, i)
                    sites.append({"file": rel, "fn": fn_of(i), "kind": kind.strip(".("), "text": text})
            for tname in STATE_TYPES.get(rel, []):
                tf = type_fields(s, tname)
                if tf is not None:
                    state["%s::%s" % (rel, tname)] = tf
            if rel == os.path.join("src", "solvers", "levmar", "mod.rs"):
                # the two LeastSquaresProblem impls
                impls = []
                for m in re.finditer(r"\bimpl\b[^{;]*LeastSquaresProblem[^{;]*\bfor\s+LevMarProblem\s*<([^{;]*?)>\s*(where[^{]*)?\{", s):
                    b = s.find("{", m.end() - 1)
                    impls.append((norm(m.group(1)), b, match_brace(s, b)))
                for fname in ("set_params", "residuals", "params"):
                    bodies = []
                    for head, a, b in impls:
                        for name, fa, fb in fns:
                            if name == fname and a <= fa <= b:
                                bodies.append((head, re.sub(r"\s+", "", s[fa:fb + 1])))
                    mirrored[fname] = {"impls": [h for h, _ in bodies], "copies": len(bodies),
                                       "equal": len(bodies) == 2 and bodies[0][1] == bodies[1][1]}
    sites.sort(key=lambda d: (d["file"], d["fn"], d["kind"], d["text"]))
    return {"panic_sites": sites, "mirrored": mirrored, "state": state, "deps": deps_census(repo)}


def key(d):
    return (d["file"], d["fn"], d["kind"], d["text"])


def compare(cur, ref):
    """-> list of human readable differences (empty = the source still has the shape the model assumes)"""
    diffs = []
    from collections import Counter
    c = Counter(key(d) for d in cur["panic_sites"])
    r = Counter(key(d) for d in ref["panic_sites"])
    for k in sorted(set(c) | set(r)):
        if c[k] > r[k]:
            diffs.append("panic site not in the model: %s fn %s: %s(%s)%s" % (k[0], k[1], k[2], k[3], " x%d" % (c[k] - r[k]) if c[k] - r[k] > 1 else ""))
        elif c[k] < r[k]:
            diffs.append("panic site of the model no longer in the source: %s fn %s: %s(%s)" % k)
    for fname, want in ref["mirrored"].items():
        got = cur["mirrored"].get(fname)
        if got is None or got["copies"] != want["copies"]:
            diffs.append("LeastSquaresProblem::%s: expected %d impls (sequential, parallel), found %s" % (fname, want["copies"], got and got["copies"]))
        elif want["equal"] and not got["equal"]:
            diffs.append("LeastSquaresProblem::%s differs between the sequential and the parallel impl (the model has one definition for both)" % fname)
    if "deps" in ref and "deps" in cur:
        for k, v in ref["deps"]["lock"].items():
            if cur["deps"]["lock"].get(k) != v:
                diffs.append("dependency %s is pinned to %s in Cargo.lock, the model was transcribed from / calibrated against %s" % (k, cur["deps"]["lock"].get(k), v))
        for k, v in ref["deps"]["files"].items():
            if cur["deps"]["files"].get(k) != v:
                diffs.append("third-party source %s differs from the one Core/LM.lean transcribes (sha256 %s, reviewed %s)" % (k, cur["deps"]["files"].get(k), v))
        if ref["deps"].get("features_parallel") != cur["deps"].get("features_parallel"):
            diffs.append("cargo feature `parallel` changed: %s (reviewed: %s)" % (cur["deps"].get("features_parallel"), ref["deps"].get("features_parallel")))
    for ent in ref.get("state", []):
        got = cur.get("state", {}).get(ent["rust"])
        if got is None:
            diffs.append("state type %s not found in the source (the model's %s stands for it)" % (ent["rust"], ent["lean"]))
        elif "derives" in ent and (got.get("derives") != ent["derives"] or got.get("impls") != ent["impls"]):
            diffs.append("state type %s: derives / trait impls changed: derives %s (reviewed: %s), impls %s (reviewed: %s) - the model treats Clone as the identity and has no Drop / comparison behaviour" % (
                ent["rust"], got.get("derives"), ent["derives"], got.get("impls"), ent["impls"]))
        elif got["members"] != ent["members"]:
            extra = [m for m in got["members"] if m not in ent["members"]]
            gone = [m for m in ent["members"] if m not in got["members"]]
            diffs.append("state type %s changed: %s%s%s - the model's %s has %s" % (
                ent["rust"], ("new member(s) " + "; ".join(extra)) if extra else "",
                " / " if extra and gone else "", ("member(s) gone " + "; ".join(gone)) if gone else "",
                ent["lean"], " ".join(ent["lean_members"])) if (extra or gone) else
                "state type %s: order of members changed" % ent["rust"])
        lm = cur.get("lean_state", {}).get(ent["lean"])
        if ent["lean"] != "-" and lm is not None and lm != ent["lean_members"]:
            diffs.append("Lean structure %s has members %s, the reviewed correspondence lists %s" % (ent["lean"], " ".join(lm), " ".join(ent["lean_members"])))
        if ent["lean"] != "-" and lm is None and "lean_state" in cur:
            diffs.append("Lean structure %s not found by FieldCensus.lean" % ent["lean"])
    return diffs


def deps_census(repo):
    """the third-party code the model transcribes (levenberg-marquardt's lm.rs) or treats as an oracle
    (nalgebra's SVD / inverse, distrs' quantile): versions pinned in Cargo.lock, Cargo.toml requirements
    and the SHA-256 of lm.rs / trust_region.rs... as found in the cargo registry"""
    import glob, hashlib
    out = {"lock": {}, "files": {}}
    try:
        lock = open(os.path.join(repo, "Cargo.lock")).read()
    except OSError:
        lock = ""
    for name in ("levenberg-marquardt", "nalgebra", "distrs", "rayon"):
        m = re.search(r'name = "%s"\s+version = "([^"]+)"' % re.escape(name), lock)
        out["lock"][name] = m.group(1) if m else None
    ver = out["lock"].get("levenberg-marquardt")
    if ver:
        for rel in ("src/lm.rs", "src/trust_region.rs", "src/qr.rs", "src/problem.rs"):
            hits = sorted(glob.glob(os.path.expanduser("~/.cargo/registry/src/*/levenberg-marquardt-%s/%s" % (ver, rel))))
            out["files"]["levenberg-marquardt/" + rel] = hashlib.sha256(open(hits[0], "rb").read()).hexdigest() if hits else None
    try:
        toml = open(os.path.join(repo, "Cargo.toml")).read()
        out["features_parallel"] = norm(re.search(r"parallel\s*=\s*\[[^\]]*\]", toml).group(0)) if re.search(r"parallel\s*=\s*\[", toml) else None
    except OSError:
        out["features_parallel"] = None
    return out


def lean_state(lean_dir):
    """fields / constructors of the Lean structures, by reflection (lean/FieldCensus.lean)"""
    import subprocess
    subprocess.run(["lake", "build", "VarproModel.Core.LM", "VarproModel.Core.Stats", "VarproModel.Core.ProblemBuilder",
                    "VarproModel.Core.ModelBuilder"], cwd=lean_dir, capture_output=True, text=True, timeout=1200)
    out = subprocess.run(["lake", "env", "lean", "FieldCensus.lean"], cwd=lean_dir, capture_output=True, text=True, timeout=600)
    res = {}
    for line in out.stdout.splitlines():
        t = line.split()
        if len(t) >= 2 and t[0] in ("FIELDS", "CTORS"):
            res[t[1]] = t[2:]
    if not res:
        raise RuntimeError("FieldCensus.lean printed nothing: " + out.stderr[:400])
    return res


if __name__ == "__main__":
    repo = sys.argv[1]
    cur = census(repo)
    if "--write-reference" in sys.argv:
        here = os.path.dirname(os.path.dirname(os.path.abspath(__file__)))
        json.dump(cur, open(os.path.join(here, "census", "reference.json"), "w"), indent=1)
    print(json.dumps(cur, indent=1))
